import StepupModel.Lemmas.Resources
import StepupModel.Lemmas.SafeDiscipline
/-!
# C12, hold: the histories of the director

`Lemmas/Resources.lean` proves `popNext_hold` from the flag discipline of `_update_meta_safe`
(`MetaSafe.CacheInvSafeW`); `Lemmas/SafeDiscipline.lean` proves that discipline for every history whose
`define` requests with `_safe = True` name no step as creator (`SafeDisc.HistOKS`; the director passes
`_safe = True` for the boot step only).  Together: in every database such a history reaches, a RUN job is
never handed out for a step below a holding creator.  No property statements here.
-/
namespace StepupModel.K.Resources
open StepupModel.K StepupModel.K.MetaSafe StepupModel.K.SafeDisc

/-- **Hold blocks RUN jobs after every history of the director.**  If `pop_next_job` sets the step `k` RUNNING
(`checking = false`), every recursive step creator of `k` is RUNNING or SUCCEEDED and holds nothing. -/
theorem hold_blocks_run_of_director (h : List (KConfig × Req)) (hh : HistOKS h)
    {cfg : KConfig} {k : Key} {s' : KState} {run : Bool}
    (hp : (KState.init.run h).popNext cfg (some k) = .ok (s', .job k false run)) :
    ∀ n ∈ (KState.init.run h).nodes, n.key = k → ∀ a, StrictAnc (KState.init.run h) a n → Lets a :=
  hold_blocks_run_partial h (reachable_safeDiscipline h hh) hp

/-- A job handed out below a holding creator after such a history is a hash CHECK: every recursive step
creator is RUNNING or SUCCEEDED, the row becomes CHECKING and holds no resources. -/
theorem check_bypasses_hold_of_director (h : List (KConfig × Req)) (hh : HistOKS h)
    {cfg : KConfig} {k : Key} {s' : KState} {run : Bool}
    (hp : (KState.init.run h).popNext cfg (some k) = .ok (s', .job k true run)) :
    (∀ n ∈ (KState.init.run h).nodes, n.key = k → ∀ a, StrictAnc (KState.init.run h) a n →
      a.sstate = .running ∨ a.sstate = .succeeded) ∧
    (∀ n' ∈ s'.nodes, n'.key = k → runs n' = false) :=
  check_bypasses_hold_partial h (reachable_safeDiscipline h hh) hp

/-- Non-vacuity: the empty history is a history of the director. -/
example : HistOKS [] := fun _ h => by cases h

end StepupModel.K.Resources
