import StepupModel.Lemmas.SuccOutputsMid
import StepupModel.Lemmas.StableInst
/-!
# I4: the operations that write file states in a context (first part)

`JK X W N` is the invariant `J` together with "one row per key".  `mark_file_outdated` and the BUILT->OUTDATED
loops of `reset_for_rerun` and of the failure branch of `mark_completed`, `revert_optional_steps`: each file
state write is justified by its context (the owner of the file is not SUCCEEDED at that moment, or the
`(done)` clause of the edges out of the completing step is waived until its state has been written).
No property statements here.
-/
namespace StepupModel.K.SuccOut
open StepupModel.K.MetaAfter StepupModel.K.Discipline StepupModel.Lemmas StepupModel.K.Ever
set_option linter.unusedSimpArgs false
set_option linter.unusedVariables false

/-- The invariant with unique keys. -/
def JK (X : Key → Prop) (W : Key → Key → Prop) (N : Key → Prop) (s : KState) : Prop := J X W N s ∧ KeysNodup s

theorem JK.keys {X : Key → Prop} {W : Key → Key → Prop} {N : Key → Prop} {s : KState} (h : JK X W N s) : KeysUnique s :=
  (keysNodup_iff s).1 h.2

/-- A `Leaf` predicate together with a `Stable` one. -/
theorem Leaf.and {P Q : KState → Prop} (hP : Leaf P) (hQ : Stable Q) : Leaf (fun s => P s ∧ Q s) where
  cache := fun s p f hf h => ⟨hP.cache s p f hf h.1, hQ.cache s p f hf h.2⟩
  detached := fun s k d h => ⟨hP.detached s k d h.1, hQ.detached s k d h.2⟩
  creator := fun s k c d ha hc h => ⟨hP.creator s k c d ha hc h.1, hQ.creator s k c d ha h.2⟩
  stepWrite := fun s k n n' st d hf hw hst h => ⟨hP.stepWrite s k n n' st d hf hw hst h.1, hQ.stepWrite s k n n' st d hf hw h.2⟩
  stepInit := fun s k i h => ⟨hP.stepInit s k i h.1, hQ.stepInit s k i h.2⟩
  setHash := fun s k x h => ⟨hP.setHash s k x h.1, hQ.setHash s k x h.2⟩
  deleteHash := fun s k h => ⟨hP.deleteHash s k h.1, hQ.deleteHash s k h.2⟩
  bumpDefer := fun s k h => ⟨hP.bumpDefer s k h.1, hQ.bumpDefer s k h.2⟩
  hold := fun s k h => ⟨hP.hold s k h.1, hQ.hold s k trivial h.2⟩
  release := fun s k n hf hn h => ⟨hP.release s k n hf hn h.1, hQ.release s k n hf hn h.2⟩
  recycled := fun s k a b h => ⟨hP.recycled s k a b h.1, hQ.recycled s k a b h.2⟩
  addDep := fun s a b hd hk ha h => ⟨hP.addDep s a b hd hk ha h.1, hQ.addDep s a b hd hk h.2⟩
  filterDeps := fun s p h => ⟨hP.filterDeps s p h.1, hQ.filterDeps s p h.2⟩
  markDyn := fun s a b d h => ⟨hP.markDyn s a b d h.1, hQ.markDyn s a b d h.2⟩
  appendNode := fun s k c hf hi h => ⟨hP.appendNode s k c hf hi h.1, hQ.appendNode s k c hf hi h.2⟩
  removeNode := fun s k hk h => ⟨hP.removeNode s k hk h.1, hQ.removeNode s k hk h.2⟩
  queueDelete := fun s p x h => ⟨hP.queueDelete s p x h.1, hQ.queueDelete s p x h.2⟩
  clearQueue := fun s h => ⟨hP.clearQueue s h.1, hQ.clearQueue s h.2⟩

theorem Mid.and {P Q : KState → Prop} (hP : Mid P) (hQ : Stable Q) : Mid (fun s => P s ∧ Q s) :=
  ⟨hP.leaf.and hQ, fun fuel k s s' h hh =>
    ⟨hP.markStepPending_preserves fuel k s s' h.1 hh, hQ.markStepPending_preserves fuel k s s' h.2 hh⟩⟩

theorem midJK (X : Key → Prop) (W : Key → Key → Prop) (N : Key → Prop) : Mid (JK X W N) :=
  (midJ X W N).and stable_keysNodup

theorem leafJK (X : Key → Prop) (W : Key → Key → Prop) (N : Key → Prop) : Leaf (JK X W N) := (midJK X W N).leaf

/-- From a proof for `J` and the generic one for the keys. -/
theorem JK.mk' {X : Key → Prop} {W : Key → Key → Prop} {N : Key → Prop} {s : KState} (h1 : J X W N s) (h2 : KeysNodup s) :
    JK X W N s := ⟨h1, h2⟩

theorem JK.weaken {X X' : Key → Prop} {W W' : Key → Key → Prop} {N N' : Key → Prop} {s : KState} (h : JK X W N s)
    (hX : ∀ k, X' k → X k) (hW : ∀ a b, W a b → W' a b) (hN : ∀ k, N' k → N k) : JK X' W' N' s :=
  ⟨h.1.weaken hX hW hN, h.2⟩

/-! ## `mark_file_outdated` -/

theorem setFileState_JK {X : Key → Prop} {W : Key → Key → Prop} {N : Key → Prop} {s s' : KState} {k : Key} {st : FileState}
    (hJ : JK X W N s) (hctx : WriteOK X W s k st) (h : s.setFileState k st = .ok s') : JK X W N s' :=
  ⟨writeFile_J hJ.1 hctx h, stable_keysNodup.setFileState_preserves k st s s' hJ.2 h⟩

theorem writeFile_JK {X : Key → Prop} {W : Key → Key → Prop} {N : Key → Prop} {s s' : KState} {k : Key} {st : FileState}
    {nh : Option (Option Nat)} (hJ : JK X W N s) (hctx : WriteOK X W s k st) (h : s.writeFile k st nh = .ok s') :
    JK X W N s' :=
  ⟨writeFile_J hJ.1 hctx h, stable_keysNodup.writeFile_preserves k st nh s s' hJ.2 h⟩

theorem markFileOutdated_JK {X : Key → Prop} {W : Key → Key → Prop} {N : Key → Prop} {s s' : KState} {f : Key}
    (hJ : JK X W N s) (hctx : WriteOK X W s f .outdated) (h : s.markFileOutdated f = .ok s') : JK X W N s' := by
  unfold KState.markFileOutdated at h
  cases hf : s.find? f with
  | none => simp [hf, pure, Except.pure] at h; subst h; exact hJ
  | some n =>
    simp only [hf] at h
    split at h
    · simp only [bind, Except.bind] at h
      cases hs : s.setFileState f FileState.outdated with
      | error e => simp [hs] at h
      | ok s1 =>
        simp only [hs] at h
        exact (midJK X W N).markConsumersPending_preserves f s1 s' (setFileState_JK hJ hctx hs) h
    · split at h
      · simp only [pure, Except.pure, Except.ok.injEq] at h; subst h; exact hJ
      · cases h

/-- The creator of a row along a soft change. -/
theorem creator_of_soft {s st : KState} (h : SoftRel s st) {k : Key} {n m : Node} (hn : s.find? k = some n)
    (hm : st.find? k = some m) : m.creator = n.creator := by
  have hrel := h.find? k
  rw [hn, hm] at hrel
  exact hrel.2.2.1.1

theorem mem_products {s : KState} {k : Key} {n : Node} (h : n ∈ s.products k) : n ∈ s.nodes ∧ n.creator = some k := by
  unfold KState.products at h
  obtain ⟨h1, h2⟩ := List.mem_filter.1 h
  simp only [decide_eq_true_eq] at h2
  exact ⟨h1, h2.1⟩

/-- A product of `k` (selected in `s`) may be written in a soft descendant `st` of `s` as long as `k` is not
SUCCEEDED there, or the edges out of `k` are waived. -/
theorem writeOK_product {X : Key → Prop} {W : Key → Key → Prop} {s st : KState} (hk : KeysUnique s) (hsoft : SoftRel s st)
    {k : Key} {n : Node} (hn : n ∈ s.nodes) (hc : n.creator = some k) (h : ¬ Succ st k ∨ ∀ b, W k b) {x : FileState}
    (hx : IsProduct x) : WriteOK X W st n.key x := by
  intro m hm d hd hdk hkind hxk
  refine ⟨hx, fun hcm hw hs => ?_⟩
  have : m.creator = some k := (creator_of_soft hsoft (find?_of_mem hk hn) hm).trans hc
  rw [this] at hcm
  have hsrc : k = d.src := Option.some.inj hcm
  rcases h with h | h
  · exact absurd (hsrc ▸ hs) h
  · exact absurd (hsrc ▸ h d.snk) hw

/-! ## `reset_for_rerun`: the BUILT products become OUTDATED -/

theorem outdateBuilt_JK {X : Key → Prop} {W : Key → Key → Prop} {N : Key → Prop} (k : Key) (hN : N k) :
    Preserves (JK X W N) (fun s => s.outdateBuilt k) := by
  intro s s' hp h
  replace h : s.outdateBuilt k = .ok s' := h
  unfold KState.outdateBuilt at h
  have := foldlM_mem (fun st => JK X W N st ∧ SP s st) (fun st (n : Node) => st.markFileOutdated n.key) _
    (fun st n st' hn hst hw => ?_) s s' ⟨hp, SP.refl hp.keys⟩ h
  · exact this.1
  · obtain ⟨hnp, _⟩ := List.mem_filter.1 hn
    obtain ⟨hmem, hcr⟩ := mem_products hnp
    refine ⟨markFileOutdated_JK hst.1 ?_ hw, markFileOutdated_soft n.key st st' hst.2 hw⟩
    exact writeOK_product hp.keys hst.2.2 hmem hcr (.inl (hst.1.1.2 k hN)) (by decide)

/-! ## The failure branch of `mark_completed` -/

theorem not_succ_after_write {s s' : KState} {k : Key} {st : StepState} {d : Option Bool} (hst : st ≠ .succeeded)
    (h : s.writeStepState k st d = .ok s') : ¬ Succ s' k := by
  intro hs
  have := hs.2
  rw [(writeStepState_effect s s' k st d h).1 k] at this
  simp only [if_true] at this
  cases hf : s.sstateOf k with
  | none => rw [hf] at this; cases this
  | some x => rw [hf] at this; simp only [Option.map_some, Option.some.injEq] at this; exact hst this

theorem completeFailure_JK {X : Key → Prop} {W : Key → Key → Prop} {N : Key → Prop} (cfg : KConfig) (k : Key) (wd : Bool) :
    Preserves (JK X W N) (fun s => s.completeFailure cfg k wd) := by
  intro s s' hp h
  replace h : s.completeFailure cfg k wd = .ok s' := h
  unfold KState.completeFailure at h
  -- the edges out of `k` are waived until the state of `k` is written
  let W' : Key → Key → Prop := fun a b => W a b ∨ a = k
  have hp' : JK X W' N s := hp.weaken (fun _ h => h) (fun _ _ h => .inl h) (fun _ h => h)
  refine bind_ok_gen h (fun s1 => JK X W' N s1) (fun s1 h1 => ?_) (fun r => JK X W N r) ?_
  · unfold KState.outdateBuiltProducts at h1
    have := foldlM_mem (fun st => JK X W' N st ∧ SP s st) (fun st (f : Node) => st.setFileState f.key .outdated) _
      (fun st f st' hf hst hw => ?_) s s1 ⟨hp', SP.refl hp.keys⟩ h1
    · exact this.1
    · obtain ⟨hfp, hb⟩ := List.mem_filter.1 hf
      simp only [decide_eq_true_eq] at hb
      have hmem := mem_fileProducts hfp
      have hcr : f.creator = some k := by
        unfold KState.fileProducts at hfp
        rw [List.mem_mergeSort] at hfp
        exact (mem_products (List.mem_filter.1 hfp).1).2
      have hctx : WriteOK X W' st f.key .outdated :=
        writeOK_product hp.keys hst.2.2 hmem hcr (.inr fun b => .inr rfl) (by decide)
      refine ⟨setFileState_JK hst.1 hctx hw, setFileState_soft f.key .outdated st st' hst.2 ?_ hw⟩
      intro m hm
      have hrel := hst.2.2.find? f.key
      rw [find?_of_mem hp.keys hmem, hm] at hrel
      rw [hrel.2.2.1.2, hb]; rfl
  · intro s1 r hp1 hh1
    refine bind_ok_gen hh1 (fun s2 => JK X W N s2) (fun s2 h2 => ?_) (fun r => JK X W N r) ?_
    · have hb : JK X W' N (s1.bumpDeferCount k wd) := by
        unfold KState.bumpDeferCount
        split
        · exact (leafJK X W' N).bumpDefer _ _ hp1
        · exact hp1
      have hw2 : JK X W' N s2 ∧ ¬ Succ s2 k := by
        unfold KState.writeFailureState at h2
        split at h2
        · exact ⟨(leafJK X W' N).setStepState_preserves k .pending _ (by decide) _ s2 hb h2,
            not_succ_after_write (by decide) h2⟩
        · exact ⟨(leafJK X W' N).setStepState_preserves k .failed false (by decide) _ s2 hb h2,
            not_succ_after_write (by decide) h2⟩
      refine ⟨hw2.1.1.unwaive fun d _ _ hw hnw f _ _ hs => ?_, hw2.1.2⟩
      rcases hw with hw | hw
      · exact absurd hw hnw
      · exact absurd (hw ▸ hs) hw2.2
    · intro s2 r2 hp2 hh2
      refine bind_ok_gen hh2 (fun s3 => JK X W N s3) (fun s3 h3 => ?_) (fun r => JK X W N r) ?_
      · unfold KState.detachCreatedIfFailed at h3
        split at h3
        · exact (leafJK X W N).detachCreatedSteps_preserves k s2 s3 hp2 h3
        · simp only [pure, Except.pure, Except.ok.injEq] at h3; subst h3; exact hp2
      · intro s3 r3 hp3 hh3
        simp only [pure, Except.pure, Except.ok.injEq] at hh3
        subst hh3
        exact (leafJK X W N).deleteHash _ _ hp3

/-! ## `revert_optional_steps` -/

theorem revertOutput_deps {s s' : KState} {f : Key} (h : s.revertOutput f = .ok s') : s'.deps = s.deps := by
  unfold KState.revertOutput at h
  cases hf : s.find? f with
  | none => simp [hf, pure, Except.pure] at h; subst h; rfl
  | some fn =>
    simp only [hf] at h
    split at h
    · split at h
      · have := (writeFile_effect _ s' f _ _ h).2.2
        rw [this]
        unfold KState.markDirToBeDeleted
        split <;> rfl
      · simp only [pure, Except.pure, Except.ok.injEq] at h; subst h
        unfold KState.markDirToBeDeleted
        split <;> rfl
    · simp only [pure, Except.pure, Except.ok.injEq] at h; subst h; rfl

/-- One output of a step that is not SUCCEEDED (`N`) is reset. -/
theorem revertOutput_JK {X : Key → Prop} {W : Key → Key → Prop} {N : Key → Prop} {s s' : KState} {k f : Key}
    (hp : JK X W N s) (hk : N k) (hf : f ∈ s.sinksOf k) (h : s.revertOutput f = .ok s') : JK X W N s' := by
  unfold KState.revertOutput at h
  cases hff : s.find? f with
  | none => simp [hff, pure, Except.pure] at h; subst h; exact hp
  | some fn =>
    simp only [hff] at h
    have L := leafJK X W N
    split at h
    · generalize (if fn.fstate = FileState.volatile then none else fn.fhash) = qh at h
      have hq : JK X W N ((s.queueDelete f.label qh).markDirToBeDeleted (parentDir f.label)) :=
        L.markDir _ _ (L.queueDelete _ _ _ hp)
      split at h
      · refine writeFile_JK hq ?_ h
        have hsink : f ∈ ((s.queueDelete f.label qh).markDirToBeDeleted (parentDir f.label)).sinksOf k := by
          have : ((s.queueDelete f.label qh).markDirToBeDeleted (parentDir f.label)).deps = s.deps := by
            unfold KState.markDirToBeDeleted
            split <;> rfl
          rw [sinksOf_congr _ _ this]; exact hf
        exact writeOK_sink hq.1 hsink (hq.1.2 k hk) (by decide)
      · simp only [pure, Except.pure, Except.ok.injEq] at h; subst h; exact hq
    · simp only [pure, Except.pure, Except.ok.injEq] at h; subst h; exact hp

/-- One unneeded step.  The row `n` was read before the loop: if it says PENDING, the key is in `N`. -/
theorem revertStep_JK {X : Key → Prop} {W : Key → Key → Prop} {N : Key → Prop} (n : Node) (hn : n.sstate = .pending → N n.key) :
    Preserves (JK X W N) (fun s => s.revertStep n) := by
  intro s s' hp h
  replace h : s.revertStep n = .ok s' := h
  unfold KState.revertStep at h
  let N1 : Key → Prop := fun q => N q ∨ q = n.key
  refine bind_ok_gen h (fun a => JK X W N1 a) (fun a ha => ?_) (fun r => JK X W N r) ?_
  · unfold KState.pendIfNot at ha
    split at ha
    · have h1 := (leafJK X W N).writeStepState_preserves n.key .pending none (by decide) s a hp ha
      exact ⟨h1.1.addN _ (fun q hq => hq ▸ not_succ_after_write (by decide) ha), h1.2⟩
    · rename_i hpend
      simp only [pure, Except.pure, Except.ok.injEq] at ha; subst ha
      have : n.sstate = .pending := by
        cases hs : n.sstate <;> simp_all
      exact ⟨hp.1.addN _ (fun q hq => hq ▸ hp.1.2 _ (hn this)), hp.2⟩
  · intro a r ha hh
    have := foldlM_mem (fun st => JK X W N1 st ∧ st.deps = a.deps) (fun st f => st.revertOutput f) _
      (fun st f st' hf hst hw => ?_) a r ⟨ha, rfl⟩ hh
    · exact this.1.weaken (fun _ h => h) (fun _ _ h => h) (fun _ h => .inl h)
    · refine ⟨revertOutput_JK hst.1 (.inr rfl) ?_ hw, (revertOutput_deps hw).trans hst.2⟩
      rw [sinksOf_congr a st hst.2]; exact hf

end StepupModel.K.SuccOut
