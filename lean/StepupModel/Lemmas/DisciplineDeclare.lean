import StepupModel.Lemmas.DisciplineDefine
/-!
# The flag discipline through the declaring requests

`TI cfg s`: the weak flag discipline, the structural invariant `Struct` and the creator forest
`Forest` (`Lemmas/Reach.lean`) together.  The leaves are `Trellis.create`, `Node.reattach`,
`INSERT INTO dependency` and the soft writes; the composites are the proofs of `Lemmas/Stable.lean`
with these leaves and the side conditions they need (that the endpoints of a new dependency row exist,
and that a file which gets an edge from a step is owned by it).
-/
namespace StepupModel.K.Discipline
open StepupModel.K.MetaAfter StepupModel.Lemmas StepupModel.K.Sk
set_option linter.unusedSimpArgs false
set_option linter.unusedVariables false

/-- Discipline, structure and creator forest. -/
structure TI (cfg : KConfig) (s : KState) : Prop where
  disc : CacheInvAfterW s cfg
  st : Struct s
  fo : Forest s

/-- `x` has a row. -/
def Has (s : KState) (x : Key) : Prop := (s.find? x).isSome = true

theorem has_of_optRel {R : Node → Node → Prop} {s s' : KState} {x : Key} (h : OptRel R (s.find? x) (s'.find? x))
    (hx : Has s x) : Has s' x := by
  unfold Has at *
  cases h1 : s.find? x with
  | none => rw [h1] at hx; cases hx
  | some a =>
    rw [h1] at h
    cases h2 : s'.find? x with
    | none => rw [h2] at h; exact h.elim
    | some b => rfl

theorem has_soft {s s' : KState} (h : SoftRel s s') {x : Key} (hx : Has s x) : Has s' x := has_of_optRel (h.find? x) hx

theorem has_rel {s s' : KState} (h : StructRel s s') {x : Key} (hx : Has s x) : Has s' x := has_of_optRel (h.find? x) hx

theorem forest_of_skel {s s' : KState} (h : s'.skel = s.skel) (hf : Forest s) : Forest s' :=
  (forest_iff s').2 (SkStable.pq_of_skel (Q := Sk.OK) h ((forest_iff s).1 hf))

/-! ## Leaves -/

theorem TI.soft {cfg : KConfig} {s s' : KState} (h : TI cfg s) (hr : SoftRel s s') : TI cfg s' :=
  ⟨cacheInvW_soft cfg hr h.disc, struct_of_rel hr.struct h.st, forest_of_skel (skel_of_soft hr) h.fo⟩

theorem TI.of_soft {cfg : KConfig} {s s' : KState} {f : KState → M KState} (hf : ∀ t, Preserves (SP t) f)
    (h : TI cfg s) (hs : f s = .ok s') : TI cfg s' ∧ SoftRel s s' :=
  have hr := (hf s s s' (SP.refl h.st.keys) hs).2
  ⟨h.soft hr, hr⟩

/-- `Trellis.create`, with what the callers need to know of the new row. -/
theorem TI.create {cfg : KConfig} {s s' : KState} {k : Key} {creator : Option Key} {init : Init} (h : TI cfg s)
    (hi : InitOK init) (hkind : InitKind k init) (hkroot : k.kind ≠ .root)
    (hc : s.create k creator init = .ok s') :
    TI cfg s' ∧ (∀ x, Has s x → Has s' x) ∧ Has s' k ∧
      (∀ nk, s'.find? k = some nk → nk.creator = creator ∨ nk.creator = none) ∧
      (∀ st, init = .file st → (st = .planned ∨ st = .volatile) →
        ∀ nk, s'.find? k = some nk → nk.fstate.role? ≠ some .static) := by
  obtain ⟨hci, _, hrole, _⟩ := create_spec h.st hi hc
  refine ⟨⟨create_disc h.st h.fo hkind hc h.disc, create_struct h.st hi hkroot hc, ?_⟩, ?_, hci.has, hci.cr, hrole⟩
  · exact (forest_iff s').2 (SkStable.create_preserves skStable_ok k creator init hi s s' ((forest_iff s).1 h.fo) hc)
  · intro x hx
    by_cases hxk : x = k
    · subst hxk; exact hci.has
    · exact has_of_optRel (hci.keep.find x hxk) hx

/-- `INSERT INTO dependency`: both endpoints exist, and a file that gets an edge from a step is owned
by it and not static. -/
theorem TI.insertDep {cfg : KConfig} {s s' : KState} {a b : Key} (h : TI cfg s) (ha : Has s a) (hb : Has s b)
    (hown : a.kind = .step → ∀ f, s.find? b = some f →
      (∀ c, f.creator = some c → c = a) ∧ f.fstate.role? ≠ some .static)
    (hc : s.insertDep a b = .ok s') : TI cfg s' ∧ (∀ x, Has s x → Has s' x) := by
  obtain ⟨he, _, hkind⟩ := insertDep_eq hc
  have hfl : SoftRel s (s.flagDepEndpoints a b) := by
    unfold KState.flagDepEndpoints
    exact softRel_modifyWhere _ _ (softFn_flag (fun _ => rfl) (fun _ => rfl) (fun _ => rfl) (fun _ => rfl) (fun _ => rfl))
  have hSf := struct_of_rel hfl.struct h.st
  have hfind : ∀ x, s'.find? x = (s.flagDepEndpoints a b).find? x := by intro x; rw [he]; rfl
  refine ⟨⟨insertDep_disc hc h.disc, ?_, ?_⟩, ?_⟩
  · refine ⟨?_, ?_, ?_, ?_, ?_, ?_, ?_⟩
    · rw [he]; exact hSf.keys
    · intro d hd hsrc f hf
      rw [hfind] at hf
      rw [he] at hd
      rcases List.mem_append.1 hd with hd | hd
      · exact hSf.own d hd hsrc f hf
      · simp only [List.mem_singleton] at hd
        subst hd
        have hrel := hfl.find? b
        rw [hf] at hrel
        cases hf0 : s.find? b with
        | none => rw [hf0] at hrel; exact hrel.elim
        | some f0 =>
          rw [hf0] at hrel
          obtain ⟨ho, hr⟩ := hown hsrc f0 hf0
          exact ⟨fun c hcc => ho c (by rw [← hrel.2.2.1.1]; exact hcc), by rw [hrel.2.2.1.2]; exact hr⟩
    · intro n hn; rw [he] at hn; exact hSf.kinds n hn
    · intro n hn; rw [he] at hn; exact hSf.root n hn
    · intro d hd
      rw [he] at hd
      rcases List.mem_append.1 hd with hd | hd
      · exact hSf.dkinds d hd
      · simp only [List.mem_singleton] at hd
        subst hd; exact hkind
    · intro d hd
      rw [he] at hd
      rw [hfind, hfind]
      rcases List.mem_append.1 hd with hd | hd
      · exact hSf.closed d hd
      · simp only [List.mem_singleton] at hd
        subst hd
        exact ⟨has_soft hfl ha, has_soft hfl hb⟩
    · intro n hn; rw [he] at hn; exact hSf.roots n hn
  · refine forest_of_skel ?_ h.fo
    rw [he]
    exact (skel_of_soft hfl : (s.flagDepEndpoints a b).skel = s.skel)
  · intro x hx
    unfold Has
    rw [hfind]
    exact has_soft hfl hx

/-! ## Declarations of files -/

/-- No row is lost. -/
def Mono (s s' : KState) : Prop := ∀ x, Has s x → Has s' x

theorem Mono.refl (s : KState) : Mono s s := fun _ h => h
theorem Mono.trans {a b c : KState} (h1 : Mono a b) (h2 : Mono b c) : Mono a c := fun x hx => h2 x (h1 x hx)

/-- What is known of the row of a file that has just been declared for `creator`. -/
def Declared (s : KState) (creator : Option Key) (k : Key) (st : FileState) : Prop :=
  Has s k ∧ (∀ nk, s.find? k = some nk → nk.creator = creator ∨ nk.creator = none) ∧
    ((st = .planned ∨ st = .volatile) → ∀ nk, s.find? k = some nk → nk.fstate.role? ≠ some .static)

theorem fileKey_kind (p : String) : (fileKey p).kind = .file := rfl
theorem stepKey_kind (l : String) : (stepKey l).kind = .step := rfl
theorem treeKey_kind (l : String) : (treeKey l).kind = .st := rfl

theorem TI.createFile {cfg : KConfig} {s s' : KState} {p : String} {creator : Option Key} {st : FileState} (h : TI cfg s)
    (hst : NoHashState st) (hc : s.create (fileKey p) creator (.file st) = .ok s') :
    TI cfg s' ∧ Mono s s' ∧ Declared s' creator (fileKey p) st := by
  obtain ⟨hT, hm, hh, hcr, hrole⟩ := h.create (init := .file st) hst
    (by show (fileKey p).kind ≠ .step; rw [fileKey_kind]; intro hh; cases hh)
    (by rw [fileKey_kind]; intro hh; cases hh) hc
  exact ⟨hT, hm, hh, hcr, fun hs => hrole st rfl hs⟩

theorem declareFile_ti {cfg : KConfig} {s s' : KState} {creator : Key} {p : String} {st : FileState} (h : TI cfg s)
    (hc : s.declareFile cfg creator p st = .ok s') :
    TI cfg s' ∧ Mono s s' ∧ Declared s' (some creator) (fileKey p) st := by
  unfold KState.declareFile at hc
  refine bind_ok_gen hc (fun _ => Generated.Enums.declarableStates.contains st = true) ?_
    (fun s' => TI cfg s' ∧ Mono s s' ∧ Declared s' (some creator) (fileKey p) st) ?_
  · intro _ hg
    unfold KState.declareFileGuard at hg
    by_cases hd : Generated.Enums.declarableStates.contains st = true
    · exact hd
    · rw [if_neg hd] at hg; cases hg
  · intro _ s2 hd hh
    simp only [bind, Except.bind] at hh
    cases h1 : s.create (fileKey p) (some creator) (.file st) with
    | error e => simp [h1] at hh
    | ok s1 =>
      simp only [h1] at hh
      unfold KState.volatileSinkCheck at hh
      split at hh
      · simp [graphErr] at hh
      · simp only [pure, Except.pure, Except.ok.injEq] at hh
        subst hh
        exact h.createFile (declarable_noHash hd) h1

theorem declareAll_ti {cfg : KConfig} (todo : List (Key × String)) (st : FileState) :
    ∀ s s' : KState, TI cfg s → s.declareAll cfg todo st = .ok s' → TI cfg s' ∧ Mono s s' := by
  intro s s' h hc
  unfold KState.declareAll at hc
  refine foldlM_inv (fun t => TI cfg t ∧ Mono s t) (fun (acc : KState) (dp : Key × String) => acc.declareFile cfg dp.1 dp.2 st)
    todo ?_ s s' ⟨h, Mono.refl s⟩ hc
  intro a x b ⟨ha, hma⟩ hb
  obtain ⟨hT, hm, _⟩ := declareFile_ti ha hb
  exact ⟨hT, hma.trans hm⟩

theorem declareStaticFiles_ti {cfg : KConfig} {s : KState} {creator : Key} {paths : List String} {r : KState × List String}
    (h : TI cfg s) (hc : s.declareStaticFiles cfg creator paths = .ok r) : TI cfg r.1 ∧ Mono s r.1 := by
  unfold KState.declareStaticFiles at hc
  refine bind_ok_gen hc (fun _ => True) (fun _ _ => trivial) (fun r => TI cfg r.1 ∧ Mono s r.1) ?_
  intro todo r1 _ hh
  refine bind_ok_gen hh (fun a => TI cfg a ∧ Mono s a) (fun a ha => declareAll_ti todo _ s a h ha)
    (fun r => TI cfg r.1 ∧ Mono s r.1) ?_
  intro a b ha hb
  simp only [pure, Except.pure, Except.ok.injEq] at hb
  subst hb; exact ha

/-! ## Supplying inputs -/

theorem adoptByTree_ti {cfg : KConfig} {s : KState} {path : String} {t : Key} {r : KState × FileState × Bool}
    (h : TI cfg s) (hc : s.adoptByTree cfg path t = .ok r) : TI cfg r.1 ∧ Mono s r.1 ∧ Has r.1 (fileKey path) := by
  unfold KState.adoptByTree at hc
  refine bind_ok_gen hc (fun _ => True) (fun _ _ => trivial)
    (fun r => TI cfg r.1 ∧ Mono s r.1 ∧ Has r.1 (fileKey path)) ?_
  intro _ r1 _ hh
  simp only [bind, Except.bind] at hh
  cases h1 : s.create (fileKey path) (some t) (.file .unconfirmed) with
  | error e => simp [h1] at hh
  | ok s1 =>
    simp only [h1, pure, Except.pure, Except.ok.injEq] at hh
    subst hh
    obtain ⟨hT, hm, hd⟩ := h.createFile (Or.inr (Or.inl rfl)) h1
    exact ⟨hT, hm, hd.1⟩

theorem placeholder_ti {cfg : KConfig} {s : KState} {path : String} {r : KState × FileState × Bool}
    (h : TI cfg s) (hc : s.placeholder path = .ok r) : TI cfg r.1 ∧ Mono s r.1 ∧ Has r.1 (fileKey path) := by
  unfold KState.placeholder at hc
  simp only [bind, Except.bind] at hc
  cases h1 : s.create (fileKey path) none (.file .undeclared) with
  | error e => simp [h1] at hc
  | ok s1 =>
    simp only [h1, pure, Except.pure, Except.ok.injEq] at hc
    subst hc
    obtain ⟨hT, hm, hd⟩ := h.createFile (Or.inl rfl) h1
    exact ⟨hT, hm, hd.1⟩

theorem resolveNode_ti {cfg : KConfig} {s : KState} {path : String} {r : KState × FileState × Bool}
    (h : TI cfg s) (hc : s.resolveNode cfg path = .ok r) : TI cfg r.1 ∧ Mono s r.1 ∧ Has r.1 (fileKey path) := by
  unfold KState.resolveNode at hc
  refine bind_ok_gen hc (fun _ => True) (fun _ _ => trivial)
    (fun r => TI cfg r.1 ∧ Mono s r.1 ∧ Has r.1 (fileKey path)) ?_
  intro tree r1 _ hh
  cases tree with
  | some t =>
    simp only [KState.resolveWith] at hh
    exact adoptByTree_ti h hh
  | none =>
    cases hf : s.find? (fileKey path) with
    | none =>
      rw [hf] at hh
      simp only [KState.resolveWith] at hh
      split at hh
      · simp [bind, Except.bind, throw, throwThe, MonadExceptOf.throw] at hh
      · exact placeholder_ti h hh
    | some n =>
      rw [hf] at hh
      simp only [KState.resolveWith] at hh
      split at hh
      · exact placeholder_ti h hh
      · refine bind_ok_gen hh (fun _ => True) (fun _ _ => trivial)
          (fun r => TI cfg r.1 ∧ Mono s r.1 ∧ Has r.1 (fileKey path)) ?_
        intro _ r2 _ hh2
        simp only [pure, Except.pure, Except.ok.injEq] at hh2
        subst hh2
        exact ⟨h, Mono.refl s, by unfold Has; rw [hf]; rfl⟩

theorem resolveSupply_ti {cfg : KConfig} {s : KState} {step : Key} {path : String} {rn : Bool} {r : KState × Supply}
    (h : TI cfg s) (hc : s.resolveSupply cfg step path rn = .ok r) :
    TI cfg r.1 ∧ Mono s r.1 ∧ Has r.1 r.2.file ∧ r.2.file.kind = .file := by
  unfold KState.resolveSupply at hc
  refine bind_ok_gen hc (fun a => TI cfg a.1 ∧ Mono s a.1 ∧ Has a.1 (fileKey path)) (fun a ha => resolveNode_ti h ha)
    (fun r => TI cfg r.1 ∧ Mono s r.1 ∧ Has r.1 r.2.file ∧ r.2.file.kind = .file) ?_
  intro a r1 ha hh
  obtain ⟨s1, state, detached⟩ := a
  simp only at hh
  split at hh
  · simp [graphErr, bind, Except.bind] at hh
  · simp only [pure, Except.pure, bind, Except.bind, Except.ok.injEq] at hh
    subst hh
    exact ⟨ha.1, ha.2.1, ha.2.2, rfl⟩

theorem resolveAll_ti {cfg : KConfig} {s : KState} {step : Key} {paths : List String} {rn : Bool} {r : KState × List Supply}
    (h : TI cfg s) (hc : s.resolveAll cfg step paths rn = .ok r) :
    TI cfg r.1 ∧ Mono s r.1 ∧ ∀ i ∈ r.2, Has r.1 i.file ∧ i.file.kind = .file := by
  unfold KState.resolveAll at hc
  refine foldlM_inv (fun (a : KState × List Supply) => TI cfg a.1 ∧ Mono s a.1 ∧ ∀ i ∈ a.2, Has a.1 i.file ∧ i.file.kind = .file)
    _ paths ?_ (s, []) r ⟨h, Mono.refl s, fun i hi => by cases hi⟩ hc
  intro a x b ⟨ha, hma, hia⟩ hb
  refine bind_ok_gen hb (fun c => TI cfg c.1 ∧ Mono a.1 c.1 ∧ Has c.1 c.2.file ∧ c.2.file.kind = .file)
    (fun c hc' => resolveSupply_ti ha hc')
    (fun (b : KState × List Supply) => TI cfg b.1 ∧ Mono s b.1 ∧ ∀ i ∈ b.2, Has b.1 i.file ∧ i.file.kind = .file) ?_
  intro c d ⟨hc1, hc2, hc3, hc4⟩ hd
  obtain ⟨s', i⟩ := c
  simp only [pure, Except.pure, Except.ok.injEq] at hd
  subst hd
  refine ⟨hc1, hma.trans hc2, ?_⟩
  intro j hj
  rcases List.mem_append.1 hj with hj | hj
  · exact ⟨hc2 _ (hia j hj).1, (hia j hj).2⟩
  · simp only [List.mem_singleton] at hj
    subst hj; exact ⟨hc3, hc4⟩

theorem insertNewEdges_ti {cfg : KConfig} {step : Key} (infos : List Supply) :
    ∀ s s' : KState, TI cfg s → Has s step → (∀ i ∈ infos, Has s i.file ∧ i.file.kind = .file) →
      s.insertNewEdges step infos = .ok s' → TI cfg s' ∧ Mono s s' := by
  intro s s' h hstep hinf hc
  unfold KState.insertNewEdges at hc
  refine foldlM_mem (fun t => TI cfg t ∧ Mono s t) (fun (st : KState) (i : Supply) => st.insertDep i.file step) _ ?_ s s'
    ⟨h, Mono.refl s⟩ hc
  intro st i st' hi ⟨hst, hm⟩ hd
  have hi' := hinf i (List.mem_filter.1 hi).1
  obtain ⟨hT, hm'⟩ := hst.insertDep (hm _ hi'.1) (hm _ hstep)
    (fun hk => by rw [hi'.2] at hk; cases hk) hd
  exact ⟨hT, hm.trans hm'⟩

theorem supplyFiles_ti {cfg : KConfig} {s : KState} {step : Key} {paths : List String} {rn : Bool} {r : KState × List Supply}
    (h : TI cfg s) (hstep : Has s step) (hc : s.supplyFiles cfg step paths rn = .ok r) : TI cfg r.1 ∧ Mono s r.1 := by
  unfold KState.supplyFiles at hc
  refine bind_ok_gen hc (fun a => TI cfg a.1 ∧ Mono s a.1 ∧ ∀ i ∈ a.2, Has a.1 i.file ∧ i.file.kind = .file)
    (fun a ha => resolveAll_ti h ha) (fun r => TI cfg r.1 ∧ Mono s r.1) ?_
  intro a r1 ⟨ha, hma, hia⟩ hh
  obtain ⟨s1, infos⟩ := a
  simp only at hh
  split at hh
  · simp [bind, Except.bind, throw, throwThe, MonadExceptOf.throw] at hh
  · simp only [pure, Except.pure, bind, Except.bind] at hh
    cases h2 : s1.insertNewEdges step infos with
    | error e => simp [h2] at hh
    | ok s2 =>
      simp only [h2, Except.ok.injEq] at hh
      subst hh
      obtain ⟨hT, hm⟩ := insertNewEdges_ti infos s1 s2 ha (hma _ hstep) hia h2
      exact ⟨hT, hma.trans hm⟩

/-! ## Products of a step -/

theorem declareProduct_ti {cfg : KConfig} {s s' : KState} {step : Key} {p : String} {st : FileState} (h : TI cfg s)
    (hstep : Has s step) (hst : st = .planned ∨ st = .volatile) (hc : s.declareProduct cfg step p st = .ok s') :
    TI cfg s' ∧ Mono s s' := by
  unfold KState.declareProduct at hc
  simp only [bind, Except.bind] at hc
  cases h1 : s.declareFile cfg step p st with
  | error e => simp [h1] at hc
  | ok s1 =>
    simp only [h1] at hc
    obtain ⟨hT1, hm1, hh, hcr, hrole⟩ := declareFile_ti h h1
    unfold KState.addSourceChecked at hc
    split at hc
    · simp [bind, Except.bind, throw, throwThe, MonadExceptOf.throw] at hc
    · simp only [pure, Except.pure, bind, Except.bind] at hc
      have hown : step.kind = .step → ∀ f, s1.find? (fileKey p) = some f →
          (∀ c, f.creator = some c → c = step) ∧ f.fstate.role? ≠ some .static := by
        intro _ f hf
        refine ⟨fun c hcc => ?_, hrole hst f hf⟩
        rcases hcr f hf with hx | hx
        · rw [hx] at hcc; cases hcc; rfl
        · rw [hx] at hcc; cases hcc
      obtain ⟨hT, hm⟩ := hT1.insertDep (hm1 _ hstep) hh hown hc
      exact ⟨hT, hm1.trans hm⟩

theorem declareProducts_ti {cfg : KConfig} {step : Key} (ps : List String) {st : FileState}
    (hst : st = .planned ∨ st = .volatile) :
    ∀ s s' : KState, TI cfg s → Has s step → s.declareProducts cfg step ps st = .ok s' → TI cfg s' ∧ Mono s s' := by
  intro s s' h hstep hc
  unfold KState.declareProducts at hc
  refine foldlM_inv (fun t => TI cfg t ∧ Mono s t) (fun (acc : KState) (p : String) => acc.declareProduct cfg step p st)
    ps ?_ s s' ⟨h, Mono.refl s⟩ hc
  intro a x b ⟨ha, hma⟩ hb
  obtain ⟨hT, hm⟩ := declareProduct_ti ha (hma _ hstep) hst hb
  exact ⟨hT, hma.trans hm⟩

end StepupModel.K.Discipline
