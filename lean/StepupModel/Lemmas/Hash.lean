import StepupModel.P.Hash
/-! Unique parsing of the `HashWords` stream (helper lemmas for C13). -/
namespace StepupModel.P.Hash

def NulFree (s : Bytes) : Prop := ∀ x ∈ s, x ≠ 0

/-- A continuation is empty or starts with the `0` byte of a type marker. -/
def Cont (r : Bytes) : Prop := r = [] ∨ ∃ t, r = 0 :: t

theorem cont_nil : Cont [] := Or.inl rfl
theorem cont_zero (t : Bytes) : Cont (0 :: t) := Or.inr ⟨t, rfl⟩

theorem nulFree_tail {a : Nat} {s : Bytes} (h : NulFree (a :: s)) : NulFree s :=
  fun x hx => h x (by simp [hx])

/-- Two NUL-free strings, each followed by a marker or the end, split uniquely. -/
theorem str_split {s t r1 r2 : Bytes} (hs : NulFree s) (ht : NulFree t) (h1 : Cont r1) (h2 : Cont r2)
    (h : s ++ r1 = t ++ r2) : s = t ∧ r1 = r2 := by
  induction s generalizing t with
  | nil =>
    cases t with
    | nil => simpa using h
    | cons b bs =>
      have hb : b ≠ 0 := ht b (by simp)
      rcases h1 with rfl | ⟨u, rfl⟩ <;> simp at h
      exact absurd h.1.symm hb
  | cons a as ih =>
    have ha : a ≠ 0 := hs a (by simp)
    cases t with
    | nil =>
      rcases h2 with rfl | ⟨u, rfl⟩ <;> simp at h
      exact absurd h.1 ha
    | cons b bs =>
      simp at h
      obtain ⟨rfl, h⟩ := h
      have := ih (nulFree_tail hs) (nulFree_tail ht) h
      exact ⟨by rw [this.1], this.2⟩

theorem fixed_split {b1 b2 r1 r2 : Bytes} (hl : b1.length = b2.length) (h : b1 ++ r1 = b2 ++ r2) :
    b1 = b2 ∧ r1 = r2 := List.append_inj h hl

theorem be8_length (n : Nat) : (be8 n).length = 8 := rfl

theorem be8_inj {n m : Nat} (hn : n < 18446744073709551616) (hm : m < 18446744073709551616)
    (h : be8 n = be8 m) : n = m := by
  simp only [be8, List.cons.injEq, and_true] at h
  omega

/-- A digest: the 1-byte unknown marker, or 32 bytes. -/
def WFDigest (d : Bytes) : Prop := d = unknownDigest ∨ d.length = 32

theorem digest_split {d1 d2 r1 r2 : Bytes} (h1 : WFDigest d1) (h2 : WFDigest d2)
    (h : digestWord d1 ++ r1 = digestWord d2 ++ r2) : d1 = d2 ∧ r1 = r2 := by
  have hk : ∀ d : Bytes, d.length = 32 → d ≠ unknownDigest := by
    intro d hl he; rw [he] at hl; simp [unknownDigest] at hl
  rcases h1 with rfl | l1 <;> rcases h2 with rfl | l2
  · simpa [digestWord] using h
  · simp [digestWord, hk d2 l2, wNone, wBytes] at h
  · simp [digestWord, hk d1 l1, wNone, wBytes] at h
  · simp only [digestWord, hk d1 l1, hk d2 l2, if_false, wBytes, List.cons_append, List.cons.injEq, true_and] at h
    exact fixed_split (by rw [l1, l2]) h

def WFFile (f : FileE) : Prop :=
  NulFree f.path ∧ f.mode < 18446744073709551616 ∧ f.size < 18446744073709551616 ∧ WFDigest f.digest

theorem encFile_append (f : FileE) (r : Bytes) :
    encFile f ++ r =
      0 :: 1 :: (f.path ++ 0 :: 0 :: (be8 f.mode ++ 0 :: 0 :: (be8 f.size ++ (digestWord f.digest ++ r)))) := by
  simp [encFile, wStr, wBytes]

theorem file_split {f g : FileE} {r1 r2 : Bytes} (hf : WFFile f) (hg : WFFile g)
    (h : encFile f ++ r1 = encFile g ++ r2) : f = g ∧ r1 = r2 := by
  rw [encFile_append, encFile_append] at h
  simp only [List.cons.injEq, true_and] at h
  obtain ⟨hp, h⟩ := str_split hf.1 hg.1 (cont_zero _) (cont_zero _) h
  simp only [List.cons.injEq, true_and] at h
  obtain ⟨hm, h⟩ := fixed_split (by simp [be8_length]) h
  simp only [List.cons.injEq, true_and] at h
  obtain ⟨hs, h⟩ := fixed_split (by simp [be8_length]) h
  obtain ⟨hd, h⟩ := digest_split hf.2.2.2 hg.2.2.2 h
  refine ⟨?_, h⟩
  have hm' := be8_inj hf.2.1 hg.2.1 hm
  have hs' := be8_inj hf.2.2.1 hg.2.2.1 hs
  cases f; cases g; simp_all

/-- What may follow the file section: the end, or a `str` word followed by the end or by a
`str`/`None` marker (never a `bytes` marker, which is what follows a path). -/
def FilesTerm (r : Bytes) : Prop :=
  r = [] ∨ ∃ k t, r = 0 :: 1 :: (k ++ t) ∧ NulFree k ∧ (t = [] ∨ ∃ u, t = 0 :: 1 :: u ∨ t = 0 :: 2 :: u)

theorem filesTerm_cont {r : Bytes} (h : FilesTerm r) : Cont r := by
  rcases h with rfl | ⟨k, t, rfl, _, _⟩
  · exact cont_nil
  · exact cont_zero _

theorem cont_encFiles (fs : List FileE) {r : Bytes} (h : Cont r) : Cont (encFiles fs ++ r) := by
  cases fs with
  | nil => simpa [encFiles] using h
  | cons f fs => simp only [encFiles, encFile_append]; exact cont_zero _

theorem term_ne_file {r r' : Bytes} {g : FileE} (hr : FilesTerm r) (hg : WFFile g)
    (h : r = encFile g ++ r') : False := by
  rw [encFile_append] at h
  rcases hr with rfl | ⟨k, t, rfl, hk, ht⟩
  · simp at h
  · simp only [List.cons.injEq, true_and] at h
    have hc : Cont t := by
      rcases ht with rfl | ⟨u, rfl | rfl⟩
      · exact cont_nil
      · exact cont_zero _
      · exact cont_zero _
    obtain ⟨_, h⟩ := str_split hk hg.1 hc (cont_zero _) h
    rcases ht with rfl | ⟨u, rfl | rfl⟩ <;> simp at h

theorem files_inj (fs gs : List FileE) (r1 r2 : Bytes) (hf : ∀ f ∈ fs, WFFile f) (hg : ∀ g ∈ gs, WFFile g)
    (h1 : FilesTerm r1) (h2 : FilesTerm r2)
    (h : encFiles fs ++ r1 = encFiles gs ++ r2) : fs = gs ∧ r1 = r2 := by
  induction fs generalizing gs with
  | nil =>
    cases gs with
    | nil => simpa [encFiles] using h
    | cons g gs' =>
      simp only [encFiles, List.nil_append, List.append_assoc] at h
      exact (term_ne_file h1 (hg g (by simp)) h).elim
  | cons f fs' ih =>
    cases gs with
    | nil =>
      simp only [encFiles, List.nil_append, List.append_assoc] at h
      exact (term_ne_file h2 (hf f (by simp)) h.symm).elim
    | cons g gs' =>
      simp only [encFiles, List.append_assoc] at h
      obtain ⟨hfg, h⟩ := file_split (hf f (by simp)) (hg g (by simp)) h
      have := ih gs' (fun x hx => hf x (by simp [hx])) (fun x hx => hg x (by simp [hx])) h
      exact ⟨by rw [hfg, this.1], this.2⟩

/-! ### Environment variables -/

/-- `e.1 ≠ kwOvr` is the explicit hypothesis that excludes finding F1. -/
def WFEnv (e : Bytes × Option Bytes) : Prop :=
  NulFree e.1 ∧ (∀ w, e.2 = some w → NulFree w) ∧ e.1 ≠ kwOvr

def EnvTerm (r : Bytes) : Prop := ∃ t, r = 0 :: 1 :: (kwOvr ++ t) ∧ (t = [] ∨ ∃ u, t = 0 :: 1 :: u)

theorem kwOvr_nulFree : NulFree kwOvr := by intro x hx; simp [kwOvr] at hx; omega
theorem kwEnv_nulFree : NulFree kwEnv := by intro x hx; simp [kwEnv] at hx; omega

theorem envTerm_cont {r : Bytes} (h : EnvTerm r) : Cont r := by
  obtain ⟨t, rfl, _⟩ := h; exact cont_zero _

theorem encEnv_append (e : Bytes × Option Bytes) (r : Bytes) :
    encEnv e ++ r = 0 :: 1 :: (e.1 ++ (match e.2 with | some v => 0 :: 1 :: (v ++ r) | none => 0 :: 2 :: r)) := by
  obtain ⟨n, v⟩ := e
  cases v <;> simp [encEnv, wStr, wNone]

theorem cont_encEnvs (es : List (Bytes × Option Bytes)) {r : Bytes} (h : Cont r) : Cont (encEnvs es ++ r) := by
  cases es with
  | nil => simpa [encEnvs] using h
  | cons e es => simp only [encEnvs, encEnv_append]; exact cont_zero _

theorem cont_envval (v : Option Bytes) (r : Bytes) :
    Cont (match v with | some v => 0 :: 1 :: (v ++ r) | none => 0 :: 2 :: r) := by
  cases v <;> exact cont_zero _

theorem envterm_ne_env {r r' : Bytes} {g : Bytes × Option Bytes} (hr : EnvTerm r) (hg : WFEnv g)
    (h : r = encEnv g ++ r') : False := by
  rw [encEnv_append] at h
  obtain ⟨t, rfl, ht⟩ := hr
  simp only [List.cons.injEq, true_and] at h
  have hc : Cont t := by
    rcases ht with rfl | ⟨u, rfl⟩
    · exact cont_nil
    · exact cont_zero _
  obtain ⟨hk, _⟩ := str_split kwOvr_nulFree hg.1 hc (cont_envval _ _) h
  exact hg.2.2 hk.symm

theorem envs_inj (es gs : List (Bytes × Option Bytes)) (r1 r2 : Bytes)
    (he : ∀ e ∈ es, WFEnv e) (hg : ∀ g ∈ gs, WFEnv g) (h1 : EnvTerm r1) (h2 : EnvTerm r2)
    (h : encEnvs es ++ r1 = encEnvs gs ++ r2) : es = gs ∧ r1 = r2 := by
  induction es generalizing gs with
  | nil =>
    cases gs with
    | nil => simpa [encEnvs] using h
    | cons g gs' =>
      simp only [encEnvs, List.nil_append, List.append_assoc] at h
      exact (envterm_ne_env h1 (hg g (by simp)) h).elim
  | cons e es' ih =>
    cases gs with
    | nil =>
      simp only [encEnvs, List.nil_append, List.append_assoc] at h
      exact (envterm_ne_env h2 (he e (by simp)) h.symm).elim
    | cons g gs' =>
      have hwe := he e (by simp)
      have hwg := hg g (by simp)
      obtain ⟨en, ev⟩ := e
      obtain ⟨gn, gv⟩ := g
      simp only [encEnvs, List.append_assoc] at h
      rw [encEnv_append, encEnv_append] at h
      simp only [List.cons.injEq, true_and] at h
      obtain ⟨hn, h'⟩ := str_split hwe.1 hwg.1 (cont_envval _ _) (cont_envval _ _) h
      simp only at hn h' hwe hwg
      subst hn
      clear h
      have h := h'
      clear h'
      have c1 := cont_encEnvs es' (envTerm_cont h1)
      have c2 := cont_encEnvs gs' (envTerm_cont h2)
      have ih' := ih gs' (fun x hx => he x (by simp [hx])) (fun x hx => hg x (by simp [hx]))
      cases ev with
      | none =>
        cases gv with
        | none =>
          simp only [List.cons.injEq, true_and] at h
          have := ih' h
          exact ⟨by rw [this.1], this.2⟩
        | some w => simp at h
      | some v =>
        cases gv with
        | none => simp at h
        | some w =>
          simp only [List.cons.injEq, true_and] at h
          obtain ⟨hv, h⟩ := str_split (hwe.2.1 v rfl) (hwg.2.1 w rfl) c1 c2 h
          have := ih' h
          exact ⟨by rw [hv, this.1], this.2⟩

/-! ### Overrides -/

def WFOvr (e : Bytes × Bytes) : Prop := NulFree e.1 ∧ NulFree e.2

theorem cont_encOvrs (es : List (Bytes × Bytes)) : Cont (encOvrs es) := by
  cases es with
  | nil => exact cont_nil
  | cons e es => simp only [encOvrs, encOvr, wStr, List.cons_append]; exact cont_zero _

theorem ovrs_inj (es gs : List (Bytes × Bytes)) (he : ∀ e ∈ es, WFOvr e) (hg : ∀ g ∈ gs, WFOvr g)
    (h : encOvrs es = encOvrs gs) : es = gs := by
  induction es generalizing gs with
  | nil =>
    cases gs with
    | nil => rfl
    | cons g gs' => simp [encOvrs, encOvr, wStr] at h
  | cons e es' ih =>
    cases gs with
    | nil => simp [encOvrs, encOvr, wStr] at h
    | cons g gs' =>
      have hwe := he e (by simp)
      have hwg := hg g (by simp)
      obtain ⟨en, ev⟩ := e
      obtain ⟨gn, gv⟩ := g
      simp only [encOvrs, encOvr, wStr, List.cons_append, List.append_assoc, List.cons.injEq, true_and] at h
      obtain ⟨hn, h⟩ := str_split hwe.1 hwg.1 (cont_zero _) (cont_zero _) h
      simp only [List.cons.injEq, true_and] at h
      obtain ⟨hv, h⟩ := str_split hwe.2 hwg.2 (cont_encOvrs _) (cont_encOvrs _) h
      have := ih gs' (fun x hx => he x (by simp [hx])) (fun x hx => hg x (by simp [hx])) h
      simp only at hn hv
      rw [hn, hv, this]

end StepupModel.P.Hash
