import StepupModel.Lemmas.DisciplineStruct
/-!
# The flag discipline: `reset_for_rerun` and the failure branch of `mark_completed`

`StructRel s s'` (rows keep key and role, a creator is kept or cut, no dependency row is added) is
what `detach`, the deletion of dependency rows and every soft write do to a state; it preserves the
structural invariant `Struct`.  With it the composite operations built from `detach` are handled:
`Step.reset_for_rerun`, `Step._detach_created_steps`, `mark_completed(None, ...)`.
-/
namespace StepupModel.K.Discipline
open StepupModel.K.MetaAfter StepupModel.Lemmas StepupModel.K.Sk
set_option linter.unusedSimpArgs false
set_option linter.unusedVariables false

/-! ## Related lists, once more -/

theorem all₂_imp {α : Type} {R R' : α → α → Prop} (h : ∀ a b, R a b → R' a b) :
    ∀ {l l' : List α}, All₂ R l l' → All₂ R' l l'
  | _, _, .nil => .nil
  | _, _, .cons hab t => .cons (h _ _ hab) (all₂_imp h t)

theorem find?_all₂ {R : Node → Node → Prop} (hR : ∀ a b, R a b → b.key = a.key) (k : Key) :
    ∀ {l l' : List Node}, All₂ R l l' → OptRel R (l.find? (·.key = k)) (l'.find? (·.key = k))
  | _, _, .nil => trivial
  | _, _, .cons (a := a) (b := b) h t => by
    simp only [List.find?_cons, hR a b h]
    by_cases hk : a.key = k
    · simp only [hk, decide_true]; exact h
    · simp only [hk, decide_false]; exact find?_all₂ hR k t

/-! ## Structural changes -/

/-- Key and role stay, the creator stays or (not on the root) is cut. -/
def StructRow (n n' : Node) : Prop :=
  n'.key = n.key ∧ n'.fstate.role? = n.fstate.role? ∧
    (n'.creator = n.creator ∨ (n'.creator = none ∧ n.key ≠ rootKey))

theorem StructRow.refl (n : Node) : StructRow n n := ⟨rfl, rfl, .inl rfl⟩

theorem StructRow.trans (a b c : Node) (h1 : StructRow a b) (h2 : StructRow b c) : StructRow a c := by
  refine ⟨h2.1.trans h1.1, h2.2.1.trans h1.2.1, ?_⟩
  rcases h2.2.2 with h | h
  · rcases h1.2.2 with h' | h'
    · exact .inl (h.trans h')
    · exact .inr ⟨h.trans h'.1, h'.2⟩
  · exact .inr ⟨h.1, by rw [← h1.1]; exact h.2⟩

theorem SoftRow.struct {n n' : Node} (h : SoftRow n n') : StructRow n n' := ⟨h.1, h.2.2.1.2, .inl h.2.2.1.1⟩

/-- No dependency row is added, rows are related one by one by `StructRow`. -/
structure StructRel (s s' : KState) : Prop where
  deps : ∀ d ∈ s'.deps, d ∈ s.deps
  rows : All₂ StructRow s.nodes s'.nodes

theorem StructRel.refl (s : KState) : StructRel s s := ⟨fun _ h => h, forall₂_refl StructRow.refl _⟩

theorem StructRel.trans {a b c : KState} (h1 : StructRel a b) (h2 : StructRel b c) : StructRel a c :=
  ⟨fun d hd => h1.deps d (h2.deps d hd), forall₂_trans StructRow.trans h1.rows h2.rows⟩

theorem SoftRel.struct {s s' : KState} (h : SoftRel s s') : StructRel s s' :=
  ⟨fun d hd => by rw [h.deps] at hd; exact hd, all₂_imp (fun _ _ => SoftRow.struct) h.rows⟩

theorem StructRel.find? {s s' : KState} (h : StructRel s s') (k : Key) : OptRel StructRow (s.find? k) (s'.find? k) :=
  find?_all₂ (fun _ _ hr => hr.1) k h.rows

theorem structRel_mapNodes (s : KState) (g : Node → Node) (hg : ∀ n ∈ s.nodes, StructRow n (g n)) :
    StructRel s { s with nodes := s.nodes.map g } := ⟨fun _ h => h, forall₂_map g _ hg⟩

theorem structRel_modify (s : KState) (k : Key) (f : Node → Node) (hf : ∀ n, StructRow n (f n)) :
    StructRel s (s.modify k f) := by
  unfold KState.modify
  refine structRel_mapNodes s _ fun n _ => ?_
  by_cases h : n.key = k
  · rw [if_pos h]; exact hf n
  · rw [if_neg h]; exact StructRow.refl n

theorem keys_of_structRows : ∀ {l l' : List Node}, All₂ StructRow l l' → l'.map (·.key) = l.map (·.key)
  | _, _, .nil => rfl
  | _, _, .cons h t => by simp only [List.map_cons, h.1, keys_of_structRows t]

/-- **A structural change preserves the structural invariant.** -/
theorem struct_of_rel {s s' : KState} (h : StructRel s s') (hS : Struct s) : Struct s' := by
  refine ⟨?_, ?_, ?_, ?_, fun d hd => hS.dkinds d (h.deps d hd), ?_, ?_⟩
  rotate_left 4
  rotate_left 1
  · intro n' hn' hr
    obtain ⟨n, hn, hrow⟩ := forall₂_mem_right h.rows n' hn'
    rw [hrow.1]; exact hS.roots n hn (hrow.1 ▸ hr)
  rotate_right 1
  · intro d hd
    have hc := hS.closed d (h.deps d hd)
    have e1 := h.find? d.src
    have e2 := h.find? d.snk
    constructor
    · cases h1 : s.find? d.src with
      | none => rw [h1] at hc; exact absurd hc.1 (by simp)
      | some a =>
        rw [h1] at e1
        cases h2 : s'.find? d.src with
        | none => rw [h2] at e1; exact e1.elim
        | some b => rfl
    · cases h1 : s.find? d.snk with
      | none => rw [h1] at hc; exact absurd hc.2 (by simp)
      | some a =>
        rw [h1] at e2
        cases h2 : s'.find? d.snk with
        | none => rw [h2] at e2; exact e2.elim
        | some b => rfl
  · have := hS.keys
    unfold KeysUnique at *
    rw [keys_of_structRows h.rows]; exact this
  · intro d hd hsrc f' hf'
    have hrel := h.find? d.snk
    rw [hf'] at hrel
    cases hf : s.find? d.snk with
    | none => rw [hf] at hrel; exact hrel.elim
    | some f =>
      rw [hf] at hrel
      obtain ⟨hown, hrole⟩ := hS.own d (h.deps d hd) hsrc f hf
      refine ⟨fun c hc => ?_, by rw [hrel.2.1]; exact hrole⟩
      rcases hrel.2.2 with hcr | hcr
      · exact hown c (hcr ▸ hc)
      · rw [hcr.1] at hc; cases hc
  · intro n' hn' hs c hc
    obtain ⟨n, hn, hr⟩ := forall₂_mem_right h.rows n' hn'
    rcases hr.2.2 with hcr | hcr
    · exact hS.kinds n hn (hr.1 ▸ hs) c (hcr ▸ hc)
    · rw [hcr.1] at hc; cases hc
  · intro n' hn' hk
    obtain ⟨n, hn, hr⟩ := forall₂_mem_right h.rows n' hn'
    rcases hr.2.2 with hcr | hcr
    · rw [hcr]; exact hS.root n hn (hr.1 ▸ hk)
    · exact absurd (hr.1 ▸ hk) hcr.2

/-! ## `detach` and the deletion of dependency rows are structural changes -/

theorem structRel_setDetachedRow (s : KState) (x : Key) (d : Bool) : StructRel s (s.setDetachedRow x d) := by
  unfold KState.setDetachedRow
  cases s.find? x with
  | none => exact StructRel.refl s
  | some n =>
    simp only
    have h1 : StructRel s (s.modify x fun n => { n with detached := d }) :=
      structRel_modify s x _ fun n => ⟨rfl, rfl, .inl rfl⟩
    split
    · unfold KState.flagReadySinks
      refine h1.trans (SoftRel.struct ?_)
      exact softRel_modifyWhere _ _ (softFn_rfl (fun _ => rfl) (fun _ => rfl) (fun _ => rfl) (fun _ => rfl)
        (fun _ => rfl) (fun _ => rfl) (fun _ => rfl) (fun _ => rfl))
    · exact h1

theorem structRel_foldl_setDetachedRow (d : Bool) (L : List Key) :
    ∀ s : KState, StructRel s (L.foldl (fun s x => s.setDetachedRow x d) s) := by
  induction L with
  | nil => intro s; exact StructRel.refl s
  | cons x L ih =>
    intro s
    simp only [List.foldl_cons]
    exact (structRel_setDetachedRow s x d).trans (ih _)

theorem structRel_setCreator_none {s s' : KState} {k : Key} (h : s.setCreator k none true = .ok s') :
    StructRel s s' := by
  unfold KState.setCreator at h
  split at h
  · rename_i hall
    simp only [pure, Except.pure, Except.ok.injEq] at h
    subst h
    have hk : k ≠ rootKey := by
      intro he
      unfold KState.creatorAllowed at hall
      rw [he] at hall
      simp [rootKey] at hall
    refine StructRel.trans ?_ (structRel_setDetachedRow _ k true)
    unfold KState.modify
    refine structRel_mapNodes s _ fun n _ => ?_
    by_cases hn : n.key = k
    · rw [if_pos hn]; exact ⟨rfl, rfl, .inr ⟨rfl, hn ▸ hk⟩⟩
    · rw [if_neg hn]; exact StructRow.refl n
  · cases h

theorem structRel_detachCore {s s' : KState} {k : Key} {n : Node} (h : s.detachCore k n = .ok s') : StructRel s s' := by
  unfold KState.detachCore at h
  split at h
  · simp only [bind, Except.bind] at h
    cases hsc : s.setCreator k none true with
    | error e => simp [hsc] at h
    | ok sc =>
      simp only [hsc, pure, Except.pure, Except.ok.injEq] at h
      subst h
      split
      · unfold KState.setDetachedRec
        exact (structRel_setCreator_none hsc).trans (structRel_foldl_setDetachedRow true _ sc)
      · exact structRel_setCreator_none hsc
  · simp only [pure, Except.pure, Except.ok.injEq] at h; subst h; exact StructRel.refl s

theorem flagChecksWithProducts_rel {s s' : KState} {k : Key} (h : s.flagChecksWithProducts k = .ok s') : SoftRel s s' := by
  unfold KState.flagChecksWithProducts at h
  split at h
  · cases h
  · simp only [pure, Except.pure, Except.ok.injEq] at h; subst h
    exact softRel_modifyWhere _ _ (softFn_flag (fun _ => rfl) (fun _ => rfl) (fun _ => rfl) (fun _ => rfl) (fun _ => rfl))

theorem flagCheckAfterSources_rel {s s' : KState} {k : Key} (h : s.flagCheckAfterSources k = .ok s') : SoftRel s s' := by
  unfold KState.flagCheckAfterSources at h
  split at h
  · cases h
  · simp only [pure, Except.pure, Except.ok.injEq] at h; subst h
    exact softRel_modifyWhere _ _ (softFn_flag (fun _ => rfl) (fun _ => rfl) (fun _ => rfl) (fun _ => rfl) (fun _ => rfl))

theorem structRel_detach {s s' : KState} {k : Key} (h : s.detach k = .ok s') : StructRel s s' := by
  unfold KState.detach at h
  cases hf : s.find? k with
  | none => simp [hf] at h
  | some n =>
    simp only [hf, bind, Except.bind] at h
    cases h1 : s.detachCore k n with
    | error e => simp [h1] at h
    | ok s1 =>
      simp only [h1] at h
      refine (structRel_detachCore h1).trans ?_
      unfold KState.detachFlags at h
      split at h
      · simp only [bind, Except.bind] at h
        cases h2 : s1.flagChecksWithProducts k with
        | error e => simp [h2] at h
        | ok s2 =>
          simp only [h2] at h
          exact (flagChecksWithProducts_rel h2).struct.trans (flagCheckAfterSources_rel h).struct
      · simp only [pure, Except.pure, Except.ok.injEq] at h; subst h; exact StructRel.refl _

/-! ### `DELETE FROM dependency` with its triggers -/

theorem flagFold_spec (gone : List Dep) : ∀ t : KState,
    SoftRel t (gone.foldl (fun s d => s.flagDepEndpoints d.src d.snk) t) ∧
    ∀ n' ∈ (gone.foldl (fun s d => s.flagDepEndpoints d.src d.snk) t).nodes, n'.key.kind = .step →
      (∃ d ∈ gone, n'.key = d.src ∨ n'.key = d.snk) → n'.checkAfter = true := by
  induction gone with
  | nil =>
    intro t
    exact ⟨SoftRel.refl t, fun n' _ _ ⟨d, hd, _⟩ => by cases hd⟩
  | cons d ds ih =>
    intro t
    simp only [List.foldl_cons]
    have h1 : SoftRel t (t.flagDepEndpoints d.src d.snk) := by
      unfold KState.flagDepEndpoints
      exact softRel_modifyWhere _ _ (softFn_flag (fun _ => rfl) (fun _ => rfl) (fun _ => rfl) (fun _ => rfl) (fun _ => rfl))
    obtain ⟨h2, h3⟩ := ih (t.flagDepEndpoints d.src d.snk)
    refine ⟨h1.trans h2, ?_⟩
    intro n' hn' hs ⟨d', hd', hk⟩
    rcases List.mem_cons.1 hd' with rfl | hd'
    · obtain ⟨n1, hn1, hr⟩ := forall₂_mem_right h2.rows n' hn'
      apply hr.2.2.2.1
      unfold KState.flagDepEndpoints at hn1
      obtain ⟨n0, _, hk0, _, _, hsel⟩ := flagPass_rows hn1 (fun _ => rfl) (fun _ => rfl) (fun _ => rfl)
      apply hsel
      rw [← hk0, ← hr.1]
      simp only [hs, decide_true, Bool.true_and, decide_eq_true_eq, Bool.or_eq_true]
      simpa using hk
    · exact h3 n' hn' hs ⟨d', hd', hk⟩

theorem deps_flagFold (gone : List Dep) : ∀ t : KState,
    (gone.foldl (fun s d => s.flagDepEndpoints d.src d.snk) t).deps = t.deps := by
  induction gone with
  | nil => intro t; rfl
  | cons d ds ih => intro t; simp only [List.foldl_cons]; rw [ih]; rfl

theorem deps_deleteDeps (s : KState) (p : Dep → Bool) : (s.deleteDeps p).deps = s.deps.filter fun d => !p d := by
  unfold KState.deleteDeps
  simp only
  rw [deps_flagFold]

theorem structRel_deleteDeps (s : KState) (p : Dep → Bool) : StructRel s (s.deleteDeps p) := by
  have h0 : StructRel s ({ s with deps := s.deps.filter fun d => !p d } : KState) :=
    ⟨fun d hd => (List.mem_filter.1 hd).1, forall₂_refl StructRow.refl _⟩
  unfold KState.deleteDeps
  exact h0.trans (flagFold_spec _ _).1.struct

/-- **`DELETE FROM dependency`** keeps the debt when the steps that lose a consumer are flagged (or
in the debt) already; the trigger flags the endpoints. -/
theorem wd_deleteDeps {F : Key → Prop} {s : KState} {cfg : KConfig} (p : Dep → Bool) (hc : WD F s cfg)
    (hup : ∀ n ∈ s.nodes, n.key.kind = .step → n.detached = false →
      (∃ d ∈ s.deps, p d = true ∧ ConsRow s d.snk ∧ Edge s.deps n.key d.src) → n.checkAfter = true ∨ F n.key) :
    WD F (s.deleteDeps p) cfg := by
  have h1 := wd_filterDeps (cfg := cfg) p hc
  obtain ⟨hrel, hfl⟩ := flagFold_spec (s.deps.filter p) ({ s with deps := s.deps.filter fun d => !p d } : KState)
  have h2 := wd_soft hrel h1
  unfold KState.deleteDeps
  refine wd_drop' ?_ h2
  intro n' hn' hs hd ⟨d, hdm, hp, hk⟩
  rcases hk with hk | ⟨hsk, hedge⟩
  · exact .inl (hfl n' hn' hs ⟨d, List.mem_filter.2 ⟨hdm, hp⟩, .inl hk⟩)
  · obtain ⟨n, hn, hr⟩ := forall₂_mem_right hrel.rows n' hn'
    rcases hup n hn (hr.1 ▸ hs) (hr.2.1 ▸ hd) ⟨d, hdm, hp, hsk, hr.1 ▸ hedge⟩ with hx | hx
    · exact .inl (hr.2.2.2.1 hx)
    · exact .inr (hr.1 ▸ hx)

/-! ## The working invariant of the composite operations -/

/-- Structure, discipline, and a structural change away from the state `s0` of reference. -/
structure RInv (cfg : KConfig) (s0 s : KState) : Prop where
  st : Struct s
  disc : CacheInvAfterW s cfg
  rel : StructRel s0 s

theorem RInv.rebase {cfg : KConfig} {s0 s : KState} (h : RInv cfg s0 s) : RInv cfg s s :=
  ⟨h.st, h.disc, StructRel.refl s⟩

theorem RInv.soft {cfg : KConfig} {s0 s s' : KState} (h : RInv cfg s0 s) (hr : SoftRel s s') : RInv cfg s0 s' :=
  ⟨struct_of_rel hr.struct h.st, cacheInvW_soft cfg hr h.disc, h.rel.trans hr.struct⟩

/-- Every operation that is soft in the sense of `Lemmas/DisciplineSoft.lean` keeps the working invariant. -/
theorem RInv.of_soft {cfg : KConfig} {s0 s s' : KState} {f : KState → M KState} (hf : ∀ t, Preserves (SP t) f)
    (h : RInv cfg s0 s) (hs : f s = .ok s') : RInv cfg s0 s' :=
  h.soft (hf s s s' (SP.refl h.st.keys) hs).2

theorem RInv.detach {cfg : KConfig} {s0 s s' : KState} {k : Key} (h : RInv cfg s0 s) (hfile : FileDetachOK s k)
    (hs : s.detach k = .ok s') : RInv cfg s0 s' :=
  ⟨struct_of_rel (structRel_detach hs) h.st, detach_disc_struct h.st hfile hs h.disc, h.rel.trans (structRel_detach hs)⟩

theorem RInv.deleteDeps {cfg : KConfig} {s0 s : KState} (p : Dep → Bool) (h : RInv cfg s0 s)
    (hup : ∀ n ∈ s.nodes, n.key.kind = .step → n.detached = false →
      (∃ d ∈ s.deps, p d = true ∧ ConsRow s d.snk ∧ Edge s.deps n.key d.src) → n.checkAfter = true) :
    RInv cfg s0 (s.deleteDeps p) :=
  ⟨struct_of_rel (structRel_deleteDeps s p) h.st,
    disc_of_wd (wd_deleteDeps p (wd_of_disc _ h.disc) fun n hn h1 h2 h3 => .inl (hup n hn h1 h2 h3)),
    h.rel.trans (structRel_deleteDeps s p)⟩

/-- A fold of detaches over keys that are steps or trees. -/
theorem RInv.detachFold {cfg : KConfig} {s0 : KState} (L : List Node) (hL : ∀ p ∈ L, p.key.kind ≠ .file) :
    ∀ s s', RInv cfg s0 s → L.foldlM (fun st (p : Node) => st.detach p.key) s = .ok s' → RInv cfg s0 s' := by
  intro s s' h hs
  refine foldlM_mem (RInv cfg s0) (fun st (p : Node) => st.detach p.key) L ?_ s s' h hs
  intro st p st' hp hst hd
  exact hst.detach (fun hf => absurd hf (hL p hp)) hd

/-! ## `Step.reset_for_rerun` -/

theorem RInv.dropDynamicInputs {cfg : KConfig} {s0 s : KState} (h : RInv cfg s0 s) (step : Key) :
    RInv cfg s0 (s.dropDynamicInputs step) := by
  unfold KState.dropDynamicInputs
  have ha : RInv cfg s0 (s.flagDynamicSuppliers step) := by
    refine h.soft ?_
    unfold KState.flagDynamicSuppliers
    exact softRel_modifyWhere _ _ (softFn_flag (fun _ => rfl) (fun _ => rfl) (fun _ => rfl) (fun _ => rfl) (fun _ => rfl))
  have hb := ha.deleteDeps (fun d => d.snk = step ∧ d.dyn) (by
    intro n hn hs hd ⟨d, hdm, hp, _, d', hd'm, hsrc', hsnk'⟩
    unfold KState.flagDynamicSuppliers at hn
    obtain ⟨n0, hn0, hk0, _, _, hsel⟩ := flagPass_rows hn (fun _ => rfl) (fun _ => rfl) (fun _ => rfl)
    apply hsel
    simp only [decide_eq_true_eq, Bool.decide_and, Bool.and_eq_true] at hp
    have hdm0 : d ∈ s.deps := hdm
    have hd'm0 : d' ∈ s.deps := hd'm
    simp only [decide_eq_true_eq, Bool.and_eq_true, List.any_eq_true, Bool.decide_and]
    exact ⟨hk0 ▸ hs, d', hd'm0, by rw [← hk0]; exact hsrc', d, hdm0, hp.1, hp.2, hsnk'.symm⟩)
  refine hb.soft ?_
  exact softRel_modify _ step (softFn_payload fun _ => ⟨⟨rfl, rfl, rfl, rfl⟩, rfl⟩)

theorem RInv.dropDynamicSink {cfg : KConfig} {s0 s s' : KState} {step k : Key} (h : RInv cfg s0 s) (hk : k.kind = .file)
    (hfile : FileDetachOK (s.deleteDeps fun d => d.src = step ∧ d.snk = k) k)
    (hs : s.dropDynamicSink step k = .ok s') : RInv cfg s0 s' := by
  unfold KState.dropDynamicSink at hs
  refine (h.deleteDeps (fun d => d.src = step ∧ d.snk = k) ?_).detach hfile hs
  intro n hn hst hd ⟨d, hdm, hp, ⟨m, hm, hmk, _⟩, _⟩
  simp only [decide_eq_true_eq, Bool.decide_and, Bool.and_eq_true] at hp
  rw [find_key hm, hp.2, hk] at hmk
  cases hmk

theorem outdateBuilt_soft {s0 : KState} (k : Key) : Preserves (SP s0) (fun s => s.outdateBuilt k) := by
  intro s s' hp h
  replace h : s.outdateBuilt k = .ok s' := h
  unfold KState.outdateBuilt at h
  exact foldlM_preserves (SP s0) _ _ (fun (n : Node) => markFileOutdated_soft n.key) s s' hp h

theorem mem_products {s : KState} {k : Key} {p : Node} (h : p ∈ s.products k) : p ∈ s.nodes := by
  unfold KState.products at h
  exact (List.mem_filter.1 h).1

/-- **`Step.reset_for_rerun` preserves the flag discipline and the structural invariant.** -/
theorem resetForRerun_rinv {cfg : KConfig} {s s' : KState} {step : Key} (hstep : step.kind = .step)
    (hS : Struct s) (hc : CacheInvAfterW s cfg) (h : s.resetForRerun step = .ok s') : RInv cfg s s' := by
  unfold KState.resetForRerun at h
  dsimp only at h
  have h0 : RInv cfg s s := ⟨hS, hc, StructRel.refl s⟩
  have h1 := h0.dropDynamicInputs step
  simp only [bind, Except.bind] at h
  -- the amended outputs
  cases e2 : ((s.dropDynamicInputs step).dynamicSinks step).foldlM
      (fun st k => st.dropDynamicSink step k) (s.dropDynamicInputs step) with
  | error e => simp [e2] at h
  | ok s2 =>
    simp only [e2] at h
    have h2 : RInv cfg (s.dropDynamicInputs step) s2 := by
      refine foldlM_mem (RInv cfg (s.dropDynamicInputs step)) (fun st k => st.dropDynamicSink step k) _ ?_ _ s2
        h1.rebase e2
      intro st k st' hk hst hd
      -- `k` is a sink of a dynamic edge of `step` in the state of reference
      unfold KState.dynamicSinks at hk
      obtain ⟨d, hdm, hdk⟩ := List.mem_map.1 hk
      obtain ⟨hdm, hdp⟩ := List.mem_filter.1 hdm
      simp only [decide_eq_true_eq, Bool.decide_and, Bool.and_eq_true] at hdp
      have hkf : k.kind = .file := by
        have := h1.st.dkinds d hdm
        rw [hdp.1, hstep, hdk] at this
        unfold depKindOk at this
        cases hkk : k.kind <;> simp [hkk] at this
        rfl
      refine hst.dropDynamicSink hkf ?_ hd
      intro _ n' c hf' hc' hck hedge
      -- the creator of `k`, if any, is `step`; its edge into `k` has just been deleted
      have hrel := (hst.rel.trans (structRel_deleteDeps st (fun d => decide (d.src = step ∧ d.snk = k)))).find? k
      rw [hf'] at hrel
      cases hf1 : (s.dropDynamicInputs step).find? k with
      | none => rw [hf1] at hrel; exact hrel.elim
      | some n1 =>
        rw [hf1] at hrel
        have hc1 : n1.creator = some c := by
          rcases hrel.2.2 with hx | hx
          · rw [← hx]; exact hc'
          · rw [hx.1] at hc'; cases hc'
        have hcs : c = step := by
          have := (h1.st.own d hdm (by rw [hdp.1]; exact hstep) n1 (by rw [hdk]; exact hf1)).1 c hc1
          rw [this, hdp.1]
        obtain ⟨e, hem, hes, hek⟩ := hedge
        rw [deps_deleteDeps] at hem
        have := (List.mem_filter.1 hem).2
        simp [hes, hek, hcs] at this
    replace h2 : RInv cfg s s2 := ⟨h2.st, h2.disc, h1.rel.trans h2.rel⟩
    -- the steps created by the step
    cases e3 : s2.detachCreatedSteps step with
    | error e => simp [e3] at h
    | ok s3 =>
      simp only [e3] at h
      have h3 : RInv cfg s s3 := by
        unfold KState.detachCreatedSteps at e3
        refine RInv.detachFold _ ?_ s2 s3 h2 e3
        intro p hp hpf
        have := (List.mem_filter.1 hp).2
        simp only [decide_eq_true_eq] at this
        rw [this] at hpf; cases hpf
      -- the static files declared by the step
      cases e4 : s3.detachProductsWhere step isStaticFileNode with
      | error e => simp [e4] at h
      | ok s4 =>
        simp only [e4] at h
        have h4 : RInv cfg s3 s4 := by
          unfold KState.detachProductsWhere at e4
          refine foldlM_mem (RInv cfg s3) (fun st (n : Node) => st.detach n.key) _ ?_ s3 s4 h3.rebase e4
          intro st p st' hp hst hd
          refine hst.detach ?_ hd
          intro hpf n' c hf' hc' hck hedge
          obtain ⟨hpm, hpstat⟩ := List.mem_filter.1 hp
          unfold isStaticFileNode at hpstat
          simp only [decide_eq_true_eq, Bool.decide_and, Bool.and_eq_true] at hpstat
          obtain ⟨e, hem, hes, hek⟩ := hedge
          have hrole := (hst.st.own e hem (hes ▸ hck) n' (hek ▸ hf')).2
          have hrel := hst.rel.find? p.key
          rw [find?_of_mem h3.st.keys (mem_products hpm), hf'] at hrel
          rw [hrel.2.1, hpstat.2] at hrole
          exact hrole rfl
        replace h4 : RInv cfg s s4 := ⟨h4.st, h4.disc, h3.rel.trans h4.rel⟩
        -- the static trees declared by the step
        cases e5 : s4.detachProductsWhere step isTreeNode with
        | error e => simp [e5] at h
        | ok s5 =>
          simp only [e5] at h
          have h5 : RInv cfg s s5 := by
            unfold KState.detachProductsWhere at e5
            refine RInv.detachFold _ ?_ s4 s5 h4 e5
            intro p hp hpf
            have := (List.mem_filter.1 hp).2
            unfold isTreeNode at this
            simp only [decide_eq_true_eq] at this
            rw [this] at hpf; cases hpf
          exact h5.of_soft (fun t => outdateBuilt_soft step) h

/-! ## The failure branch of `mark_completed` -/

theorem completeFailure_rinv {cfg : KConfig} {s s' : KState} {step : Key} (wd : Bool)
    (hS : Struct s) (hc : CacheInvAfterW s cfg) (h : s.completeFailure cfg step wd = .ok s') : RInv cfg s s' := by
  unfold KState.completeFailure at h
  have h0 : RInv cfg s s := ⟨hS, hc, StructRel.refl s⟩
  simp only [bind, Except.bind] at h
  cases e1 : s.outdateBuiltProducts step with
  | error e => simp [e1] at h
  | ok s1 =>
    simp only [e1] at h
    have h1 := h0.of_soft (fun t => outdateBuiltProducts_soft step) e1
    have hb : RInv cfg s (s1.bumpDeferCount step wd) := by
      unfold KState.bumpDeferCount
      split
      · exact h1.soft (softRel_modify _ step (softFn_payload fun _ => ⟨⟨rfl, rfl, rfl, rfl⟩, rfl⟩))
      · exact h1
    cases e2 : (s1.bumpDeferCount step wd).writeFailureState step (s1.deferGranted cfg step wd) with
    | error e => simp [e2] at h
    | ok s2 =>
      simp only [e2] at h
      have h2 : RInv cfg s s2 := by
        unfold KState.writeFailureState at e2
        split at e2
        · exact hb.of_soft (fun t => setStepState_soft step .pending _) e2
        · exact hb.of_soft (fun t => setStepState_soft step .failed false) e2
      cases e3 : s2.detachCreatedIfFailed step with
      | error e => simp [e3] at h
      | ok s3 =>
        simp only [e3, pure, Except.pure, Except.ok.injEq] at h
        have h3 : RInv cfg s s3 := by
          unfold KState.detachCreatedIfFailed at e3
          split at e3
          · unfold KState.detachCreatedSteps at e3
            refine RInv.detachFold _ ?_ s2 s3 h2 e3
            intro p hp hpf
            have := (List.mem_filter.1 hp).2
            simp only [decide_eq_true_eq] at this
            rw [this] at hpf; cases hpf
          · simp only [pure, Except.pure, Except.ok.injEq] at e3; subst e3; exact h2
        subst h
        exact h3.soft (deleteHash_soft s3 step (SP.refl h3.st.keys)).2

end StepupModel.K.Discipline
