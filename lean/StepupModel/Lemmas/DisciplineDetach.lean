import StepupModel.Lemmas.DisciplineDebt
import StepupModel.Lemmas.ReachDesc
/-!
# The flag discipline: `Node.detach`

`Step.detach` flips `detached` on the node and its recursive products, then flags the step subtree
(`_flag_checks_with_products`) and the attached steps two hops upstream of it
(`RECURSIVE_CHECK_AFTER_SOURCES`).  With the debt calculus of `Lemmas/DisciplineDebt.lean` the flips
add `Touched x` for every flipped key `x` to the debt, and the two flagging passes pay it back
provided the step subtree *covers* the flipped keys (`Covers`): every flipped step is in the subtree,
and every step with an edge into a flipped file is in the subtree.
-/
namespace StepupModel.K.Discipline
open StepupModel.K.MetaAfter StepupModel.Lemmas
set_option linter.unusedSimpArgs false
set_option linter.unusedVariables false

/-! ## `detached` writes -/

theorem deps_modify (s : KState) (k : Key) (f : Node → Node) : (s.modify k f).deps = s.deps := rfl
theorem deps_modifyWhere (s : KState) (p : Node → Bool) (f : Node → Node) : (s.modifyWhere p f).deps = s.deps := rfl

theorem deps_setDetachedRow (s : KState) (x : Key) (d : Bool) : (s.setDetachedRow x d).deps = s.deps := by
  unfold KState.setDetachedRow
  cases s.find? x with
  | none => rfl
  | some n =>
    simp only
    split <;> rfl

/-- `UPDATE node SET detached = ?` on the rows of `x`. -/
theorem wd_setDetachedRow {F : Key → Prop} {s : KState} {cfg : KConfig} (x : Key) (d : Bool) (hc : WD F s cfg) :
    WD (fun k => F k ∨ Touched s.deps x k) (s.setDetachedRow x d) cfg := by
  unfold KState.setDetachedRow
  cases hf : s.find? x with
  | none => exact wd_mono (fun k hk => .inl hk) hc
  | some n =>
    simp only
    have h1 := wd_rowChange (F := F) (cfg := cfg) (rowChange_modify s x (fun n => { n with detached := d }) (fun _ => rfl)) hc
    split
    · unfold KState.flagReadySinks
      exact wd_soft (softRel_modifyWhere _ _ (softFn_rfl (fun _ => rfl) (fun _ => rfl) (fun _ => rfl) (fun _ => rfl)
        (fun _ => rfl) (fun _ => rfl) (fun _ => rfl) (fun _ => rfl))) h1
    · exact h1

/-- The keys touched by the rows of a list of keys. -/
def TouchedBy (deps : List Dep) (L : List Key) (k : Key) : Prop := ∃ x ∈ L, Touched deps x k

theorem wd_foldl_setDetachedRow {F : Key → Prop} {cfg : KConfig} (d : Bool) (L : List Key) :
    ∀ (s : KState), WD F s cfg →
      WD (fun k => F k ∨ TouchedBy s.deps L k) (L.foldl (fun s x => s.setDetachedRow x d) s) cfg ∧
      (L.foldl (fun s x => s.setDetachedRow x d) s).deps = s.deps := by
  induction L generalizing F with
  | nil =>
    intro s hc
    exact ⟨wd_mono (fun k hk => .inl hk) hc, rfl⟩
  | cons x L ih =>
    intro s hc
    simp only [List.foldl_cons]
    have h1 := wd_setDetachedRow (cfg := cfg) x d hc
    obtain ⟨h2, hd⟩ := ih (s.setDetachedRow x d) h1
    rw [deps_setDetachedRow] at hd h2
    refine ⟨wd_mono ?_ h2, hd⟩
    rintro k ((hk | hk) | ⟨y, hy, hk⟩)
    · exact .inl hk
    · exact .inr ⟨x, List.mem_cons_self, hk⟩
    · exact .inr ⟨y, List.mem_cons_of_mem _ hy, hk⟩

/-- A neutral rewrite of rows (nothing `afterValues` reads, nor the cached pair, nor the flag: for
instance the `creator` column) keeps the debt. -/
theorem wd_neutral {F : Key → Prop} {s : KState} {cfg : KConfig} (g : Node → Node) (hg : AfterNeutral g)
    (hc : WD F s cfg) : WD F { s with nodes := s.nodes.map g } cfg := by
  intro n' hn' hstep hatt hflag hnf
  obtain ⟨n, hn, rfl⟩ := List.mem_map.1 hn'
  have hv := fun n => (hg n).1
  rw [afterLocal_mapNodes_view s cfg g hv (fun n => (hg n).2.1) (fun n => (hg n).2.2.1)]
  rcases hc n hn (by rw [← view_key (hv n)]; exact hstep) (by rw [← view_detached (hv n)]; exact hatt)
      (by rw [← (hg n).2.2.2]; exact hflag) (by rw [← view_key (hv n)]; exact hnf) with hl | ⟨m, hm, hmf⟩
  · exact .inl hl
  · right
    refine ⟨g m, ?_, ?_⟩
    · rw [view_key (hv n)]; exact consumer_mapNodes hv hm
    · rw [(hg m).2.2.2, view_key (hv m)]; exact hmf

theorem wd_modify_neutral {F : Key → Prop} {s : KState} {cfg : KConfig} (k : Key) (f : Node → Node) (hf : AfterNeutral f)
    (hc : WD F s cfg) : WD F (s.modify k f) cfg := by
  unfold KState.modify
  refine wd_neutral _ ?_ hc
  intro n
  dsimp only
  by_cases h : n.key = k
  · rw [if_pos h]; exact hf n
  · rw [if_neg h]; exact ⟨rfl, rfl, rfl, rfl⟩

/-- `UPDATE node SET creator = ?, detached = ?` -/
theorem wd_setCreator {F : Key → Prop} {s s' : KState} {cfg : KConfig} {k : Key} {c : Option Key} {d : Bool}
    (h : s.setCreator k c d = .ok s') (hc : WD F s cfg) :
    WD (fun x => F x ∨ Touched s.deps k x) s' cfg ∧ s'.deps = s.deps := by
  unfold KState.setCreator at h
  split at h
  · simp only [pure, Except.pure, Except.ok.injEq] at h
    subst h
    have h1 : WD F (s.modify k fun n => { n with creator := c }) cfg :=
      wd_modify_neutral k _ (fun _ => ⟨rfl, rfl, rfl, rfl⟩) hc
    exact ⟨wd_setDetachedRow k d h1, deps_setDetachedRow _ _ _⟩
  · cases h

theorem wd_setDetachedRec {F : Key → Prop} {s : KState} {cfg : KConfig} (k : Key) (d : Bool) (hc : WD F s cfg) :
    WD (fun x => F x ∨ TouchedBy s.deps (s.descendants k) x) (s.setDetachedRec k d) cfg ∧
      (s.setDetachedRec k d).deps = s.deps := by
  unfold KState.setDetachedRec
  exact wd_foldl_setDetachedRow d _ s hc

/-! ## The step subtree (`RECURSIVE_CHECK_WITH_PRODUCTS`) -/

/-- `n` is a step created by `c`. -/
def stepChild (n : Node) (c : Key) : Prop := n.key.kind = .step ∧ n.creator = some c ∧ n.key ≠ c

/-- One level of the recursion. -/
def stepExpand (s : KState) (frontier : List Key) : List Key :=
  s.nodes.filterMap fun n =>
    if frontier.any (fun c => decide (n.key.kind = Kind.step ∧ n.creator = some c ∧ n.key ≠ c)) = true then some n.key
    else none

theorem mem_stepExpand {s : KState} {fr : List Key} {y : Key} :
    y ∈ stepExpand s fr ↔ ∃ n ∈ s.nodes, n.key = y ∧ ∃ c ∈ fr, stepChild n c := by
  unfold stepExpand stepChild
  rw [List.mem_filterMap]
  constructor
  · rintro ⟨n, hn, h⟩
    split at h
    · rename_i ha
      simp only [Option.some.injEq] at h
      obtain ⟨c, hc, hd⟩ := List.any_eq_true.1 ha
      exact ⟨n, hn, h, c, hc, by simpa using hd⟩
    · cases h
  · rintro ⟨n, hn, hk, c, hc, hch⟩
    refine ⟨n, hn, ?_⟩
    have : (fr.any fun c => decide (n.key.kind = Kind.step ∧ n.creator = some c ∧ n.key ≠ c)) = true :=
      List.any_eq_true.2 ⟨c, hc, by simpa using hch⟩
    rw [if_pos this, hk]

theorem stepSubtree_unfold (s : KState) (k : Key) : s.stepSubtree k =
    match s.find? k with
    | some n =>
      if n.key.kind = Kind.step then KState.stepSubtree.go (stepExpand s) (s.nodes.length + 1) [k] [k] else some []
    | none => some [] := rfl

/-- Closed under "step created by". -/
def StepClosed (s : KState) (ks : List Key) : Prop := ∀ n ∈ s.nodes, ∀ c ∈ ks, stepChild n c → n.key ∈ ks

theorem go_spec (s : KState) : ∀ (fuel : Nat) (fr acc ks : List Key),
    KState.stepSubtree.go (stepExpand s) fuel fr acc = some ks → (∀ x ∈ fr, x ∈ acc) →
    (∀ n ∈ s.nodes, ∀ c ∈ acc, stepChild n c → c ∈ fr ∨ n.key ∈ acc) →
    (∀ x ∈ acc, x ∈ ks) ∧ StepClosed s ks := by
  intro fuel
  induction fuel with
  | zero =>
    intro fr acc ks h h1 h2
    unfold KState.stepSubtree.go at h
    split at h
    · rename_i he
      simp only [Option.some.injEq] at h; subst h
      rw [List.isEmpty_iff] at he; subst he
      refine ⟨fun x hx => hx, fun n hn c hc hch => ?_⟩
      rcases h2 n hn c hc hch with hx | hx
      · cases hx
      · exact hx
    · cases h
  | succ fuel ih =>
    intro fr acc ks h h1 h2
    unfold KState.stepSubtree.go at h
    split at h
    · rename_i he
      simp only [Option.some.injEq] at h; subst h
      rw [List.isEmpty_iff] at he; subst he
      refine ⟨fun x hx => hx, fun n hn c hc hch => ?_⟩
      rcases h2 n hn c hc hch with hx | hx
      · cases hx
      · exact hx
    · have := ih (stepExpand s fr) (acc ++ stepExpand s fr) ks h
        (fun x hx => List.mem_append_right _ hx)
        (by
          intro n hn c hc hch
          rcases List.mem_append.1 hc with hc | hc
          · rcases h2 n hn c hc hch with hx | hx
            · exact .inr (List.mem_append_right _ (mem_stepExpand.2 ⟨n, hn, rfl, c, hx, hch⟩))
            · exact .inr (List.mem_append_left _ hx)
          · exact .inl hc)
      exact ⟨fun x hx => this.1 x (List.mem_append_left _ hx), this.2⟩

/-- The result of the walk contains the start step and is closed under "step created by". -/
theorem stepSubtree_spec {s : KState} {k : Key} {ks : List Key} {n : Node} (h : s.stepSubtree k = some ks)
    (hf : s.find? k = some n) (hs : k.kind = .step) : k ∈ ks ∧ StepClosed s ks := by
  rw [stepSubtree_unfold, hf] at h
  simp only at h
  rw [if_pos (by rw [find_key hf]; exact hs)] at h
  have := go_spec s _ [k] [k] ks h (fun x hx => hx) (fun n hn c hc hch => .inl hc)
  exact ⟨this.1 k List.mem_cons_self, this.2⟩

theorem stepSubtree_not_step {s : KState} {k : Key} (hs : k.kind ≠ .step) : s.stepSubtree k = some [] := by
  rw [stepSubtree_unfold]
  cases hf : s.find? k with
  | none => rfl
  | some n =>
    simp only
    rw [if_neg (by rw [find_key hf]; exact hs)]

/-- The walk reads keys and creators only. -/
theorem stepSubtree_mapNodes (s : KState) (g : Node → Node) (hk : ∀ n, (g n).key = n.key)
    (hc : ∀ n, (g n).creator = n.creator) (k : Key) :
    ({ s with nodes := s.nodes.map g } : KState).stepSubtree k = s.stepSubtree k := by
  rw [stepSubtree_unfold, stepSubtree_unfold, find?_mapNodes s g hk]
  have he : stepExpand ({ s with nodes := s.nodes.map g } : KState) = stepExpand s := by
    funext fr
    unfold stepExpand
    simp only [List.filterMap_map]
    apply filterMap_congr'
    intro n _
    simp only [Function.comp, hk, hc]
  rw [he]
  simp only [List.length_map]
  cases s.find? k with
  | none => rfl
  | some n => simp only [Option.map_some, hk]

theorem stepSubtree_modifyWhere (s : KState) (p : Node → Bool) (f : Node → Node) (hk : ∀ n, (f n).key = n.key)
    (hc : ∀ n, (f n).creator = n.creator) (k : Key) : (s.modifyWhere p f).stepSubtree k = s.stepSubtree k := by
  rw [modifyWhere_eq]
  apply stepSubtree_mapNodes
  · intro n; split <;> simp [hk]
  · intro n; split <;> simp [hc]

/-! ## `Node.detach` -/

/-- The keys whose `detached` column `Node.detach` writes. -/
def detachFlips (s : KState) (k : Key) (n : Node) : List Key :=
  if n.creator.isSome then
    k :: (if !n.detached then
      (match s.setCreator k none true with
       | .ok sc => sc.descendants k
       | .error _ => [])
      else [])
  else []

theorem detachCore_wd {F : Key → Prop} {s s1 : KState} {cfg : KConfig} {k : Key} {n : Node}
    (h : s.detachCore k n = .ok s1) (hc : WD F s cfg) :
    WD (fun x => F x ∨ TouchedBy s.deps (detachFlips s k n) x) s1 cfg ∧ s1.deps = s.deps := by
  unfold KState.detachCore at h
  unfold detachFlips
  split at h
  · rename_i hcr
    rw [if_pos hcr]
    simp only [bind, Except.bind] at h
    cases hsc : s.setCreator k none true with
    | error e => simp [hsc] at h
    | ok sc =>
      simp only [hsc, pure, Except.pure, Except.ok.injEq] at h
      obtain ⟨h1, hd1⟩ := wd_setCreator (cfg := cfg) hsc hc
      by_cases hdet : (!n.detached) = true
      · rw [if_pos hdet] at h ⊢
        subst h
        obtain ⟨h2, hd2⟩ := wd_setDetachedRec (cfg := cfg) k true h1
        rw [hd1] at h2 hd2
        refine ⟨wd_mono ?_ h2, hd2⟩
        rintro x ((hx | hx) | ⟨y, hy, hx⟩)
        · exact .inl hx
        · exact .inr ⟨k, List.mem_cons_self, hx⟩
        · exact .inr ⟨y, List.mem_cons_of_mem _ hy, hx⟩
      · rw [if_neg hdet] at h ⊢
        subst h
        refine ⟨wd_mono ?_ h1, hd1⟩
        rintro x (hx | hx)
        · exact .inl hx
        · exact .inr ⟨k, List.mem_cons_self, hx⟩
  · rename_i hcr
    rw [if_neg hcr]
    simp only [pure, Except.pure, Except.ok.injEq] at h
    subst h
    exact ⟨wd_mono (fun x hx => .inl hx) hc, rfl⟩

/-- The flagged subtree covers what the flips touch: the flipped steps are in it, and so is every step
with an edge into a flipped file. -/
def Covers (deps : List Dep) (ks L : List Key) : Prop :=
  (∀ x ∈ L, x.kind = .step → x ∈ ks) ∧
  (∀ x ∈ L, x.kind = .file → ∀ P, P.kind = .step → Edge deps P x → P ∈ ks)

theorem mem_modifyWhere {s : KState} {p : Node → Bool} {f : Node → Node} {n' : Node}
    (h : n' ∈ (s.modifyWhere p f).nodes) : ∃ n ∈ s.nodes, n' = if p n then f n else n := by
  unfold KState.modifyWhere at h
  obtain ⟨n, hn, rfl⟩ := List.mem_map.1 h
  exact ⟨n, hn, rfl⟩

/-- A flagging pass: every row keeps key and `detached`, flags are only raised, the selected rows are
flagged. -/
theorem flagPass_rows {s : KState} {p : Node → Bool} {f : Node → Node} {n' : Node}
    (h : n' ∈ (s.modifyWhere p f).nodes) (hk : ∀ n, (f n).key = n.key)
    (hd : ∀ n, (f n).detached = n.detached) (hfl : ∀ n, (f n).checkAfter = true) :
    ∃ n ∈ s.nodes, n'.key = n.key ∧ n'.detached = n.detached ∧ (n.checkAfter = true → n'.checkAfter = true) ∧
      (p n = true → n'.checkAfter = true) := by
  obtain ⟨n, hn, rfl⟩ := mem_modifyWhere h
  refine ⟨n, hn, ?_, ?_, ?_, ?_⟩
  · split <;> simp [hk]
  · split <;> simp [hd]
  · intro hx; split
    · exact hfl n
    · exact hx
  · intro hp; rw [if_pos hp]; exact hfl n

/-- The two flagging passes of `Step.detach` pay the debt of the flips back. -/
theorem detachFlags_wd {F : Key → Prop} {s1 s' : KState} {cfg : KConfig} {k : Key} {L : List Key}
    (h : s1.detachFlags k = .ok s') (hc : WD (fun x => F x ∨ TouchedBy s1.deps L x) s1 cfg)
    (hcov : ∀ ks, s1.stepSubtree k = some ks → Covers s1.deps ks L) : WD F s' cfg ∧ s'.deps = s1.deps := by
  unfold KState.detachFlags at h
  by_cases hs : k.kind = .step
  · rw [if_pos hs] at h
    simp only [bind, Except.bind] at h
    cases h2 : s1.flagChecksWithProducts k with
    | error e => simp [h2] at h
    | ok s2 =>
      simp only [h2] at h
      unfold KState.flagChecksWithProducts at h2
      cases hks : s1.stepSubtree k with
      | none => simp [hks] at h2
      | some ks =>
        simp only [hks, pure, Except.pure, Except.ok.injEq] at h2
        have hks2 : s2.stepSubtree k = some ks := by
          rw [← h2]
          refine (stepSubtree_modifyWhere s1 _ _ ?_ ?_ k).trans hks <;> intro _ <;> rfl
        unfold KState.flagCheckAfterSources at h
        simp only [hks2, pure, Except.pure, Except.ok.injEq] at h
        obtain ⟨hcs, hcf⟩ := hcov ks hks
        have hd2 : s2.deps = s1.deps := by rw [← h2]; rfl
        have hd' : s'.deps = s1.deps := by rw [← h, ← hd2]; rfl
        refine ⟨?_, hd'⟩
        have hw2 : WD (fun x => F x ∨ TouchedBy s1.deps L x) s2 cfg := by
          rw [← h2]
          exact wd_soft (softRel_modifyWhere _ _ (softFn_flag (fun _ => rfl) (fun _ => rfl) (fun _ => rfl)
            (fun _ => rfl) (fun _ => rfl))) hc
        have hw3 : WD (fun x => F x ∨ TouchedBy s1.deps L x) s' cfg := by
          rw [← h]
          exact wd_soft (softRel_modifyWhere _ _ (softFn_flag (fun _ => rfl) (fun _ => rfl) (fun _ => rfl)
            (fun _ => rfl) (fun _ => rfl))) hw2
        refine wd_drop ?_ hw3
        -- every attached step in the debt is flagged in the final state
        intro n' hn' hstep hatt hdebt
        rw [← h] at hn'
        obtain ⟨n2, hn2, hk2, hdet2, hmono2, hsel2⟩ :=
          flagPass_rows hn' (fun _ => rfl) (fun _ => rfl) (fun _ => rfl)
        rw [← h2] at hn2
        obtain ⟨n1, hn1, hk1, hdet1, hmono1, hsel1⟩ :=
          flagPass_rows hn2 (fun _ => rfl) (fun _ => rfl) (fun _ => rfl)
        have inSub : n'.key ∈ ks → n'.checkAfter = true := by
          intro hin
          apply hmono2
          apply hsel1
          rw [List.contains_iff_mem, ← hk1, ← hk2]; exact hin
        obtain ⟨x, hxL, hx⟩ := hdebt
        rcases hx with hx | ⟨hxf, hedge⟩ | ⟨hxs, f, he1, he2⟩
        · exact inSub (by rw [hx]; exact hcs x hxL (hx ▸ hstep))
        · exact inSub (hcf x hxL hxf n'.key hstep hedge)
        · have hxk : x ∈ ks := hcs x hxL hxs
          apply hsel2
          have hsrc : (List.flatMap s2.sourcesOf (List.flatMap s2.sourcesOf ks)).contains n2.key = true := by
            rw [List.contains_iff_mem, List.mem_flatMap]
            refine ⟨f, List.mem_flatMap.2 ⟨x, hxk, ?_⟩, ?_⟩
            · rw [mem_sourcesOf, ← h2]; exact he2
            · rw [mem_sourcesOf, ← h2, ← hk2]; exact he1
          rw [← h2] at hsrc ⊢
          simp only [← hk2, ← hdet2, hstep, hatt, decide_true, Bool.not_false, Bool.true_and]
          rw [← hk2] at hsrc
          simp only [hsrc, and_self, decide_true]
  · rw [if_neg hs] at h
    simp only [pure, Except.pure, Except.ok.injEq] at h
    subst h
    obtain ⟨hcs, hcf⟩ := hcov [] (stepSubtree_not_step hs)
    refine ⟨wd_drop ?_ hc, rfl⟩
    intro n' hn' hstep hatt ⟨x, hxL, hx⟩
    rcases hx with hx | ⟨hxf, hedge⟩ | ⟨hxs, f, he1, he2⟩
    · exact absurd (hcs x hxL (hx ▸ hstep)) (by simp)
    · exact absurd (hcf x hxL hxf n'.key hstep hedge) (by simp)
    · exact absurd (hcs x hxL hxs) (by simp)

/-- **`Node.detach` keeps the debt**, provided the flagged subtree covers the flips. -/
theorem detach_wd {F : Key → Prop} {s s' : KState} {cfg : KConfig} {k : Key} (h : s.detach k = .ok s')
    (hc : WD F s cfg)
    (hcov : ∀ n s1 ks, s.find? k = some n → s.detachCore k n = .ok s1 → s1.stepSubtree k = some ks →
      Covers s.deps ks (detachFlips s k n)) : WD F s' cfg ∧ s'.deps = s.deps := by
  unfold KState.detach at h
  cases hf : s.find? k with
  | none => simp [hf] at h
  | some n =>
    simp only [hf, bind, Except.bind] at h
    cases h1 : s.detachCore k n with
    | error e => simp [h1] at h
    | ok s1 =>
      simp only [h1] at h
      obtain ⟨hw1, hd1⟩ := detachCore_wd (cfg := cfg) h1 hc
      rw [← hd1] at hw1
      obtain ⟨hw, hd⟩ := detachFlags_wd h hw1 (fun ks hks => by rw [hd1]; exact hcov n s1 ks hf h1 hks)
      exact ⟨hw, hd.trans hd1⟩

end StepupModel.K.Discipline
