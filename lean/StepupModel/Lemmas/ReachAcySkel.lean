import StepupModel.Lemmas.ReachWF
/-!
# Creator links have no cycle, detached rows included: the list level

`Lemmas/ReachWF.lean` shows that every *attached* row reaches the root (`Sk.AR`), which makes the
creator links among attached rows well-founded.  Detached rows keep their creators (a detached
subtree), and the recursive CTEs that walk step products with `UNION ALL`
(`FILL_SAFE_UPDATE`, `RECURSIVE_CHECK_WITH_PRODUCTS`) start at detached steps as well.  This file
treats the creator links of ALL rows:

* `Sk.Link l c k` (`c` is the creator of `k`, root-kind rows excluded), `Sk.Acy l` (well-founded);
* `Sk.Below`: `c` is `k` or a recursive product of `k`; `Sk.createdBy` (the walk of
  `Trellis.raise_if_created_by` on the list) and `createdBy_complete`: on an acyclic forest the walk
  finds `k` whenever `c` is below `k`;
* the seven rewrites of the kernel keep `Sk.Acy`, `reattach` under the guard `createdBy = false`
  (without the guard it does not: that was the creator cycle of finding F11).
-/
namespace StepupModel.K
namespace Sk
set_option linter.unusedSimpArgs false

/-! ## Three ways to keep a relation well-founded -/

theorem wf_irrefl' {α : Type} {r : α → α → Prop} (h : WellFounded r) (a : α) : ¬ r a a := by
  refine h.induction (C := fun x => ¬ r x x) a ?_
  intro x ih hxx
  exact ih x hxx hxx

/-- Paths downwards from `k`, with the list of the nodes met (last first). -/
inductive BelowL {α : Type} (R : α → α → Prop) (k : α) : List α → α → Prop
  | refl : BelowL R k [k] k
  | step {p : List α} {a b : α} : BelowL R k p a → R a b → BelowL R k (b :: p) b

/-- `x` is `k` or below `k`. -/
def Below {α : Type} (R : α → α → Prop) (k x : α) : Prop := ∃ p, BelowL R k p x

theorem Below.refl {α : Type} (R : α → α → Prop) (k : α) : Below R k k := ⟨[k], .refl⟩

theorem Below.step {α : Type} {R : α → α → Prop} {k a b : α} (h : Below R k a) (hr : R a b) : Below R k b := by
  obtain ⟨p, hp⟩ := h
  exact ⟨b :: p, .step hp hr⟩

/-- A new edge `c → k` keeps a well-founded relation well-founded unless `c` is `k` or below `k`. -/
theorem wf_add_edge {α : Type} {R R' : α → α → Prop} (hwf : WellFounded R) (c k : α)
    (hsub : ∀ a b, R' a b → R a b ∨ (a = c ∧ b = k)) (hg : ¬ Below R k c) : WellFounded R' := by
  have h1 : ∀ x, ¬ Below R k x → Acc R' x := by
    intro x
    refine hwf.induction (C := fun x => ¬ Below R k x → Acc R' x) x ?_
    intro x ih hx
    refine Acc.intro x ?_
    intro a ha
    rcases hsub a x ha with hr | ⟨_, hxk⟩
    · exact ih a hr (fun hb => hx (hb.step hr))
    · exact absurd (hxk ▸ Below.refl R k) hx
  have hc : Acc R' c := h1 c hg
  refine WellFounded.intro fun x => ?_
  refine hwf.induction (C := fun x => Acc R' x) x ?_
  intro x ih
  refine Acc.intro x ?_
  intro a ha
  rcases hsub a x ha with hr | ⟨hac, _⟩
  · exact ih a hr
  · rw [hac]; exact hc

/-- Redirecting the incoming edges of a set of nodes that have no outgoing edge afterwards keeps a
well-founded relation well-founded. -/
theorem wf_leaves {α : Type} {R R' : α → α → Prop} (hwf : WellFounded R) (S : α → Prop)
    (h : ∀ a b, R' a b → ¬ S a ∧ (S b ∨ R a b)) : WellFounded R' := by
  have h1 : ∀ x, ¬ S x → Acc R' x := by
    intro x
    refine hwf.induction (C := fun x => ¬ S x → Acc R' x) x ?_
    intro x ih hx
    refine Acc.intro x ?_
    intro a ha
    obtain ⟨hna, hor⟩ := h a x ha
    rcases hor with hs | hr
    · exact absurd hs hx
    · exact ih a hr hna
  refine WellFounded.intro fun x => ?_
  by_cases hx : S x
  · refine Acc.intro x ?_
    intro a ha
    exact h1 a (h a x ha).1
  · exact h1 x hx

/-! ## Creator links of all rows -/

/-- `c` is the creator of the row `k` (rows of kind root are their own creators and excluded). -/
def Link (l : List Tri) (c k : Key) : Prop := k.kind ≠ .root ∧ ∃ d, (k, some c, d) ∈ l

/-- The creator links have no cycle, whether the rows are attached or not. -/
def Acy (l : List Tri) : Prop := WellFounded (Link l)

theorem acy_of_sublinks {l l' : List Tri} (h : ∀ c k, Link l' c k → Link l c k) (ha : Acy l) : Acy l' :=
  Subrelation.wf (fun {c k} hl => h c k hl) ha

/-! ### The seven rewrites -/

theorem mem_setD {l : List Tri} {D : Key → Bool} {d : Bool} {t : Tri} (ht : t ∈ setD D d l) :
    ∃ d', (t.1, t.2.1, d') ∈ l := by
  unfold setD at ht
  obtain ⟨u, hu, rfl⟩ := List.mem_map.1 ht
  split
  · exact ⟨u.2.2, hu⟩
  · exact ⟨u.2.2, hu⟩

theorem link_setD {l : List Tri} {D : Key → Bool} {d : Bool} {c k : Key} (h : Link (setD D d l) c k) : Link l c k := by
  obtain ⟨hk, d', hm⟩ := h
  obtain ⟨d'', hm'⟩ := mem_setD hm
  exact ⟨hk, d'', hm'⟩

theorem link_setRow_none {l : List Tri} {k : Key} {d : Bool} {c x : Key} (h : Link (setRow k none d l) c x) :
    Link l c x := by
  obtain ⟨hk, d', hm⟩ := h
  rcases mem_setRow hm with ⟨h2, _⟩ | ⟨hm', _⟩
  · simp only [Prod.mk.injEq] at h2
    cases h2.2.1
  · exact ⟨hk, d', hm'⟩

theorem acy_detachAtt {l : List Tri} (ha : Acy l) (k : Key) (D : Key → Bool) : Acy (setD D true (setRow k none true l)) :=
  acy_of_sublinks (fun _ _ h => link_setRow_none (link_setD h)) ha

theorem acy_detachDet {l : List Tri} (ha : Acy l) (k : Key) : Acy (setRow k none true l) :=
  acy_of_sublinks (fun _ _ h => link_setRow_none h) ha

theorem link_setRow_some {l : List Tri} {k c : Key} {d : Bool} {a x : Key} (h : Link (setRow k (some c) d l) a x) :
    Link l a x ∨ (a = c ∧ x = k) := by
  obtain ⟨hk, d', hm⟩ := h
  rcases mem_setRow hm with ⟨h2, _⟩ | ⟨hm', _⟩
  · simp only [Prod.mk.injEq, Option.some.injEq] at h2
    exact .inr ⟨h2.2.1, h2.1⟩
  · exact .inl ⟨hk, d', hm'⟩

/-- `Node.reattach`, with the guard of `Trellis.raise_if_created_by`. -/
theorem acy_reattach {l : List Tri} (ha : Acy l) {k c : Key} (hg : ¬ Below (Link l) k c) (d : Bool) (D : Key → Bool) :
    Acy (setD D d (setRow k (some c) d l)) :=
  wf_add_edge ha c k (fun _ _ h => link_setRow_some (link_setD h)) hg

/-- The recycling branch of `Trellis.create`: the recycled row gets a new creator, its old products
are cut loose, so nothing is created by it afterwards. -/
theorem acy_recycle {l : List Tri} (ha : Acy l) {k : Key} {newc : Option Key} {d : Bool} (hf : FitsRow l k newc d) :
    Acy (cut k (setRow k newc d l)) := by
  refine wf_leaves ha (fun x => x = k) ?_
  intro a b h
  obtain ⟨hk, d', hm⟩ := h
  unfold cut at hm
  obtain ⟨u, hu, he⟩ := List.mem_map.1 hm
  split at he
  · simp only [Prod.mk.injEq] at he
    cases he.2.1
  · rename_i hnc
    subst he
    rcases mem_setRow hu with ⟨h2, _⟩ | ⟨hm', hne⟩
    · simp only [Prod.mk.injEq] at h2
      exact ⟨(hf.1 a h2.2.1.symm).1, .inl h2.1⟩
    · refine ⟨?_, .inr ⟨hk, d', hm'⟩⟩
      intro hak
      exact hnc ⟨by rw [hak], hne⟩

/-- The fresh branch of `Trellis.create`. -/
theorem acy_append {l : List Tri} (ha : Acy l) (he : Exist l) {k : Key} (hfresh : ¬ Has l k) {newc : Option Key} {d : Bool}
    (hk : ∀ c, newc = some c → Has l c) : Acy (l ++ [(k, newc, d)]) := by
  refine wf_leaves ha (fun x => x = k) ?_
  intro a b h
  obtain ⟨hkind, d', hm⟩ := h
  rcases List.mem_append.1 hm with hm' | hm'
  · refine ⟨?_, .inr ⟨hkind, d', hm'⟩⟩
    intro hak
    exact hfresh (hak ▸ he _ hm' a rfl)
  · simp only [List.mem_singleton, Prod.mk.injEq] at hm'
    refine ⟨?_, .inl hm'.1⟩
    intro hak
    exact hfresh (hak ▸ hk a hm'.2.1.symm)

/-- The hand-over of `register_static_tree`: files get a tree as their creator, and files create
nothing. -/
theorem acy_hand {l : List Tri} (ha : Acy l) (hnfc : NFC l) {tk : Key} (hkind : tk.kind = .st) {hs : List Key}
    (hfile : ∀ h ∈ hs, h.kind = .file) : Acy (hand tk hs l) := by
  refine wf_leaves ha (fun x => x ∈ hs) ?_
  intro a b h
  obtain ⟨hk, d', hm⟩ := h
  unfold hand at hm
  obtain ⟨u, hu, he⟩ := List.mem_map.1 hm
  split at he
  · rename_i hc
    simp only [Prod.mk.injEq, Option.some.injEq] at he
    have hb : b ∈ hs := by
      rw [← he.1]
      simpa using hc
    refine ⟨?_, .inl hb⟩
    intro hin
    have := hfile a hin
    rw [← he.2.1, hkind] at this
    cases this
  · subst he
    refine ⟨?_, .inr ⟨hk, d', hu⟩⟩
    intro hin
    exact hnfc _ hu a rfl (hfile a hin)

theorem acy_filter {l : List Tri} (ha : Acy l) (p : Tri → Bool) : Acy (l.filter p) :=
  acy_of_sublinks (fun _ _ h => ⟨h.1, h.2.choose, (List.mem_filter.1 h.2.choose_spec).1⟩) ha

/-! ## The guard: the walk of `Trellis.raise_if_created_by` -/

/-- The creator recorded for a key. -/
def creatorOf (l : List Tri) (k : Key) : Option Key := (l.find? fun t => t.1 = k).bind (·.2.1)

/-- `KState.createdBy` on the list of triples. -/
def createdByGo (l : List Tri) (k : Key) : Nat → Key → Bool
  | 0, _ => false
  | fuel + 1, cur =>
    if cur.kind = .root then false
    else if cur = k then true
    else match creatorOf l cur with
      | some p => createdByGo l k fuel p
      | none => false

def createdBy (l : List Tri) (k c : Key) : Bool := createdByGo l k (l.length + 1) c

theorem creatorOf_of_mem {l : List Tri} (hn : Nodup l) {k : Key} {c : Option Key} {d : Bool} (h : (k, c, d) ∈ l) :
    creatorOf l k = c := by
  unfold creatorOf
  cases hf : l.find? (fun t => decide (t.1 = k)) with
  | none =>
    have := List.find?_eq_none.1 hf _ h
    simp at this
  | some t =>
    have ht := List.mem_of_find?_eq_some hf
    have hk : t.1 = k := by simpa using List.find?_some hf
    have := uniq hn ht h hk
    rw [this]; rfl

/-- The walk finds `k` from every node of a path below `k`, given fuel for the path. -/
theorem createdByGo_of_belowL {l : List Tri} (hn : Nodup l) {k : Key} (hk : k.kind ≠ .root) {p : List Key} {x : Key}
    (h : BelowL (Link l) k p x) : ∀ fuel, p.length ≤ fuel → createdByGo l k fuel x = true := by
  induction h with
  | refl =>
    intro fuel hf
    obtain ⟨f, rfl⟩ : ∃ f, fuel = f + 1 := ⟨fuel - 1, by simp at hf; omega⟩
    unfold createdByGo
    rw [if_neg hk, if_pos rfl]
  | step hp hr ih =>
    rename_i p a b
    intro fuel hf
    obtain ⟨f, rfl⟩ : ∃ f, fuel = f + 1 := ⟨fuel - 1, by simp at hf; omega⟩
    obtain ⟨hb, d, hm⟩ := hr
    unfold createdByGo
    rw [if_neg hb]
    by_cases hbk : b = k
    · rw [if_pos hbk]
    · rw [if_neg hbk, creatorOf_of_mem hn hm]
      exact ih f (by simp at hf; omega)

theorem belowL_trans {α : Type} {R : α → α → Prop} {k : α} {p : List α} {x : α} (h : BelowL R k p x) :
    (∀ y ∈ p, y = x ∨ Relation.TransGen R y x) ∧ p.Pairwise (fun u v => Relation.TransGen R v u) := by
  induction h with
  | refl =>
    refine ⟨fun y hy => .inl (List.mem_singleton.1 hy), ?_⟩
    simp
  | step hp hr ih =>
    rename_i p a b
    obtain ⟨i1, i2⟩ := ih
    have hall : ∀ y ∈ p, Relation.TransGen R y b := by
      intro y hy
      rcases i1 y hy with rfl | ht
      · exact .single hr
      · exact .tail ht hr
    refine ⟨?_, List.pairwise_cons.2 ⟨hall, i2⟩⟩
    intro y hy
    rcases List.mem_cons.1 hy with rfl | hy
    · exact .inl rfl
    · exact .inr (hall y hy)

theorem belowL_mem {l : List Tri} {k : Key} (hhas : Has l k) {p : List Key} {x : Key} (h : BelowL (Link l) k p x) :
    ∀ y ∈ p, y ∈ l.map (·.1) := by
  induction h with
  | refl =>
    intro y hy
    rw [List.mem_singleton.1 hy]
    obtain ⟨t, ht, hk⟩ := hhas
    exact List.mem_map.2 ⟨t, ht, hk⟩
  | step hp hr ih =>
    intro y hy
    rcases List.mem_cons.1 hy with rfl | hy
    · obtain ⟨_, d, hm⟩ := hr
      exact List.mem_map.2 ⟨_, hm, rfl⟩
    · exact ih y hy

theorem length_le_of_nodup_subset' {l l' : List Key} (hn : l.Nodup) (hs : ∀ x ∈ l, x ∈ l') :
    l.length ≤ l'.length := by
  induction l generalizing l' with
  | nil => exact Nat.zero_le _
  | cons a t ih =>
    rw [List.nodup_cons] at hn
    have ha : a ∈ l' := hs a List.mem_cons_self
    have ht : ∀ x ∈ t, x ∈ l'.erase a := by
      intro x hx
      have hne : x ≠ a := fun h => hn.1 (h ▸ hx)
      exact (List.mem_erase_of_ne hne).2 (hs x (List.mem_cons_of_mem _ hx))
    have h1 := ih hn.2 ht
    rw [List.length_erase_of_mem ha] at h1
    have h2 : 0 < l'.length := List.length_pos_of_mem ha
    simp only [List.length_cons]
    omega

/-- **The guard is complete.**  On an acyclic forest with one row per key, the walk up from `c` meets
`k` whenever `c` is `k` or a recursive product of `k` (the path has at most `#rows` nodes). -/
theorem createdBy_complete {l : List Tri} (hn : Nodup l) (ha : Acy l) {k c : Key} (hk : k.kind ≠ .root)
    (hhas : Has l k) (hb : Below (Link l) k c) : createdBy l k c = true := by
  obtain ⟨p, hp⟩ := hb
  obtain ⟨_, hpw⟩ := belowL_trans hp
  have hnd : p.Nodup := by
    refine List.Pairwise.imp ?_ hpw
    intro u v huv he
    exact wf_irrefl' ha.transGen u (he ▸ huv)
  have hlen := length_le_of_nodup_subset' hnd (belowL_mem hhas hp)
  rw [List.length_map] at hlen
  exact createdByGo_of_belowL hn hk hp _ (by omega)

end Sk
end StepupModel.K
