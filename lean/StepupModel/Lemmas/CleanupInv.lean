import StepupModel.Lemmas.Cleanup
import StepupModel.Lemmas.Inv
/-!
# Cleanup keeps the row-level state/hash consistency (`FilesOK` of `Lemmas/Inv.lean`)

Proved over the `for`-loop form of `deletePass` / `deleteDetachedBase` / `deleteDetached` through
the characterisation `BaseSpec` of `Lemmas/Cleanup.lean`.  No property statements here.
-/
namespace StepupModel.K
open StepupModel.Lemmas

theorem filesOK_iff_fviews (s : KState) : FilesOK s ↔ ∀ v ∈ s.fviews, HashInv v.2.1 v.2.2 := by
  unfold FilesOK KState.fviews
  constructor
  · intro h v hv
    obtain ⟨n, hn, rfl⟩ := List.mem_map.1 hv
    exact h n hn
  · intro h n hn
    exact h n.fview (List.mem_map.2 ⟨n, hn, rfl⟩)

theorem filesOK_iff_cores (s : KState) : FilesOK s ↔ ∀ c ∈ s.cores, HashInv c.2.2.2.1 c.2.2.2.2 := by
  unfold FilesOK KState.cores
  constructor
  · intro h c hc
    obtain ⟨n, hn, rfl⟩ := List.mem_map.1 hc
    exact h n hn
  · intro h n hn
    exact h n.core (List.mem_map.2 ⟨n, hn, rfl⟩)

theorem filesOK_of_quiet {s s' : KState} (q : Quiet s s') (h : FilesOK s) : FilesOK s' := by
  rw [filesOK_iff_fviews] at h ⊢
  rw [q.1]; exact h

/-- `Trellis.delete_detached` keeps the state/hash consistency of every row (it only deletes rows
and clears step hashes). -/
theorem deleteDetachedBase_preserves : Preserves FilesOK (fun s => s.deleteDetachedBase) := by
  intro s s' hp h
  obtain ⟨D, spec⟩ := deleteDetachedBase_spec s s' h
  rw [filesOK_iff_cores] at hp ⊢
  intro c hc
  rw [spec.cores] at hc
  exact hp c (List.mem_filter.1 hc).1

/-- `Workflow.delete_detached` keeps the state/hash consistency of every row. -/
theorem deleteDetached_preserves : Preserves FilesOK (fun s => s.deleteDetached) := by
  intro s s' hp h
  obtain ⟨st, q, hb⟩ := deleteDetached_split s s' h
  exact deleteDetachedBase_preserves st s' (filesOK_of_quiet q hp) hb

end StepupModel.K
