import StepupModel.Lemmas.EverOutputCreate
/-!
# Product rows and their declarations: the declaring requests

The invariant `Inv O All A` of `Lemmas/EverOutputBase.lean` through `_declare_file`, `_supply_files`,
`declare_static_files`, `register_static_tree`, `define_step`, `amend_step`: the only place where a file row
enters a product state is `declareProduct`, for the paths handed to `declareProducts`, which have to be in `A`.
No property statements here.
-/
namespace StepupModel.K.Ever
open StepupModel.K.MetaAfter StepupModel.K.Discipline StepupModel.Lemmas
set_option linter.unusedSimpArgs false
set_option linter.unusedVariables false

/-- `Trellis.create k` keeps every row but those of `k` (key and role stay), whatever the state. -/
theorem create_keep {s s' : KState} {k : Key} {creator : Option Key} {init : Init} (hku : KeysUnique s)
    (h : s.create k creator init = .ok s') : Keep k s s' := by
  have hkn := kn_of_ku hku
  unfold KState.create at h
  cases hf : s.find? k with
  | some n =>
    simp only [hf] at h
    split at h
    · cases h
    · split at h
      · cases h
      · unfold KState.recycleCore at h
        simp only [bind, Except.bind] at h
        cases h1 : s.setCreator k creator (s.creatorDetached creator) with
        | error e => simp [h1] at h
        | ok s1 =>
          simp only [h1] at h
          cases h2 : s1.lostProduct n.creator with
          | error e => simp [h2] at h
          | ok s2 =>
            simp only [h2] at h
            cases h3 : (s2.deleteDeps fun dp => dp.snk = k).detachProducts k with
            | error e => simp [h3] at h
            | ok s3 =>
              simp only [h3] at h
              have hallow : s.creatorAllowed k creator (s.creatorDetached creator) = true := by
                unfold KState.setCreator at h1
                split at h1
                · assumption
                · cases h1
              have c1 : CInv k creator s s1 := by
                unfold KState.setCreator at h1
                rw [if_pos hallow] at h1
                simp only [pure, Except.pure, Except.ok.injEq] at h1
                subst h1
                have c0 : CInv k creator s (s.modify k fun n => { n with creator := creator }) := by
                  refine ⟨keep_modify s k _ (fun _ hm => hm), ?_, ?_⟩
                  · intro nk hnk
                    rw [find?_modify_k (fun n => { n with creator := creator }) (fun _ hm => hm), hf] at hnk
                    simp only [Option.map_some, Option.some.injEq] at hnk
                    rw [← hnk]; exact .inl rfl
                  · rw [find?_modify_k (fun n => { n with creator := creator }) (fun _ hm => hm), hf]; rfl
                exact c0.rel (structRel_setDetachedRow _ k _)
              have c2 := c1.soft (lostProduct_rel h2)
              have c3a := c2.rel (structRel_deleteDeps s2 fun dp => dp.snk = k)
              have r3 : StructRel (s2.deleteDeps fun dp => dp.snk = k) s3 := by
                unfold KState.detachProducts at h3
                exact structRel_foldl_detach _ _ _ h3
              have c3 := c3a.rel r3
              have hk1 := StableG.setCreator_preserves stable_keysNodup k creator _ s s1 hkn h1
              have hk2 := StableG.lostProduct_preserves stable_keysNodup n.creator s1 s2 hk1 h2
              have hk3a := StableG.deleteDeps stable_keysNodup s2 (fun dp => dp.snk = k) hk2
              have hk3 := StableG.detachProducts_preserves stable_keysNodup k _ s3 hk3a h3
              exact (initRow_cinv (ku_of_kn hk3) c3 h).1.keep
  | none =>
    simp only [hf] at h
    split at h
    · rename_i hins
      have cA : CInv k creator s (s.appendNode k creator) := by
        obtain ⟨nk, hnk, hcr⟩ := find?_append_self creator hf
        refine ⟨keep_of_rowChange (rowChange_append s k creator), ?_, by rw [hnk]; rfl⟩
        intro nk' hnk'
        rw [hnk] at hnk'; cases hnk'; exact .inl hcr
      have hkA := stable_keysNodup.appendNode s k creator hf hins hkn
      exact (initRow_cinv (ku_of_kn hkA) cA h).1.keep
    · cases h

/-- An update of columns that cleanup does not read (`Node.core`). -/
theorem inv_modify_core {O : Key → Prop} {X : Key → Prop} {A : String → Prop} {s : KState} (k : Key) (f : Node → Node)
    (hf : ∀ n, (f n).core = n.core) (h : Inv O X A s) : Inv O X A (s.modify k f) := by
  have hkey : ∀ n, (f n).key = n.key := fun n => congrArg (·.1) (hf n)
  refine h.keep (keepX_modify X s k f hkey fun n _ _ _ => ?_) (keysUnique_modify k f (fun n hn => (hkey n).trans hn) h.keys)
  have h2 : (f n).creator = n.creator := congrArg (·.2.1) (hf n)
  have h3 : (f n).detached = n.detached := congrArg (·.2.2.1) (hf n)
  have h4 : (f n).fstate = n.fstate := congrArg (·.2.2.2.1) (hf n)
  exact ⟨hkey n, by rw [h4], fun _ => ⟨.inl h2, fun hd => .inl (by rw [← h3]; exact hd)⟩⟩

theorem volatileSinkCheck_eq {s s' : KState} {p : String} {st : FileState} (h : s.volatileSinkCheck p st = .ok s') : s' = s := by
  unfold KState.volatileSinkCheck at h
  split at h
  · simp [graphErr] at h
  · simp only [pure, Except.pure, Except.ok.injEq] at h; exact h.symm

theorem declarable_cases {st : FileState} (h : Generated.Enums.declarableStates.contains st = true) :
    st = .unconfirmed ∨ st = .planned ∨ st = .volatile := by
  cases st <;> simp [Generated.Enums.declarableStates] at h ⊢

/-- `Workflow._declare_file`: a product state only for a label of `A` and an owning step or tree. -/
theorem declareFile_inv {O : Key → Prop} {A : String → Prop} (cfg : KConfig) (creator : Key) (p : String) (st : FileState)
    (hp : IsProduct st → A p ∧ O creator) : Preserves (Inv O All A) (fun s => s.declareFile cfg creator p st) := by
  intro s s' hI h
  replace h : s.declareFile cfg creator p st = .ok s' := h
  unfold KState.declareFile at h
  refine bind_ok_gen h (fun _ => Generated.Enums.declarableStates.contains st = true) ?_ (Inv O All A) ?_
  · intro _ hg
    unfold KState.declareFileGuard at hg
    by_cases hd : Generated.Enums.declarableStates.contains st = true
    · exact hd
    · rw [if_neg hd] at hg; cases hg
  · intro _ s2 hd hh
    refine bind_ok_gen hh (Inv O All A) (fun s1 h1 => ?_) (Inv O All A) ?_
    · refine create_inv (O := O) (A := A) (k := fileKey p) (creator := some creator) (init := .file st) ?_ s s1 hI h1
      refine ⟨rfl, fun hprod => ⟨(hp hprod).1, fun c hc => ?_⟩, fun hu => ?_⟩
      · cases hc; exact (hp hprod).2
      · rcases declarable_cases hd with h' | h' | h' <;> rw [h'] at hu <;> cases hu
    · intro s1 s2' h1 h2
      rw [volatileSinkCheck_eq h2]; exact h1

theorem not_product_unconfirmed : ¬ IsProduct FileState.unconfirmed := by decide

theorem declareAll_inv {O : Key → Prop} {A : String → Prop} (cfg : KConfig) (todo : List (Key × String)) (st : FileState)
    (hst : ¬ IsProduct st) : Preserves (Inv O All A) (fun s => s.declareAll cfg todo st) := by
  intro s s' hp h
  replace h : s.declareAll cfg todo st = .ok s' := h
  unfold KState.declareAll at h
  exact foldlM_preserves (Inv O All A) (fun (acc : KState) (dp : Key × String) => acc.declareFile cfg dp.1 dp.2 st) todo
    (fun dp => declareFile_inv cfg dp.1 dp.2 st (fun hprod => absurd hprod hst)) s s' hp h

theorem declareStaticFiles_inv {O : Key → Prop} {A : String → Prop} (cfg : KConfig) (creator : Key) (paths : List String) (s : KState)
    (r : KState × List String) (hp : Inv O All A s) (h : s.declareStaticFiles cfg creator paths = .ok r) : Inv O All A r.1 := by
  unfold KState.declareStaticFiles at h
  refine bind_ok_gen h (fun _ => True) (fun _ _ => trivial) (fun r => Inv O All A r.1) ?_
  intro todo r1 _ hh
  refine bind_ok_gen hh (Inv O All A) (fun a ha => declareAll_inv cfg todo _ not_product_unconfirmed s a hp ha)
    (fun r => Inv O All A r.1) ?_
  intro a b ha hb
  simp only [pure, Except.pure, Except.ok.injEq] at hb
  subst hb; exact ha

theorem node_unique {s : KState} (hk : KeysUnique s) {n m : Node} (hn : n ∈ s.nodes) (hm : m ∈ s.nodes)
    (h : n.key = m.key) : n = m := by
  have h1 := find?_of_mem hk hn
  have h2 := find?_of_mem hk hm
  rw [h, h2] at h1
  exact (Option.some.inj h1).symm

/-- The plain `UPDATE node SET creator = ?` of `register_static_tree`, on static file rows. -/
theorem handOver_inv {O : Key → Prop} {A : String → Prop} {s : KState} (tk : Key) (hs : List Key) (h : Inv O All A s)
    (hstatic : ∀ k ∈ hs, ∀ n ∈ s.nodes, n.key = k → n.fstate.role? = some .static) :
    Inv O All A (s.handOver tk hs) := by
  rw [handOver_nodes]
  have hmem : ∀ n' ∈ (s.nodes.map fun n => if n.key ∈ hs then { n with creator := some tk } else n),
      n' ∈ s.nodes ∨ (n'.fstate.role? = some .static) := by
    intro n' hn'
    obtain ⟨n, hn, rfl⟩ := List.mem_map.1 hn'
    by_cases hk : n.key ∈ hs
    · rw [if_pos hk]; exact .inr (hstatic n.key hk n hn rfl)
    · rw [if_neg hk]; exact .inl hn
  refine ⟨?_, ?_, ?_, ?_⟩
  · unfold KeysUnique
    simp only [List.map_map]
    have : (s.nodes.map ((fun x => x.key) ∘ fun n => if n.key ∈ hs then { n with creator := some tk } else n)) =
        s.nodes.map (·.key) := by
      apply List.map_congr_left
      intro n _
      simp only [Function.comp]
      split <;> rfl
    rw [this]; exact h.keys
  · intro n' hn' hkind hp
    rcases hmem n' hn' with hn | hr
    · exact h.prod n' hn hkind hp
    · unfold IsProduct at hp; rw [hr] at hp; rcases hp with hp | hp <;> cases hp
  · intro n' hn' hkind _ hp
    rcases hmem n' hn' with hn | hr
    · exact h.own n' hn hkind trivial hp
    · unfold IsProduct at hp; rw [hr] at hp; rcases hp with hp | hp <;> cases hp
  · intro n' hn' hkind _ hu
    rcases hmem n' hn' with hn | hr
    · exact h.und n' hn hkind trivial hu
    · rw [hu] at hr; cases hr

theorem registerTreeBody_inv {O : Key → Prop} {A : String → Prop} (cfg : KConfig) (creator : Key) (path : String) (g : Option (List Key))
    (s : KState) (r : KState × List String) (hp : Inv O All A s)
    (hg : ∀ hs, g = some hs → ∀ k ∈ hs, ∃ n ∈ s.nodes, n.key = k ∧ n.key.kind = .file ∧ n.fstate.role? = some .static)
    (h : s.registerTreeBody cfg creator path g = .ok r) : Inv O All A r.1 := by
  cases g with
  | none =>
    simp only [KState.registerTreeBody, pure, Except.pure, Except.ok.injEq] at h
    subst h; exact hp
  | some hs =>
    simp only [KState.registerTreeBody] at h
    refine bind_ok_gen h (fun s1 => Inv O All A s1 ∧ Keep (treeKey path) s s1)
      (fun s1 h1 => ⟨create_inv (O := O) (A := A) (k := treeKey path) (creator := some creator) (init := .tree)
        (by show (treeKey path).kind ≠ .file; intro hh; cases hh) s s1 hp h1, create_keep hp.keys h1⟩) (fun r => Inv O All A r.1) ?_
    intro s1 r1 hp1 hh
    refine declareStaticFiles_inv cfg _ _ _ r1 (handOver_inv _ hs hp1.1 ?_) hh
    intro k hk n1 hn1 hn1k
    obtain ⟨m, hm, hmk, hmkind, hmrole⟩ := hg hs rfl k hk
    have hne : n1.key ≠ treeKey path := by
      intro he
      rw [hn1k, ← hmk] at he
      rw [he] at hmkind; cases hmkind
    obtain ⟨n, hn, hrow⟩ := hp1.2.mem n1 hn1 hne
    have : n = m := node_unique hp.keys hn hm (by rw [← hrow.1, hn1k, hmk])
    rw [hrow.2.1, this]; exact hmrole

theorem registerStaticTree_inv {O : Key → Prop} {A : String → Prop} (cfg : KConfig) (creator : Key) (path : String) (s : KState)
    (r : KState × List String) (hp : Inv O All A s) (h : s.registerStaticTree cfg creator path = .ok r) : Inv O All A r.1 := by
  unfold KState.registerStaticTree at h
  refine bind_ok_gen h (fun _ => True) (fun _ _ => trivial) (fun r => Inv O All A r.1) ?_
  intro _ r1 _ hh
  refine bind_ok_gen hh (fun g => ∀ hs, g = some hs → ∀ k ∈ hs, ∃ n ∈ s.nodes, n.key = k ∧ n.key.kind = .file ∧
    n.fstate.role? = some .static) (fun g hg hs he => treeGuard_static (he ▸ hg)) (fun r => Inv O All A r.1) ?_
  intro g r2 hg hh2
  exact registerTreeBody_inv cfg creator _ g s r2 hp hg hh2

/-! ## Supplying inputs -/

theorem adoptByTree_inv {O : Key → Prop} {A : String → Prop} (cfg : KConfig) (path : String) (t : Key) (s : KState) (r : KState × FileState × Bool)
    (hp : Inv O All A s) (h : s.adoptByTree cfg path t = .ok r) : Inv O All A r.1 := by
  unfold KState.adoptByTree at h
  refine bind_ok_gen h (fun _ => True) (fun _ _ => trivial) (fun r => Inv O All A r.1) ?_
  intro _ r1 _ hh
  refine bind_ok_gen hh (Inv O All A)
    (fun s1 h1 => create_inv (O := O) (A := A) (k := fileKey path) (creator := some t) (init := .file .unconfirmed)
      ⟨rfl, fun hprod => absurd hprod not_product_unconfirmed, fun hu => by cases hu⟩ s s1 hp h1) (fun r => Inv O All A r.1) ?_
  intro s1 r2 hp1 hh2
  simp only [pure, Except.pure, Except.ok.injEq] at hh2
  subst hh2; exact hp1

theorem placeholder_inv {O : Key → Prop} {A : String → Prop} (path : String) (s : KState) (r : KState × FileState × Bool)
    (hp : Inv O All A s) (h : s.placeholder path = .ok r) : Inv O All A r.1 := by
  unfold KState.placeholder at h
  refine bind_ok_gen h (Inv O All A)
    (fun s1 h1 => create_inv (O := O) (A := A) (k := fileKey path) (creator := none) (init := .file .undeclared)
      ⟨rfl, fun hprod => absurd hprod (by decide), fun _ => rfl⟩ s s1 hp h1) (fun r => Inv O All A r.1) ?_
  intro s1 r2 hp1 hh2
  simp only [pure, Except.pure, Except.ok.injEq] at hh2
  subst hh2; exact hp1

theorem resolveWith_inv {O : Key → Prop} {A : String → Prop} (cfg : KConfig) (path : String) (tree : Option Key) (node : Option Node) (s : KState)
    (r : KState × FileState × Bool) (hp : Inv O All A s) (h : s.resolveWith cfg path tree node = .ok r) : Inv O All A r.1 := by
  cases tree with
  | some t =>
    simp only [KState.resolveWith] at h
    exact adoptByTree_inv cfg path t s r hp h
  | none =>
    cases node with
    | none =>
      simp only [KState.resolveWith] at h
      split at h
      · simp [bind, Except.bind, throw, throwThe, MonadExceptOf.throw] at h
      · exact placeholder_inv path s r hp h
    | some n =>
      simp only [KState.resolveWith] at h
      split at h
      · exact placeholder_inv path s r hp h
      · refine bind_ok_gen h (fun _ => True) (fun _ _ => trivial) (fun r => Inv O All A r.1) ?_
        intro _ r1 _ hh
        simp only [pure, Except.pure, Except.ok.injEq] at hh
        subst hh; exact hp

theorem resolveNode_inv {O : Key → Prop} {A : String → Prop} (cfg : KConfig) (path : String) (s : KState) (r : KState × FileState × Bool)
    (hp : Inv O All A s) (h : s.resolveNode cfg path = .ok r) : Inv O All A r.1 := by
  unfold KState.resolveNode at h
  refine bind_ok_gen h (fun _ => True) (fun _ _ => trivial) (fun r => Inv O All A r.1) ?_
  intro tree r1 _ hh
  exact resolveWith_inv cfg path tree _ s r1 hp hh

theorem resolveSupply_inv {O : Key → Prop} {A : String → Prop} (cfg : KConfig) (step : Key) (path : String) (rn : Bool) (s : KState)
    (r : KState × Supply) (hp : Inv O All A s) (h : s.resolveSupply cfg step path rn = .ok r) : Inv O All A r.1 := by
  unfold KState.resolveSupply at h
  refine bind_ok_gen h (fun a => Inv O All A a.1) (fun a ha => resolveNode_inv cfg path s a hp ha)
    (fun r => Inv O All A r.1) ?_
  intro a r1 ha hh
  obtain ⟨s1, state, detached⟩ := a
  simp only at hh
  split at hh
  · simp [graphErr, bind, Except.bind] at hh
  · simp only [pure, Except.pure, bind, Except.bind, Except.ok.injEq] at hh
    subst hh; exact ha

theorem resolveAll_inv {O : Key → Prop} {A : String → Prop} (cfg : KConfig) (step : Key) (paths : List String) (rn : Bool) (s : KState)
    (r : KState × List Supply) (hp : Inv O All A s) (h : s.resolveAll cfg step paths rn = .ok r) : Inv O All A r.1 := by
  unfold KState.resolveAll at h
  refine foldlM_inv (fun (a : KState × List Supply) => Inv O All A a.1) _ paths ?_ (s, []) r hp h
  intro a x b ha hb
  refine bind_ok_gen hb (fun c => Inv O All A c.1) (fun c hc => resolveSupply_inv cfg step x rn a.1 c ha hc)
    (fun r => Inv O All A r.1) ?_
  intro c d hc hd
  obtain ⟨s', i⟩ := c
  simp only [pure, Except.pure, Except.ok.injEq] at hd
  subst hd; exact hc

theorem insertNewEdges_inv {O : Key → Prop} {A : String → Prop} (step : Key) (infos : List Supply) :
    Preserves (Inv O All A) (fun s => s.insertNewEdges step infos) := by
  intro s s' hp h
  replace h : s.insertNewEdges step infos = .ok s' := h
  unfold KState.insertNewEdges at h
  exact foldlM_preserves (Inv O All A) (fun (st : KState) (i : Supply) => st.insertDep i.file step) _
    (fun i => insertDep_inv i.file step) s s' hp h

theorem supplyFiles_inv {O : Key → Prop} {A : String → Prop} (cfg : KConfig) (step : Key) (paths : List String) (rn : Bool) (s : KState)
    (r : KState × List Supply) (hp : Inv O All A s) (h : s.supplyFiles cfg step paths rn = .ok r) : Inv O All A r.1 := by
  unfold KState.supplyFiles at h
  refine bind_ok_gen h (fun a => Inv O All A a.1) (fun a ha => resolveAll_inv cfg step paths rn s a hp ha)
    (fun r => Inv O All A r.1) ?_
  intro a r1 ha hh
  obtain ⟨s1, infos⟩ := a
  simp only at hh
  split at hh
  · simp [bind, Except.bind, throw, throwThe, MonadExceptOf.throw] at hh
  · simp only [pure, Except.pure, bind, Except.bind] at hh
    refine bind_ok_gen hh (Inv O All A) (fun s2 h2 => insertNewEdges_inv step infos s1 s2 ha h2) (fun r => Inv O All A r.1) ?_
    intro s2 r2 hp2 hh2
    simp only [pure, Except.pure, Except.ok.injEq] at hh2
    subst hh2; exact hp2

/-! ## Products -/

/-- An accepted `INSERT INTO dependency(source, sink)` into a file has a step or a tree as source. -/
theorem insertDep_ownerKind {s s' : KState} {a : Key} {p : String} (h : s.insertDep a (fileKey p) = .ok s') : OwnerKind a := by
  unfold KState.insertDep at h
  simp only [bind, Except.bind] at h
  split at h
  · cases h
  · split at h
    · cases h
    · rename_i hk
      unfold OwnerKind
      unfold depKindOk at hk
      cases hka : a.kind <;> simp [hka, fileKey] at hk ⊢

theorem addSourceChecked_ownerKind {s s' : KState} {a : Key} {p : String}
    (h : s.addSourceChecked (fileKey p) a = .ok s') : OwnerKind a := by
  unfold KState.addSourceChecked at h
  split at h
  · simp [bind, Except.bind, throw, throwThe, MonadExceptOf.throw] at h
  · simp only [pure, Except.pure, bind, Except.bind] at h
    exact insertDep_ownerKind h

theorem addSourceChecked_inv {O : Key → Prop} {A : String → Prop} (a b : Key) : Preserves (Inv O All A) (fun s => s.addSourceChecked a b) := by
  intro s s' hp h
  replace h : s.addSourceChecked a b = .ok s' := h
  unfold KState.addSourceChecked at h
  split at h
  · simp [bind, Except.bind, throw, throwThe, MonadExceptOf.throw] at h
  · simp only [pure, Except.pure, bind, Except.bind] at h
    exact insertDep_inv b a s s' hp h

/-- `_declare_file` + `file.add_source(step)`: accepted only for a step or tree, and then the label
has to be in `A` when the state is a product state. -/
theorem declareProduct_inv {O : Key → Prop} {A : String → Prop} (cfg : KConfig) (step : Key) (p : String) (st : FileState)
    (ho : OwnerKind step → O step) (hp : IsProduct st → A p) :
    Preserves (Inv O All A) (fun s => s.declareProduct cfg step p st) := by
  intro s s' hI h
  replace h : s.declareProduct cfg step p st = .ok s' := h
  unfold KState.declareProduct at h
  simp only [bind, Except.bind] at h
  cases h1 : s.declareFile cfg step p st with
  | error e => simp [h1] at h
  | ok s1 =>
    simp only [h1] at h
    have hown := addSourceChecked_ownerKind h
    exact addSourceChecked_inv _ _ s1 s' (declareFile_inv cfg step p st (fun hprod => ⟨hp hprod, ho hown⟩) s s1 hI h1) h

theorem declareProducts_inv {O : Key → Prop} {A : String → Prop} (cfg : KConfig) (step : Key) (ps : List String) (st : FileState)
    (ho : OwnerKind step → O step) (hp : ∀ p ∈ ps, A p) :
    Preserves (Inv O All A) (fun s => s.declareProducts cfg step ps st) := by
  intro s s' hI h
  replace h : s.declareProducts cfg step ps st = .ok s' := h
  unfold KState.declareProducts at h
  exact foldlM_inv_mem (Inv O All A) (fun (acc : KState) (p : String) => acc.declareProduct cfg step p st) ps
    (fun p hpm s1 s2 h1 h2 => declareProduct_inv cfg step p st ho (fun _ => hp p hpm) s1 s2 h1 h2) s s' hI h

/-! ## `define_step` -/

theorem setStepExtras_inv {O : Key → Prop} {A : String → Prop} (s : KState) (sk : Key) (d : StepDecl) (hp : Inv O All A s) :
    Inv O All A (s.setStepExtras sk d) := inv_modify_core _ _ (fun _ => rfl) hp

theorem afterRecycle_inv {O : Key → Prop} {A : String → Prop} (sk : Key) (d : StepDecl) (n : Node) :
    Preserves (Inv O All A) (fun s => s.afterRecycle sk d n) := by
  intro s s' hp h
  replace h : s.afterRecycle sk d n = .ok s' := h
  unfold KState.afterRecycle at h
  have hp2 : Inv O All A (s.modify sk fun n => { n with need := d.need, shell := d.shell }) :=
    inv_modify_core _ _ (fun _ => rfl) hp
  split at h
  · exact Inv.of_soft (fun s0 => markStepPending'_soft sk) _ s' hp2 h
  · simp only [pure, Except.pure, Except.ok.injEq] at h; subst h; exact hp2

theorem recycleStep_inv {O : Key → Prop} {A : String → Prop} (sk creator : Key) (d : StepDecl) (n : Node) (hsk : sk.kind ≠ .file) :
    Preserves (Inv O All A) (fun s => s.recycleStep sk creator d n) := by
  intro s s' hp h
  replace h : s.recycleStep sk creator d n = .ok s' := h
  unfold KState.recycleStep at h
  refine bind_ok h (fun s1 h1 => reattach_inv sk creator hsk s s1 hp h1) ?_
  intro s1 s1' hp1 hh
  refine bind_ok hh (fun s3 h3 => afterRecycle_inv sk d n s1 s3 hp1 h3) ?_
  intro s3 s3' hp3 h4
  simp only [pure, Except.pure, Except.ok.injEq] at h4
  subst h4
  exact setStepExtras_inv _ _ _ hp3

theorem addEnvDeps_core (cfg : KConfig) (names : List String) : ∀ n : Node, (addEnvDeps cfg n names).core = n.core := by
  unfold addEnvDeps
  induction names with
  | nil => intro n; rfl
  | cons x xs ih => intro n; simp only [List.foldl_cons]; exact (ih _).trans rfl

theorem createStep_inv {O : Key → Prop} {A : String → Prop} (cfg : KConfig) (sk creator : Key) (d : StepDecl) (s : KState)
    (r : KState × List String) (hsk : sk.kind ≠ .file) (ho : OwnerKind sk → O sk) (hout : ∀ p ∈ d.out, A p) (hvol : ∀ p ∈ d.vol, A p)
    (hp : Inv O All A s) (h : s.createStep cfg sk creator d = .ok r) : Inv O All A r.1 := by
  unfold KState.createStep at h
  refine bind_ok_gen h (Inv O All A) (fun s1 h1 => create_inv (O := O) (A := A) (k := sk) (creator := some creator)
    (init := .step _) hsk s s1 hp h1) (fun r => Inv O All A r.1) ?_
  intro s1 r1 hp1 hh
  have hp2 : Inv O All A (s1.setStepExtras sk d) := setStepExtras_inv _ _ _ hp1
  refine bind_ok_gen hh (fun a => Inv O All A a.1) (fun a ha => supplyFiles_inv cfg sk d.inp true _ a hp2 ha)
    (fun r => Inv O All A r.1) ?_
  intro a r2 ha hh2
  obtain ⟨s3, infos⟩ := a
  simp only at hh2
  have hp4 : Inv O All A (s3.modify sk fun n => addEnvDeps cfg n d.env) :=
    inv_modify_core _ _ (fun n => addEnvDeps_core cfg d.env n) ha
  refine bind_ok_gen hh2 (Inv O All A) (fun s5 h5 => declareProducts_inv cfg sk d.out .planned ho hout _ s5 hp4 h5)
    (fun r => Inv O All A r.1) ?_
  intro s5 r3 hp5 hh3
  refine bind_ok_gen hh3 (Inv O All A) (fun s6 h6 => declareProducts_inv cfg sk d.vol .volatile ho hvol _ s6 hp5 h6)
    (fun r => Inv O All A r.1) ?_
  intro s6 r4 hp6 hh4
  simp only [pure, Except.pure, Except.ok.injEq] at hh4
  subst hh4; exact hp6

/-- `Workflow.define_step`: the declared outputs and volatile outputs have to be in `A`. -/
theorem defineStep_inv {O : Key → Prop} {A : String → Prop} (cfg : KConfig) (creator : Key) (d : StepDecl) (s : KState)
    (r : KState × List String) (hstep : ∀ c, c.kind = .step → O c) (hout : ∀ p ∈ normPaths d.out, A p)
    (hvol : ∀ p ∈ normPaths d.vol, A p) (hp : Inv O All A s) (h : s.defineStep cfg creator d = .ok r) : Inv O All A r.1 := by
  unfold KState.defineStep at h
  refine bind_ok_gen h (fun sk => sk.kind = .step) (fun sk hg => Discipline.defineGuard_kind hg) (fun r => Inv O All A r.1) ?_
  intro sk r1 hsk hh
  have hskf : sk.kind ≠ .file := by rw [hsk]; intro hh; cases hh
  split at hh
  · split at hh
    · refine bind_ok_gen hh (Inv O All A) (fun s1 h1 => recycleStep_inv sk creator _ _ hskf s s1 hp h1) (fun r => Inv O All A r.1) ?_
      intro s1 r2 hp1 hh2
      simp only [pure, Except.pure, Except.ok.injEq] at hh2
      subst hh2; exact hp1
    · refine bind_ok_gen hh (fun _ => True) (fun _ _ => trivial) (fun r => Inv O All A r.1) ?_
      intro _ r2 _ hh2
      exact createStep_inv cfg sk creator _ s r2 hskf (fun _ => hstep sk hsk) hout hvol hp hh2
  · refine bind_ok_gen hh (fun _ => True) (fun _ _ => trivial) (fun r => Inv O All A r.1) ?_
    intro _ r2 _ hh2
    exact createStep_inv cfg sk creator _ s r2 hskf (fun _ => hstep sk hsk) hout hvol hp hh2

/-! ## `amend_step` -/

theorem setDynamic_inv {O : Key → Prop} {A : String → Prop} (s : KState) (a b : Key) (d : Bool) (hp : Inv O All A s) : Inv O All A (s.setDynamic a b d) := by
  unfold KState.setDynamic
  refine inv_modify_core _ _ (fun n => ?_) (hp.nodes rfl)
  split <;> rfl

theorem markDynamic_inv {O : Key → Prop} {A : String → Prop} (s : KState) (edges : List (Key × Key)) (hp : Inv O All A s) :
    Inv O All A (s.markDynamic edges) := by
  unfold KState.markDynamic
  induction edges generalizing s with
  | nil => exact hp
  | cons e es ih => simp only [List.foldl_cons]; exact ih _ (setDynamic_inv s _ _ _ hp)

theorem filterMapM_sub {α : Type} (f : α → M (Option α)) (hf : ∀ a b, f a = .ok (some b) → b = a) :
    ∀ (l r : List α), l.filterMapM f = .ok r → ∀ b ∈ r, b ∈ l := by
  intro l
  induction l with
  | nil =>
    intro r h p hp
    simp only [List.filterMapM_nil, pure, Except.pure, Except.ok.injEq] at h
    subst h; cases hp
  | cons a l ih =>
    intro r h p hp
    rw [List.filterMapM_cons] at h
    cases hc : f a with
    | error e => simp [hc, bind, Except.bind] at h
    | ok b =>
      cases hl : l.filterMapM f with
      | error e => cases b <;> simp [hc, hl, bind, Except.bind, pure, Except.pure] at h
      | ok rl =>
        cases b with
        | none =>
          simp only [hc, hl, bind, Except.bind, Except.ok.injEq] at h
          subst h
          exact List.mem_cons_of_mem _ (ih rl hl p hp)
        | some b =>
          simp only [hc, hl, bind, Except.bind, pure, Except.pure, Except.ok.injEq] at h
          subst h
          rcases List.mem_cons.1 hp with rfl | hp
          · rw [hf a p hc]; exact List.mem_cons_self
          · exact List.mem_cons_of_mem _ (ih rl hl p hp)

theorem newProducts_sub (s : KState) (step : Key) (role : FileRole) (paths r : List String)
    (h : s.newProducts step paths role = .ok r) : ∀ p ∈ r, p ∈ paths := by
  unfold KState.newProducts at h
  refine filterMapM_sub _ ?_ paths r h
  intro a b hab
  simp only [bind, Except.bind] at hab
  cases hc : s.checkDeclaration (some step) a role with
  | error e => simp [hc] at hab
  | ok v =>
    cases v <;> simp [hc, pure, Except.pure] at hab
    exact hab.symm

theorem amendProducts_inv {O : Key → Prop} {A : String → Prop} (cfg : KConfig) (step : Key) (infos : List Supply) (env out vol : List String)
    (conc : List Key) (s1 : KState) (r : KState × AmendResult) (ho : OwnerKind step → O step) (hout : ∀ p ∈ normPaths out, A p)
    (hvol : ∀ p ∈ normPaths vol, A p) (ha : Inv O All A s1)
    (hh : s1.amendProducts cfg step infos env out vol conc = .ok r) : Inv O All A r.1 := by
  unfold KState.amendProducts at hh
  have hp2 : Inv O All A (s1.amendEnv cfg step env) := ha.soft (amendEnv_rel s1 cfg step env)
  refine bind_ok_gen hh (fun out' => ∀ p ∈ out', A p)
    (fun out' ho p hp => hout p (newProducts_sub _ step .output _ out' ho p hp)) (fun r => Inv O All A r.1) ?_
  intro out' r2 hout' hh2
  refine bind_ok_gen hh2 (fun vol' => ∀ p ∈ vol', A p)
    (fun vol' hv p hp => hvol p (newProducts_sub _ step .volatile _ vol' hv p hp)) (fun r => Inv O All A r.1) ?_
  intro vol' r3 hvol' hh3
  refine bind_ok_gen hh3 (fun _ => True) (fun _ _ => trivial) (fun r => Inv O All A r.1) ?_
  intro _ r4 _ hh4
  refine bind_ok_gen hh4 (fun _ => True) (fun _ _ => trivial) (fun r => Inv O All A r.1) ?_
  intro _ r5 _ hh5
  refine bind_ok_gen hh5 (Inv O All A) (fun s3 h3 => declareProducts_inv cfg step out' .planned ho hout' _ s3 hp2 h3)
    (fun r => Inv O All A r.1) ?_
  intro s3 r6 hp3 hh6
  refine bind_ok_gen hh6 (Inv O All A) (fun s4 h4 => declareProducts_inv cfg step vol' .volatile ho hvol' _ s4 hp3 h4)
    (fun r => Inv O All A r.1) ?_
  intro s4 r7 hp4 hh7
  simp only [pure, Except.pure, Except.ok.injEq] at hh7
  subst hh7
  exact markDynamic_inv _ _ hp4

/-- `Workflow.amend_step`: the amended outputs and volatile outputs have to be in `A`. -/
theorem amendStep_inv {O : Key → Prop} {A : String → Prop} (cfg : KConfig) (step : Key) (inp env out vol : List String) (conc : List Key)
    (s : KState) (r : KState × AmendResult) (ho : OwnerKind step → O step) (hout : ∀ p ∈ normPaths out, A p)
    (hvol : ∀ p ∈ normPaths vol, A p) (hp : Inv O All A s) (h : s.amendStep cfg step inp env out vol conc = .ok r) : Inv O All A r.1 := by
  unfold KState.amendStep at h
  refine bind_ok_gen h (fun _ => True) (fun _ _ => trivial) (fun r => Inv O All A r.1) ?_
  intro _ r0 _ h0
  refine bind_ok_gen h0 (fun a => Inv O All A a.1) (fun a ha => supplyFiles_inv cfg step _ false s a hp ha)
    (fun r => Inv O All A r.1) ?_
  intro a r1 ha hh
  obtain ⟨s1, infos⟩ := a
  exact amendProducts_inv cfg step infos env out vol conc s1 r1 ho hout hvol ha hh

/-! ## `declare_static` -/

theorem registerNglobs_inv {O : Key → Prop} {A : String → Prop} (creator : Key) (patterns : List (String × List String)) :
    Preserves (Inv O All A) (fun s => s.registerNglobs creator patterns) := by
  intro s s' hp h
  replace h : s.registerNglobs creator patterns = .ok s' := h
  unfold KState.registerNglobs at h
  exact foldlM_preserves (Inv O All A) (fun (st : KState) (pm : String × List String) => st.registerNglob creator pm.1 pm.2)
    patterns (fun pm => Inv.of_soft (fun s0 => registerNglob_soft creator pm.1 pm.2)) s s' hp h

theorem registerTrees_inv {O : Key → Prop} {A : String → Prop} (cfg : KConfig) (creator : Key) (trees : List String) (s : KState)
    (r : KState × List String) (hp : Inv O All A s) (h : s.registerTrees cfg creator trees = .ok r) : Inv O All A r.1 := by
  unfold KState.registerTrees at h
  refine foldlM_inv (fun (a : KState × List String) => Inv O All A a.1) _ trees ?_ (s, []) r hp h
  intro a x b ha hb
  refine bind_ok_gen hb (fun c => Inv O All A c.1) (fun c hc => registerStaticTree_inv cfg creator x a.1 c ha hc)
    (fun r => Inv O All A r.1) ?_
  intro c d hc hd
  obtain ⟨s', chk⟩ := c
  simp only [pure, Except.pure, Except.ok.injEq] at hd
  subst hd; exact hc

theorem declareStaticRequest_inv {O : Key → Prop} {A : String → Prop} (cfg : KConfig) (creator : Key) (trees files : List String)
    (patterns : List (String × List String)) (s : KState) (r : KState × List String) (hp : Inv O All A s)
    (h : s.declareStaticRequest cfg creator trees files patterns = .ok r) : Inv O All A r.1 := by
  unfold KState.declareStaticRequest at h
  refine bind_ok_gen h (fun a => Inv O All A a.1) (fun a ha => registerTrees_inv cfg creator trees s a hp ha)
    (fun r => Inv O All A r.1) ?_
  intro a r1 ha hh
  obtain ⟨s1, chk1⟩ := a
  simp only at hh
  refine bind_ok_gen hh (fun a => Inv O All A a.1) (fun a h2 => declareStaticFiles_inv cfg creator files s1 a ha h2)
    (fun r => Inv O All A r.1) ?_
  intro a2 r2 ha2 hh2
  obtain ⟨s2, chk2⟩ := a2
  simp only at hh2
  refine bind_ok_gen hh2 (Inv O All A) (fun s3 h3 => registerNglobs_inv creator patterns s2 s3 ha2 h3)
    (fun r => Inv O All A r.1) ?_
  intro s3 r3 hp3 hh3
  simp only [pure, Except.pure, Except.ok.injEq] at hh3
  subst hh3; exact hp3

end StepupModel.K.Ever
