import StepupModel.Lemmas.DisciplineBase
/-!
# The flag discipline of `_update_meta_after`: the operations that change a state softly

`SP s0 s`: keys of `s0` are unique and `s` is a soft change of `s0` (`Lemmas/DisciplineBase.lean`).
Every operation of the kernel model that neither rewrites the dependency table nor a `detached` or
`creator` column is shown to preserve `SP s0` for every `s0` (the leaves are the three kinds of row
update below; the composites are the proofs of `Lemmas/Stable.lean` with these leaves), hence to
preserve the weak flag discipline `CacheInvAfterW` (`..._disc` theorems at the end of each
section).  The only proof obligation that is not structural is on `UPDATE file SET state`: the row
must keep its role (static, output or volatile).
-/
namespace StepupModel.K.Discipline
open StepupModel.K.MetaAfter StepupModel.Lemmas StepupModel.Generated
set_option linter.unusedSimpArgs false
set_option linter.unusedVariables false

/-- `s` is a soft change of `s0`, whose keys are unique. -/
def SP (s0 s : KState) : Prop := KeysUnique s0 ∧ SoftRel s0 s

theorem SP.refl {s : KState} (hk : KeysUnique s) : SP s s := ⟨hk, SoftRel.refl s⟩

theorem SP.keys {s0 s : KState} (h : SP s0 s) : KeysUnique s := h.2.keysUnique h.1

theorem SP.step {s0 s s' : KState} (h : SP s0 s) (h' : SoftRel s s') : SP s0 s' := ⟨h.1, h.2.trans h'⟩

/-- The discipline travels along `SP`. -/
theorem SP.disc {s0 s : KState} (cfg : KConfig) (h : SP s0 s) (hc : CacheInvAfterW s0 cfg) : CacheInvAfterW s cfg :=
  cacheInvW_soft cfg h.2 hc

/-- From "preserves `SP s0` for every `s0`" to the discipline itself. -/
theorem disc_of_soft {f : KState → M KState} (hf : ∀ s0, Preserves (SP s0) f) (cfg : KConfig) (s s' : KState)
    (hk : KeysUnique s) (hc : CacheInvAfterW s cfg) (h : f s = .ok s') : CacheInvAfterW s' cfg ∧ KeysUnique s' :=
  have := hf s s s' (SP.refl hk) h
  ⟨this.disc cfg hc, this.keys⟩

/-! ## Leaves -/

theorem SP.cache {s0 s : KState} (p : Node → Bool) {f : Node → Node} (hf : SoftFn f) (h : SP s0 s) :
    SP s0 (s.modifyWhere p f) := h.step (softRel_modifyWhere s p hf)

theorem SP.cacheAt {s0 s : KState} (k : Key) {f : Node → Node} (hf : SoftFn f) (h : SP s0 s) :
    SP s0 (s.modify k f) := h.step (softRel_modify s k hf)

theorem SP.queue {s0 s : KState} (q : List (String × Option Nat)) (h : SP s0 s) :
    SP s0 { s with toBeDeleted := q } := h.step (softRel_queue s q)

/-- Replacing the row of `k` (found as `n`) by a softly changed copy. -/
theorem SP.replace {s0 s : KState} {k : Key} {n n' : Node} (hf : s.find? k = some n) (hr : SoftRow n n')
    (h : SP s0 s) : SP s0 (s.modify k fun _ => n') := by
  refine h.step ?_
  unfold KState.modify
  refine softRel_mapNodes s _ fun m hm => ?_
  by_cases hmk : m.key = k
  · simp only [hmk, if_true]
    have := find?_of_mem h.keys hm
    rw [hmk, hf] at this
    cases this
    exact hr
  · simp only [hmk, if_false]; exact SoftRow.refl m

theorem softFn_rfl {f : Node → Node} (h1 : ∀ n, (f n).key = n.key) (h2 : ∀ n, (f n).detached = n.detached)
    (h0 : ∀ n, (f n).creator = n.creator) (h3 : ∀ n, (f n).fstate = n.fstate) (h4 : ∀ n, (f n).checkAfter = n.checkAfter) (h5 : ∀ n, (f n).need = n.need)
    (h6 : ∀ n, (f n).impliedNeed = n.impliedNeed) (h7 : ∀ n, (f n).tail = n.tail) : SoftFn f :=
  fun n => ⟨h1 n, h2 n, ⟨h0 n, by rw [h3 n]⟩, fun h => by rw [h4 n]; exact h, .inr ⟨h5 n, h6 n, h7 n⟩⟩

/-- Raising `_check_after` (and touching other cache columns) is soft. -/
theorem softFn_flag {f : Node → Node} (h1 : ∀ n, (f n).key = n.key) (h2 : ∀ n, (f n).detached = n.detached)
    (h0 : ∀ n, (f n).creator = n.creator) (h3 : ∀ n, (f n).fstate = n.fstate) (h4 : ∀ n, (f n).checkAfter = true) :
    SoftFn f :=
  fun n => ⟨h1 n, h2 n, ⟨h0 n, by rw [h3 n]⟩, fun _ => h4 n, .inl (h4 n)⟩

theorem fileRowWrite_soft {n n' : Node} {st : FileState} {nh : Option (Option Nat)}
    (h : fileRowWrite n st nh = .ok n') (hv : st.role? = n.fstate.role?) : SoftRow n n' := by
  unfold fileRowWrite at h
  simp only at h
  split at h
  · cases h
  · split at h
    · cases h
    · simp only [pure, Except.pure, Except.ok.injEq] at h
      subst h
      exact ⟨rfl, rfl, ⟨rfl, hv⟩, id, .inr ⟨rfl, rfl, rfl⟩⟩

theorem stepRowWrite_soft {n n' : Node} {st : StepState} {d : Option Bool}
    (h : stepRowWrite n st d = .ok n') : SoftRow n n' := by
  unfold stepRowWrite at h
  simp only at h
  split at h
  · cases h
  · simp only [pure, Except.pure, Except.ok.injEq] at h
    subst h
    exact ⟨rfl, rfl, ⟨rfl, rfl⟩, id, .inr ⟨rfl, rfl, rfl⟩⟩

/-! ## Primitive writes -/

section
variable {s0 : KState}

theorem flagReadySinks_soft (s : KState) (k : Key) (h : SP s0 s) : SP s0 (s.flagReadySinks k) := by
  unfold KState.flagReadySinks
  exact h.cache _ (softFn_rfl (fun _ => rfl) (fun _ => rfl) (fun _ => rfl) (fun _ => rfl) (fun _ => rfl) (fun _ => rfl)
    (fun _ => rfl) (fun _ => rfl))

/-- `UPDATE file SET state = ?`: soft when the row stays on its side of the VOLATILE border. -/
theorem writeFile_soft (k : Key) (st : FileState) (nh : Option (Option Nat)) (s s' : KState) (hp : SP s0 s)
    (hv : ∀ n, s.find? k = some n → st.role? = n.fstate.role?)
    (h : s.writeFile k st nh = .ok s') : SP s0 s' := by
  unfold KState.writeFile at h
  cases hf : s.find? k with
  | none => simp [hf, pure, Except.pure] at h; subst h; exact hp
  | some n =>
    simp only [hf, bind, Except.bind] at h
    cases hw : fileRowWrite n st nh with
    | error e => simp [hw] at h
    | ok n' =>
      simp only [hw, pure, Except.pure, Except.ok.injEq] at h
      have hmod : SP s0 (s.modify k fun _ => n') := hp.replace hf (fileRowWrite_soft hw (hv n hf))
      subst h
      split
      · exact flagReadySinks_soft _ _ hmod
      · exact hmod

theorem setFileState_soft (k : Key) (st : FileState) (s s' : KState) (hp : SP s0 s)
    (hv : ∀ n, s.find? k = some n → st.role? = n.fstate.role?)
    (h : s.setFileState k st = .ok s') : SP s0 s' := writeFile_soft k st none s s' hp hv h

theorem writeStepState_soft (k : Key) (st : StepState) (d : Option Bool) :
    Preserves (SP s0) (fun s => s.writeStepState k st d) := by
  intro s s' hp h
  unfold KState.writeStepState at h
  cases hf : s.find? k with
  | none => simp [hf, pure, Except.pure] at h; subst h; exact hp
  | some n =>
    simp only [hf, bind, Except.bind] at h
    cases hw : stepRowWrite n st d with
    | error e => simp [hw] at h
    | ok n' =>
      simp only [hw, pure, Except.pure, Except.ok.injEq] at h
      subst h
      exact hp.replace hf (stepRowWrite_soft hw)

theorem setStepState_soft (k : Key) (st : StepState) (d : Bool) :
    Preserves (SP s0) (fun s => s.setStepState k st d) := writeStepState_soft k st (some d)

theorem setHash_soft (s : KState) (k : Key) (hh : Nat) (h : SP s0 s) : SP s0 (s.setHash k hh) := by
  unfold KState.setHash
  exact h.cacheAt _ (softFn_rfl (fun _ => rfl) (fun _ => rfl) (fun _ => rfl) (fun _ => rfl) (fun _ => rfl) (fun _ => rfl)
    (fun _ => rfl) (fun _ => rfl))

theorem deleteHash_soft (s : KState) (k : Key) (h : SP s0 s) : SP s0 (s.deleteHash k) := by
  unfold KState.deleteHash
  refine h.cacheAt _ fun n => ?_
  split
  · exact ⟨rfl, rfl, ⟨rfl, rfl⟩, id, .inr ⟨rfl, rfl, rfl⟩⟩
  · exact SoftRow.refl n

theorem flagDepEndpoints_soft (s : KState) (a b : Key) (h : SP s0 s) : SP s0 (s.flagDepEndpoints a b) := by
  unfold KState.flagDepEndpoints
  exact h.cache _ (softFn_flag (fun _ => rfl) (fun _ => rfl) (fun _ => rfl) (fun _ => rfl) (fun _ => rfl))

theorem flagChecksWithProducts_soft (k : Key) : Preserves (SP s0) (fun s => s.flagChecksWithProducts k) := by
  intro s s' hp h
  replace h : s.flagChecksWithProducts k = .ok s' := h
  unfold KState.flagChecksWithProducts at h
  split at h
  · cases h
  · simp only [pure, Except.pure, Except.ok.injEq] at h; subst h
    exact hp.cache _ (softFn_flag (fun _ => rfl) (fun _ => rfl) (fun _ => rfl) (fun _ => rfl) (fun _ => rfl))

theorem flagCheckAfterSources_soft (k : Key) : Preserves (SP s0) (fun s => s.flagCheckAfterSources k) := by
  intro s s' hp h
  replace h : s.flagCheckAfterSources k = .ok s' := h
  unfold KState.flagCheckAfterSources at h
  split at h
  · cases h
  · simp only [pure, Except.pure, Except.ok.injEq] at h; subst h
    exact hp.cache _ (softFn_flag (fun _ => rfl) (fun _ => rfl) (fun _ => rfl) (fun _ => rfl) (fun _ => rfl))

theorem flagDynamicSuppliers_soft (s : KState) (k : Key) (h : SP s0 s) : SP s0 (s.flagDynamicSuppliers k) := by
  unfold KState.flagDynamicSuppliers
  exact h.cache _ (softFn_flag (fun _ => rfl) (fun _ => rfl) (fun _ => rfl) (fun _ => rfl) (fun _ => rfl))

/-! ## State propagation -/

theorem markStepPending_soft (fuel : Nat) (k : Key) :
    Preserves (SP s0) (fun s => StepupModel.K.markStepPending fuel s k) := by
  induction fuel generalizing k with
  | zero => intro s s' _ h; simp [StepupModel.K.markStepPending] at h
  | succ fuel ih =>
    intro s s' hp h
    unfold StepupModel.K.markStepPending at h
    cases hf : s.find? k with
    | none => simp [hf, pure, Except.pure] at h; subst h; exact hp
    | some n =>
      simp only [hf] at h
      split at h
      · simp only [pure, Except.pure, Except.ok.injEq] at h; subst h; exact hp
      · simp only [bind, Except.bind] at h
        cases hs : s.setStepState k StepState.pending with
        | error e => simp [hs] at h
        | ok s1 =>
          simp only [hs] at h
          have hp1 : SP s0 s1 := setStepState_soft k .pending false s s1 hp hs
          split at h
          · refine foldlM_preserves (SP s0) _ (s1.sinksOf k) ?_ s1 s' hp1 h
            intro f st st' hst hstep
            cases hff : st.find? f with
            | none => simp [hff, pure, Except.pure] at hstep; subst hstep; exact hst
            | some fn =>
              simp only [hff] at hstep
              split at hstep
              · rename_i hb
                cases hso : st.setFileState f FileState.outdated with
                | error e => simp [hso, bind, Except.bind] at hstep
                | ok st1 =>
                  simp only [hso, bind, Except.bind] at hstep
                  have hst1 : SP s0 st1 := setFileState_soft f .outdated st st1 hst (by
                    intro m hm
                    rw [hff] at hm; cases hm
                    rw [hb.2]; rfl) hso
                  exact foldlM_preserves (SP s0) _ _ (fun t => ih t) st1 st' hst1 hstep
              · simp only [pure, Except.pure, Except.ok.injEq] at hstep; subst hstep; exact hst
          · simp only [pure, Except.pure, Except.ok.injEq] at h; subst h; exact hp1

theorem markStepPending'_soft (k : Key) : Preserves (SP s0) (fun s => s.markStepPending k) := by
  intro s s' hp h
  exact markStepPending_soft s.fuel k s s' hp h

theorem markConsumersPending_soft (f : Key) : Preserves (SP s0) (fun s => s.markConsumersPending f) := by
  intro s s' hp h
  unfold KState.markConsumersPending at h
  exact foldlM_preserves (SP s0) _ _ (fun t => markStepPending'_soft t) s s' hp h

theorem markFileOutdated_soft (f : Key) : Preserves (SP s0) (fun s => s.markFileOutdated f) := by
  intro s s' hp h
  unfold KState.markFileOutdated at h
  cases hf : s.find? f with
  | none => simp [hf, pure, Except.pure] at h; subst h; exact hp
  | some n =>
    simp only [hf] at h
    split at h
    · rename_i hb
      simp only [bind, Except.bind] at h
      cases hs : s.setFileState f FileState.outdated with
      | error e => simp [hs] at h
      | ok s1 =>
        simp only [hs] at h
        refine markConsumersPending_soft f s1 s' (setFileState_soft f .outdated s s1 hp ?_ hs) h
        intro m hm
        rw [hf] at hm; cases hm
        rw [hb]; rfl
    · split at h
      · simp only [pure, Except.pure, Except.ok.injEq] at h; subst h; exact hp
      · cases h

theorem pendCreator_soft (f : Key) : Preserves (SP s0) (fun s => s.pendCreator f) := by
  intro s s' hp h
  replace h : s.pendCreator f = .ok s' := h
  unfold KState.pendCreator at h
  cases hc : s.creatorStep f with
  | none => simp [hc, pure, Except.pure] at h; subst h; exact hp
  | some c => simp only [hc] at h; exact markStepPending'_soft c s s' hp h

theorem handleUpdated_soft (f : Key) : Preserves (SP s0) (fun s => s.handleUpdated f) := by
  intro s s' hp h
  replace h : s.handleUpdated f = .ok s' := h
  unfold KState.handleUpdated at h
  by_cases h1 : s.fileState? f = some .confirmed
  · rw [if_pos h1] at h; exact markConsumersPending_soft f s s' hp h
  · rw [if_neg h1] at h
    by_cases h2 : s.fileState? f = some .planned ∨ s.fileState? f = some .outdated
    · rw [if_pos h2] at h; exact pendCreator_soft f s s' hp h
    · rw [if_neg h2] at h
      simp only [pure, Except.pure, Except.ok.injEq] at h; subst h; exact hp

theorem handleDeleted_soft (f : Key) : Preserves (SP s0) (fun s => s.handleDeleted f) := by
  intro s s' hp h
  replace h : s.handleDeleted f = .ok s' := h
  unfold KState.handleDeleted at h
  simp only [bind, Except.bind] at h
  by_cases h1 : s.fileState? f = some .planned
  · rw [if_pos h1] at h
    cases hc : s.pendCreator f with
    | error e => simp [hc] at h
    | ok s1 =>
      simp only [hc] at h
      exact markConsumersPending_soft f s1 s' (pendCreator_soft f s s1 hp hc) h
  · rw [if_neg h1] at h
    simp only [pure, Except.pure] at h
    exact markConsumersPending_soft f s s' hp h

end

/-! ## `update_file_hashes` -/

theorem foldlM_mem {α β : Type} (P : β → Prop) (f : β → α → M β) (l : List α)
    (hstep : ∀ b a b', a ∈ l → P b → f b a = .ok b' → P b') (b b' : β) (hb : P b)
    (h : l.foldlM f b = .ok b') : P b' := by
  induction l generalizing b with
  | nil =>
    simp only [List.foldlM_nil, pure, Except.pure, Except.ok.injEq] at h
    exact h ▸ hb
  | cons a as ih =>
    simp only [List.foldlM_cons, bind, Except.bind] at h
    cases hx : f b a with
    | error e => simp [hx] at h
    | ok b1 =>
      simp only [hx] at h
      exact ih (fun b a' b' ha' => hstep b a' b' (List.mem_cons_of_mem _ ha')) b1
        (hstep b a b1 List.mem_cons_self hb hx) h

theorem mapM_ok_mem' {α β : Type} (f : α → M β) (l : List α) (r : List β) (h : l.mapM f = .ok r) :
    ∀ y ∈ r, ∃ x ∈ l, f x = .ok y := by
  induction l generalizing r with
  | nil =>
    simp only [List.mapM_nil, pure, Except.pure, Except.ok.injEq] at h
    subst h; intro y hy; cases hy
  | cons a as ih =>
    rw [List.mapM_cons] at h
    simp only [bind, Except.bind] at h
    cases ha : f a with
    | error e => simp [ha] at h
    | ok b =>
      simp only [ha] at h
      cases has : List.mapM f as with
      | error e => simp [has] at h
      | ok bs =>
        simp only [has, pure, Except.pure, Except.ok.injEq] at h
        subst h
        intro y hy
        simp only [List.mem_cons] at hy
        rcases hy with rfl | hy
        · exact ⟨a, List.mem_cons_self, ha⟩
        · obtain ⟨x, hx, hfx⟩ := ih bs has y hy
          exact ⟨x, List.mem_cons_of_mem _ hx, hfx⟩

/-- The transition table of `update_file_hashes` keeps the role of the file. -/
theorem lookupTransition_role {c : Cause} {st new : FileState} {known : Bool} {act : Option Action}
    (h : lookupTransition c st known = some (new, act)) : new.role? = st.role? := by
  unfold lookupTransition at h
  cases hf : hashTransitions.find? (fun e => e.1 = (c, st, known)) with
  | none => rw [hf] at h; cases h
  | some e =>
    rw [hf] at h
    simp only [Option.map_some, Option.some.injEq] at h
    have hmem := List.mem_of_find?_eq_some hf
    have hkey := List.find?_some hf
    simp only [decide_eq_true_eq] at hkey
    have hall : ∀ e ∈ hashTransitions, e.2.1.role? = e.1.2.1.role? := by decide
    have := hall e hmem
    rw [hkey, h] at this
    exact this

theorem hashRec_not_volatile {s : KState} {cause : Cause} {u : String × Option Nat} {r : HashRec}
    (h : s.hashRec cause u = .ok r) :
    ∃ n, s.find? r.key = some n ∧ r.newState.role? = n.fstate.role? := by
  unfold KState.hashRec at h
  cases hf : s.find? (fileKey u.1) with
  | none => simp [hf] at h
  | some n =>
    simp only [hf] at h
    cases hl : lookupTransition cause n.fstate u.2.isSome with
    | none => simp [hl] at h
    | some p =>
      obtain ⟨new, act⟩ := p
      simp only [hl, pure, Except.pure, Except.ok.injEq] at h
      subst h
      exact ⟨n, hf, lookupTransition_role hl⟩

/-- The `executemany` of `update_file_hashes`: every written row keeps the role it had in the state
`s` on which the transitions were looked up. -/
theorem hashWrites_soft {s : KState} (hk : KeysUnique s) (recs : List HashRec)
    (hrec : ∀ r ∈ recs, ∃ n, s.find? r.key = some n ∧ r.newState.role? = n.fstate.role?)
    (s1 : KState) (h : recs.foldlM (fun st r => st.writeFile r.key r.newState (some r.newHash)) s = .ok s1) :
    SoftRel s s1 := by
  have := foldlM_mem (SP s) (fun st (r : HashRec) => st.writeFile r.key r.newState (some r.newHash)) recs
    (fun st r st' hr hst hw => by
      obtain ⟨n, hn, hrole⟩ := hrec r hr
      refine writeFile_soft r.key r.newState _ st st' hst ?_ hw
      intro m hm
      have hrel := hst.2.find? r.key
      rw [hn, hm] at hrel
      rw [hrole, hrel.2.2.1.2]) s s1 (SP.refl hk) h
  exact this.2

theorem updateFileHashes_soft {s0 : KState} (updates : List (String × Option Nat)) (cause : Cause) :
    Preserves (SP s0) (fun s => s.updateFileHashes updates cause) := by
  intro s s' hp h
  replace h : s.updateFileHashes updates cause = .ok s' := h
  unfold KState.updateFileHashes at h
  split at h
  · simp only [pure, Except.pure, Except.ok.injEq] at h; subst h; exact hp
  · simp only [bind, Except.bind] at h
    split at h
    · cases h
    · rename_i recs hrecs
      split at h
      · cases h
      · rename_i s1 h1
        have hrec : ∀ r ∈ recs, ∃ n, s.find? r.key = some n ∧ r.newState.role? = n.fstate.role? := by
          intro r hr
          obtain ⟨u, _, hu⟩ := mapM_ok_mem' _ _ _ hrecs r hr
          exact hashRec_not_volatile hu
        have hp1 : SP s0 s1 := hp.step (hashWrites_soft hp.keys recs hrec s1 h1)
        split at h
        · cases h
        · rename_i s2 h2
          have hp2 := foldlM_preserves (SP s0) _ _ (fun (r : HashRec) => handleUpdated_soft r.key) s1 s2 hp1 h2
          split at h
          · cases h
          · rename_i s3 h3
            have hp3 := foldlM_preserves (SP s0) _ _ (fun (r : HashRec) => handleDeleted_soft r.key) s2 s3 hp2 h3
            exact foldlM_preserves (SP s0) _ _ (fun (r : HashRec) => markConsumersPending_soft r.key) s3 s' hp3 h

/-! ## Step completion, hold and release -/

section
variable {s0 : KState}

theorem mem_fileProducts {s : KState} {k : Key} {f : Node} (h : f ∈ s.fileProducts k) : f ∈ s.nodes := by
  unfold KState.fileProducts at h
  rw [List.mem_mergeSort] at h
  unfold KState.products at h
  exact (List.mem_filter.1 (List.mem_filter.1 h).1).1

/-- Failure branch of `mark_completed`: the BUILT products were selected on the state of the call. -/
theorem outdateBuiltProducts_soft (k : Key) : Preserves (SP s0) (fun s => s.outdateBuiltProducts k) := by
  intro s s' hp h
  replace h : s.outdateBuiltProducts k = .ok s' := h
  unfold KState.outdateBuiltProducts at h
  refine hp.step (foldlM_mem (SP s) (fun st (f : Node) => st.setFileState f.key .outdated) _
    (fun st f st' hf hst hw => ?_) s s' (SP.refl hp.keys) h).2
  obtain ⟨hfp, hb⟩ := List.mem_filter.1 hf
  simp only [decide_eq_true_eq] at hb
  refine setFileState_soft f.key .outdated st st' hst ?_ hw
  intro m hm
  have hrel := hst.2.find? f.key
  rw [find?_of_mem hp.keys (mem_fileProducts hfp), hm] at hrel
  rw [hrel.2.2.1.2, hb]; rfl

theorem rebuildOutdatedProducts_soft (k : Key) : Preserves (SP s0) (fun s => s.rebuildOutdatedProducts k) := by
  intro s s' hp h
  replace h : s.rebuildOutdatedProducts k = .ok s' := h
  unfold KState.rebuildOutdatedProducts at h
  refine foldlM_preserves (SP s0) _ _ (fun (f : Node) => ?_) s s' hp h
  intro st st' hst hh
  simp only at hh
  split at hh
  · rename_i ho
    simp only [bind, Except.bind] at hh
    cases hs : st.setFileState f.key FileState.built with
    | error e => simp [hs] at hh
    | ok st1 =>
      simp only [hs] at hh
      refine markConsumersPending_soft f.key st1 st' (setFileState_soft f.key .built st st1 hst ?_ hs) hh
      intro m hm
      rw [hm] at ho
      simp only [Option.map_some, Option.some.injEq] at ho
      rw [ho]; rfl
  · simp only [pure, Except.pure, Except.ok.injEq] at hh; subst hh; exact hst

theorem softFn_payload {f : Node → Node} (h : ∀ n, (afterView (f n) = afterView n ∧ (f n).impliedNeed = n.impliedNeed ∧
    (f n).tail = n.tail ∧ (f n).checkAfter = n.checkAfter) ∧ (f n).creator = n.creator) : SoftFn f :=
  softFn_of_neutral (fun n => (h n).1) (fun n => (h n).2)

theorem completeSuccess_soft (cfg : KConfig) (k : Key) (hh : Nat) :
    Preserves (SP s0) (fun s => s.completeSuccess cfg k hh) := by
  intro s s' hp h
  replace h : s.completeSuccess cfg k hh = .ok s' := h
  unfold KState.completeSuccess at h
  refine bind_ok h (fun s1 h1 => setStepState_soft k .succeeded false s s1 hp h1) ?_
  intro s1 s1' hp1 hh1
  refine bind_ok hh1 (fun s2 h2 => rebuildOutdatedProducts_soft k s1 s2 hp1 h2) ?_
  refine preserves_pure _ (fun s hs => ?_)
  unfold KState.refreshEnvValues
  exact (setHash_soft s k hh hs).cacheAt _ (softFn_payload fun _ => ⟨⟨rfl, rfl, rfl, rfl⟩, rfl⟩)

theorem hold_soft (k : Key) : Preserves (SP s0) (fun s => s.hold k) := by
  intro s s' hp h
  replace h : s.hold k = .ok s' := h
  unfold KState.hold at h
  simp only [bind, Except.bind] at h
  have hp1 : SP s0 (s.modify k fun n => { n with holding := n.holding + 1 }) :=
    hp.cacheAt _ (softFn_payload fun _ => ⟨⟨rfl, rfl, rfl, rfl⟩, rfl⟩)
  split at h
  · exact flagChecksWithProducts_soft k _ s' hp1 h
  · simp only [pure, Except.pure, Except.ok.injEq] at h; subst h; exact hp1

theorem release_soft (k : Key) : Preserves (SP s0) (fun s => s.release k) := by
  intro s s' hp h
  replace h : s.release k = .ok s' := h
  unfold KState.release at h
  cases hf : s.find? k with
  | none => simp [hf, graphErr] at h
  | some n =>
    simp only [hf, bind, Except.bind] at h
    split at h
    · cases h
    · have hp1 : SP s0 (s.modify k fun n => { n with holding := n.holding - 1 }) :=
        hp.cacheAt _ (softFn_payload fun _ => ⟨⟨rfl, rfl, rfl, rfl⟩, rfl⟩)
      split at h
      · exact flagChecksWithProducts_soft k _ s' hp1 h
      · simp only [pure, Except.pure, Except.ok.injEq] at h; subst h; exact hp1

theorem registerNglob_soft (step : Key) (pattern : String) (found : List String) :
    Preserves (SP s0) (fun s => s.registerNglob step pattern found) := by
  intro s s' hp h
  replace h : s.registerNglob step pattern found = .ok s' := h
  unfold KState.registerNglob at h
  refine bind_ok_gen h (fun _ => True) (fun _ _ => trivial) (SP s0) ?_
  intro _ r _ hh
  simp only [pure, Except.pure, Except.ok.injEq] at hh
  subst hh
  exact hp.cacheAt _ (softFn_payload fun _ => ⟨⟨rfl, rfl, rfl, rfl⟩, rfl⟩)

/-! ## Finalisation and startup -/

theorem markDir_soft (s : KState) (d : String) (hp : SP s0 s) : SP s0 (s.markDirToBeDeleted d) := by
  unfold KState.markDirToBeDeleted
  split
  · exact hp
  · exact hp.queue _

theorem find?_markDir (s : KState) (d : String) (k : Key) : (s.markDirToBeDeleted d).find? k = s.find? k := by
  unfold KState.markDirToBeDeleted
  split <;> rfl

theorem revertOutput_soft (f : Key) : Preserves (SP s0) (fun s => s.revertOutput f) := by
  intro s s' hp h
  replace h : s.revertOutput f = .ok s' := h
  unfold KState.revertOutput at h
  cases hf : s.find? f with
  | none => simp [hf, pure, Except.pure] at h; subst h; exact hp
  | some fn =>
    simp only [hf] at h
    split at h
    · split at h
      · rename_i hnv
        refine writeFile_soft f .planned (some none) _ s' (markDir_soft _ _ (hp.queue _)) ?_ h
        intro m hm
        rw [find?_markDir] at hm
        replace hm : s.find? f = some m := hm
        rw [hf] at hm; cases hm
        rename_i hst
        rcases hst.2 with hx | hx | hx
        · exact absurd hx hnv
        · rw [hx]; rfl
        · rw [hx]; rfl
      · simp only [pure, Except.pure, Except.ok.injEq] at h; subst h
        exact markDir_soft _ _ (hp.queue _)
    · simp only [pure, Except.pure, Except.ok.injEq] at h; subst h; exact hp

theorem revertStep_soft (n : Node) : Preserves (SP s0) (fun s => s.revertStep n) := by
  intro s s' hp h
  replace h : s.revertStep n = .ok s' := h
  unfold KState.revertStep at h
  refine bind_ok h (fun a ha => ?_) ?_
  · unfold KState.pendIfNot at ha
    split at ha
    · exact writeStepState_soft n.key .pending none s a hp ha
    · simp only [pure, Except.pure, Except.ok.injEq] at ha; subst ha; exact hp
  · intro a a' ha hh2
    exact foldlM_preserves (SP s0) _ _ (fun f => revertOutput_soft f) a a' ha hh2

/-- `finalize.revert_optional_steps` -/
theorem revertOptional_soft : Preserves (SP s0) (fun s => s.revertOptional) := by
  intro s s' hp h
  replace h : s.revertOptional = .ok s' := h
  unfold KState.revertOptional at h
  exact foldlM_preserves (SP s0) _ _ (fun (n : Node) => revertStep_soft n) s s' hp h

/-- `startup.reset_interrupted_steps` -/
theorem resetInterrupted_soft : Preserves (SP s0) (fun s => s.resetInterrupted) := by
  intro s s' hp h
  replace h : s.resetInterrupted = .ok s' := h
  unfold KState.resetInterrupted at h
  refine bind_ok h (fun s1 h1 => ?_) ?_
  · exact foldlM_preserves (SP s0) _ _ (fun (n : Node) => writeStepState_soft n.key .failed none) s s1 hp h1
  · intro s1 s1' hp1 hh1
    refine bind_ok hh1 (fun s2 h2 => ?_) ?_
    · exact foldlM_preserves (SP s0) _ _ (fun (n : Node) => writeStepState_soft n.key .pending none) s1 s2 hp1 h2
    · intro s2 s2' hp2 hh2
      exact foldlM_preserves (SP s0) _ _ (fun (n : Node) => markStepPending'_soft n.key) s2 s2' hp2 hh2

theorem rescanEnvVars_soft (cfg : KConfig) : Preserves (SP s0) (fun s => s.rescanEnvVars cfg) := by
  intro s s' hp h
  replace h : s.rescanEnvVars cfg = .ok s' := h
  unfold KState.rescanEnvVars at h
  exact foldlM_preserves (SP s0) _ _ (fun (n : Node) => markStepPending'_soft n.key) s s' hp h

theorem checkConsistency_soft : Preserves (SP s0) (fun s => s.checkConsistency) := by
  intro s s' hp h
  replace h : s.checkConsistency = .ok s' := h
  unfold KState.checkConsistency at h
  exact foldlM_preserves (SP s0) (fun (st : KState) (n : Node) => st.markStepPending n.key) _
    (fun n => markStepPending'_soft n.key) s s' hp h

/-! ## Scheduler: the soft parts -/

theorem updateMetaSafe_soft : Preserves (SP s0) (fun s => s.updateMetaSafe) := by
  intro s s' hp h
  replace h : s.updateMetaSafe = .ok s' := h
  unfold KState.updateMetaSafe at h
  simp only [bind, Except.bind] at h
  split at h
  · simp only [pure, Except.pure, Except.ok.injEq] at h; subst h; exact hp
  · split at h
    · cases h
    · simp only [pure, Except.pure, Except.ok.injEq] at h
      subst h
      refine (hp.cache _ ?_).cache _ (softFn_payload fun _ => ⟨⟨rfl, rfl, rfl, rfl⟩, rfl⟩)
      intro n
      dsimp only
      split
      · exact ⟨rfl, rfl, ⟨rfl, rfl⟩, id, .inr ⟨rfl, rfl, rfl⟩⟩
      · exact SoftRow.refl n

theorem updateMetaReady_soft (s : KState) (hp : SP s0 s) : SP s0 s.updateMetaReady := by
  unfold KState.updateMetaReady
  exact hp.cache _ (softFn_payload fun _ => ⟨⟨rfl, rfl, rfl, rfl⟩, rfl⟩)

theorem reconcileTarget_soft (t : String) : Preserves (SP s0) (fun s => s.reconcileTarget t) := by
  intro s s' hp h
  replace h : s.reconcileTarget t = .ok s' := h
  unfold KState.reconcileTarget at h
  cases hf : s.find? (fileKey t) with
  | none => simp [hf, pure, Except.pure] at h; subst h; exact hp
  | some f =>
    simp only [hf] at h
    split at h
    · simp only [pure, Except.pure, Except.ok.injEq] at h; subst h; exact hp
    · split at h
      · split at h
        · simp [graphErr] at h
        · simp only [pure, Except.pure, Except.ok.injEq] at h; subst h; exact hp
      · split at h
        · simp only [pure, Except.pure, Except.ok.injEq] at h; subst h
          exact hp.cacheAt _ (softFn_flag (fun _ => rfl) (fun _ => rfl) (fun _ => rfl) (fun _ => rfl) (fun _ => rfl))
        · simp only [pure, Except.pure, Except.ok.injEq] at h; subst h; exact hp

/-- `reconcile_targets` only raises flags: under an unchanged configuration it is soft. -/
theorem reconcileTargets_soft (cfg : KConfig) : Preserves (SP s0) (fun s => s.reconcileTargets cfg) := by
  intro s s' hp h
  replace h : s.reconcileTargets cfg = .ok s' := h
  unfold KState.reconcileTargets at h
  dsimp only at h
  refine bind_ok h (fun s1 h1 => ?_) ?_
  · have hp0 : SP s0 (s.modifyWhere (fun n => n.key.kind = .step ∧ n.impliedNeed = .target)
        fun n => { n with checkAfter := true }) :=
      hp.cache _ (softFn_flag (fun _ => rfl) (fun _ => rfl) (fun _ => rfl) (fun _ => rfl) (fun _ => rfl))
    exact foldlM_preserves (SP s0) (fun st t => st.reconcileTarget t) _ (fun t => reconcileTarget_soft t) _ s1 hp0 h1
  · refine preserves_pure _ (fun s hs => ?_)
    unfold KState.reconcileTargetDirs
    exact hs.cache _ (softFn_flag (fun _ => rfl) (fun _ => rfl) (fun _ => rfl) (fun _ => rfl) (fun _ => rfl))

end

end StepupModel.K.Discipline
