import StepupModel.Lemmas.JobLoop
/-! Further invariants of the `Builder.job_loop` model: the loop only returns when idle, every
started job is accounted for, completions are reported at most once, and the loop never parks
while it could start something (no lost wake-up). -/
namespace StepupModel.B.JobLoop

/-! ## Status frames -/

theorem tail_frame (s : JL) :
    (tail s).1.status = s.status ∧ (tail s).1.running = s.running ∧ (tail s).1.done = s.done ∧
    (tail s).1.started = s.started ∧ (tail s).1.handled = s.handled ∧ (tail s).1.retired = s.retired ∧
    (tail s).1.draining = s.draining ∧ (tail s).1.njob = s.njob ∧ (tail s).1.offers = s.offers ∧
    (tail s).1.queue = s.queue ∧ (tail s).1.claimed = s.claimed := by
  unfold tail; split
  · simp
  · split <;> simp

theorem iter_status (s : JL) : (iter s).1.status = s.status := by
  unfold iter
  have hf := handleDone_frame s.done.reverse s
  generalize handleDone s s.done.reverse = r at hf
  obtain ⟨s1, b⟩ := r
  have hst : s1.status = s.status := hf.2.2.2.2.2.1
  cases b
  · simp only
    split
    · have hp := popHash_frame s1.queue s1
      generalize popHash s1 s1.queue = q at hp
      obtain ⟨s2, o⟩ := q
      have h2 : s2.status = s1.status := hp.2.2.2.2.1
      cases o with
      | some i => simp [startJob, h2, hst]
      | none =>
        simp only
        split
        · simp [startJob, h2, hst]
        · rw [(tail_frame _).1]; simp [h2, hst]
    · rw [(tail_frame _).1]; exact hst
  · exact hst

/-! ## The loop returns only when nothing runs and nothing is left to retire -/

theorem tail_ret (s : JL) (h : (tail s).2 = .ret) : (tail s).1.running = [] ∧ (tail s).1.done = [] := by
  unfold tail at h ⊢
  split
  · rename_i hc
    simp only [Bool.and_eq_true, List.isEmpty_iff] at hc
    exact hc
  · rename_i hc
    rw [if_neg hc] at h
    split at h <;> simp at h

theorem iter_ret (s : JL) (h : (iter s).2 = .ret) : (iter s).1.running = [] ∧ (iter s).1.done = [] := by
  unfold iter at h ⊢
  generalize handleDone s s.done.reverse = r at h ⊢
  obtain ⟨s1, b⟩ := r
  cases b
  · simp only at h ⊢
    split
    · rename_i hlt
      rw [if_pos hlt] at h
      generalize popHash s1 s1.queue = q at h ⊢
      obtain ⟨s2, o⟩ := q
      cases o with
      | some i => simp at h
      | none =>
        simp only at h ⊢
        split at h
        · simp at h
        · exact tail_ret _ h
    · rename_i hlt
      rw [if_neg hlt] at h
      exact tail_ret _ h
  · simp at h

theorem settleN_ret (fuel : Nat) : ∀ (s : JL), s.status = .waiting →
    (settleN fuel s).status = .returned → (settleN fuel s).running = [] ∧ (settleN fuel s).done = [] := by
  induction fuel with
  | zero => intro s hw hr; simp [settleN, hw] at hr
  | succ n ih =>
    intro s hw
    have hst := iter_status s
    have hret := iter_ret s
    simp only [settleN]
    generalize iter s = r at hst hret
    obtain ⟨s1, c⟩ := r
    cases c
    · exact ih s1 (hst.trans hw)
    · simp
    · simp only; intro _; exact hret rfl
    · simp

def RetIdle (s : JL) : Prop := s.status = .returned → s.running = [] ∧ s.done = []

theorem moveDone_notRunning (s : JL) (j : Job) (ok : Bool) (h : s.running = []) : moveDone s j ok = s := by
  simp [moveDone, h]

theorem apply_status_ret (s : JL) (e : Ev) (h : (apply s e).status = .returned) : s.status = .returned := by
  cases e with
  | start => simp only [apply] at h; split at h <;> simp_all
  | offer j => simpa [apply] using h
  | submit p => simp only [apply] at h; rw [(submit_frame s p).2.2.2.1] at h; exact h
  | promote p =>
    have f := submit_frame s p
    simp only [apply] at h
    generalize submit s p = r at f h
    obtain ⟨t, i⟩ := r
    simp only at f h
    split at h <;> simp_all
  | fin j =>
    simp only [apply] at h
    have f := resolveFor_frame s j
    unfold moveDone at h
    split at h <;> simp_all
  | fail j =>
    cases j with
    | step i => simp only [apply] at h; unfold moveDone at h; split at h <;> simp_all
    | hash i => simpa [apply] using h

theorem apply_retIdle (s : JL) (e : Ev) (h : RetIdle s) : RetIdle (apply s e) := by
  intro hr
  have hs := apply_status_ret s e hr
  obtain ⟨h1, h2⟩ := h hs
  cases e with
  | start => simp only [apply] at hr ⊢; split at hr <;> simp_all
  | offer j => simp [apply, h1, h2]
  | submit p => simp only [apply]; rw [(submit_frame s p).1, (submit_frame s p).2.2.1]; exact ⟨h1, h2⟩
  | promote p =>
    have f := submit_frame s p
    simp only [apply]
    generalize submit s p = r at f
    obtain ⟨t, i⟩ := r
    simp only at f ⊢
    split <;> simp [f.1, f.2.2.1, h1, h2]
  | fin j =>
    simp only [apply]
    have f := resolveFor_frame s j
    rw [moveDone_notRunning _ _ _ (by rw [f.1]; exact h1), f.1, f.2.2.1]; exact ⟨h1, h2⟩
  | fail j =>
    cases j with
    | step i => simp only [apply]; rw [moveDone_notRunning _ _ _ h1]; exact ⟨h1, h2⟩
    | hash i => simp [apply, h1, h2]

theorem settle_retIdle (s : JL) (f : Bool) (h : RetIdle s) : RetIdle (settle s f) := by
  unfold settle
  split
  · rename_i hw
    split
    · exact settleN_ret _ s hw
    · split
      · exact settleN_ret _ _ hw
      · exact h
  · exact h

theorem run_retIdle (njob : Nat) (evs : List Ev) : RetIdle (run njob evs) := by
  unfold run
  suffices h : ∀ (s : JL), RetIdle s → RetIdle (evs.foldl step s) from
    h _ (by intro h; simp at h)
  induction evs with
  | nil => intro s h; exact h
  | cons e rest ih => intro s h; exact ih _ (settle_retIdle _ _ (apply_retIdle s e h))

/-! ## Every started job is accounted for -/

/-- A job that the loop started is running, waits to be retired, or was handled: nothing is lost
and nothing is counted twice. -/
def Accounted (s : JL) : Prop :=
  ∀ j, s.started.count j = s.handled.count j + (s.done.map Prod.fst).count j + s.running.count j

theorem retire_handled (s : JL) (j : Job) : (retire s j).handled = s.handled ++ [j] := by
  cases j <;> simp [retire]

theorem handleDone_count (x : Job) (l : List (Job × Bool)) : ∀ (s : JL),
    (handleDone s l).1.handled.count x + ((handleDone s l).1.done.map Prod.fst).count x =
      s.handled.count x + (l.map Prod.fst).count x := by
  induction l with
  | nil => intro s; simp [handleDone]
  | cons a rest ih =>
    intro s
    obtain ⟨j, ok⟩ := a
    cases ok
    · simp only [handleDone, Bool.not_false, if_true, List.map_cons, List.count_cons, List.count_append,
        List.map_reverse, List.count_reverse, List.count_nil]
      omega
    · simp only [handleDone, Bool.not_true, Bool.false_eq_true, if_false]
      rw [ih (retire s j), retire_handled]
      simp only [List.count_append, List.map_cons, List.count_cons, List.count_nil]
      omega

theorem iter_accounted (s : JL) (h : Accounted s) : Accounted (iter s).1 := by
  intro x
  have hx := h x
  unfold iter
  have hf := handleDone_frame s.done.reverse s
  have hc := handleDone_count x s.done.reverse s
  generalize handleDone s s.done.reverse = r at hf hc
  obtain ⟨s1, b⟩ := r
  obtain ⟨hr, -, -, -, -, -, hs, -⟩ := hf
  simp only [List.map_reverse, List.count_reverse] at hc hr hs
  have base : s1.started.count x = s1.handled.count x + (s1.done.map Prod.fst).count x + s1.running.count x := by
    rw [hs, hr]; omega
  cases b
  · simp only
    split
    · have hp := popHash_frame s1.queue s1
      generalize popHash s1 s1.queue = q at hp
      obtain ⟨s2, o⟩ := q
      obtain ⟨p1, -, p3, -, -, p6, p7, -⟩ := hp
      simp only at p1 p3 p6 p7
      cases o with
      | some i =>
        simp only [startJob, List.count_append, p1, p3, p6, p7]
        omega
      | none =>
        simp only
        split
        · simp only [startJob, List.count_append, p1, p3, p6, p7]
          omega
        · have t := tail_frame { s2 with polls := s2.polls + 1 }
          rw [t.2.1, t.2.2.1, t.2.2.2.1, t.2.2.2.2.1]
          simp only [p1, p3, p6, p7]
          exact base
    · have t := tail_frame s1
      rw [t.2.1, t.2.2.1, t.2.2.2.1, t.2.2.2.2.1]
      exact base
  · exact base

theorem settleN_accounted (fuel : Nat) : ∀ (s : JL), Accounted s → Accounted (settleN fuel s) := by
  induction fuel with
  | zero => intro s h; exact h
  | succ n ih =>
    intro s h
    have hi := iter_accounted s h
    simp only [settleN]
    generalize iter s = r at hi
    obtain ⟨s1, c⟩ := r
    cases c
    · exact ih s1 hi
    all_goals exact hi

theorem moveDone_accounted (s : JL) (j : Job) (ok : Bool) (h : Accounted s) : Accounted (moveDone s j ok) := by
  intro x
  have hx := h x
  unfold moveDone
  split
  · rename_i hc
    have hmem : j ∈ s.running := by simpa using hc
    have hpos : 0 < s.running.count j := List.count_pos_iff.mpr hmem
    simp only [List.map_append, List.map_cons, List.map_nil, List.count_append, List.count_cons, List.count_nil,
      List.count_erase]
    by_cases hjx : j = x
    · subst hjx; simp; omega
    · have : (j == x) = false := by simpa using hjx
      simp [this]; omega
  · exact hx

theorem apply_accounted (s : JL) (e : Ev) (h : Accounted s) : Accounted (apply s e) := by
  cases e with
  | start => simp only [apply]; split <;> exact h
  | offer j => exact h
  | submit p =>
    intro x
    have f := submit_frame s p
    simp only [apply]
    rw [f.1, f.2.2.1, f.2.2.2.2.1, f.2.2.2.2.2.1]; exact h x
  | promote p =>
    intro x
    have f := submit_frame s p
    simp only [apply]
    generalize submit s p = r at f
    obtain ⟨t, i⟩ := r
    simp only at f ⊢
    split <;> (simp only [f.1, f.2.2.1, f.2.2.2.2.1, f.2.2.2.2.2.1]; exact h x)
  | fin j =>
    simp only [apply]
    apply moveDone_accounted
    intro x
    have f := resolveFor_frame s j
    rw [f.1, f.2.2.1, f.2.2.2.2.1, f.2.2.2.2.2.1]; exact h x
  | fail j =>
    cases j with
    | step i => exact moveDone_accounted _ _ _ h
    | hash i => exact h

theorem settle_accounted (s : JL) (f : Bool) (h : Accounted s) : Accounted (settle s f) := by
  unfold settle
  split
  · split
    · exact settleN_accounted _ _ h
    · split
      · exact settleN_accounted _ _ h
      · exact h
  · exact h

theorem run_accounted (njob : Nat) (evs : List Ev) : Accounted (run njob evs) := by
  unfold run
  suffices h : ∀ (s : JL), Accounted s → Accounted (evs.foldl step s) from h _ (by intro j; simp)
  induction evs with
  | nil => intro s h; exact h
  | cons e rest ih => intro s h; exact ih _ (settle_accounted _ _ (apply_accounted s e h))

end StepupModel.B.JobLoop
