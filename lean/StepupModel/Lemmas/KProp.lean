import StepupModel.K.Scheduler
import StepupModel.Lemmas.K
/-!
Helper lemmas about state propagation in the kernel model (`markStepPending`,
`markFileOutdated`, `markConsumersPending`): how the primitive writes act on the observations
"state of the step `k`" and "state of the file `f`", and invariants of the mutual recursion.
No property statements here (they are in `Props/C01.lean`, `Props/C04.lean`).
-/
namespace StepupModel.K
open StepupModel.Generated

/-! ## Observations -/

/-- State of the step row with key `k` (`none`: no such node). -/
def KState.sstateOf (s : KState) (k : Key) : Option StepState := (s.find? k).map (·.sstate)

/-- State of the file row with key `k`. -/
def KState.fstateOf (s : KState) (k : Key) : Option FileState := (s.find? k).map (·.fstate)

/-- Stored step hash of `k` (`none`: no node or no hash). -/
def KState.shashOf (s : KState) (k : Key) : Option Nat := (s.find? k).bind (·.shash)

/-! ## Row-wise rewrites -/

theorem find?_map_key (l : List Node) (g : Node → Node) (q : Key) (hkey : ∀ n, (g n).key = n.key) :
    (l.map g).find? (·.key = q) = (l.find? (·.key = q)).map g := by
  induction l with
  | nil => rfl
  | cons a as ih =>
    simp only [List.map_cons, List.find?_cons, hkey]
    by_cases hq : a.key = q
    · simp [hq]
    · simp [hq, ih]

theorem find?_modifyWhere (s : KState) (p : Node → Bool) (f : Node → Node) (q : Key)
    (hkey : ∀ n, (f n).key = n.key) :
    (s.modifyWhere p f).find? q = (s.find? q).map (fun n => if p n then f n else n) := by
  unfold KState.modifyWhere KState.find?
  apply find?_map_key
  intro n
  by_cases h : p n = true <;> simp [h, hkey]

theorem find?_modify (s : KState) (k q : Key) (f : Node → Node) (hkey : ∀ n, n.key = k → (f n).key = k) :
    (s.modify k f).find? q = (s.find? q).map (fun n => if n.key = k then f n else n) := by
  unfold KState.modify KState.find?
  apply find?_map_key
  intro n
  by_cases h : n.key = k
  · simp [h, hkey n h]
  · simp [h]

theorem find?_key (s : KState) (k : Key) (n : Node) (h : s.find? k = some n) : n.key = k := by
  unfold KState.find? at h
  simpa using List.find?_some h

theorem find?_modify_ne (s : KState) (k q : Key) (f : Node → Node) (hkey : ∀ n, n.key = k → (f n).key = k)
    (hne : q ≠ k) : (s.modify k f).find? q = s.find? q := by
  rw [find?_modify s k q f hkey]
  cases h : s.find? q with
  | none => rfl
  | some n =>
    have := find?_key s q n h
    simp [this, hne]

theorem find?_modify_self (s : KState) (k : Key) (f : Node → Node) (hkey : ∀ n, n.key = k → (f n).key = k) :
    (s.modify k f).find? k = (s.find? k).map f := by
  rw [find?_modify s k k f hkey]
  cases h : s.find? k with
  | none => rfl
  | some n =>
    have := find?_key s k n h
    simp [this]

/-- `flagReadySinks` only touches `_check_ready`. -/
theorem find?_flagReadySinks (s : KState) (k q : Key) :
    ∃ g : Node → Node, (∀ n, g n = n ∨ g n = { n with checkReady := true }) ∧
      (s.flagReadySinks k).find? q = (s.find? q).map g := by
  unfold KState.flagReadySinks
  let p : Node → Bool := fun n => decide (n.key.kind = .step ∧ (s.sinksOf k).contains n.key = true)
  refine ⟨fun n => if p n then { n with checkReady := true } else n, ?_, ?_⟩
  · intro n
    by_cases h : p n = true
    · right; exact if_pos h
    · left; exact if_neg h
  · exact find?_modifyWhere s p _ q (fun _ => rfl)

theorem sstateOf_flagReadySinks (s : KState) (k q : Key) : (s.flagReadySinks k).sstateOf q = s.sstateOf q := by
  obtain ⟨g, hg, h⟩ := find?_flagReadySinks s k q
  unfold KState.sstateOf
  rw [h]
  cases s.find? q with
  | none => rfl
  | some n => rcases hg n with h1 | h1 <;> simp [h1]

theorem fstateOf_flagReadySinks (s : KState) (k q : Key) : (s.flagReadySinks k).fstateOf q = s.fstateOf q := by
  obtain ⟨g, hg, h⟩ := find?_flagReadySinks s k q
  unfold KState.fstateOf
  rw [h]
  cases s.find? q with
  | none => rfl
  | some n => rcases hg n with h1 | h1 <;> simp [h1]

theorem deps_flagReadySinks (s : KState) (k : Key) : (s.flagReadySinks k).deps = s.deps := rfl

theorem deps_modify (s : KState) (k : Key) (f : Node → Node) : (s.modify k f).deps = s.deps := rfl

/-! ## The two state writes -/

theorem fileRowWrite_ok (n n' : Node) (st : FileState) (nh : Option (Option Nat))
    (h : fileRowWrite n st nh = .ok n') :
    n'.fstate = st ∧ n'.key = n.key ∧ n'.sstate = n.sstate ∧ n'.shash = n.shash := by
  unfold fileRowWrite at h
  dsimp only at h
  split at h
  · cases h
  · split at h
    · cases h
    · simp only [pure, Except.pure, Except.ok.injEq] at h
      subst h
      exact ⟨rfl, rfl, rfl, rfl⟩

theorem stepRowWrite_ok (n n' : Node) (st : StepState) (d : Option Bool)
    (h : stepRowWrite n st d = .ok n') :
    n'.sstate = st ∧ n'.key = n.key ∧ n'.fstate = n.fstate ∧ n'.shash = n.shash := by
  unfold stepRowWrite at h
  dsimp only at h
  split at h
  · cases h
  · simp only [pure, Except.pure, Except.ok.injEq] at h
    subst h
    exact ⟨rfl, rfl, rfl, rfl⟩

/-- Effect of `UPDATE file SET state` on the observations. -/
theorem writeFile_effect (s s' : KState) (k : Key) (st : FileState) (nh : Option (Option Nat))
    (h : s.writeFile k st nh = .ok s') :
    (∀ q, s'.fstateOf q = if q = k then (s.fstateOf k).map (fun _ => st) else s.fstateOf q) ∧
    (∀ q, s'.sstateOf q = s.sstateOf q) ∧ s'.deps = s.deps := by
  unfold KState.writeFile at h
  cases hf : s.find? k with
  | none =>
    simp only [hf, pure, Except.pure, Except.ok.injEq] at h
    subst h
    refine ⟨fun q => ?_, fun _ => rfl, rfl⟩
    by_cases hq : q = k
    · subst hq; simp [KState.fstateOf, hf]
    · simp [hq]
  | some n =>
    simp only [hf, bind, Except.bind] at h
    cases hw : fileRowWrite n st nh with
    | error e => simp [hw] at h
    | ok n' =>
      simp only [hw, pure, Except.pure, Except.ok.injEq] at h
      obtain ⟨h1, h2, h3, _⟩ := fileRowWrite_ok n n' st nh hw
      have hk : n.key = k := find?_key s k n hf
      have hkey : ∀ m : Node, m.key = k → ((fun _ => n') m).key = k := fun _ _ => by simp [h2, hk]
      have hmod_f : ∀ q, (s.modify k fun _ => n').fstateOf q =
          if q = k then (s.fstateOf k).map (fun _ => st) else s.fstateOf q := by
        intro q
        by_cases hq : q = k
        · subst hq
          simp only [KState.fstateOf, find?_modify_self s q _ hkey, hf, if_true, Option.map_some, h1]
        · simp only [KState.fstateOf, find?_modify_ne s k q _ hkey hq, hq, if_false]
      have hmod_s : ∀ q, (s.modify k fun _ => n').sstateOf q = s.sstateOf q := by
        intro q
        by_cases hq : q = k
        · subst hq
          simp only [KState.sstateOf, find?_modify_self s q _ hkey, hf, Option.map_some, h3]
        · simp only [KState.sstateOf, find?_modify_ne s k q _ hkey hq]
      split at h
      · subst h
        refine ⟨fun q => ?_, fun q => ?_, ?_⟩
        · rw [fstateOf_flagReadySinks]; exact hmod_f q
        · rw [sstateOf_flagReadySinks]; exact hmod_s q
        · rfl
      · subst h
        exact ⟨hmod_f, hmod_s, rfl⟩

/-- Effect of `UPDATE step SET state` on the observations. -/
theorem writeStepState_effect (s s' : KState) (k : Key) (st : StepState) (d : Option Bool)
    (h : s.writeStepState k st d = .ok s') :
    (∀ q, s'.sstateOf q = if q = k then (s.sstateOf k).map (fun _ => st) else s.sstateOf q) ∧
    (∀ q, s'.fstateOf q = s.fstateOf q) ∧ s'.deps = s.deps := by
  unfold KState.writeStepState at h
  cases hf : s.find? k with
  | none =>
    simp only [hf, pure, Except.pure, Except.ok.injEq] at h
    subst h
    refine ⟨fun q => ?_, fun _ => rfl, rfl⟩
    by_cases hq : q = k
    · subst hq; simp [KState.sstateOf, hf]
    · simp [hq]
  | some n =>
    simp only [hf, bind, Except.bind] at h
    cases hw : stepRowWrite n st d with
    | error e => simp [hw] at h
    | ok n' =>
      simp only [hw, pure, Except.pure, Except.ok.injEq] at h
      subst h
      obtain ⟨h1, h2, h3, _⟩ := stepRowWrite_ok n n' st d hw
      have hk : n.key = k := find?_key s k n hf
      have hkey : ∀ m : Node, m.key = k → ((fun _ => n') m).key = k := fun _ _ => by simp [h2, hk]
      refine ⟨fun q => ?_, fun q => ?_, rfl⟩
      · by_cases hq : q = k
        · subst hq
          simp only [KState.sstateOf, find?_modify_self s q _ hkey, hf, if_true, Option.map_some, h1]
        · simp only [KState.sstateOf, find?_modify_ne s k q _ hkey hq, hq, if_false]
      · by_cases hq : q = k
        · subst hq
          simp only [KState.fstateOf, find?_modify_self s q _ hkey, hf, Option.map_some, h3]
        · simp only [KState.fstateOf, find?_modify_ne s k q _ hkey hq]

/-! ## Folds in the `Except` monad -/

/-- An invariant of every step of a monadic fold is an invariant of the fold. -/
theorem foldlM_keeps {α β : Type} (P : β → Prop) (f : β → α → M β) (l : List α)
    (hstep : ∀ b a b', a ∈ l → P b → f b a = .ok b' → P b') (b b' : β) (hb : P b)
    (h : l.foldlM f b = .ok b') : P b' := by
  induction l generalizing b with
  | nil =>
    simp only [List.foldlM_nil, pure, Except.pure, Except.ok.injEq] at h
    exact h ▸ hb
  | cons a as ih =>
    simp only [List.foldlM_cons, bind, Except.bind] at h
    cases hfa : f b a with
    | error e => simp [hfa] at h
    | ok b1 =>
      simp only [hfa] at h
      exact ih (fun b a b' ha => hstep b a b' (List.mem_cons_of_mem _ ha)) b1
        (hstep b a b1 List.mem_cons_self hb hfa) h

/-! ## The mutual recursion `mark_step_pending` / `mark_file_outdated` -/

/-- The body of the inner fold of `markStepPending` for one sink `f` of the step: a BUILT file
becomes OUTDATED and its consuming steps are marked pending through `rec`. -/
def outdateStep (rec : KState → Key → M KState) (s : KState) (f : Key) : M KState :=
  match s.find? f with
  | some fn =>
    if fn.key.kind = .file ∧ fn.fstate = .built then do
      let s ← s.setFileState f .outdated
      ((s.sinksOf f).filter (·.kind = .step)).foldlM rec s
    else pure s
  | none => pure s

theorem markStepPending_zero (s : KState) (k : Key) : markStepPending 0 s k = .error .hang := by
  rw [markStepPending]; rfl

theorem markStepPending_succ (fuel : Nat) (s : KState) (k : Key) :
    markStepPending (fuel + 1) s k =
      match s.find? k with
      | none => .ok s
      | some n =>
        if n.sstate = .running ∨ n.sstate = .checking then .ok s
        else (s.setStepState k .pending).bind fun s1 =>
          if n.sstate = .succeeded ∨ n.sstate = .failed then
            (s1.sinksOf k).foldlM (outdateStep (markStepPending fuel)) s1
          else .ok s1 := by
  rw [markStepPending]
  cases s.find? k with
  | none => rfl
  | some n =>
    simp only
    by_cases h : n.sstate = .running ∨ n.sstate = .checking
    · simp [h]; rfl
    · simp only [h, if_false]
      rfl

/-- A predicate on states that the two writes of the propagation keep: turning a BUILT file
OUTDATED, and turning a step that is neither RUNNING nor CHECKING PENDING. -/
structure PropInv (Q : KState → Prop) : Prop where
  file : ∀ s s' f, Q s → s.fstateOf f = some .built → f.kind = .file → s.setFileState f .outdated = .ok s' → Q s'
  step : ∀ s s' t st, Q s → s.sstateOf t = some st → st ≠ .running → st ≠ .checking →
    s.setStepState t .pending = .ok s' → Q s'

theorem outdateStep_inv {Q : KState → Prop} (hQ : PropInv Q) (rec : KState → Key → M KState)
    (hrec : ∀ s t s', Q s → rec s t = .ok s' → Q s') (s s' : KState) (f : Key) (hs : Q s)
    (h : outdateStep rec s f = .ok s') : Q s' := by
  unfold outdateStep at h
  cases hf : s.find? f with
  | none =>
    simp only [hf, pure, Except.pure, Except.ok.injEq] at h
    exact h ▸ hs
  | some fn =>
    simp only [hf] at h
    split at h
    · rename_i hb
      simp only [bind, Except.bind] at h
      cases hw : s.setFileState f .outdated with
      | error e => simp [hw] at h
      | ok s1 =>
        simp only [hw] at h
        have hk := find?_key s f fn hf
        have h1 : Q s1 := hQ.file s s1 f hs (by simp [KState.fstateOf, hf, hb.2]) (hk ▸ hb.1) hw
        exact foldlM_keeps Q rec _ (fun b a b' _ hb' hr => hrec b a b' hb' hr) s1 s' h1 h
    · simp only [pure, Except.pure, Except.ok.injEq] at h
      exact h ▸ hs

theorem markStepPending_inv {Q : KState → Prop} (hQ : PropInv Q) :
    ∀ (fuel : Nat) (s s' : KState) (k : Key), Q s → markStepPending fuel s k = .ok s' → Q s' := by
  intro fuel
  induction fuel with
  | zero => intro s s' k _ h; rw [markStepPending_zero] at h; cases h
  | succ fuel ih =>
    intro s s' k hs h
    rw [markStepPending_succ] at h
    cases hf : s.find? k with
    | none => simp only [hf, Except.ok.injEq] at h; exact h ▸ hs
    | some n =>
      simp only [hf] at h
      split at h
      · simp only [Except.ok.injEq] at h; exact h ▸ hs
      · rename_i hrc
        cases hw : s.setStepState k .pending with
        | error e => simp [hw, Except.bind] at h
        | ok s1 =>
          simp only [hw, Except.bind] at h
          have h1 : Q s1 := hQ.step s s1 k n.sstate hs (by simp [KState.sstateOf, hf])
            (fun hr => hrc (Or.inl hr)) (fun hc => hrc (Or.inr hc)) hw
          split at h
          · exact foldlM_keeps Q _ _ (fun b a b' _ hb hr =>
              outdateStep_inv hQ _ (fun s t s' => ih s s' t) b b' a hb hr) s1 s' h1 h
          · simp only [Except.ok.injEq] at h; exact h ▸ h1

theorem setStepState_eq (s : KState) (k : Key) (st : StepState) (d : Bool) :
    s.setStepState k st d = s.writeStepState k st (some d) := rfl

theorem setFileState_eq (s : KState) (k : Key) (st : FileState) :
    s.setFileState k st = s.writeFile k st none := rfl

/-- The dependency table is not touched by the propagation. -/
theorem propInv_deps (d0 : List Dep) : PropInv (fun s => s.deps = d0) where
  file := fun s s' f hs _ _ h => by
    rw [setFileState_eq] at h
    exact (writeFile_effect s s' f _ _ h).2.2.trans hs
  step := fun s s' t _ hs _ _ _ h => by
    rw [setStepState_eq] at h
    exact (writeStepState_effect s s' t _ _ h).2.2.trans hs

/-- A step that is PENDING stays PENDING. -/
theorem propInv_pending (q : Key) : PropInv (fun s => s.sstateOf q = some .pending) where
  file := fun s s' f hs _ _ h => by
    rw [setFileState_eq] at h
    rw [(writeFile_effect s s' f _ _ h).2.1 q]; exact hs
  step := fun s s' t _ hs _ _ _ h => by
    rw [setStepState_eq] at h
    rw [(writeStepState_effect s s' t _ _ h).1 q]
    by_cases hq : q = t
    · subst hq; simp [hs]
    · simp [hq, hs]

/-- The state of a step only ever changes to PENDING, and not at all while it is RUNNING or
CHECKING: "PENDING, RUNNING or CHECKING" is stable. -/
def NotDone (s : KState) (q : Key) : Prop :=
  ∀ st, s.sstateOf q = some st → st = .pending ∨ st = .running ∨ st = .checking

theorem propInv_notDone (q : Key) : PropInv (fun s => NotDone s q) where
  file := fun s s' f hs _ _ h => by
    rw [setFileState_eq] at h
    intro st hst
    rw [(writeFile_effect s s' f _ _ h).2.1 q] at hst; exact hs st hst
  step := fun s s' t st0 hs _ _ _ h => by
    rw [setStepState_eq] at h
    intro st hst
    rw [(writeStepState_effect s s' t _ _ h).1 q] at hst
    by_cases hq : q = t
    · subst hq
      cases hc : s.sstateOf q with
      | none => simp [hc] at hst
      | some x => simp [hc] at hst; exact Or.inl hst.symm
    · simp only [hq, if_false] at hst; exact hs st hst

/-- A RUNNING or CHECKING step keeps its state. -/
theorem propInv_busy (q : Key) (st : StepState) (hst : st = .running ∨ st = .checking) :
    PropInv (fun s => s.sstateOf q = some st) where
  file := fun s s' f hs _ _ h => by
    rw [setFileState_eq] at h
    rw [(writeFile_effect s s' f _ _ h).2.1 q]; exact hs
  step := fun s s' t st0 hs h0 hr hc h => by
    rw [setStepState_eq] at h
    rw [(writeStepState_effect s s' t _ _ h).1 q]
    by_cases hq : q = t
    · subst hq
      rw [hs] at h0
      cases h0
      rcases hst with rfl | rfl
      · exact absurd rfl hr
      · exact absurd rfl hc
    · simp [hq, hs]

/-- A file that is not BUILT does not become BUILT. -/
theorem propInv_notBuilt (q : Key) : PropInv (fun s => s.fstateOf q ≠ some .built) where
  file := fun s s' f hs _ _ h => by
    rw [setFileState_eq] at h
    rw [(writeFile_effect s s' f _ _ h).1 q]
    by_cases hq : q = f
    · subst hq
      cases hc : s.fstateOf q <;> simp
    · simp [hq, hs]
  step := fun s s' t _ hs _ _ _ h => by
    rw [setStepState_eq] at h
    rw [(writeStepState_effect s s' t _ _ h).2.1 q]; exact hs

/-- A file that is neither BUILT nor OUTDATED keeps its state (static inputs are not touched). -/
theorem propInv_otherFile (q : Key) (st : Option FileState) (h1 : st ≠ some .built) :
    PropInv (fun s => s.fstateOf q = st) where
  file := fun s s' f hs hb _ h => by
    rw [setFileState_eq] at h
    rw [(writeFile_effect s s' f _ _ h).1 q]
    by_cases hq : q = f
    · subst hq
      rw [hs] at hb
      exact absurd hb h1
    · simp [hq, hs]
  step := fun s s' t _ hs _ _ _ h => by
    rw [setStepState_eq] at h
    rw [(writeStepState_effect s s' t _ _ h).2.1 q]; exact hs

theorem PropInv.and {P Q : KState → Prop} (hP : PropInv P) (hQ : PropInv Q) : PropInv (fun s => P s ∧ Q s) where
  file := fun s s' f hs hb hk h => ⟨hP.file s s' f hs.1 hb hk h, hQ.file s s' f hs.2 hb hk h⟩
  step := fun s s' t st hs h0 hr hc h => ⟨hP.step s s' t st hs.1 h0 hr hc h, hQ.step s s' t st hs.2 h0 hr hc h⟩

/-! ### What one call establishes -/

/-- After `mark_step_pending(k)` the step is PENDING, unless it is RUNNING or CHECKING (then the
call is ignored). -/
theorem markStepPending_notDone (fuel : Nat) (s s' : KState) (k : Key)
    (h : markStepPending fuel s k = .ok s') : NotDone s' k := by
  cases fuel with
  | zero => rw [markStepPending_zero] at h; cases h
  | succ fuel =>
    rw [markStepPending_succ] at h
    cases hf : s.find? k with
    | none =>
      simp only [hf, Except.ok.injEq] at h
      subst h
      intro st hst; simp [KState.sstateOf, hf] at hst
    | some n =>
      simp only [hf] at h
      split at h
      · rename_i hrc
        simp only [Except.ok.injEq] at h
        subst h
        intro st hst
        simp only [KState.sstateOf, hf, Option.map_some, Option.some.injEq] at hst
        subst hst
        rcases hrc with h1 | h1
        · exact Or.inr (Or.inl h1)
        · exact Or.inr (Or.inr h1)
      · cases hw : s.setStepState k .pending with
        | error e => simp [hw, Except.bind] at h
        | ok s1 =>
          simp only [hw, Except.bind] at h
          have hp : s1.sstateOf k = some .pending := by
            rw [setStepState_eq] at hw
            rw [(writeStepState_effect s s1 k _ _ hw).1 k]
            simp [KState.sstateOf, hf]
          have hfin : s'.sstateOf k = some .pending := by
            split at h
            · exact foldlM_keeps (fun s => s.sstateOf k = some .pending) _ _ (fun b a b' _ hb hr =>
                outdateStep_inv (propInv_pending k) _
                  (fun s t s' => markStepPending_inv (propInv_pending k) fuel s s' t) b b' a hb hr) s1 s' hp h
            · simp only [Except.ok.injEq] at h; exact h ▸ hp
          intro st hst
          rw [hfin] at hst
          exact Or.inl (Option.some.inj hst).symm

/-- If every step of a fold establishes `R a` for its own element and no step destroys an
established `R a`, then all of them hold at the end. -/
theorem foldlM_each {α β : Type} (R : α → β → Prop) (f : β → α → M β) (l : List α)
    (hest : ∀ b a b', f b a = .ok b' → R a b')
    (hstab : ∀ b a a' b', R a b → f b a' = .ok b' → R a b') (b b' : β)
    (h : l.foldlM f b = .ok b') : ∀ a ∈ l, R a b' := by
  induction l generalizing b with
  | nil => intro a ha; cases ha
  | cons x xs ih =>
    simp only [List.foldlM_cons, bind, Except.bind] at h
    cases hfx : f b x with
    | error e => simp [hfx] at h
    | ok b1 =>
      simp only [hfx] at h
      intro a ha
      rcases List.mem_cons.mp ha with rfl | hmem
      · exact foldlM_keeps (R a) f xs (fun b0 a0 b0' _ hb0 hr => hstab b0 a a0 b0' hb0 hr) b1 b' (hest b a b1 hfx) h
      · exact ih b1 h a hmem

/-- `outdateStep` on a file key leaves that file not BUILT. -/
theorem outdateStep_notBuilt (fuel : Nat) (s s' : KState) (f : Key) (hk : f.kind = .file)
    (h : outdateStep (markStepPending fuel) s f = .ok s') : s'.fstateOf f ≠ some .built := by
  unfold outdateStep at h
  cases hf : s.find? f with
  | none =>
    simp only [hf, pure, Except.pure, Except.ok.injEq] at h
    subst h
    simp [KState.fstateOf, hf]
  | some fn =>
    simp only [hf] at h
    have hkey := find?_key s f fn hf
    split at h
    · simp only [bind, Except.bind] at h
      cases hw : s.setFileState f .outdated with
      | error e => simp [hw] at h
      | ok s1 =>
        simp only [hw] at h
        have h1 : s1.fstateOf f ≠ some .built := by
          rw [setFileState_eq] at hw
          rw [(writeFile_effect s s1 f _ _ hw).1 f]
          simp [KState.fstateOf, hf]
        exact foldlM_keeps (fun s => s.fstateOf f ≠ some .built) _ _ (fun b a b' _ hb hr =>
          markStepPending_inv (propInv_notBuilt f) fuel b b' a hb hr) s1 s' h1 h
    · rename_i hnb
      simp only [pure, Except.pure, Except.ok.injEq] at h
      subst h
      simp only [KState.fstateOf, hf, Option.map_some, ne_eq, Option.some.injEq]
      intro hb
      exact hnb ⟨hkey ▸ hk, hb⟩

theorem outdateStep_keeps_notBuilt (fuel : Nat) (s s' : KState) (f g : Key)
    (hs : s.fstateOf g ≠ some .built) (h : outdateStep (markStepPending fuel) s f = .ok s') :
    s'.fstateOf g ≠ some .built :=
  outdateStep_inv (propInv_notBuilt g) _ (fun s t s' => markStepPending_inv (propInv_notBuilt g) fuel s s' t) s s' f hs h

/-- After `mark_step_pending(k)` on a step that had completed (SUCCEEDED or FAILED), none of
the files it has a dependency edge to is BUILT. -/
theorem markStepPending_sinks_notBuilt (fuel : Nat) (s s' : KState) (k : Key) (st : StepState)
    (hst : s.sstateOf k = some st) (hdone : st = .succeeded ∨ st = .failed)
    (h : markStepPending fuel s k = .ok s') :
    ∀ f ∈ s.sinksOf k, f.kind = .file → s'.fstateOf f ≠ some .built := by
  cases fuel with
  | zero => rw [markStepPending_zero] at h; cases h
  | succ fuel =>
    rw [markStepPending_succ] at h
    cases hf : s.find? k with
    | none => simp [KState.sstateOf, hf] at hst
    | some n =>
      simp only [KState.sstateOf, hf, Option.map_some, Option.some.injEq] at hst
      subst hst
      simp only [hf] at h
      have hnrc : ¬ (n.sstate = .running ∨ n.sstate = .checking) := by
        rcases hdone with h1 | h1 <;> simp [h1]
      simp only [hnrc, if_false, hdone, if_true] at h
      cases hw : s.setStepState k .pending with
      | error e => simp [hw, Except.bind] at h
      | ok s1 =>
        simp only [hw, Except.bind] at h
        have hdeps : s1.deps = s.deps := by
          rw [setStepState_eq] at hw
          exact (writeStepState_effect s s1 k _ _ hw).2.2
        have hsinks : s1.sinksOf k = s.sinksOf k := by unfold KState.sinksOf; rw [hdeps]
        rw [hsinks] at h
        intro f hfm hfk
        have hest : ∀ (b : KState) (a : Key) (b' : KState), outdateStep (markStepPending fuel) b a = .ok b' →
            (a.kind = .file → b'.fstateOf a ≠ some .built) :=
          fun b a b' hr hk => outdateStep_notBuilt fuel b b' a hk hr
        have hstab : ∀ (b : KState) (a a' : Key) (b' : KState), (a.kind = .file → b.fstateOf a ≠ some .built) →
            outdateStep (markStepPending fuel) b a' = .ok b' → (a.kind = .file → b'.fstateOf a ≠ some .built) :=
          fun b a a' b' hb hr hk => outdateStep_keeps_notBuilt fuel b b' a' a (hb hk) hr
        exact foldlM_each (fun (f : Key) (s : KState) => f.kind = .file → s.fstateOf f ≠ some .built) _ _
          hest hstab s1 s' h f hfm hfk

/-- `KState.markStepPending` is the fuelled function. -/
theorem markStepPending_def (s : KState) (k : Key) : s.markStepPending k = markStepPending s.fuel s k := rfl

/-- After `mark_consuming_steps_pending(f)` every step with a dependency edge from `f` is PENDING,
unless it is RUNNING or CHECKING (those are dealt with when they complete). -/
theorem markConsumersPending_notDone (s s' : KState) (f : Key) (h : s.markConsumersPending f = .ok s') :
    ∀ t ∈ s.sinksOf f, t.kind = .step → NotDone s' t := by
  unfold KState.markConsumersPending at h
  intro t ht hk
  have hmem : t ∈ (s.sinksOf f).filter (·.kind = .step) := by
    rw [List.mem_filter]; exact ⟨ht, by simpa using hk⟩
  exact foldlM_each (fun t s => NotDone s t) _ _
    (fun b a b' hr => markStepPending_notDone b.fuel b b' a hr)
    (fun b a a' b' hb hr => markStepPending_inv (propInv_notDone a) b.fuel b b' a' hb hr)
    s s' h t hmem

theorem markConsumersPending_inv {Q : KState → Prop} (hQ : PropInv Q) (s s' : KState) (f : Key) (hs : Q s)
    (h : s.markConsumersPending f = .ok s') : Q s' := by
  unfold KState.markConsumersPending at h
  exact foldlM_keeps Q _ _ (fun b a b' _ hb hr => markStepPending_inv hQ b.fuel b b' a hb hr) s s' hs h

/-! ### Staleness -/

/-- An input in a state in which a consumer may have succeeded on it. -/
def InputOk (st : Option FileState) : Prop := st = some .built ∨ st = some .confirmed

/-- A stale dependency: a SUCCEEDED step with an input that is not BUILT or CONFIRMED. -/
def StaleDep (s : KState) (d : Dep) : Prop :=
  d ∈ s.deps ∧ d.snk.kind = .step ∧ s.sstateOf d.snk = some .succeeded ∧ ¬ InputOk (s.fstateOf d.src)

/-- A BUILT file whose producing step is not SUCCEEDED (nor RUNNING / CHECKING). -/
def OrphanBuilt (s : KState) (d : Dep) : Prop :=
  d ∈ s.deps ∧ d.snk.kind = .file ∧ s.fstateOf d.snk = some .built ∧
    s.sstateOf d.src ≠ some .succeeded ∧ s.sstateOf d.src ≠ some .running ∧ s.sstateOf d.src ≠ some .checking

theorem mem_sinksOf (s : KState) (d : Dep) (h : d ∈ s.deps) : d.snk ∈ s.sinksOf d.src := by
  unfold KState.sinksOf
  rw [List.mem_map]
  exact ⟨d, by rw [List.mem_filter]; exact ⟨h, by simp⟩, rfl⟩

theorem sinksOf_congr (s s' : KState) (h : s'.deps = s.deps) (k : Key) : s'.sinksOf k = s.sinksOf k := by
  unfold KState.sinksOf; rw [h]

theorem markStepPending_deps (fuel : Nat) (s s' : KState) (k : Key) (h : markStepPending fuel s k = .ok s') :
    s'.deps = s.deps :=
  markStepPending_inv (propInv_deps s.deps) fuel s s' k rfl h

/-- Marking steps pending creates no stale dependency: every stale dependency afterwards was
stale before.  (A file that turns OUTDATED has all its consuming steps marked.) -/
theorem markStepPending_stale_mono :
    ∀ (fuel : Nat) (s s' : KState) (k : Key), markStepPending fuel s k = .ok s' →
      ∀ d, StaleDep s' d → StaleDep s d := by
  intro fuel
  induction fuel with
  | zero => intro s s' k h; rw [markStepPending_zero] at h; cases h
  | succ fuel ih =>
    -- the inner fold (consumers of one file) and `outdateStep` are monotone by `ih`
    have hfold : ∀ (l : List Key) (s s' : KState), l.foldlM (markStepPending fuel) s = .ok s' →
        ∀ d, StaleDep s' d → StaleDep s d := by
      intro l s s' h
      exact foldlM_keeps (fun b => ∀ d, StaleDep b d → StaleDep s d) _ l
        (fun b a b' _ hb hr d hd => hb d (ih b b' a hr d hd)) s s' (fun _ hd => hd) h
    have hout : ∀ (s s' : KState) (f : Key), outdateStep (markStepPending fuel) s f = .ok s' →
        ∀ d, StaleDep s' d → StaleDep s d := by
      intro s s' f h d hd
      unfold outdateStep at h
      cases hf : s.find? f with
      | none =>
        simp only [hf, pure, Except.pure, Except.ok.injEq] at h
        exact h ▸ hd
      | some fn =>
        simp only [hf] at h
        split at h
        · simp only [bind, Except.bind] at h
          cases hw : s.setFileState f .outdated with
          | error e => simp [hw] at h
          | ok s1 =>
            simp only [hw] at h
            rw [setFileState_eq] at hw
            obtain ⟨hfs, hss, hdeps⟩ := writeFile_effect s s1 f _ _ hw
            have hd1 : StaleDep s1 d := hfold _ s1 s' h d hd
            have hdeps' : s'.deps = s1.deps :=
              foldlM_keeps (fun b => b.deps = s1.deps) _ _
                (fun b a b' _ hb hr => (markStepPending_deps fuel b b' a hr).trans hb) s1 s' rfl h
            by_cases hsrc : d.src = f
            · -- the consumer was marked, so it is not SUCCEEDED any more
              exfalso
              obtain ⟨hmem, hkind, hsucc, _⟩ := hd
              have hmem1 : d ∈ s1.deps := hdeps' ▸ hmem
              have hsink : d.snk ∈ (s1.sinksOf f).filter (·.kind = .step) := by
                rw [List.mem_filter]
                exact ⟨hsrc ▸ mem_sinksOf s1 d hmem1, by simpa using hkind⟩
              have hnd : NotDone s' d.snk :=
                foldlM_each (fun (t : Key) (b : KState) => NotDone b t) _ _
                  (fun b a b' hr => markStepPending_notDone fuel b b' a hr)
                  (fun b a a' b' hb hr => markStepPending_inv (propInv_notDone a) fuel b b' a' hb hr)
                  s1 s' h d.snk hsink
              rcases hnd _ hsucc with h1 | h1 | h1 <;> cases h1
            · obtain ⟨hmem, hkind, hsucc, hav⟩ := hd1
              refine ⟨hdeps ▸ hmem, hkind, by rw [← hss]; exact hsucc, ?_⟩
              rw [hfs d.src] at hav
              simpa [hsrc] using hav
        · simp only [pure, Except.pure, Except.ok.injEq] at h
          exact h ▸ hd
    intro s s' k h d hd
    rw [markStepPending_succ] at h
    cases hf : s.find? k with
    | none => simp only [hf, Except.ok.injEq] at h; exact h ▸ hd
    | some n =>
      simp only [hf] at h
      split at h
      · simp only [Except.ok.injEq] at h; exact h ▸ hd
      · cases hw : s.setStepState k .pending with
        | error e => simp [hw, Except.bind] at h
        | ok s1 =>
          simp only [hw, Except.bind] at h
          rw [setStepState_eq] at hw
          obtain ⟨hss, hfs, hdeps⟩ := writeStepState_effect s s1 k _ _ hw
          have hd1 : StaleDep s1 d := by
            split at h
            · exact foldlM_keeps (fun b => ∀ d, StaleDep b d → StaleDep s1 d) _ _
                (fun b a b' _ hb hr d hd => hb d (hout b b' a hr d hd)) s1 s' (fun _ hd => hd) h d hd
            · simp only [Except.ok.injEq] at h; exact h ▸ hd
          obtain ⟨hmem, hkind, hsucc, hav⟩ := hd1
          refine ⟨hdeps ▸ hmem, hkind, ?_, by rw [← hfs]; exact hav⟩
          rw [hss d.snk] at hsucc
          by_cases hq : d.snk = k
          · rw [hq] at hsucc
            simp only [if_true] at hsucc
            cases hc : s.sstateOf k with
            | none => simp [hc] at hsucc
            | some x => simp [hc] at hsucc
          · simpa [hq] using hsucc

/-- A file that is not in state `x` does not get there (`x` any state but OUTDATED). -/
theorem propInv_notState (q : Key) (x : FileState) (hx : x ≠ .outdated) :
    PropInv (fun s => s.fstateOf q ≠ some x) where
  file := fun s s' f hs _ _ h => by
    rw [setFileState_eq] at h
    rw [(writeFile_effect s s' f _ _ h).1 q]
    by_cases hq : q = f
    · subst hq
      cases hc : s.fstateOf q with
      | none => simp
      | some y => simp; exact fun h => hx h.symm
    · simp [hq, hs]
  step := fun s s' t _ hs _ _ _ h => by
    rw [setStepState_eq] at h
    rw [(writeStepState_effect s s' t _ _ h).2.1 q]; exact hs

/-- No step is RUNNING or CHECKING (startup after `reset_interrupted_steps`, watch phase). -/
def NoneBusy (s : KState) : Prop := ∀ q st, s.sstateOf q = some st → st ≠ .running ∧ st ≠ .checking

theorem propInv_noneBusy : PropInv NoneBusy where
  file := fun s s' f hs _ _ h => by
    rw [setFileState_eq] at h
    intro q st hst
    rw [(writeFile_effect s s' f _ _ h).2.1 q] at hst; exact hs q st hst
  step := fun s s' t st0 hs _ _ _ h => by
    rw [setStepState_eq] at h
    intro q st hst
    rw [(writeStepState_effect s s' t _ _ h).1 q] at hst
    by_cases hq : q = t
    · subst hq
      cases hc : s.sstateOf q with
      | none => simp [hc] at hst
      | some x =>
        simp [hc] at hst
        subst hst
        exact ⟨by simp, by simp⟩
    · simp only [hq, if_false] at hst; exact hs q st hst

/-- Marking steps pending leaves no BUILT file behind a step that is no longer SUCCEEDED: every
such file afterwards was one before. -/
theorem markStepPending_orphan_mono :
    ∀ (fuel : Nat) (s s' : KState) (k : Key), markStepPending fuel s k = .ok s' →
      ∀ d, OrphanBuilt s' d → OrphanBuilt s d := by
  intro fuel
  induction fuel with
  | zero => intro s s' k h; rw [markStepPending_zero] at h; cases h
  | succ fuel ih =>
    have hfold : ∀ (l : List Key) (s s' : KState), l.foldlM (markStepPending fuel) s = .ok s' →
        ∀ d, OrphanBuilt s' d → OrphanBuilt s d := by
      intro l s s' h
      exact foldlM_keeps (fun b => ∀ d, OrphanBuilt b d → OrphanBuilt s d) _ l
        (fun b a b' _ hb hr d hd => hb d (ih b b' a hr d hd)) s s' (fun _ hd => hd) h
    have hout : ∀ (s s' : KState) (f : Key), outdateStep (markStepPending fuel) s f = .ok s' →
        ∀ d, OrphanBuilt s' d → OrphanBuilt s d := by
      intro s s' f h d hd
      unfold outdateStep at h
      cases hf : s.find? f with
      | none =>
        simp only [hf, pure, Except.pure, Except.ok.injEq] at h
        exact h ▸ hd
      | some fn =>
        simp only [hf] at h
        split at h
        · simp only [bind, Except.bind] at h
          cases hw : s.setFileState f .outdated with
          | error e => simp [hw] at h
          | ok s1 =>
            simp only [hw] at h
            rw [setFileState_eq] at hw
            obtain ⟨hfs, hss, hdeps⟩ := writeFile_effect s s1 f _ _ hw
            obtain ⟨hmem, hkind, hb, h1, h2, h3⟩ := hfold _ s1 s' h d hd
            refine ⟨hdeps ▸ hmem, hkind, ?_, by rw [← hss]; exact h1, by rw [← hss]; exact h2, by rw [← hss]; exact h3⟩
            rw [hfs d.snk] at hb
            by_cases hq : d.snk = f
            · rw [hq] at hb
              simp only [if_true] at hb
              cases hc : s.fstateOf f with
              | none => simp [hc] at hb
              | some y => simp [hc] at hb
            · simpa [hq] using hb
        · simp only [pure, Except.pure, Except.ok.injEq] at h
          exact h ▸ hd
    intro s s' k h d hd
    have hall := h
    rw [markStepPending_succ] at h
    cases hf : s.find? k with
    | none => simp only [hf, Except.ok.injEq] at h; exact h ▸ hd
    | some n =>
      simp only [hf] at h
      split at h
      · simp only [Except.ok.injEq] at h; exact h ▸ hd
      · rename_i hnrc
        cases hw : s.setStepState k .pending with
        | error e => simp [hw, Except.bind] at h
        | ok s1 =>
          simp only [hw, Except.bind] at h
          rw [setStepState_eq] at hw
          obtain ⟨hss, hfs, hdeps⟩ := writeStepState_effect s s1 k _ _ hw
          have hst : s.sstateOf k = some n.sstate := by simp [KState.sstateOf, hf]
          by_cases hdone : n.sstate = .succeeded ∨ n.sstate = .failed
          · simp only [hdone, if_true] at h
            have hd1 : OrphanBuilt s1 d :=
              foldlM_keeps (fun b => ∀ d, OrphanBuilt b d → OrphanBuilt s1 d) _ _
                (fun b a b' _ hb hr d hd => hb d (hout b b' a hr d hd)) s1 s' (fun _ hd => hd) h d hd
            by_cases hsrc : d.src = k
            · -- all file sinks of `k` were outdated
              exfalso
              obtain ⟨hmem, hkind, hb, _⟩ := hd
              have hdeps' : s'.deps = s.deps := markStepPending_deps (fuel + 1) s s' k hall
              have hmem0 : d ∈ s.deps := hdeps' ▸ hmem
              exact markStepPending_sinks_notBuilt (fuel + 1) s s' k n.sstate hst hdone hall d.snk
                (hsrc ▸ mem_sinksOf s d hmem0) hkind hb
            · obtain ⟨hmem, hkind, hb, h1, h2, h3⟩ := hd1
              have hsame : s1.sstateOf d.src = s.sstateOf d.src := by rw [hss d.src]; simp [hsrc]
              exact ⟨hdeps ▸ hmem, hkind, by rw [← hfs]; exact hb, hsame ▸ h1, hsame ▸ h2, hsame ▸ h3⟩
          · simp only [hdone, if_false, Except.ok.injEq] at h
            subst h
            obtain ⟨hmem, hkind, hb, h1, h2, h3⟩ := hd
            refine ⟨hdeps ▸ hmem, hkind, by rw [← hfs]; exact hb, ?_, ?_, ?_⟩
            · by_cases hsrc : d.src = k
              · rw [hsrc, hst]; simp; exact fun h => hdone (Or.inl h)
              · have hsame : s1.sstateOf d.src = s.sstateOf d.src := by rw [hss d.src]; simp [hsrc]
                exact hsame ▸ h1
            · by_cases hsrc : d.src = k
              · rw [hsrc, hst]; simp; exact fun h => hnrc (Or.inl h)
              · have hsame : s1.sstateOf d.src = s.sstateOf d.src := by rw [hss d.src]; simp [hsrc]
                exact hsame ▸ h2
            · by_cases hsrc : d.src = k
              · rw [hsrc, hst]; simp; exact fun h => hnrc (Or.inr h)
              · have hsame : s1.sstateOf d.src = s.sstateOf d.src := by rw [hss d.src]; simp [hsrc]
                exact hsame ▸ h3

theorem markConsumersPending_stale_mono (s s' : KState) (f : Key) (h : s.markConsumersPending f = .ok s') :
    ∀ d, StaleDep s' d → StaleDep s d := by
  unfold KState.markConsumersPending at h
  exact foldlM_keeps (fun b => ∀ d, StaleDep b d → StaleDep s d) _ _
    (fun b a b' _ hb hr d hd => hb d (markStepPending_stale_mono b.fuel b b' a hr d hd)) s s' (fun _ hd => hd) h

theorem markConsumersPending_orphan_mono (s s' : KState) (f : Key) (h : s.markConsumersPending f = .ok s') :
    ∀ d, OrphanBuilt s' d → OrphanBuilt s d := by
  unfold KState.markConsumersPending at h
  exact foldlM_keeps (fun b => ∀ d, OrphanBuilt b d → OrphanBuilt s d) _ _
    (fun b a b' _ hb hr d hd => hb d (markStepPending_orphan_mono b.fuel b b' a hr d hd)) s s' (fun _ hd => hd) h

/-! ## Downstream closure of the invalidation -/

theorem PropInv.forall {ι : Type} {P : ι → KState → Prop} (h : ∀ i, PropInv (P i)) :
    PropInv (fun s => ∀ i, P i s) where
  file := fun s s' f hs hb hk hw i => (h i).file s s' f (hs i) hb hk hw
  step := fun s s' t st hs h0 hr hc hw i => (h i).step s s' t st (hs i) h0 hr hc hw

theorem markConsumersPending_deps (s s' : KState) (f : Key) (h : s.markConsumersPending f = .ok s') :
    s'.deps = s.deps :=
  markConsumersPending_inv (propInv_deps s.deps) s s' f rfl h

/-- The stored step hash is not touched by the propagation (a step marked pending keeps its hash
and is re-checked before it runs). -/
theorem propInv_shash (q : Key) (v : Option Nat) : PropInv (fun s => s.shashOf q = v) where
  file := fun s s' f hs _ _ h => by
    rw [setFileState_eq] at h
    unfold KState.writeFile at h
    cases hf : s.find? f with
    | none => simp only [hf, pure, Except.pure, Except.ok.injEq] at h; exact h ▸ hs
    | some n =>
      simp only [hf, bind, Except.bind] at h
      cases hw : fileRowWrite n .outdated none with
      | error e => simp [hw] at h
      | ok n' =>
        simp only [hw, pure, Except.pure, Except.ok.injEq] at h
        obtain ⟨_, h2, _, h4⟩ := fileRowWrite_ok n n' _ _ hw
        have hk : n.key = f := find?_key s f n hf
        have hkey : ∀ m : Node, m.key = f → ((fun _ => n') m).key = f := fun _ _ => by simp [h2, hk]
        have hmod : (s.modify f fun _ => n').shashOf q = s.shashOf q := by
          by_cases hq : q = f
          · subst hq
            simp only [KState.shashOf, find?_modify_self s q _ hkey, hf, Option.map_some, Option.bind_some, h4]
          · simp only [KState.shashOf, find?_modify_ne s f q _ hkey hq]
        have hflag : ∀ s0 : KState, (s0.flagReadySinks f).shashOf q = s0.shashOf q := by
          intro s0
          obtain ⟨g, hg, hfq⟩ := find?_flagReadySinks s0 f q
          unfold KState.shashOf
          rw [hfq]
          cases s0.find? q with
          | none => rfl
          | some m => rcases hg m with h1 | h1 <;> simp [h1]
        split at h
        · subst h; rw [hflag, hmod]; exact hs
        · subst h; rw [hmod]; exact hs
  step := fun s s' t _ hs _ _ _ h => by
    rw [setStepState_eq] at h
    unfold KState.writeStepState at h
    cases hf : s.find? t with
    | none => simp only [hf, pure, Except.pure, Except.ok.injEq] at h; exact h ▸ hs
    | some n =>
      simp only [hf, bind, Except.bind] at h
      cases hw : stepRowWrite n .pending (some false) with
      | error e => simp [hw] at h
      | ok n' =>
        simp only [hw, pure, Except.pure, Except.ok.injEq] at h
        subst h
        obtain ⟨_, h2, _, h4⟩ := stepRowWrite_ok n n' _ _ hw
        have hk : n.key = t := find?_key s t n hf
        have hkey : ∀ m : Node, m.key = t → ((fun _ => n') m).key = t := fun _ _ => by simp [h2, hk]
        by_cases hq : q = t
        · subst hq
          simp only [KState.shashOf, find?_modify_self s q _ hkey, hf, Option.map_some, Option.bind_some, h4]
          simpa [KState.shashOf, hf] using hs
        · simp only [KState.shashOf, find?_modify_ne s t q _ hkey hq]
          exact hs

/-! ## `update_file_hashes` for one file -/

/-- `update_file_hashes` for a single path, spelled out. -/
theorem updateFileHashes_single (s : KState) (p : String) (h : Option Nat) (c : Cause) :
    s.updateFileHashes [(p, h)] c =
      (s.hashRec c (p, h) >>= fun r =>
        s.writeFile r.key r.newState (some r.newHash) >>= fun s1 =>
          (if r.action = some .updated then s1.handleUpdated r.key else pure s1) >>= fun s2 =>
          (if r.action = some .deleted then s2.handleDeleted r.key else pure s2) >>= fun s3 =>
          (if r.action = some .completed then s3.markConsumersPending r.key else pure s3)) := by
  unfold KState.updateFileHashes
  simp only [List.isEmpty_cons, Bool.false_eq_true, if_false, List.mergeSort_singleton, List.mapM_cons, List.mapM_nil]
  cases hr : s.hashRec c (p, h) with
  | error e => simp [bind, Except.bind]
  | ok r =>
    simp only [bind, Except.bind, pure, Except.pure, List.foldlM_cons, List.foldlM_nil]
    cases hw : s.writeFile r.key r.newState (some r.newHash) with
    | error e => rfl
    | ok s1 =>
      simp only
      rcases r with ⟨k, ns, nh, act⟩
      cases act with
      | none => simp [List.filter, pure, Except.pure]
      | some a =>
        cases a with
        | updated =>
          simp [List.filter, pure, Except.pure, bind, Except.bind]
          cases s1.handleUpdated k <;> rfl
        | deleted =>
          simp [List.filter, pure, Except.pure, bind, Except.bind]
          cases s1.handleDeleted k <;> rfl
        | completed =>
          simp [List.filter, pure, Except.pure, bind, Except.bind]
          cases s1.markConsumersPending k <;> rfl

/-- A file whose state is not in the static role does not get there. -/
theorem propInv_notStaticRole (q : Key) :
    PropInv (fun s => ∀ st, s.fstateOf q = some st → st.role? ≠ some .static) where
  file := fun s s' f hs _ _ h => by
    rw [setFileState_eq] at h
    intro st hst
    rw [(writeFile_effect s s' f _ _ h).1 q] at hst
    by_cases hq : q = f
    · subst hq
      cases hc : s.fstateOf q with
      | none => simp [hc] at hst
      | some y =>
        simp [hc] at hst
        subst hst
        simp [FileState.role?]
    · simp only [hq, if_false] at hst
      exact hs st hst
  step := fun s s' t _ hs _ _ _ h => by
    rw [setStepState_eq] at h
    intro st hst
    rw [(writeStepState_effect s s' t _ _ h).2.1 q] at hst
    exact hs st hst

/-- What the regenerated `_HASH_TRANSITIONS` says about the EXTERNAL cause (startup rescan,
watcher): the new state is MISSING, CONFIRMED or PLANNED (never BUILT), in the role of the old
one, and a follow-up action (updated or deleted) always runs. -/
theorem external_transition_facts (st new : FileState) (known : Bool) (act : Option Action)
    (h : lookupTransition .external st known = some (new, act)) :
    (new = .missing ∨ new = .confirmed ∨ new = .planned) ∧ (act = some .updated ∨ act = some .deleted) ∧
      new.role? = st.role? := by
  unfold lookupTransition at h
  cases st <;> cases known <;> simp [hashTransitions, List.find?] at h <;>
    (obtain ⟨rfl, rfl⟩ := h; simp [FileState.role?])

/-! ## Requests that only touch cache flags (C04) -/

/-- A node without its `_check_after` flag. -/
def noAfter (n : Node) : Node := { n with checkAfter := false }

/-- A node without `_ready` / `_check_ready`. -/
def noReady (n : Node) : Node := { n with ready := false, checkReady := false }

theorem map_view_modifyWhere {β : Type} (s : KState) (p : Node → Bool) (f : Node → Node) (v : Node → β)
    (hv : ∀ n, v (f n) = v n) : (s.modifyWhere p f).nodes.map v = s.nodes.map v := by
  unfold KState.modifyWhere
  simp only [List.map_map]
  apply List.map_congr_left
  intro n _
  by_cases h : p n = true <;> simp [h, hv]

theorem map_view_modify {β : Type} (s : KState) (k : Key) (f : Node → Node) (v : Node → β)
    (hv : ∀ n, v (f n) = v n) : (s.modify k f).nodes.map v = s.nodes.map v := by
  unfold KState.modify
  simp only [List.map_map]
  apply List.map_congr_left
  intro n _
  by_cases h : n.key = k <;> simp [h, hv]

/-- What `reconcile_targets` may not change: every column of every node except `_check_after`,
the dependency table, the deletion queue. -/
def SameButAfter (s s' : KState) : Prop :=
  s'.nodes.map noAfter = s.nodes.map noAfter ∧ s'.deps = s.deps ∧ s'.toBeDeleted = s.toBeDeleted

theorem SameButAfter.refl (s : KState) : SameButAfter s s := ⟨rfl, rfl, rfl⟩

theorem SameButAfter.trans {a b c : KState} (h1 : SameButAfter a b) (h2 : SameButAfter b c) : SameButAfter a c :=
  ⟨h2.1.trans h1.1, h2.2.1.trans h1.2.1, h2.2.2.trans h1.2.2⟩

theorem reconcileTarget_sameButAfter (s s' : KState) (t : String) (h : s.reconcileTarget t = .ok s') :
    SameButAfter s s' := by
  unfold KState.reconcileTarget at h
  split at h
  · split at h
    · cases h; exact SameButAfter.refl s
    · split at h
      · split at h
        · cases h
        · cases h; exact SameButAfter.refl s
      · split at h
        · cases h
          exact ⟨map_view_modify s _ _ noAfter (fun _ => rfl), rfl, rfl⟩
        · cases h; exact SameButAfter.refl s
  · cases h; exact SameButAfter.refl s

/-! ## `_update_meta_*` only touches cached columns (C04) -/

/-- The columns the dispatch decision may not change: identity, step state, attachment. -/
def Node.dcore (n : Node) : Key × StepState × Bool := (n.key, n.sstate, n.detached)

theorem dcore_modifyWhere (s : KState) (p : Node → Bool) (f : Node → Node) (hf : ∀ n, (f n).dcore = n.dcore) :
    (s.modifyWhere p f).nodes.map Node.dcore = s.nodes.map Node.dcore :=
  map_view_modifyWhere s p f Node.dcore hf

theorem updateMetaSafe_dcore (s s' : KState) (h : s.updateMetaSafe = .ok s') :
    s'.nodes.map Node.dcore = s.nodes.map Node.dcore := by
  unfold KState.updateMetaSafe at h
  simp only [bind, Except.bind] at h
  split at h
  · simp only [pure, Except.pure, Except.ok.injEq] at h; subst h; rfl
  · split at h
    · cases h
    · simp only [pure, Except.pure, Except.ok.injEq] at h
      subst h
      refine (dcore_modifyWhere _ _ _ ?_).trans (dcore_modifyWhere _ _ _ ?_)
      · intro n; rfl
      · intro n
        split <;> rfl

theorem afterLoop_dcore (cfg : KConfig) (fuel : Nat) (s s' : KState) (work : List Key) (first : Bool)
    (h : KState.afterLoop cfg fuel s work first = some s') : s'.nodes.map Node.dcore = s.nodes.map Node.dcore := by
  induction fuel generalizing s work first with
  | zero =>
    unfold KState.afterLoop at h
    split at h
    · simp only [Option.some.injEq] at h; subst h; rfl
    · cases h
  | succ fuel ih =>
    unfold KState.afterLoop at h
    split at h
    · simp only [Option.some.injEq] at h; subst h; rfl
    · refine (ih _ _ _ h).trans ?_
      unfold KState.applyAfterUpdates
      apply dcore_modifyWhere
      intro n
      split <;> rfl

theorem updateMetaAfter_dcore (s s' : KState) (cfg : KConfig) (h : s.updateMetaAfter cfg = .ok s') :
    s'.nodes.map Node.dcore = s.nodes.map Node.dcore := by
  unfold KState.updateMetaAfter at h
  split at h
  · simp only [pure, Except.pure, Except.ok.injEq] at h; subst h; rfl
  · dsimp only at h
    split at h
    · rename_i st hst
      simp only [pure, Except.pure, Except.ok.injEq] at h
      subst h
      refine (dcore_modifyWhere _ _ _ ?_).trans (afterLoop_dcore cfg _ s st _ _ hst)
      intro n; rfl
    · cases h

/-- `_update_meta_*` change cached columns only: every row keeps its key, state and attachment. -/
theorem updateMeta_dcore (s s' : KState) (cfg : KConfig) (h : s.updateMeta cfg = .ok s') :
    s'.nodes.map Node.dcore = s.nodes.map Node.dcore := by
  unfold KState.updateMeta at h
  simp only [bind, Except.bind] at h
  cases h1 : s.updateMetaSafe with
  | error e => simp [h1] at h
  | ok s1 =>
    simp only [h1] at h
    cases h2 : s1.updateMetaAfter cfg with
    | error e => simp [h2] at h
    | ok s2 =>
      simp only [h2, pure, Except.pure, Except.ok.injEq] at h
      subst h
      unfold KState.updateMetaReady
      refine (dcore_modifyWhere _ _ _ ?_).trans ((updateMetaAfter_dcore s1 s2 cfg h2).trans (updateMetaSafe_dcore s s1 h1))
      intro n; rfl

end StepupModel.K
