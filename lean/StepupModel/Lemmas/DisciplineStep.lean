import StepupModel.Lemmas.DisciplineDeclare
/-!
# The flag discipline through `define_step`, `amend_step`, `register_static_tree`
-/
namespace StepupModel.K.Discipline
open StepupModel.K.MetaAfter StepupModel.Lemmas StepupModel.K.Sk
set_option linter.unusedSimpArgs false
set_option linter.unusedVariables false

/-! ## `Node.reattach` of a step: structure, and the step ends up flagged -/

theorem structRel_setDetachedRec (s : KState) (k : Key) (d : Bool) : StructRel s (s.setDetachedRec k d) := by
  unfold KState.setDetachedRec
  exact structRel_foldl_setDetachedRow d _ s

theorem reattach_spec {s s' : KState} {k c : Key} (hS : Struct s) (hkstep : k.kind = .step)
    (h : s.reattach k c = .ok s') :
    CInv k (some c) s s' ∧ (∀ d ∈ s'.deps, d ∈ s.deps) ∧ (c.kind = .step ∨ c = rootKey) := by
  unfold KState.reattach at h
  cases hf : s.find? k with
  | none => simp [hf] at h
  | some n =>
    simp only [hf] at h
    split at h
    · cases h
    · split at h
      · cases h
      · unfold KState.reattachCore at h
        simp only [bind, Except.bind] at h
        cases h1 : s.setCreator k (some c) (s.isDetached c) with
        | error e => simp [h1] at h
        | ok s1 =>
          simp only [h1] at h
          cases h2 : s1.lostProduct n.creator with
          | error e => simp [h2] at h
          | ok s2 =>
            simp only [h2] at h
            unfold KState.flagIfStep at h
            rw [if_pos hkstep] at h
            have hallow : s.creatorAllowed k (some c) (s.isDetached c) = true := by
              unfold KState.setCreator at h1
              split at h1
              · assumption
              · cases h1
            have c1 : CInv k (some c) s s1 := by
              unfold KState.setCreator at h1
              rw [if_pos hallow] at h1
              simp only [pure, Except.pure, Except.ok.injEq] at h1
              subst h1
              have c0 : CInv k (some c) s (s.modify k fun n => { n with creator := some c }) := by
                refine ⟨keep_modify s k _ (fun _ hm => hm), ?_, ?_⟩
                · intro nk hnk
                  rw [find?_modify_k (fun n => { n with creator := some c }) (fun _ hm => hm), hf] at hnk
                  simp only [Option.map_some, Option.some.injEq] at hnk
                  rw [← hnk]; exact .inl rfl
                · rw [find?_modify_k (fun n => { n with creator := some c }) (fun _ hm => hm), hf]; rfl
              exact c0.rel (structRel_setDetachedRow _ k _)
            have c2 := c1.soft (lostProduct_rel h2)
            have c3 := c2.rel (structRel_setDetachedRec s2 k (s.isDetached c))
            have c4 := c3.soft (flagChecksWithProducts_rel h)
            refine ⟨c4, c4.keep.deps, ?_⟩
            unfold KState.creatorAllowed at hallow
            have hkr : ¬ k.kind = .root := by rw [hkstep]; intro hh; cases hh
            rw [if_neg hkr] at hallow
            simp only at hallow
            cases hfc : s.find? c with
            | none => simp [hfc] at hallow
            | some cn =>
              simp only [hfc, Bool.and_eq_true, decide_eq_true_eq] at hallow
              exact creatorKind_of_find hS hkstep hfc hallow.1

theorem reattach_struct {s s' : KState} {k c : Key} (hS : Struct s) (hkstep : k.kind = .step)
    (h : s.reattach k c = .ok s') : Struct s' := by
  obtain ⟨hc, hdeps, hkind⟩ := reattach_spec hS hkstep h
  have hkeys := ku_of_kn (StableG.reattach_preserves stable_keysNodup k c s s' (kn_of_ku hS.keys) h)
  refine struct_of_keep hS hc.keep hkeys (by rw [hkstep]; intro hh; cases hh) ?_ ?_ (fun _ => hc.has)
  · intro d hd hsrc hsk
    have := hS.dkinds d (hdeps d hd)
    rw [hsrc, hsk, hkstep] at this
    cases this
  · intro _ nk hnk c' hcc
    rcases hc.cr nk hnk with hx | hx
    · rw [hx] at hcc; cases hcc; exact hkind
    · rw [hx] at hcc; cases hcc

/-- After `Step.reattach` the step itself is flagged. -/
theorem reattach_flags_self {s s' : KState} {k c : Key} (hS : Struct s) (hkstep : k.kind = .step)
    (h : s.reattach k c = .ok s') : ∀ n' ∈ s'.nodes, n'.key = k → n'.checkAfter = true := by
  obtain ⟨hc, _, _⟩ := reattach_spec hS hkstep h
  unfold KState.reattach at h
  cases hf : s.find? k with
  | none => simp [hf] at h
  | some n =>
    simp only [hf] at h
    split at h
    · cases h
    · split at h
      · cases h
      · unfold KState.reattachCore at h
        simp only [bind, Except.bind] at h
        cases h1 : s.setCreator k (some c) (s.isDetached c) with
        | error e => simp [h1] at h
        | ok s1 =>
          simp only [h1] at h
          cases h2 : s1.lostProduct n.creator with
          | error e => simp [h2] at h
          | ok s2 =>
            simp only [h2] at h
            unfold KState.flagIfStep at h
            rw [if_pos hkstep] at h
            unfold KState.flagChecksWithProducts at h
            cases hks : (s2.setDetachedRec k (s.isDetached c)).stepSubtree k with
            | none => simp [hks] at h
            | some ks =>
              simp only [hks, pure, Except.pure, Except.ok.injEq] at h
              intro n' hn' hk'
              rw [← h] at hn'
              obtain ⟨n3, hn3, hk3, _, _, hsel⟩ := flagPass_rows hn' (fun _ => rfl) (fun _ => rfl) (fun _ => rfl)
              apply hsel
              rw [List.contains_iff_mem, ← hk3, hk']
              -- the row of `k` exists in the state that is flagged
              have hhas : Has (s2.setDetachedRec k (s.isDetached c)) k := by
                have r1 := (ur_setCreator (X := fun x => x = k) rfl h1).1
                have hk1 : Has s1 k := by
                  have := find?_all₂ (R := UR fun x => x = k) (fun _ _ hr => hr.1) k r1
                  exact has_of_optRel this (by unfold Has; rw [hf]; rfl)
                exact has_rel (structRel_setDetachedRec s2 k _) (has_soft (lostProduct_rel h2) hk1)
              unfold Has at hhas
              cases hfk : (s2.setDetachedRec k (s.isDetached c)).find? k with
              | none => rw [hfk] at hhas; cases hhas
              | some nk => exact (stepSubtree_spec hks hfk hkstep).1

theorem TI.reattach {cfg : KConfig} {s s' : KState} {k c : Key} (h : TI cfg s) (hkstep : k.kind = .step)
    (hc : s.reattach k c = .ok s') :
    TI cfg s' ∧ Mono s s' ∧ ∀ n' ∈ s'.nodes, n'.key = k → n'.checkAfter = true := by
  obtain ⟨hci, _, _⟩ := reattach_spec h.st hkstep hc
  refine ⟨⟨disc_of_wd (reattach_wd h.st h.fo hkstep hc (wd_of_disc _ h.disc)), reattach_struct h.st hkstep hc, ?_⟩, ?_,
    reattach_flags_self h.st hkstep hc⟩
  · exact (forest_iff s').2 (SkStable.reattach_preserves skStable_ok k c s s' ((forest_iff s).1 h.fo) hc)
  · intro x hx
    by_cases hxk : x = k
    · subst hxk; exact hci.has
    · exact has_of_optRel (hci.keep.find x hxk) hx

/-! ## `define_step` -/

theorem afterRecycle_ti {cfg : KConfig} {s s' : KState} {sk : Key} {d : StepDecl} {n : Node} (h : TI cfg s)
    (hflag : ∀ n' ∈ s.nodes, n'.key = sk → n'.checkAfter = true) (hc : s.afterRecycle sk d n = .ok s') :
    TI cfg s' ∧ Mono s s' := by
  have hrel : SoftRel s (s.modify sk fun n => { n with need := d.need, shell := d.shell }) := by
    unfold KState.modify
    refine softRel_mapNodes s _ fun m hm => ?_
    by_cases hmk : m.key = sk
    · rw [if_pos hmk]
      exact ⟨rfl, rfl, ⟨rfl, rfl⟩, id, .inl (hflag m hm hmk)⟩
    · rw [if_neg hmk]; exact SoftRow.refl m
  have h2 := h.soft hrel
  unfold KState.afterRecycle at hc
  split at hc
  · obtain ⟨hT, hr⟩ := h2.of_soft (fun t => markStepPending'_soft sk) hc
    exact ⟨hT, fun x hx => has_soft hr (has_soft hrel hx)⟩
  · simp only [pure, Except.pure, Except.ok.injEq] at hc; subst hc
    exact ⟨h2, fun x hx => has_soft hrel hx⟩

theorem setStepExtras_rel (s : KState) (sk : Key) (d : StepDecl) : SoftRel s (s.setStepExtras sk d) := by
  unfold KState.setStepExtras
  exact softRel_modify _ _ (softFn_payload fun _ => ⟨⟨rfl, rfl, rfl, rfl⟩, rfl⟩)

theorem recycleStep_ti {cfg : KConfig} {s s' : KState} {sk creator : Key} {d : StepDecl} {n : Node} (h : TI cfg s)
    (hk : sk.kind = .step) (hc : s.recycleStep sk creator d n = .ok s') : TI cfg s' ∧ Mono s s' := by
  unfold KState.recycleStep at hc
  simp only [bind, Except.bind] at hc
  cases h1 : s.reattach sk creator with
  | error e => simp [h1] at hc
  | ok s1 =>
    simp only [h1] at hc
    obtain ⟨hT1, hm1, hfl⟩ := h.reattach hk h1
    cases h3 : s1.afterRecycle sk d n with
    | error e => simp [h3] at hc
    | ok s3 =>
      simp only [h3, pure, Except.pure, Except.ok.injEq] at hc
      subst hc
      obtain ⟨hT3, hm3⟩ := afterRecycle_ti hT1 hfl h3
      exact ⟨hT3.soft (setStepExtras_rel s3 sk d), fun x hx => has_soft (setStepExtras_rel s3 sk d) (hm3 x (hm1 x hx))⟩

theorem addEnvDeps_soft (cfg : KConfig) (names : List String) : SoftFn fun n => addEnvDeps cfg n names := by
  have key : ∀ (names : List String) (n : Node),
      (afterView (addEnvDeps cfg n names) = afterView n ∧ (addEnvDeps cfg n names).impliedNeed = n.impliedNeed ∧
        (addEnvDeps cfg n names).tail = n.tail ∧ (addEnvDeps cfg n names).checkAfter = n.checkAfter) ∧
        (addEnvDeps cfg n names).creator = n.creator := by
    intro names
    induction names with
    | nil => intro n; exact ⟨⟨rfl, rfl, rfl, rfl⟩, rfl⟩
    | cons x xs ih =>
      intro n
      unfold addEnvDeps
      simp only [List.foldl_cons]
      have := ih { n with envs := (n.envs.filter (·.1 ≠ x)) ++ [(x, envValue cfg x, false)] }
      unfold addEnvDeps at this
      exact this
  exact softFn_payload (key names)

theorem createStep_ti {cfg : KConfig} {s : KState} {sk creator : Key} {d : StepDecl} {r : KState × List String}
    (h : TI cfg s) (hk : sk.kind = .step) (hc : s.createStep cfg sk creator d = .ok r) : TI cfg r.1 ∧ Mono s r.1 := by
  unfold KState.createStep at hc
  simp only [bind, Except.bind] at hc
  cases h1 : s.create sk (some creator) (.step { need := d.need, shell := d.shell, safe := d.safe }) with
  | error e => simp [h1] at hc
  | ok s1 =>
    simp only [h1] at hc
    obtain ⟨hT1, hm1, hh1, _, _⟩ := h.create (init := .step { need := d.need, shell := d.shell, safe := d.safe })
      trivial trivial (by rw [hk]; intro hh; cases hh) h1
    have hr2 := setStepExtras_rel s1 sk d
    have hT2 := hT1.soft hr2
    cases h3 : (s1.setStepExtras sk d).supplyFiles cfg sk d.inp true with
    | error e => simp [h3] at hc
    | ok a =>
      obtain ⟨s3, infos⟩ := a
      simp only [h3] at hc
      obtain ⟨hT3, hm3⟩ := supplyFiles_ti hT2 (has_soft hr2 hh1) h3
      have hr4 : SoftRel s3 (s3.modify sk fun n => addEnvDeps cfg n d.env) :=
        softRel_modify _ _ (addEnvDeps_soft cfg d.env)
      have hT4 := hT3.soft hr4
      have hh4 : Has (s3.modify sk fun n => addEnvDeps cfg n d.env) sk := has_soft hr4 (hm3 _ (has_soft hr2 hh1))
      cases h5 : (s3.modify sk fun n => addEnvDeps cfg n d.env).declareProducts cfg sk d.out .planned with
      | error e => simp [h5] at hc
      | ok s5 =>
        simp only [h5] at hc
        obtain ⟨hT5, hm5⟩ := declareProducts_ti d.out (.inl rfl) _ s5 hT4 hh4 h5
        cases h6 : s5.declareProducts cfg sk d.vol .volatile with
        | error e => simp [h6] at hc
        | ok s6 =>
          simp only [h6, pure, Except.pure, Except.ok.injEq] at hc
          subst hc
          obtain ⟨hT6, hm6⟩ := declareProducts_ti d.vol (.inr rfl) _ s6 hT5 (hm5 _ hh4) h6
          refine ⟨hT6, fun x hx => ?_⟩
          exact hm6 x (hm5 x (has_soft hr4 (hm3 x (has_soft hr2 (hm1 x hx)))))

theorem defineGuard_kind {s : KState} {cfg : KConfig} {creator : Key} {d : StepDecl} {sk : Key}
    (h : s.defineGuard cfg creator d = .ok sk) : sk.kind = Kind.step := by
  unfold KState.defineGuard at h
  dsimp only at h
  split at h
  · simp only [graphErr, bind, Except.bind, throw, throwThe, MonadExceptOf.throw] at h; cases h
  split at h
  · simp only [graphErr, bind, Except.bind, throw, throwThe, MonadExceptOf.throw] at h; cases h
  split at h
  · simp only [graphErr, bind, Except.bind, throw, throwThe, MonadExceptOf.throw] at h; cases h
  split at h
  · simp only [graphErr, bind, Except.bind, throw, throwThe, MonadExceptOf.throw] at h; cases h
  split at h
  · simp only [graphErr, bind, Except.bind, throw, throwThe, MonadExceptOf.throw] at h; cases h
  cases hl : stepLabel d.cmd d.workdir with
  | none =>
    rw [hl] at h
    simp only [bind, Except.bind, throw, throwThe, MonadExceptOf.throw] at h
    cases h
  | some l =>
    rw [hl] at h
    simp only [bind, Except.bind, pure, Except.pure] at h
    cases hr : s.raiseIfGlobMatch (d.out ++ d.vol) with
    | error e => rw [hr] at h; cases h
    | ok u =>
      rw [hr] at h
      simp only [Except.ok.injEq] at h
      rw [← h]; rfl

/-- **`define_step`** (creation, or full recycling of a detached step with the same declaration). -/
theorem defineStep_ti {cfg : KConfig} {s : KState} {creator : Key} {d : StepDecl} {r : KState × List String}
    (h : TI cfg s) (hc : s.defineStep cfg creator d = .ok r) : TI cfg r.1 ∧ Mono s r.1 := by
  unfold KState.defineStep at hc
  simp only [bind, Except.bind] at hc
  cases hg : s.defineGuard cfg creator
      { d with inp := normPaths d.inp, env := normPaths d.env, out := normPaths d.out, vol := normPaths d.vol } with
  | error e => simp [hg] at hc
  | ok sk =>
    simp only [hg] at hc
    have hk := defineGuard_kind hg
    split at hc
    · split at hc
      · rename_i n _ _
        cases h1 : s.recycleStep sk creator
            { d with inp := normPaths d.inp, env := normPaths d.env, out := normPaths d.out, vol := normPaths d.vol } n with
        | error e => simp [h1] at hc
        | ok s1 =>
          simp only [h1, pure, Except.pure, Except.ok.injEq] at hc
          subst hc
          exact recycleStep_ti h hk h1
      · cases hn : s.newStepGuard sk
            { d with inp := normPaths d.inp, env := normPaths d.env, out := normPaths d.out, vol := normPaths d.vol } with
        | error e => simp [hn] at hc
        | ok u =>
          simp only [hn] at hc
          exact createStep_ti h hk hc
    · cases hn : s.newStepGuard sk
          { d with inp := normPaths d.inp, env := normPaths d.env, out := normPaths d.out, vol := normPaths d.vol } with
      | error e => simp [hn] at hc
      | ok u =>
        simp only [hn] at hc
        exact createStep_ti h hk hc

end StepupModel.K.Discipline
