import StepupModel.Lemmas.SafeDisciplineWorkflow
/-!
# The flag discipline of `_update_meta_safe` over requests and histories

`MetaSafe.CacheInvSafeW s` (`Lemmas/MetaSafe.lean`): a step that is neither flagged `_check_safe` nor below
a flagged step satisfies its two local equations (`_safe`, `_safe_ignoring_hold` against the cached pair,
the state and the hold counter of its creator step).  It is the hypothesis of the refresh theorems
(`updateMetaSafe_correct_iff`: the weakest one possible); this development shows that the writers of the
model maintain it.

Main results:

* `exec_sd` / `step_sd` / `run_sd`: `SD` (the discipline together with the creator forest `ForestAcy`) is
  preserved by **every** accepted request, with one side condition (`ReqOKS`): a `define` with `_safe = True`
  does not name a step as creator (`DefineOK`; the director passes `_safe = True` only in `initialize_boot`,
  with the root as creator).
* **`reachable_safeDiscipline`**: `CacheInvSafeW` holds after every such history of accepted and rejected requests;
  **`reachable_updateMetaSafe_correct`**: hence `_update_meta_safe` terminates there, writes its three columns
  only, clears every flag and leaves every step with `safe = safeSpec`, `safeNH = safeNHSpec`;
  `reachable_popNext_job_creators`: what a dispatched job may rely on;
  `reachable_cacheInvSafeWB`: the executable check sampled by the harness (third digit of `k cacheinv`) is `true`
  after every such history (`cacheInvSafeWB_complete`).
* `define_safe_under_step_breaks_discipline`: the side condition is needed (`counterexample_1`: replays on the
  implementation; not a request the director delivers).

Per model function (file `Lemmas/SafeDiscipline*.lean`, all for an arbitrary debt `F`, i.e. also in the middle
of a composite operation):

| function | verdict | theorem |
|---|---|---|
| `stepRowWrite` (`UPDATE step SET state`, trigger `step_flag_check_safe`), `writeStepState`, `setStepState` | preserved: the row is flagged | `stepRowWrite_srow`, `setStepState_safe` |
| `writeFile`, `setFileState`, `setHash`, `deleteHash`, `flagReadySinks`, `flagDepEndpoints`, `flagCheckAfterSources`, `flagDynamicSuppliers`, `insertDep`, `deleteDeps`, `setDynamic`, `markDynamic`, `setDetachedRow`, `setDetachedRec`, `queueDelete`, `registerNglob`, `amendEnv`, `setStepExtras`, `bumpDeferCount`, `updateMetaReady`, `updateMetaAfter`, `reconcileTargets` | preserved: nothing a local equation reads is written | `*_safe` (`SafeDisciplineSoft`) |
| `markStepPending`, `markFileOutdated`, `markConsumersPending`, `pendCreator`, `handleUpdated/Deleted`, `updateFileHashes`, `outdateBuiltProducts`, `rebuildOutdatedProducts`, `completeSuccess`, `revertOptional`, `resetInterrupted`, `rescanEnvVars`, `checkConsistency` | preserved | `*_safe` (`SafeDisciplineSoft`) |
| `flagChecksWithProducts` | preserved, and pays the debt on its argument | `flagChecksWithProducts_pays` |
| `hold`, `release` | preserved: `_holding` leaves / reaches zero only together with the flagging pass | `hold_safe`, `release_safe` |
| `setCreator` | key into the debt | `setCreator_debt` |
| `detach` (any node), `detachProducts`, `detachCreatedSteps`, `detachProductsWhere`, `dropDynamicSink` | preserved | `detach_safe`, ... |
| `reattach`, `recycleStep` (`afterRecycle` resets `_holding` on a row just flagged) | preserved | `reattach_safe`, `reattach_flagged`, `recycleStep_safe` |
| `create` (fresh and recycling; `initStepRow` sets `_check_safe = not _safe`) | preserved under `InitKindS` (+ `Forest` for a safe step); refuted without | `create_safe`, `create_safe_nonstep`; `define_safe_under_step_breaks_discipline` |
| `deletePass`, `deleteDetachedBase`, `deleteDetached` | preserved: a deleted row has no products | `deletePass_safe`, `deleteDetached_safe` |
| `resetForRerun`, `completeFailure`, `markCompleted` | preserved | `resetForRerun_safe`, `markCompleted_safe` |
| `declareFile`, `declareStaticFiles`, `handOver`, `registerStaticTree`, `supplyFiles`, `declareProducts`, `amendStep`, `declareStaticRequest` | preserved | `*_safe` (`SafeDisciplineWorkflow`) |
| `createStep`, `defineStep` | preserved under `DefineOK`, `Forest` | `defineStep_safe` |
| `updateMetaSafe`, `updateMeta`, `popNext` | establish the strict form (all local equations) | `updateMetaSafe_sd`, `updateMeta_sd`, `popNext_sd` |
-/
namespace StepupModel.K.SafeDisc
open StepupModel.K.MetaSafe StepupModel.Lemmas StepupModel.Generated StepupModel.K.Sk
set_option linter.unusedSimpArgs false
set_option linter.unusedVariables false

/-- The flag discipline of `_update_meta_safe` together with the invariant of the creator forest. -/
def SD (s : KState) : Prop := CacheInvSafeW s ∧ ForestAcy s

theorem SD.forest {s : KState} (h : SD s) : Forest s := h.2.1.1
theorem SD.keys {s : KState} (h : SD s) : KeysUnique s := (keysNodup_iff s).1 h.forest.1
theorem SD.wf {s : KState} (h : SD s) : StepCreatorWF s := stepCreatorWF_of_acyclic h.2.2
theorem SD.p {s : KState} (h : SD s) : P NoDebt s := ⟨h.keys, (ws_nodebt_iff s).2 h.1⟩

theorem sd_init : SD KState.init := by
  refine ⟨?_, init_forestAcy⟩
  intro n hn hs
  simp only [KState.init, List.mem_singleton] at hn
  subst hn
  cases hs

/-! ## `_update_meta` establishes the strict form -/

theorem ws_of_consistent {s : KState} (h : SafeConsistent s) : WS NoDebt s := fun n hn hs _ => h n hn hs

theorem updateMetaSafe_sd {s s' : KState} (hk : KeysUnique s) (hwf : StepCreatorWF s) (hc : CacheInvSafeW s)
    (h : s.updateMetaSafe = .ok s') : P NoDebt s' :=
  ⟨keysUnique_struct (updateMetaSafe_frame h).struct hk,
    ws_of_consistent (updateMetaSafe_correct hk (noSelfStep_of_wf hwf) hc h)⟩

theorem updateMeta_sd {s su : KState} {cfg : KConfig} (hk : KeysUnique s) (hwf : StepCreatorWF s)
    (hc : CacheInvSafeW s) (h : s.updateMeta cfg = .ok su) : P NoDebt su := by
  obtain ⟨s1, s2, h1, h2, rfl⟩ := updateMeta_stages h
  exact updateMetaReady_safe _ (updateMetaAfter_safe cfg s1 s2 (updateMetaSafe_sd hk hwf hc h1) h2)

theorem popNext_sd {s s' : KState} {cfg : KConfig} {choice : Option Key} {d : Dispatch} (hk : KeysUnique s)
    (hwf : StepCreatorWF s) (hc : CacheInvSafeW s) (h : s.popNext cfg choice = .ok (s', d)) : P NoDebt s' := by
  unfold KState.popNext at h
  simp only [bind, Except.bind] at h
  cases hu : s.updateMeta cfg with
  | error e => simp [hu] at h
  | ok su =>
    simp only [hu] at h
    have hpu := updateMeta_sd hk hwf hc hu
    cases choice with
    | none =>
      simp only at h
      split at h
      · simp only [pure, Except.pure, Except.ok.injEq, Prod.mk.injEq] at h
        obtain ⟨rfl, _⟩ := h; exact hpu
      · cases h
    | some k =>
      simp only at h
      split at h
      · cases h
      · rename_i n hn
        split at h
        · cases h
        · split at h
          · cases h
          · cases hj : su.deriveJob k with
            | error e => simp [hj] at h
            | ok run =>
              simp only [hj] at h
              cases hs : su.setStepState k (if n.hasHash = true then StepState.checking else StepState.running) with
              | error e => simp [hs] at h
              | ok s2 =>
                simp only [hs, pure, Except.pure, Except.ok.injEq, Prod.mk.injEq] at h
                obtain ⟨rfl, _⟩ := h
                exact setStepState_safe k _ false su s2 hpu hs

/-! ## Every request -/

/-- What is asked of a request: a `define` with `_safe = True` does not name a step as creator.  Every other
request is unconditional. -/
def ReqOKS : Req → Prop
  | .define c d => DefineOK c d
  | _ => True

/-- **Every accepted request preserves the flag discipline of `_update_meta_safe`** (together with the
creator forest), the one side condition on `define` granted. -/
theorem exec_sd (cfg : KConfig) (r : Req) (s : KState) (res : KState × String) (hr : ReqOKS r)
    (hsd : SD s) (h : s.exec cfg r = .ok res) : SD res.1 := by
  have hfo : ForestAcy res.1 := exec_forestAcy cfg r s res hsd.2 h
  have hp := hsd.p
  suffices hres : P NoDebt res.1 from ⟨(ws_nodebt_iff _).1 hres.2, hfo⟩
  have lift : ∀ {f : KState → M KState}, Preserves (P NoDebt) f → f s = .ok res.1 → P NoDebt res.1 :=
    fun hf hs => hf s res.1 hp hs
  cases r with
  | define c d =>
    simp only [KState.exec] at h
    refine bind_ok_gen h (fun a => P NoDebt a.1) (fun a ha => defineStep_safe cfg c d s hr hsd.forest a hp ha)
      (fun r => P NoDebt r.1) ?_
    intro a b ha hb; obtain ⟨st, chk⟩ := a
    simp only [pure, Except.pure, Except.ok.injEq] at hb; subst hb; exact ha
  | amend k inp env out vol conc =>
    simp only [KState.exec] at h
    refine bind_ok_gen h (fun a => P NoDebt a.1) (fun a ha => amendStep_safe cfg k inp env out vol conc s a hp ha)
      (fun r => P NoDebt r.1) ?_
    intro a b ha hb; obtain ⟨st, chk⟩ := a
    simp only [pure, Except.pure, Except.ok.injEq] at hb; subst hb; exact ha
  | static c ps =>
    simp only [KState.exec] at h
    refine bind_ok_gen h (fun a => P NoDebt a.1) (fun a ha => declareStaticFiles_safe cfg c ps s a hp ha)
      (fun r => P NoDebt r.1) ?_
    intro a b ha hb; obtain ⟨st, chk⟩ := a
    simp only [pure, Except.pure, Except.ok.injEq] at hb; subst hb; exact ha
  | tree c p =>
    simp only [KState.exec] at h
    refine bind_ok_gen h (fun a => P NoDebt a.1) (fun a ha => registerStaticTree_safe cfg c p s a hp ha)
      (fun r => P NoDebt r.1) ?_
    intro a b ha hb; obtain ⟨st, chk⟩ := a
    simp only [pure, Except.pure, Except.ok.injEq] at hb; subst hb; exact ha
  | declStatic c ts fs ps =>
    simp only [KState.exec] at h
    refine bind_ok_gen h (fun a => P NoDebt a.1) (fun a ha => declareStaticRequest_safe cfg c ts fs ps s a hp ha)
      (fun r => P NoDebt r.1) ?_
    intro a b ha hb; obtain ⟨st, chk⟩ := a
    simp only [pure, Except.pure, Except.ok.injEq] at hb; subst hb; exact ha
  | nglob k p ms => exact lift (registerNglob_safe k p ms) (StableG.unitOut_ok h)
  | hashes u c => exact lift (updateFileHashes_safe u c) (StableG.unitOut_ok h)
  | pop c =>
    simp only [KState.exec] at h
    refine bind_ok_gen h (fun a => P NoDebt a.1) (fun a ha => ?_) (fun r => P NoDebt r.1) ?_
    · obtain ⟨st, d⟩ := a
      exact popNext_sd hsd.keys hsd.wf hsd.1 ha
    · intro a b ha hb; obtain ⟨st, d⟩ := a
      simp only [pure, Except.pure, Except.ok.injEq] at hb; subst hb; exact ha
  | updateMeta => exact updateMeta_sd hsd.keys hsd.wf hsd.1 (StableG.unitOut_ok h)
  | resetRerun k => exact lift (resetForRerun_safe k) (StableG.unitOut_ok h)
  | completed k nh wd =>
    simp only [KState.exec] at h
    refine bind_ok_gen h (fun a => P NoDebt a.1) (fun a ha => ?_) (fun r => P NoDebt r.1) ?_
    · obtain ⟨st, b⟩ := a
      exact markCompleted_safe cfg k nh wd s st b hp ha
    · intro a b ha hb; obtain ⟨st, intr⟩ := a
      simp only [pure, Except.pure, Except.ok.injEq] at hb; subst hb; exact ha
  | setState k stt => exact lift (setStepState_safe k stt false) (StableG.unitOut_ok h)
  | deleteHash k =>
    have := StableG.unitOut_ok h
    simp only [pure, Except.pure, Except.ok.injEq] at this
    rw [← this]
    exact deleteHash_safe s k hp
  | markPending k => exact lift (markStepPending'_safe k) (StableG.unitOut_ok h)
  | hold k => exact lift (hold_safe k) (StableG.unitOut_ok h)
  | release k => exact lift (release_safe k) (StableG.unitOut_ok h)
  | detach k => exact lift (detach_safe k) (StableG.unitOut_ok h)
  | revertOptional => exact lift revertOptional_safe (StableG.unitOut_ok h)
  | deleteDetached => exact lift deleteDetached_safe (StableG.unitOut_ok h)
  | clearQueue =>
    have := StableG.unitOut_ok h
    simp only [pure, Except.pure, Except.ok.injEq] at this
    rw [← this]
    exact hp.queue []
  | resetInterrupted => exact lift resetInterrupted_safe (StableG.unitOut_ok h)
  | rescanEnv => exact lift (rescanEnvVars_safe cfg) (StableG.unitOut_ok h)
  | reconcile => exact lift (reconcileTargets_safe cfg) (StableG.unitOut_ok h)
  | checkConsistency => exact lift checkConsistency_safe (StableG.unitOut_ok h)

/-- One transaction (accepted, or rejected and rolled back). -/
theorem step_sd (cfg : KConfig) (r : Req) (s : KState) (hr : ReqOKS r) (hsd : SD s) : SD (s.step cfg r) := by
  unfold KState.step
  cases h : s.exec cfg r with
  | error e => exact hsd
  | ok res => obtain ⟨s', out⟩ := res; exact exec_sd cfg r s (s', out) hr hsd h

/-- A history all of whose `define` requests satisfy `DefineOK` (the configurations are free: targets and
environment may change from request to request). -/
def HistOKS (h : List (KConfig × Req)) : Prop := ∀ cr ∈ h, ReqOKS cr.2

theorem run_sd (h : List (KConfig × Req)) (s : KState) (hsd : SD s) (hh : HistOKS h) : SD (s.run h) := by
  unfold KState.run
  induction h generalizing s with
  | nil => exact hsd
  | cons x xs ih =>
    simp only [List.foldl_cons]
    exact ih _ (step_sd x.1 x.2 s (hh x List.mem_cons_self) hsd) fun cr hcr => hh cr (List.mem_cons_of_mem _ hcr)

/-- **The flag discipline of `_update_meta_safe` holds after every history of requests** (accepted or
rejected, under any configurations) whose `define` requests with `_safe = True` do not name a step as
creator. -/
theorem reachable_safeDiscipline (h : List (KConfig × Req)) (hh : HistOKS h) : CacheInvSafeW (KState.init.run h) :=
  (run_sd h KState.init sd_init hh).1

/-- **Hence `_update_meta_safe` is correct on every such state**: it terminates, writes nothing but its three
columns, clears every flag, establishes both local equations and leaves in every step row the value of the
specification (`safeSpec`: every recursive step creator RUNNING or SUCCEEDED and holding nothing;
`safeNHSpec`: the same ignoring the hold counters). -/
theorem reachable_updateMetaSafe_correct (h : List (KConfig × Req)) (hh : HistOKS h) :
    ∃ s', (KState.init.run h).updateMetaSafe = .ok s' ∧ SafeFrame (KState.init.run h) s' ∧
      (∀ n ∈ s'.nodes, n.key.kind = .step →
        n.checkSafe = false ∧ SafeLocal s' n ∧ SafeNHLocal s' n ∧ n.safe = safeSpec s' n ∧ n.safeNH = safeNHSpec s' n) :=
  updateMetaSafe_reachable h (reachable_safeDiscipline h hh)

/-- **Dispatch after every such history**: a step handed out by `pop_next_job` has every recursive step creator
RUNNING or SUCCEEDED and holding nothing, or it has a recorded hash, is only checked, and every recursive step
creator is RUNNING or SUCCEEDED. -/
theorem reachable_popNext_job_creators (h : List (KConfig × Req)) (hh : HistOKS h)
    {s' : KState} {cfg : KConfig} {k : Key} {d : Dispatch}
    (hp : (KState.init.run h).popNext cfg (some k) = .ok (s', d)) :
    ∃ su n, (KState.init.run h).updateMeta cfg = .ok su ∧ SameStruct (KState.init.run h) su ∧ n ∈ su.nodes ∧ n.key = k ∧
      ((∀ a, StrictAnc su a n → a.sstate.active = true ∧ a.holding = 0) ∨
       (n.hasHash = true ∧ (∃ run, d = .job k true run) ∧ ∀ a, StrictAnc su a n → a.sstate.active = true)) :=
  popNext_job_creators_reachable h (reachable_safeDiscipline h hh) hp

/-! ## The executable form of the discipline (the third digit of the driver request `k cacheinv`) -/

/-- With one row per key and acyclic step-creator links the boolean check of `Lemmas/MetaSafe.lean` is
complete (its soundness is `cacheInvSafeWB_sound`). -/
theorem cacheInvSafeWB_complete {s : KState} (hk : KeysUnique s) (hwf : StepCreatorWF s) (hc : CacheInvSafeW s) :
    cacheInvSafeWB s = true := by
  have hs := noSelfStep_of_wf hwf
  have : ∃ rows, allRows s = some rows := by
    unfold allRows
    refine go_terminates hk hwf _ _ _ 0 ?_ (by omega)
    intro q hq
    obtain ⟨n, hn, rfl⟩ := List.mem_map.1 hq
    exact ⟨Derives.seed n hn, rfl⟩
  obtain ⟨rows, hr⟩ := this
  unfold cacheInvSafeWB
  rw [hr]
  have hrows := allRows_iff hr
  simp only [List.all_eq_true, Bool.or_eq_true, Bool.not_eq_true', decide_eq_false_iff_not, bothLocalB_iff,
    List.any_eq_true, decide_eq_true_eq]
  intro n hn
  by_cases hst : n.key.kind = .step
  · by_cases ht : Touched s n
    · obtain ⟨r, hd, hrk⟩ := (hasRow_iff_touched hk hs hn hst).2 ht
      exact .inl (.inr ⟨r, (hrows r).2 hd, hrk⟩)
    · exact .inr (hc n hn hst ht)
  · exact .inl (.inl hst)

/-- **The sampled check is a theorem**: after every history covered by `HistOKS` the executable form of the
discipline evaluates to `true`. -/
theorem reachable_cacheInvSafeWB (h : List (KConfig × Req)) (hh : HistOKS h) :
    cacheInvSafeWB (KState.init.run h) = true :=
  cacheInvSafeWB_complete (keysUnique_reachable h) (stepCreatorWF_reachable h) (reachable_safeDiscipline h hh)

/-- The requests the director issues never pass `_safe = True` except for the boot step under the root: a
history in which every `define` is of that form is covered. -/
theorem histOKS_of_director (h : List (KConfig × Req))
    (hd : ∀ cr ∈ h, ∀ c d, cr.2 = .define c d → d.safe = true → c = rootKey) : HistOKS h := by
  intro cr hcr
  cases hreq : cr.2 with
  | define c d =>
    intro hsafe
    rw [hd cr hcr c d hreq hsafe]
    decide
  | _ => trivial

/-! Non-vacuity: the boot sequence `define root plan.py (safe)`, `pop`, `define plan.py A`. -/

example : HistOKS [(({} : KConfig), Req.define rootKey { cmd := "./plan.py", need := .plan, safe := true }),
    (({} : KConfig), Req.pop (some (stepKey "./plan.py"))),
    (({} : KConfig), Req.define (stepKey "./plan.py") { cmd := "A" })] := by
  intro cr hcr
  simp only [List.mem_cons, List.not_mem_nil, or_false] at hcr
  rcases hcr with rfl | rfl | rfl
  · intro _; decide
  · trivial
  · intro h; cases h

/-! ## The side condition on `define` is needed -/

/-- The state after `define root ./plan.py (safe)`: the boot step is PENDING, safe, unflagged. -/
def cxState : KState :=
  { nodes := [
      { key := rootKey, creator := some rootKey },
      { key := stepKey "./plan.py", creator := some rootKey, need := .plan, impliedNeed := .plan,
        safe := true, safeNH := true, checkAfter := true }] }

/-- Some step of the state violates a local equation although no step at all is flagged. -/
def brokenB (r : M KState) : Bool :=
  match r with
  | .ok s' => (flagged s').isEmpty && s'.nodes.any fun n => decide (n.key.kind = .step) && !bothLocalB s' n
  | .error _ => false

theorem not_disc_of_brokenB {s' : KState} (h : brokenB (.ok s') = true) : ¬ CacheInvSafeW s' := by
  intro hw
  simp only [brokenB, Bool.and_eq_true] at h
  obtain ⟨hfl, hany⟩ := h
  obtain ⟨n, hn, hb⟩ := List.any_eq_true.1 hany
  simp only [Bool.and_eq_true, decide_eq_true_eq, Bool.not_eq_true'] at hb
  have hnt : ¬ Touched s' n := by
    rintro ⟨a, ha, _⟩
    rw [List.isEmpty_iff] at hfl
    rw [hfl] at ha; cases ha
  have := bothLocalB_iff.2 (hw n hn hb.1 hnt)
  rw [hb.2] at this; cases this

/-- **Without `DefineOK` the discipline is not preserved**: `Trellis.create` of a step with `_safe = True`
whose creator is a step that is not active (`counterexample_1`: `define root ./plan.py (safe)` and then, before
the boot step is dispatched, `define ./plan.py A (safe)`; it replays on the implementation; the director
never issues a `define` with `_safe = True` for a step creator).  The new row is unflagged with both columns
true, while its creator is PENDING. -/
theorem define_safe_under_step_breaks_discipline :
    CacheInvSafeW cxState ∧ KeysUnique cxState ∧
    ¬ InitKindS (stepKey "A") (some (stepKey "./plan.py")) (.step { safe := true }) ∧
    ∃ s', cxState.create (stepKey "A") (some (stepKey "./plan.py")) (.step { safe := true }) = .ok s' ∧
      ¬ CacheInvSafeW s' := by
  have hk : KeysUnique cxState := by unfold KeysUnique; decide
  refine ⟨?_, hk, ?_, ?_⟩
  · refine cacheInvSafeWB_sound hk ?_ (by decide)
    intro n hn hs
    simp only [cxState, List.mem_cons, List.not_mem_nil, or_false] at hn
    rcases hn with rfl | rfl
    · cases hs
    · decide
  · intro h
    exact h rfl (stepKey "./plan.py") rfl rfl
  · have hb : brokenB (cxState.create (stepKey "A") (some (stepKey "./plan.py")) (.step { safe := true })) = true := by
      decide
    cases hc : cxState.create (stepKey "A") (some (stepKey "./plan.py")) (.step { safe := true }) with
    | error e => rw [hc] at hb; cases hb
    | ok s' =>
      rw [hc] at hb
      exact ⟨s', rfl, not_disc_of_brokenB hb⟩

end StepupModel.K.SafeDisc
