import StepupModel.Lemmas.OwnershipChain
/-!
# C08 "every path has one owner": the ownership invariants over request histories

`exec_own`: **every** accepted request (all 24 kinds) keeps the invariant `Own` (creator forest, (O1) static trees
pairwise not nested, (O4) a static tree owns what is beneath it), the side conditions of `ReqOKO` granted, each
judged on the state in which the request is issued:

* `define c d`, in the case in which `define_step` recycles a detached step as it is (`try_recycle`) below an
  attached creator: `RecycleClean`: (O1) and (O4) hold of the rows that are attached or recursive products of
  the recycled step (`DefineOK`).  This is finding F21: `Node.reattach` brings the product subtree back without
  validating it against what was declared while it was detached.
* `amend k ..`: `k` is not a static tree;
* `static c paths` / `declare_static c trees files patterns`: when `c` is a static tree, the files lie below it.
  (The director's `amend`, `static`, `declare_static` come from the process of a step: `c`, `k` are steps.)

Every other request is unconditional: raw `detach`, `reset_for_rerun`, `delete_detached`, `tree`, hash updates, ...
The first condition is needed: `Lemmas/OwnershipWitness.lean` (three histories of director requests, replayed on
the implementation).  `treesDisjoint_after_every_history` and `treeOwnsBeneath_after_every_history` are the
statements over histories of accepted and rejected requests under changing configurations; (O3)
`filesOwned_after_every_history` is unconditional (`Lemmas/OwnershipBase.lean`).  No property statements here.
-/
namespace StepupModel.K.Own
open StepupModel.K StepupModel.Lemmas StepupModel.K.Sk
set_option linter.unusedSimpArgs false
set_option linter.unusedVariables false

theorem own_init : Own KState.init := by
  have e : KState.init.skel = [(rootKey, some rootKey, false)] := rfl
  refine ⟨init_skOK, ?_, ?_⟩
  · intro a ha b hb hka
    rw [e, List.mem_singleton] at ha
    subst ha; cases hka
  · intro f hf hk
    rw [e, List.mem_singleton] at hf
    subst hf; cases hk

/-- The side conditions (see the header). -/
def ReqOKO (s : KState) : Req → Prop
  | .define c d => DefineOK s c d
  | .amend k .. => k.kind ≠ .st
  | .static c ps => c.kind = .st → ∀ p ∈ ps, p.startsWith c.label = true
  | .declStatic c _ fs _ => c.kind = .st → ∀ p ∈ fs, p.startsWith c.label = true
  | _ => True

/-- **Every accepted request keeps the invariant**, its side condition granted. -/
theorem exec_own (cfg : KConfig) (r : Req) (s : KState) (res : KState × String) (hr : ReqOKO s r)
    (hp : Own s) (h : s.exec cfg r = .ok res) : Own res.1 := by
  have L := ownL
  cases r with
  | define c d =>
    simp only [KState.exec] at h
    refine bind_ok_gen h (fun a => Own a.1) (fun a ha => L.defineStep_preserves cfg c d s hr a hp ha) (fun r => Own r.1) ?_
    intro a b ha hb; obtain ⟨st, chk⟩ := a
    simp only [pure, Except.pure, Except.ok.injEq] at hb; subst hb; exact ha
  | amend k inp env out vol conc =>
    simp only [KState.exec] at h
    refine bind_ok_gen h (fun a => Own a.1) (fun a ha => L.amendStep_preserves cfg k inp env out vol conc hr s a hp ha)
      (fun r => Own r.1) ?_
    intro a b ha hb; obtain ⟨st, chk⟩ := a
    simp only [pure, Except.pure, Except.ok.injEq] at hb; subst hb; exact ha
  | static c ps =>
    simp only [KState.exec] at h
    refine bind_ok_gen h (fun a => Own a.1) (fun a ha => L.declareStaticFiles_preserves cfg c ps hr s a hp ha)
      (fun r => Own r.1) ?_
    intro a b ha hb; obtain ⟨st, chk⟩ := a
    simp only [pure, Except.pure, Except.ok.injEq] at hb; subst hb; exact ha
  | tree c p =>
    simp only [KState.exec] at h
    refine bind_ok_gen h (fun a => Own a.1) (fun a ha => L.registerStaticTree_preserves cfg c p s a hp ha)
      (fun r => Own r.1) ?_
    intro a b ha hb; obtain ⟨st, chk⟩ := a
    simp only [pure, Except.pure, Except.ok.injEq] at hb; subst hb; exact ha
  | declStatic c ts fs ps =>
    simp only [KState.exec] at h
    refine bind_ok_gen h (fun a => Own a.1) (fun a ha => L.declareStaticRequest_preserves cfg c ts fs ps hr s a hp ha)
      (fun r => Own r.1) ?_
    intro a b ha hb; obtain ⟨st, chk⟩ := a
    simp only [pure, Except.pure, Except.ok.injEq] at hb; subst hb; exact ha
  | nglob k p ms => exact L.toFrame.registerNglob_preserves k p ms s _ hp (StableG.unitOut_ok h)
  | hashes u c => exact L.toFrame.updateFileHashes_preserves u c s _ hp (StableG.unitOut_ok h)
  | pop c =>
    simp only [KState.exec] at h
    refine bind_ok_gen h (fun a => Own a.1) (fun a ha => L.toFrame.popNext_preserves cfg c s a.1 a.2 hp ha) (fun r => Own r.1) ?_
    intro a b ha hb; obtain ⟨st, d⟩ := a
    simp only [pure, Except.pure, Except.ok.injEq] at hb; subst hb; exact ha
  | updateMeta => exact L.toFrame.updateMeta_preserves cfg s _ hp (StableG.unitOut_ok h)
  | resetRerun k => exact L.resetForRerun_preserves k s _ hp (StableG.unitOut_ok h)
  | completed k nh wd =>
    simp only [KState.exec] at h
    refine bind_ok_gen h (fun a => Own a.1) (fun a ha => L.markCompleted_preserves cfg k nh wd s a.1 a.2 hp ha)
      (fun r => Own r.1) ?_
    intro a b ha hb; obtain ⟨st, d⟩ := a
    simp only [pure, Except.pure, Except.ok.injEq] at hb; subst hb; exact ha
  | setState k stt => exact L.toFrame.setStepState_preserves k stt false s _ hp (StableG.unitOut_ok h)
  | deleteHash k =>
    have := StableG.unitOut_ok h
    simp only [pure, Except.pure, Except.ok.injEq] at this
    rw [← this]; exact L.toFrame.deleteHash s k hp
  | markPending k => exact L.toFrame.markStepPending'_preserves k s _ hp (StableG.unitOut_ok h)
  | hold k => exact L.toFrame.hold_preserves k s _ hp (StableG.unitOut_ok h)
  | release k => exact L.toFrame.release_preserves k s _ hp (StableG.unitOut_ok h)
  | detach k => exact L.detach_preserves k s _ hp (StableG.unitOut_ok h)
  | revertOptional => exact L.toFrame.revertOptional_preserves s _ hp (StableG.unitOut_ok h)
  | deleteDetached => exact L.deleteDetached_preserves s _ hp (StableG.unitOut_ok h)
  | clearQueue =>
    have := StableG.unitOut_ok h
    simp only [pure, Except.pure, Except.ok.injEq] at this
    rw [← this]; exact L.toFrame.clearQueue s hp
  | resetInterrupted => exact L.toFrame.resetInterrupted_preserves s _ hp (StableG.unitOut_ok h)
  | rescanEnv => exact L.toFrame.rescanEnvVars_preserves cfg s _ hp (StableG.unitOut_ok h)
  | reconcile => exact L.toFrame.reconcileTargets_preserves cfg s _ hp (StableG.unitOut_ok h)
  | checkConsistency => exact L.toFrame.checkConsistency_preserves s _ hp (StableG.unitOut_ok h)

/-- One transaction (accepted, or rejected and rolled back). -/
theorem step_own (cfg : KConfig) (r : Req) (s : KState) (hr : ReqOKO s r) (hp : Own s) : Own (s.step cfg r) := by
  unfold KState.step
  cases h : s.exec cfg r with
  | error e => exact hp
  | ok res => obtain ⟨s', out⟩ := res; exact exec_own cfg r s (s', out) hr hp h

/-- **The guard on a history**: every request satisfies its side condition (`ReqOKO`) on the state it is issued in. -/
def HistOKO : KState → List (KConfig × Req) → Prop
  | _, [] => True
  | s, cr :: rest => ReqOKO s cr.2 ∧ HistOKO (s.step cr.1 cr.2) rest

theorem run_own (h : List (KConfig × Req)) (s : KState) (hp : Own s) (hh : HistOKO s h) : Own (s.run h) := by
  unfold KState.run
  induction h generalizing s with
  | nil => exact hp
  | cons x xs ih =>
    simp only [List.foldl_cons]
    obtain ⟨hr, hrest⟩ := hh
    exact ih _ (step_own x.1 x.2 s hr hp) hrest

theorem reachable_own (h : List (KConfig × Req)) (hh : HistOKO KState.init h) : Own (KState.init.run h) :=
  run_own h KState.init own_init hh

/-- **(O1) after every guarded history** (accepted and rejected requests, changing configurations): no attached
static tree's label is a prefix of the label of another attached static tree. -/
theorem treesDisjoint_after_every_history (h : List (KConfig × Req)) (hg : HistOKO KState.init h) :
    TreesDisjoint (KState.init.run h) :=
  treesDisjoint_of_own (reachable_own h hg)

/-- **(O4) after every guarded history**: an attached file whose label starts with the label of an attached static
tree has one of those trees as creator. -/
theorem treeOwnsBeneath_after_every_history (h : List (KConfig × Req)) (hg : HistOKO KState.init h) :
    TreeOwnsBeneath (KState.init.run h) :=
  treeOwnsBeneath_of_own (reachable_own h hg)

/-! ## Simpler sufficient conditions for the guard -/

/-- A `define` that does not meet a detached step of that label needs nothing. -/
theorem defineOK_of_no_detached (s : KState) (c : Key) (d : StepDecl)
    (h : ∀ label n, stepLabel d.cmd d.workdir = some label → s.find? (stepKey label) = some n → n.detached = false) :
    DefineOK s c d := by
  intro label hl n hf hd
  rw [h label n hl hf] at hd; cases hd

/-- **"No request re-attaches a detached tree or a detached file under an attached tree"** suffices: if (O1) and
(O4) hold and no recursive product of the recycled step is a static tree, or a file that has an attached tree
above it, then the recycling is clean. -/
theorem recycleClean_of_simple {s : KState} {sk : Key} (hsk : sk.kind = .step) (hd : TreesDisjoint s) (ho : TreeOwnsBeneath s)
    (hnotree : ∀ n ∈ s.nodes, n.key ∈ s.descendants sk → n.key.kind ≠ .st)
    (hnofile : ∀ n ∈ s.nodes, n.key ∈ s.descendants sk → n.key.kind = .file → n.detached = true →
      ∀ t ∈ s.nodes, t.key.kind = .st → t.detached = false → n.key.label.startsWith t.key.label = false) :
    RecycleClean s sk := by
  -- a selected tree is an attached tree
  have htree : ∀ t ∈ s.nodes, t.key.kind = .st → recycled s sk t = true → att t = true := by
    intro t ht hk hr
    unfold recycled at hr
    simp only [Bool.or_eq_true, Bool.not_eq_true', beq_iff_eq, List.contains_iff_mem] at hr
    rcases hr with (h1 | h1) | h1
    · simp [att, h1]
    · rw [h1, hsk] at hk; cases hk
    · exact absurd hk (hnotree t ht h1)
  refine ⟨?_, ?_⟩
  · intro a ha b hb hka haa hkb hab hne
    exact hd a ha b hb hka (htree a ha hka haa) hkb (htree b hb hkb hab) hne
  · intro f hf hk hfa c hc hex
    obtain ⟨t, ht, htk, hta, htp⟩ := hex
    have hta' := htree t ht htk hta
    cases hfd : f.detached with
    | false =>
      obtain ⟨t', ht', h1, h2, h3, h4⟩ := ho f hf hk (by simp [att, hfd]) c hc ⟨t, ht, htk, hta', htp⟩
      refine ⟨t', ht', h1, ?_, h3, h4⟩
      unfold recycled
      have : t'.detached = false := by simpa [att] using h2
      rw [this]; simp
    | true =>
      exfalso
      unfold recycled at hfa
      simp only [Bool.or_eq_true, Bool.not_eq_true', beq_iff_eq, List.contains_iff_mem] at hfa
      rcases hfa with (h1 | h1) | h1
      · rw [hfd] at h1; cases h1
      · rw [h1, hsk] at hk; cases hk
      · have := hnofile f hf h1 hk hfd t ht htk (by simpa [att] using hta')
        rw [this] at htp; cases htp

#print axioms exec_own
#print axioms treesDisjoint_after_every_history
#print axioms treeOwnsBeneath_after_every_history
#print axioms filesOwned_after_every_history
#print axioms recycleClean_of_simple

end StepupModel.K.Own
