/-!
# Layer B: execution windows of the scheduler (`scheduler.py`)

`Scheduler.start_times` / `stop_times`, `record_run_started`, `record_run_stopped` (with its
pruning), `ran_concurrently` and the clearing at the end of a build phase (`build_completed`).
The two dicts are association lists; the time stamps are supplied by the caller (the code reads
`time.monotonic_ns()`, which may return the same value twice).
-/
namespace StepupModel.B.Windows

abbrev Table := List (Nat × Nat)

/-- `dict.get` -/
def lookup : Table → Nat → Option Nat
  | [], _ => none
  | (k', v) :: rest, k => if k' = k then some v else lookup rest k

/-- `dict.pop(k, None)` -/
def erase : Table → Nat → Table
  | [], _ => []
  | (k', v) :: rest, i => if k' = i then erase rest i else (k', v) :: erase rest i

/-- Drop the entries whose time is older than `oldest`. -/
def dropOlder : Table → Nat → Table
  | [], _ => []
  | (k, v) :: rest, oldest => if v < oldest then dropOlder rest oldest else (k, v) :: dropOlder rest oldest

/-- `dict[k] = v` -/
def set (t : Table) (k v : Nat) : Table := erase t k ++ [(k, v)]

/-- `min(dict.values())`, `none` for an empty dict. -/
def minTime : Table → Option Nat
  | [] => none
  | (_, v) :: rest =>
    match minTime rest with
    | none => some v
    | some m => some (if v ≤ m then v else m)

structure Sched where
  starts : Table := []
  stops : Table := []
  deriving Repr

/-- `Scheduler.record_run_started(step_i)` at time `t`. -/
def recordStarted (s : Sched) (i t : Nat) : Sched := { s with starts := set s.starts i t }

/-- The pruning at the end of `record_run_stopped`: with no run in flight everything is dropped,
else the stop times older than the oldest start. -/
def prune (starts stops : Table) : Table :=
  match minTime starts with
  | none => []
  | some oldest => dropOlder stops oldest

/-- `Scheduler.record_run_stopped(step_i, succeeded=ok)` at time `t`. -/
def recordStopped (s : Sched) (i : Nat) (ok : Bool) (t : Nat) : Sched :=
  let starts := erase s.starts i
  let stops := if ok then set s.stops i t else s.stops
  { starts := starts, stops := prune starts stops }

/-- `Scheduler.ran_concurrently(producer_i, consumer_i)` -/
def ranConcurrently (s : Sched) (p c : Nat) : Bool :=
  match lookup s.stops p, lookup s.starts c with
  | some tp, some tc => decide (tc ≤ tp)
  | _, _ => false

inductive Ev
  | start (i t : Nat)
  | stop (i : Nat) (ok : Bool) (t : Nat)
  | phaseEnd
  deriving Repr

def Ev.time? : Ev → Option Nat
  | .start _ t => some t
  | .stop _ _ t => some t
  | .phaseEnd => none

def step (s : Sched) : Ev → Sched
  | .start i t => recordStarted s i t
  | .stop i ok t => recordStopped s i ok t
  | .phaseEnd => {}

def run (s : Sched) (evs : List Ev) : Sched := evs.foldl step s

end StepupModel.B.Windows
