import StepupModel.K.Workflow
import StepupModel.Generated.Finalize
/-!
# Layer B: the end-of-build cleanup and the `stepup clean` tool over a model of the file system

* `cleanupRuns`: the guard chain of `Builder.finalize` (`builder.py`).
* `removeDeletable`: `finalize.remove_deletable_files` with `_prune_empty_dirs` and `_try_remove`.
* `cleanSelect`, `cleanDecide`, `cleanRun`: `clean.search_matching_paths`,
  `clean.search_consuming_paths` and the loop of `clean.clean`.

The file system is a finite map from normalised relative paths (no trailing slash) to entries;
every directory that exists is listed.  The content of a regular file is a token that stands for
what `FileHash.__eq__` compares (digest, mode, size); `FileHash.refreshed` is modelled by
`FS.refreshed` (the "same stat, skip rehash" shortcut is outside the model: the harness never
reuses an mtime).  Symbolic links, permissions and other `OSError`s are not modelled.
-/
namespace StepupModel.B
open StepupModel.K StepupModel.Generated

/-! ## The guard chain of `Builder.finalize` -/

/-- `bool(returncode & ~ReturnCode.WARNING)`: some flag other than WARNING is set. -/
def incomplete (returncode : Nat) : Bool := returncode ≠ 0 && returncode ≠ Finalize.warningBit

/-- The cleanup pass of `Builder.finalize` (revert optional steps, delete detached nodes, remove
deletable files) runs only in the final `else` of the chain: no targets, no flag but WARNING,
cleaning not disabled. -/
def cleanupRuns (nTargets nTargetDirs returncode : Nat) (clean : Bool) : Bool :=
  if nTargets > 0 ∨ nTargetDirs > 0 then false
  else if incomplete returncode then false
  else if !clean then false
  else true

/-! ## File system -/

inductive Entry
  | file (content : Nat)
  | dir
  deriving DecidableEq, Repr

abbrev FS := List (String × Entry)

def FS.lookup (fs : FS) (p : String) : Option Entry := (fs.find? (·.1 = p)).map (·.2)

/-- Remove the entry of `p` (`os.remove`, `os.rmdir` once they succeed). -/
def FS.erase (fs : FS) (p : String) : FS := fs.filter (·.1 ≠ p)

/-- `p` lies below the directory `d`. -/
def isUnder (d p : String) : Bool := p.startsWith (d ++ "/")

/-- `path.is_dir() and not any(path.iterdir())` -/
def FS.isEmptyDir (fs : FS) (d : String) : Bool :=
  fs.lookup d = some .dir && !fs.any (fun e => isUnder d e.1)

/-- Result of `FileHash.refreshed(path)`: the hash of the regular file, "unknown" when the path
cannot be stat'ed, `HashFailedError` for a directory. -/
inductive Refreshed
  | known (content : Nat)
  | unknown
  | error
  deriving DecidableEq, Repr

def FS.refreshed (fs : FS) (p : String) : Refreshed :=
  match fs.lookup p with
  | some (.file c) => .known c
  | some .dir => .error
  | none => .unknown

/-! ## `remove_deletable_files` -/

/-- Whether `remove_deletable_files` goes on to call `os.remove` for a queued file: always for
an entry without a recorded hash (volatile output), otherwise only when the refreshed hash
equals the recorded one (unknown or unhashable: no). -/
def removeDecision (recorded : Option Nat) (r : Refreshed) : Bool :=
  match recorded with
  | none => true
  | some h =>
    match r with
    | .known c => c == h
    | _ => false

/-- `_try_remove(path.remove)`: succeeds exactly on a regular file. -/
def FS.unlink (fs : FS) (p : String) : Option FS :=
  match fs.lookup p with
  | some (.file _) => some (fs.erase p)
  | _ => none

/-- One queued file of `remove_deletable_files`: new file system and whether REMOVE is reported. -/
def removeOne (fs : FS) (p : String) (recorded : Option Nat) : FS × Bool :=
  if removeDecision recorded (fs.refreshed p) then
    match fs.unlink p with
    | some fs' => (fs', true)
    | none => (fs, false)
  else (fs, false)

/-- The loop over the queued files (already in the order of the code). -/
def removeFiles : List (String × Option Nat) → FS → List String → FS × List String
  | [], fs, ev => (fs, ev)
  | (p, r) :: rest, fs, ev =>
    let (fs', ok) := removeOne fs p r
    removeFiles rest fs' (if ok then ev ++ [p] else ev)

def lastComponent (p : String) : String := ((p.splitOn "/").getLast?).getD ""

/-- `_prune_empty_dirs`: `stack` has the top first.  Every round either drops the top, or removes
an empty directory and replaces it by its parent. -/
def pruneDirs : Nat → List String → FS → List String → FS × List String
  | 0, _, fs, ev => (fs, ev)
  | _ + 1, [], fs, ev => (fs, ev)
  | fuel + 1, d :: rest, fs, ev =>
    if fs.isEmptyDir d then
      let parent := parentDir d
      let stack := if lastComponent parent = ".." ∨ lastComponent parent = "." ∨ lastComponent parent = ""
        then rest else parent :: rest
      pruneDirs fuel stack (fs.erase d) (ev ++ [d])
    else pruneDirs fuel rest fs ev

/-- `path.endswith(os.sep)`: the key of a directory in `Workflow.to_be_deleted`. -/
def isDirKey (p : String) : Bool := p.toList.getLast? = some '/'

/-- `Path(p).normpath()` for a queued directory key `dir ++ "/"` with `dir` normalised. -/
def stripSlash (p : String) : String := if p.endsWith "/" ∧ p.length > 1 then (p.dropEnd 1).toString else p

/-- `finalize.remove_deletable_files` on the queue `Workflow.to_be_deleted` (a dict: keys unique).
Returns the file system afterwards and the REMOVE reports in order. -/
def removeDeletable (queue : List (String × Option Nat)) (fs : FS) : FS × List String :=
  let files := (queue.filter fun e => !isDirKey e.1).mergeSort fun a b => decide (b.1 ≤ a.1)
  let (fs1, ev1) := removeFiles files fs []
  let dirs := normPaths ((queue.filter fun e => isDirKey e.1).map fun e => stripSlash e.1)
  pruneDirs (dirs.length + 2 * fs1.length + 1) dirs.reverse fs1 ev1

/-- The cleanup part of `Builder.finalize` on the stored workflow and the file system: nothing at
all unless the guard chain lets it run; otherwise revert optional steps, delete detached nodes,
remove what was queued, forget the queue. -/
def finalizeCleanup (s : KState) (fs : FS) (nTargets nTargetDirs returncode : Nat) (clean : Bool) :
    M (KState × FS × List String) :=
  if cleanupRuns nTargets nTargetDirs returncode clean then do
    let s1 ← s.revertOptional
    let s2 ← s1.deleteDetached
    let r := removeDeletable s2.toBeDeleted fs
    pure ({ s2 with toBeDeleted := [] }, r.1, r.2)
  else pure (s, fs, [])

/-! ## `stepup clean` -/

/-- `search_matching_paths`: labels of file rows equal to an argument or below it (`.`: all). -/
def cleanMatching (s : KState) (paths : List String) : List String :=
  (s.nodes.filter fun n => n.key.kind = .file ∧
    paths.any fun p => p = "." ∨ n.key.label = p ∨ isUnder p n.key.label).map (·.key.label)

/-- `RECURSE_SINKS_MULTI`: the initial nodes (any kind, by label) and everything reachable from
them along dependency edges (`UNION` recursion). -/
def sinkClosureMulti (s : KState) (init : List Key) : List Key :=
  let step (acc : List Key) : List Key :=
    s.deps.foldl (fun acc d => if acc.contains d.src ∧ !acc.contains d.snk then acc ++ [d.snk] else acc) acc
  (List.range (s.deps.length + 1)).foldl (fun acc _ => step acc) init

/-- The row filter of `SELECT_OUTPUTS` (+ ` AND detached`), as regenerated from the code. -/
def cleanRowSelected (st : FileState) (detached detachedOnly : Bool) : Bool :=
  ((Finalize.cleanSelectTable.find? fun e => e.1 = (st, detached, detachedOnly)).map (·.2)).getD false

structure CleanRow where
  label : String
  state : FileState
  detached : Bool
  hash : Option Nat
  deriving Repr

/-- `search_consuming_paths(con, search_matching_paths(con, paths), detached_only)`, sorted in
reverse as `clean` does. -/
def cleanSelect (s : KState) (paths : List String) (detachedOnly : Bool) : List CleanRow :=
  let labels := cleanMatching s paths
  let init := (s.nodes.filter fun n => labels.contains n.key.label).map (·.key)
  let closure := sinkClosureMulti s init
  let rows := s.nodes.filter fun n =>
    n.key.kind = .file ∧ closure.contains n.key ∧ cleanRowSelected n.fstate n.detached detachedOnly
  (rows.map fun n => ({ label := n.key.label, state := n.fstate, detached := n.detached, hash := n.fhash } : CleanRow)).mergeSort
    fun a b => decide (b.label ≤ a.label)

inductive CleanAct
  | gone      -- "Already gone!": nothing on disk
  | skip      -- modified file, safe mode
  | dry       -- would be removed (no --commit)
  | remove    -- `remove_p()` on a regular file
  | crash     -- uncaught exception (directory in the way)
  deriving DecidableEq, Repr

/-- The decision of the loop body of `clean.clean` for one selected row. -/
def cleanDecide (state : FileState) (recorded : Option Nat) (disk : Option Entry) (safe commit : Bool) : CleanAct :=
  match disk with
  | none => .gone
  | some .dir =>
    -- `refreshed` raises on a directory; for a volatile row `remove_p` raises IsADirectoryError
    if state = .volatile then (if commit then .crash else .dry) else .crash
  | some (.file c) =>
    let changed := state ≠ .volatile ∧ recorded ≠ some c
    if safe ∧ changed then .skip else if commit then .remove else .dry

/-- The loop over the selected rows: file system, removed paths, parents to prune, crashed. -/
def cleanLoop : List CleanRow → FS → List String → List String → Bool → Bool → FS × List String × List String × Bool
  | [], fs, ev, parents, _, _ => (fs, ev, parents, false)
  | r :: rest, fs, ev, parents, safe, commit =>
    match cleanDecide r.state r.hash (fs.lookup r.label) safe commit with
    | .crash => (fs, ev, parents, true)
    | .remove => cleanLoop rest (fs.erase r.label) (ev ++ [r.label]) (parents ++ [parentDir r.label]) safe commit
    | _ => cleanLoop rest fs ev parents safe commit

/-- "Remove empty parent directories": walk up from one parent while the directory is empty. -/
def climb : Nat → String → FS → List String → FS × List String
  | 0, _, fs, ev => (fs, ev)
  | fuel + 1, d, fs, ev =>
    if d ≠ "." ∧ d ≠ "/" ∧ fs.isEmptyDir d then climb fuel (parentDir d) (fs.erase d) (ev ++ [d])
    else (fs, ev)

def climbAll : List String → FS → List String → FS × List String
  | [], fs, ev => (fs, ev)
  | d :: rest, fs, ev =>
    let (fs', ev') := climb (fs.length + 1) d fs ev
    climbAll rest fs' ev'

/-- `clean.clean(con, tr_paths, args)`: file system afterwards, removed files and directories in
order, and whether the tool ended with an uncaught exception. -/
def cleanRun (s : KState) (paths : List String) (all unsafe_ commit : Bool) (fs : FS) : FS × List String × Bool :=
  let rows := cleanSelect s paths (!all)
  let (fs1, ev1, parents, crashed) := cleanLoop rows fs [] [] (!unsafe_) commit
  if crashed then (fs1, ev1, true)
  else
    let (fs2, ev2) := climbAll (normPaths parents) fs1 ev1
    (fs2, ev2, false)

end StepupModel.B
