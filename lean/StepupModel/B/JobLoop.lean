/-!
# B layer: `Builder.job_loop` with the `HashQueue` (builder.py, hash_queue.py)

The loop of `Builder.job_loop` as a transition system.  What is outside the builder is an event:

* `offer s`: the scheduler has a job for step `s` (the answer of a later `pop_next_job`; the code
  that makes a step runnable also sets `wake_job_loop`);
* `submit p`: `HashQueue.submit(p, ...)` (deduplicated by path while a job for `p` is unresolved);
* `promote p`: `Builder.run_promoted_hash_jobs({p: ...})`: submit, claim, run outside the budget;
* `fin j` / `fail j`: the task (or promoted runner) of job `j` ends normally / with an exception;
* `start`: `job_loop()` is entered (a new build phase).

After every event the loop runs until it parks on `wake_job_loop.wait()`, returns or raises
(`settle`).  `running` is `Builder.running_tasks` (insertion order), `done` is `done_tasks`
(retired last-in first-out by `popitem`), `queue`/`inflight`/`claimed`/`counter` are the fields of
`HashQueue` (`claimed` = the ids of jobs whose `started` flag is set), `polls` counts calls of
`scheduler.pop_next_job`, `retired` logs `scheduler.record_job_completed`.
-/
namespace StepupModel.B.JobLoop

inductive Job where
  | step (i : Nat)
  | hash (i : Nat)
  deriving DecidableEq, Repr

inductive Status where
  | idle | waiting | returned | raised
  deriving DecidableEq, Repr

inductive Ev where
  | start
  | offer (s : Nat)
  | submit (p : Nat)
  | promote (p : Nat)
  | fin (j : Job)
  | fail (j : Job)
  deriving DecidableEq, Repr

structure JL where
  njob : Nat
  status : Status := .idle
  running : List Job := []
  done : List (Job × Bool) := []
  queue : List Nat := []
  inflight : List (Nat × Nat) := []
  claimed : List Nat := []
  counter : Nat := 0
  promoted : List Nat := []
  offers : List Nat := []
  started : List Job := []
  handled : List Job := []
  retired : List Nat := []
  polls : Nat := 0
  draining : Bool := false
  wake : Bool := false
  deriving Repr

/-- One normally ended task is retired: `record_job_completed` for a step job, nothing for a hash
job; `wake_job_loop` is set. -/
def retire (s : JL) (j : Job) : JL :=
  match j with
  | .step i => { s with handled := s.handled ++ [j], wake := true, retired := s.retired ++ [i] }
  | .hash _ => { s with handled := s.handled ++ [j], wake := true }

/-- `handle_done_tasks`: retire done tasks last-in first-out; an exception sets `draining` and
leaves the loop (the rest stays in `done_tasks`).  The argument is `done` reversed. -/
def handleDone (s : JL) : List (Job × Bool) → JL × Bool
  | [] => ({ s with done := [] }, false)
  | (j, ok) :: rest =>
    if !ok then ({ s with done := rest.reverse, draining := true, handled := s.handled ++ [j] }, true)
    else handleDone (retire s j) rest

/-- `HashQueue.pop_nowait`: drop queued jobs that a promoted runner has claimed, claim and return
the first unclaimed one. -/
def popHash (s : JL) : List Nat → JL × Option Nat
  | [] => ({ s with queue := [] }, none)
  | i :: rest =>
    if s.claimed.contains i then popHash s rest
    else ({ s with queue := rest, claimed := i :: s.claimed }, some i)

inductive Ctl where
  | again | wait | ret | raise
  deriving DecidableEq, Repr

def startJob (s : JL) (j : Job) : JL :=
  { s with running := s.running ++ [j], started := s.started ++ [j] }

/-- The tail of the loop body: leave when nothing runs and nothing is to be retired, else wait for
`wake_job_loop`; when it is already set, `wait()` returns at once and the event is cleared. -/
def tail (s : JL) : JL × Ctl :=
  if s.running.isEmpty && s.done.isEmpty then (s, .ret)
  else if s.wake then ({ s with wake := false }, .again) else (s, .wait)

/-- One pass through the body of the `while True` of `job_loop`. -/
def iter (s : JL) : JL × Ctl :=
  match handleDone s s.done.reverse with
  | (s, true) => (s, .raise)
  | (s, false) =>
    if s.running.length < s.njob then
      match popHash s s.queue with
      | (s, some i) => (startJob s (.hash i), .again)
      | (s, none) =>
        -- the second guard reads the same, unchanged, lengths
        let s := { s with polls := s.polls + 1 }
        match s.offers.head? with
        | some j => (startJob { s with offers := s.offers.tail } (.step j), .again)
        | none => tail s
    else tail s

/-- Run the loop until it parks, returns or raises; `fuel` bounds the passes (`njob + 4` is
enough: `settleN_fuel_enough`). -/
def settleN : Nat → JL → JL
  | 0, s => s
  | fuel + 1, s =>
    match iter s with
    | (s, .again) => settleN fuel s
    | (s, .wait) => { s with status := .waiting }
    | (s, .ret) => { s with status := .returned }
    | (s, .raise) => { s with status := .raised }

/-- A loop parked on `wake_job_loop.wait()` continues when the event is set (and clears it);
a loop that was just entered (`fresh`) runs at once. -/
def settle (s : JL) (fresh : Bool := false) : JL :=
  if s.status = .waiting then
    if fresh then settleN (s.njob + 4) s
    else if s.wake then settleN (s.njob + 4) { s with wake := false } else s
  else s

/-- `HashQueue.submit`; returns the id of the new or the in-flight job of the path. -/
def submit (s : JL) (p : Nat) : JL × Nat :=
  match s.inflight.lookup p with
  | some i => (s, i)
  | none =>
    let i := s.counter + 1
    ({ s with counter := i, inflight := s.inflight ++ [(p, i)], queue := s.queue ++ [i], wake := true }, i)

/-- The future of hash job `i` resolves: `_job_done` drops the registry entry. -/
def resolve (s : JL) (i : Nat) : JL :=
  { s with inflight := s.inflight.filter fun e => e.2 != i }

/-- The task of `j` ends: `_task_done` moves it from `running_tasks` to `done_tasks` and sets the
wake event (nothing happens for a job that is not running). -/
def moveDone (s : JL) (j : Job) (ok : Bool) : JL :=
  if s.running.contains j then
    { s with running := s.running.erase j, done := s.done ++ [(j, ok)], wake := true }
  else s

/-- A hash job that ends (as a promoted runner or as a task of the loop) resolves its future. -/
def resolveFor (s : JL) (j : Job) : JL :=
  match j with
  | .hash i =>
    if s.promoted.contains i then resolve { s with promoted := s.promoted.erase i } i
    else if s.running.contains j then resolve s i else s
  | .step _ => s

def apply (s : JL) : Ev → JL
  | .start => if s.status = .idle ∨ s.status = .returned then { s with status := .waiting } else s
  | .offer j => { s with offers := s.offers ++ [j], wake := true }
  | .submit p => (submit s p).1
  | .promote p =>
    let (s, i) := submit s p
    if s.claimed.contains i then s else { s with claimed := i :: s.claimed, promoted := s.promoted ++ [i] }
  | .fin j => moveDone (resolveFor s j) j true
  | .fail j =>
    match j with
    | .step _ => moveDone s j false
    | .hash _ => s

def step (s : JL) (e : Ev) : JL :=
  settle (apply s e) (e = .start ∧ (s.status = .idle ∨ s.status = .returned))

def run (njob : Nat) (evs : List Ev) : JL := evs.foldl step { njob := njob }

/-- All states along a run (after every event), for the driver. -/
def trace (njob : Nat) (evs : List Ev) : List JL :=
  (evs.foldl (fun (acc : JL × List JL) e => let s := step acc.1 e; (s, acc.2 ++ [s])) ({ njob := njob }, [])).2

end StepupModel.B.JobLoop
