/-!
# Layer B: the executor's decision logic for one executed step (`executor.py`)

`Executor.execute_job` = `_new_run` (re-hash the inputs recorded at dispatch) → `reset_for_rerun`
→ the command (during which `amend_step` may call `Executor.defer`) → `_compute_full_step_hash`
(re-hash the inputs that are BUILT/CONFIRMED now, and the outputs) → `_classify_execution` →
`update_file_hashes` / `Step.mark_completed` / `Scheduler.record_run_stopped`, and the amend
handler's `carry_on` decision of `director.py`.

The world is what the two hash points see: the recorded hashes and the hashes on disk.  The
model returns the *arguments* of the completion (`mark_completed(new_hash, wants_defer)` is the
kernel model's `markCompleted`).
-/
namespace StepupModel.B.Exec

/-- Recorded hashes (path ↦ content token), in the order the code processes them (sorted). -/
abbrev Hashes := List (String × Nat)
/-- Files present on disk with their content token. -/
abbrev Disk := List (String × Nat)

def diskHash (d : Disk) (p : String) : Option Nat := (d.find? (·.1 = p)).map (·.2)

/-- `compute_inp_hashes(...).new_hashes`: inputs whose file changed or vanished. -/
def changedInputs (rec : Hashes) (disk : Disk) : List String :=
  (rec.filter fun e => decide (diskHash disk e.1 ≠ some e.2)).map (·.1)

/-- `compute_out_hashes(...).messages`: outputs that do not exist. -/
def missingOutputs (outs : List String) (disk : Disk) : List String :=
  outs.filter fun p => (diskHash disk p).isNone

/-- The fields of `Run` that the decision reads. -/
structure Run where
  success : Bool := true
  unavailable : List String := []
  unfresh : List String := []
  deriving Repr, DecidableEq

structure Classified where
  run : Run
  hash : Option Nat
  wantsDefer : Bool
  failedInputs : List String
  deriving Repr, DecidableEq

/-- `Executor._classify_execution(run, new_hash, new_inp_hashes, unexpected_input_changes)` -/
def classify (run : Run) (newHash : Option Nat) (newInp : List String) : Classified :=
  let wantsDefer := !run.unavailable.isEmpty || !run.unfresh.isEmpty
  if !newInp.isEmpty then
    { run := { success := false, unavailable := [], unfresh := [] }, hash := none, wantsDefer := false,
      failedInputs := newInp }
  else if wantsDefer then
    { run := { run with success := false }, hash := none, wantsDefer := true, failedInputs := [] }
  else if !run.success then
    { run := run, hash := none, wantsDefer := false, failedInputs := [] }
  else { run := run, hash := newHash, wantsDefer := false, failedInputs := [] }

structure Scenario where
  /-- `inp_hashes` of the job: the inputs that were BUILT/CONFIRMED at dispatch, with their records. -/
  dispatchInputs : Hashes
  diskPre : Disk
  cancelledPre : Bool := false
  rc : Nat := 0
  /-- Whether `Executor.defer` was called while the command ran (the amend handler does so exactly
  when `carry_on` is false), and what it was handed. -/
  deferCalled : Bool := false
  amendUnavailable : List String := []
  amendUnfresh : List String := []
  /-- The inputs (declared and amended) that are BUILT/CONFIRMED at completion, with their records. -/
  completionInputs : Hashes
  outputs : List String
  diskPost : Disk
  cancelledPost : Bool := false
  stepHash : Nat := 0
  /-- Rows that are no longer BUILT/CONFIRMED in the transaction that records the changed inputs
  (another request re-declared the file or recorded that it is gone while the hashes were computed
  outside a transaction): `Executor._applicable_input_updates` leaves them out. -/
  notRecordable : List String := []

/-- What `execute_job` does at the end. -/
structure Completion where
  ranCommand : Bool
  /-- `new_hash` of `mark_completed`: `some` exactly when the step is recorded SUCCEEDED. -/
  hash : Option Nat
  wantsDefer : Bool
  /-- `update_file_hashes(new_inp_hashes, FAILED)` -/
  failedInputs : List String
  /-- Cause of the outputs' hash update in the completion transaction: `some true` SUCCEEDED,
  `some false` FAILED, `none` no such update (the command did not run). -/
  outCause : Option Bool
  /-- `_drain_for_unexpected_input_changes` -/
  drainUnexpected : Bool
  /-- `run.unavailable` / `run.unfresh` at report time (decide the DEFERRED tag). -/
  deferredTag : Bool
  success : Bool
  deriving Repr, DecidableEq

/-- `Executor._applicable_input_updates` -/
def applicable (sc : Scenario) (changed : List String) : List String :=
  changed.filter fun p => !sc.notRecordable.contains p

/-- `run` after `_run_command` and the `defer` calls (`defer` clears `success` whatever it is handed). -/
def runAfterCommand (sc : Scenario) : Run :=
  if sc.deferCalled then { success := false, unavailable := sc.amendUnavailable, unfresh := sc.amendUnfresh }
  else { success := sc.rc == 0 }

/-- `Executor.execute_job` -/
def executeJob (sc : Scenario) : Completion :=
  if sc.cancelledPre then
    { ranCommand := false, hash := none, wantsDefer := false, failedInputs := [], outCause := none,
      drainUnexpected := false, deferredTag := false, success := false }
  else if !(changedInputs sc.dispatchInputs sc.diskPre).isEmpty then
    { ranCommand := false, hash := none, wantsDefer := false,
      failedInputs := applicable sc (changedInputs sc.dispatchInputs sc.diskPre), outCause := none,
      drainUnexpected := true,
      deferredTag := false, success := false }
  else if sc.cancelledPost then
    let c := classify { runAfterCommand sc with success := false } none []
    { ranCommand := true, hash := c.hash, wantsDefer := c.wantsDefer, failedInputs := c.failedInputs,
      outCause := some c.run.success, drainUnexpected := false,
      deferredTag := !c.run.unavailable.isEmpty || !c.run.unfresh.isEmpty, success := c.run.success }
  else
    let inpCh := changedInputs sc.completionInputs sc.diskPost
    let outMiss := missingOutputs sc.outputs sc.diskPost
    let r := runAfterCommand sc
    let c := classify { r with success := r.success && inpCh.isEmpty && outMiss.isEmpty }
      (if inpCh.isEmpty then some sc.stepHash else none) inpCh
    { ranCommand := true, hash := c.hash, wantsDefer := c.wantsDefer, failedInputs := applicable sc c.failedInputs,
      outCause := some c.run.success, drainUnexpected := !inpCh.isEmpty,
      deferredTag := !c.run.unavailable.isEmpty || !c.run.unfresh.isEmpty, success := c.run.success }

/-- `Executor._determine_tag` given `interrupted_defer` of `mark_completed`. -/
def tag (c : Completion) (interruptedDefer : Bool) : String :=
  if interruptedDefer then "FAIL" else if c.deferredTag then "DEFERRED" else if c.success then "SUCCESS" else "FAIL"

/-- Whether the scheduler is draining after the job (`_report_run`, `_drain_for_unexpected_...`). -/
def drains (c : Completion) (interruptedDefer keepGoing : Bool) : Bool :=
  c.drainUnexpected || (tag c interruptedDefer == "FAIL" && !keepGoing)

/-! ## The amend handler of the director -/

inductive CheckedState | confirmed | built | other
  deriving Repr, DecidableEq

/-- `DirectorHandler.amend_step` after `Workflow.amend_step` returned `(unavailable, unfresh,
to_check)` and the promoted hash jobs of `to_check` have finished: the paths that are still not
CONFIRMED/BUILT join `unavailable`; `carry_on` iff both sets are empty, else `Executor.defer`. -/
def amendCarryOn (unavailable unfresh : List String) (checked : List (String × CheckedState)) :
    Bool × List String × List String :=
  let unav := unavailable ++ (checked.filter fun e => e.2 = .other).map (·.1)
  (unav.isEmpty && unfresh.isEmpty, unav, unfresh)

end StepupModel.B.Exec
