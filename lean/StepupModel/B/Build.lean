import StepupModel.B.JobLoop
import StepupModel.K.Request
/-!
# B layer: one build phase = `Builder.job_loop` composed with the database kernel

`Sys` puts together the kernel state (`K/*.lean`: the SQLite database and `Workflow.to_be_deleted`),
the configuration of the director, the state of `Builder.job_loop` + `HashQueue` (`B/JobLoop.lean`,
reused unchanged: `handleDone`, `popHash`, `startJob`, `tail`, `apply`) and the log of
`Scheduler._derive_job` (`assigned`: job id, step key, CHECKING?).  `Scheduler.jobs` is derived:
the assigned jobs whose completion has not been recorded (`jobs`).

What is outside is an event:

* `pass c`: ONE pass through the body of the `while True` of `job_loop`, enabled while the loop has
  been entered and is not blocked in `wake_job_loop.wait()`.  If the pass reaches
  `scheduler.pop_next_job()` and the scheduler is not draining, the kernel is asked
  (`KState.popNext cfg c`); `c` is the choice of `SELECT_NEXT_STEP` (`none`: "no row").  A choice that
  the model of `pop_next_job` rejects (not eligible, not first in the two leading ORDER BY terms) or
  an error inside it means "this event is not enabled": the state is unchanged.
* `rpc j r`: a kernel request issued by a handler of `DirectorHandler` for the process of step job
  `j` (or by the executor on its behalf before the final transaction), enabled only while the task
  of `j` is in `running_tasks`; a rejected request is rolled back.  The wake event is set exactly by
  the handlers that set it in the code (`define_step`, `release_dispatch`), after an accepted request.
* `finish j rs`: the final transaction of the job (`rs` in one `async with self.db`; any error rolls
  all of it back and the task ends with an exception) followed by the end of its task (`_task_done`).
* `submit p`, `promote p`: `HashQueue.submit`, `Builder.run_promoted_hash_jobs` (as in `JobLoop`).
* `hashFin i r`: hash job `i` (a task of the loop, or a promoted runner) applies its result (`r`,
  normally `update_file_hashes`) and ends.
* `drain`: `Scheduler.draining = True` from outside the loop (drain RPC, shutdown, executor).
* `undrain`: `start_build_phase` (`draining = False`), only between phases.
* `external r`: a request made while no phase is in progress (startup, watcher).
* `start`: `job_loop()` is entered.

Time, the executor's internals, asyncio and the RPC transport are abstracted: every event is atomic,
events interleave freely between passes of the loop (a superset of the suspension points of the code).
-/
namespace StepupModel.B.Build
open StepupModel.K StepupModel.B.JobLoop

structure Sys where
  k : KState
  cfg : KConfig
  jl : JL
  /-- The log of `Scheduler._derive_job`: `(job_i, step, CHECKING?)`; `job_counter = assigned.length`. -/
  assigned : List (Nat × Key × Bool) := []
  /-- The loop is blocked in `wake_job_loop.wait()`. -/
  parked : Bool := false
  /-- `Scheduler.draining`, set from outside the loop (`jl.draining`: set by `handle_done_tasks`). -/
  drain : Bool := false

inductive Ev where
  | start
  | pass (choice : Option Key)
  | rpc (j : Nat) (r : Req)
  | finish (j : Nat) (rs : List Req)
  | submit (p : Nat)
  | promote (p : Nat)
  | hashFin (i : Nat) (r : Option Req)
  | drain
  | undrain
  | external (r : Req)

/-- `Scheduler.draining` as `pop_next_job` reads it. -/
def Sys.draining (s : Sys) : Bool := s.drain || s.jl.draining

/-- `Scheduler.jobs`: created by `_derive_job`, removed by `record_job_completed`. -/
def Sys.jobs (s : Sys) : List (Nat × Key × Bool) := s.assigned.filter fun a => !s.jl.retired.contains a.1

/-- The handlers of `DirectorHandler` that set `wake_job_loop` (`Generated/JobLoop.handlerWakes`). -/
def wakes : Req → Bool
  | .define _ _ => true
  | .release _ => true
  | _ => false

/-- Several requests in one `async with self.db`: all or nothing. -/
def txn (k : KState) (cfg : KConfig) : List Req → Option KState
  | [] => some k
  | r :: rs =>
    match k.exec cfg r with
    | .ok (k', _) => txn k' cfg rs
    | .error _ => none

/-- One pass through the body of the `while True` of `job_loop` with the kernel behind
`scheduler.pop_next_job()`.  `B.JobLoop.iter` with the poll branch replaced (`iterK_sim`). -/
def iterK (s : Sys) (c : Option Key) : Option (Sys × Ctl) :=
  match handleDone s.jl s.jl.done.reverse with
  | (jl, true) => some ({ s with jl := jl }, .raise)
  | (jl, false) =>
    if jl.running.length < jl.njob then
      match popHash jl jl.queue with
      | (jl, some i) => some ({ s with jl := startJob jl (.hash i) }, .again)
      | (jl, none) =>
        let jl := { jl with polls := jl.polls + 1 }
        if s.drain || jl.draining then some ({ s with jl := (tail jl).1 }, (tail jl).2)
        else
          match s.k.popNext s.cfg c with
          | .error _ => none
          | .ok (k', .none) => some ({ s with k := k', jl := (tail jl).1 }, (tail jl).2)
          | .ok (k', .job key chk _) =>
            some ({ s with k := k', assigned := s.assigned ++ [(s.assigned.length + 1, key, chk)],
                           jl := startJob jl (.step (s.assigned.length + 1)) }, .again)
    else some ({ s with jl := (tail jl).1 }, (tail jl).2)

/-- What `pop_next_job` answers in state `s` for the choice `c`, as a list of offered job ids. -/
def kernelAnswer (s : Sys) (c : Option Key) : List Nat :=
  match s.k.popNext s.cfg c with
  | .ok (_, .job _ _ _) => [s.assigned.length + 1]
  | _ => []

def answer (s : Sys) (c : Option Key) : List Nat := if s.draining then [] else kernelAnswer s c

/-- A loop blocked in `wait()` continues as soon as the event is set, and clears it. -/
def unpark (s : Sys) : Sys :=
  if s.parked && s.jl.wake then { s with parked := false, jl := { s.jl with wake := false } } else s

/-- Where a pass leaves the loop. -/
def land (s : Sys) : Ctl → Sys
  | .again => s
  | .wait => { s with parked := true }
  | .ret => { s with jl := { s.jl with status := .returned } }
  | .raise => { s with jl := { s.jl with status := .raised } }

def applyEv (s : Sys) : Ev → Sys
  | .start => { s with jl := JobLoop.apply s.jl .start,
                       parked := if s.jl.status = .idle ∨ s.jl.status = .returned then false else s.parked }
  | .pass c =>
    if s.jl.status = .waiting ∧ s.parked = false then
      match iterK s c with
      | some (s', ctl) => land s' ctl
      | none => s
    else s
  | .rpc j r =>
    if s.jl.running.contains (.step j) then
      match s.k.exec s.cfg r with
      | .ok (k', _) => { s with k := k', jl := if wakes r then { s.jl with wake := true } else s.jl }
      | .error _ => s
    else s
  | .finish j rs =>
    if s.jl.running.contains (.step j) then
      match txn s.k s.cfg rs with
      | some k' => { s with k := k', jl := JobLoop.apply s.jl (.fin (.step j)) }
      | none => { s with jl := JobLoop.apply s.jl (.fail (.step j)) }
    else s
  | .submit p => { s with jl := JobLoop.apply s.jl (.submit p) }
  | .promote p => { s with jl := JobLoop.apply s.jl (.promote p) }
  | .hashFin i r =>
    if s.jl.running.contains (.hash i) ∨ s.jl.promoted.contains i then
      { s with k := (match r with | some r => s.k.step s.cfg r | none => s.k),
               jl := JobLoop.apply s.jl (.fin (.hash i)) }
    else s
  | .drain => { s with drain := true }
  | .undrain => if s.jl.status = .waiting then s else { s with drain := false }
  | .external r => if s.jl.status = .waiting then s else { s with k := s.k.step s.cfg r }

def step (s : Sys) (e : Ev) : Sys := unpark (applyEv s e)

def init (k0 : KState) (cfg : KConfig) (njob : Nat) : Sys := { k := k0, cfg := cfg, jl := { njob := njob } }

/-- A phase from kernel state `k0` (for a fresh project: `KState.init`). -/
def run (k0 : KState) (cfg : KConfig) (njob : Nat) (evs : List Ev) : Sys := evs.foldl step (init k0 cfg njob)

end StepupModel.B.Build
