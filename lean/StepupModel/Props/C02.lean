import StepupModel.Lemmas.Norm
import StepupModel.Props.C08
/-!
# C02  The result of a build does not depend on scheduling

Proved here, on the kernel model (`K/Workflow.lean`):

* **normalise_idem** and more: `normPaths` (the model of `sorted(set(paths))`, tied to Python by
  `harness/normcorr.py`) is strictly increasing, idempotent, and depends on its argument only
  through its *set* of members, hence is invariant under permutation and duplication;
  every declaration request (`define_step`, `declare_static_files`, `amend_step`,
  `register_nglob`) gives the same result, state and answer, for path lists with the same
  members: the order in which a script or the RPC layer happens to list paths is unobservable.
* **conflict_symm** for single paths (building on `Props/C08.lean`): whether two declarations of
  one path exclude each other does not depend on which one is in the graph already; two
  different creators declaring the same static file reject each other in both orders, and a
  repeated declaration is a no-op in both orders.
* the claim check reads the graph only through the attached claim on that path
  (`check_depends_on_claim_only`): two states that agree on who owns the path decide alike.

Decided by the oracle only (`harness/props/c02.py`, simulated builds of the real director under
4 configurations per project): `schedule_confluence` (same canonical graph, files and return-code
class for every job count, resource limit and dispatch/completion order; fresh versus resumed
database) and the equality of rejection texts for requests that race.  `decl_commute` for whole
requests is not proved (the two orders give node tables that differ in row order; the equality
is one of canonical dumps), it is exercised by the racing projects of the oracle and by C08's
both-orders oracle.
-/
namespace StepupModel.Props.C02
open StepupModel.K

/-! ## `sorted(set(paths))` -/

/-- The normal form lists every member of the argument and nothing else. -/
theorem normPaths_mem (l : List String) (a : String) : a ∈ normPaths l ↔ a ∈ l := mem_normPaths

/-- The normal form is strictly increasing (sorted, no duplicates). -/
theorem normPaths_strictly_sorted (l : List String) : (normPaths l).Pairwise (· < ·) := normPaths_strict l

/-- **normalise_idem** -/
theorem normalise_idem (l : List String) : normPaths (normPaths l) = normPaths l := normPaths_idem l

/-- The normal form depends on the argument only through its set of members. -/
theorem normalise_set_invariant (l1 l2 : List String) (h : ∀ x, x ∈ l1 ↔ x ∈ l2) :
    normPaths l1 = normPaths l2 := normPaths_congr l1 l2 h

/-- Permutation invariance. -/
theorem normalise_perm_invariant (l1 l2 : List String) (h : l1.Perm l2) : normPaths l1 = normPaths l2 :=
  normPaths_congr l1 l2 (fun _ => h.mem_iff)

/-- Duplicates are irrelevant. -/
theorem normalise_dup_invariant (l extra : List String) (h : ∀ x ∈ extra, x ∈ l) :
    normPaths (l ++ extra) = normPaths l :=
  normPaths_congr _ _ (fun x => by
    rw [List.mem_append]
    exact ⟨fun hx => hx.elim id (h x), Or.inl⟩)

/-! ## Every request reads its path lists through the normal form -/

/-- `define_step` with lists that have the same members as those of `d` (in any order, with any
duplicates) is the same request: same new state, same answer, same error. -/
theorem defineStep_set_invariant (s : KState) (cfg : KConfig) (c : Key) (d : StepDecl)
    (inp env out vol : List String) (hi : ∀ x, x ∈ inp ↔ x ∈ d.inp) (he : ∀ x, x ∈ env ↔ x ∈ d.env)
    (ho : ∀ x, x ∈ out ↔ x ∈ d.out) (hv : ∀ x, x ∈ vol ↔ x ∈ d.vol) :
    s.defineStep cfg c { d with inp := inp, env := env, out := out, vol := vol } = s.defineStep cfg c d := by
  unfold KState.defineStep
  simp only [normPaths_congr inp d.inp hi, normPaths_congr env d.env he, normPaths_congr out d.out ho,
    normPaths_congr vol d.vol hv]

/-- `declare_static_files` likewise. -/
theorem declareStaticFiles_set_invariant (s : KState) (cfg : KConfig) (c : Key) (l1 l2 : List String)
    (h : ∀ x, x ∈ l1 ↔ x ∈ l2) : s.declareStaticFiles cfg c l1 = s.declareStaticFiles cfg c l2 := by
  unfold KState.declareStaticFiles KState.staticTodo
  simp only [normPaths_congr l1 l2 h]

/-- `amend_step` likewise, for its three path lists. -/
theorem amendStep_set_invariant (s : KState) (cfg : KConfig) (k : Key) (inp inp' out out' vol vol' env : List String)
    (conc : List Key) (hi : ∀ x, x ∈ inp ↔ x ∈ inp') (ho : ∀ x, x ∈ out ↔ x ∈ out') (hv : ∀ x, x ∈ vol ↔ x ∈ vol') :
    s.amendStep cfg k inp env out vol conc = s.amendStep cfg k inp' env out' vol' conc := by
  unfold KState.amendStep KState.amendProducts
  simp only [normPaths_congr inp inp' hi, normPaths_congr out out' ho, normPaths_congr vol vol' hv]

/-- `register_nglob` likewise, for the list of matches. -/
theorem registerNglob_set_invariant (s : KState) (k : Key) (p : String) (l1 l2 : List String)
    (h : ∀ x, x ∈ l1 ↔ x ∈ l2) : s.registerNglob k p l1 = s.registerNglob k p l2 := by
  unfold KState.registerNglob
  simp only [normPaths_congr l1 l2 h]

/-! ## Symmetric rejection of single-path conflicts -/

/-- The claim check depends on the graph only through the attached claim on the path. -/
theorem check_depends_on_claim_only (s1 s2 : KState) (c : Option Key) (p : String) (role : FileRole)
    (h : s1.existingClaim p = s2.existingClaim p) :
    s1.checkDeclaration c p role = s2.checkDeclaration c p role := by
  unfold KState.checkDeclaration
  rw [h]

/-- **conflict_symm** (one path): let creator `cA` hold `p` in role `rA` in `sA` and creator `cB`
hold it in role `rB` in `sB` (the two orders of arrival).  The later declaration is rejected in
one order iff it is rejected in the other. -/
theorem conflict_symm (sA sB : KState) (p : String) (cA cB : Key) (rA rB : FileRole)
    (hA : sA.existingClaim p = some (rA, cA)) (hB : sB.existingClaim p = some (rB, cB)) :
    (∃ e, sA.checkDeclaration (some cB) p rB = .error e) ↔
      (∃ e, sB.checkDeclaration (some cA) p rA = .error e) :=
  C08.file_conflict_symmetric sA sB p cA cB rA rB hA hB

/-- Two different creators (steps or the root: the declarers a plan author writes) that both
declare `p` static exclude each other in both orders, with the user-facing `GraphError`. -/
theorem static_static_rejected_either_order (sA sB : KState) (p : String) (cA cB : Key) (hne : cA ≠ cB)
    (hkA : cA.kind ≠ .st) (hkB : cB.kind ≠ .st)
    (hA : sA.existingClaim p = some (.static, cA)) (hB : sB.existingClaim p = some (.static, cB)) :
    (∃ msg, sA.checkDeclaration (some cB) p .static = .error (.graph msg)) ∧
      (∃ msg, sB.checkDeclaration (some cA) p .static = .error (.graph msg)) :=
  ⟨C08.collision_is_graph_error sA p cA cB .static .static hA (fun h => hne h.2) hkB hkA,
   C08.collision_is_graph_error sB p cB cA .static .static hB (fun h => hne h.2.symm) hkA hkB⟩

/-- A step being defined (not yet a node) that claims `p` collides with whoever holds `p`, and
once it holds `p` any other step being defined collides with it: rejected in either order. -/
theorem output_output_rejected_either_order (sA sB : KState) (p : String) (cA cB : Key) (rA rB : FileRole)
    (hA : sA.existingClaim p = some (rA, cA)) (hB : sB.existingClaim p = some (rB, cB)) :
    (∃ e, sA.checkDeclaration none p rB = .error e) ∧
      (∃ e, sB.checkDeclaration none p rA = .error e) :=
  ⟨C08.new_step_collides sA p cA rA rB hA, C08.new_step_collides sB p cB rB rA hB⟩

/-! Non-vacuity -/
example : normPaths ["b", "a", "b"] = normPaths ["a", "b"] :=
  normalise_set_invariant _ _ (by
    intro x
    simp only [List.mem_cons, List.not_mem_nil, or_false]
    constructor
    · rintro (h | h | h)
      · exact Or.inr h
      · exact Or.inl h
      · exact Or.inr h
    · rintro (h | h)
      · exact Or.inr (Or.inl h)
      · exact Or.inl h)

end StepupModel.Props.C02
