import StepupModel.Drv.K
import StepupModel.P.Session
import StepupModel.Generated.Handlers
/-!
# C15  Requests that change the workflow are applied atomically
-/
namespace StepupModel.Props.C15
open StepupModel StepupModel.K StepupModel.Generated StepupModel.P.Session

/-! ## One transaction per request (regenerated from `director.py` by `ast`) -/

/-- Every exposed coroutine of `DirectorHandler` performs its workflow mutations inside at most
one `async with self.db` block, calls no mutator outside such a block, and never awaits inside
one (so no other task can run between two of its statements). -/
theorem handler_single_transaction :
    ∀ h ∈ handlerShapes, h.2.2.1 ≤ 1 ∧ h.2.2.2.1 = 0 ∧ h.2.2.2.2 = 0 := by decide

/-- The six requests the property names are exposed and do mutate in exactly one block. -/
theorem mutating_requests_present :
    ∀ name ∈ ["define_step", "amend_step", "declare_static", "register_glob", "hold_dispatch", "release_dispatch"],
      ∃ h ∈ handlerShapes, h.1 = name ∧ h.2.2.1 = 1 := by decide

/-! ## A rejected request leaves the stored workflow exactly as it was -/

/-- Every request of the kernel model runs through `finish`: when its body raises, the session
keeps the state and the configuration it had before the request (the model of rollback). -/
theorem rejected_request_identity (sess : Drv.K.Session) (e : Err) :
    (Drv.K.finish sess (.error e)).1.st = sess.st ∧ (Drv.K.finish sess (.error e)).1.cfg = sess.cfg :=
  ⟨rfl, rfl⟩

/-- An accepted request replaces the state by the one its body returned, in one piece. -/
theorem accepted_request_full (sess : Drv.K.Session) (st : KState) (out : String) :
    (Drv.K.finish sess (.ok (st, out))).1.st = st := rfl

/-- `declare_static` (trees, files and patterns in one request): whatever stage fails, the
answer is an error and nothing of the earlier stages remains. -/
theorem declare_static_all_or_nothing (sess : Drv.K.Session) (c : Key) (ts fs : List String)
    (ps : List (String × List String)) (e : Err)
    (h : sess.st.declareStaticRequest sess.cfg c ts fs ps = .error e) :
    (Drv.K.finish sess (do
      let (st, chk) ← sess.st.declareStaticRequest sess.cfg c ts fs ps
      pure (st, Proto.hexList chk))).1.st = sess.st := by
  simp [h, bind, Except.bind, Drv.K.finish]

/-! ## Concurrent requests never interleave (`DBSession`) -/

/-- Invariant relating the session machine to its specification. -/
def Rel {σ : Type} (s : State σ) (p : Spec σ) : Prop :=
  s.committed = p.result ∧ s.holder = p.holder ∧
    (s.holder.isSome → s.working = p.pending.foldl (fun x f => f x) p.result) ∧
    (s.holder = none → p.pending = [])

theorem rel_step {σ : Type} (s : State σ) (p : Spec σ) (o : Op σ) (h : Rel s p) :
    Rel (step s o).1 (specStep p o) := by
  obtain ⟨hc, hh, hw, hn⟩ := h
  cases o with
  | enter t =>
    cases hs : s.holder with
    | none =>
      have hp : p.holder = none := by rw [← hh]; exact hs
      simp only [step, specStep, hs, hp]
      exact ⟨hc, rfl, fun _ => hc, fun h => by cases h⟩
    | some u =>
      have hp : p.holder = some u := by rw [← hh]; exact hs
      simp only [step, specStep, hs, hp]
      exact ⟨hc, by rw [hs, hp], hw, hn⟩
  | exec t f =>
    by_cases ht : s.holder = some t
    · have ht' : p.holder = some t := by rw [← hh]; exact ht
      simp only [step, specStep, ht, ht', if_true]
      refine ⟨hc, rfl, ?_, fun h => by cases h⟩
      intro _
      show f s.working = List.foldl (fun x f => f x) p.result (p.pending ++ [f])
      rw [hw (by simp [ht]), List.foldl_append]
      rfl
    · have ht' : ¬ p.holder = some t := by rw [← hh]; exact ht
      simp only [step, specStep, ht, ht', if_false]
      exact ⟨hc, hh, hw, hn⟩
  | exitOk t =>
    by_cases ht : s.holder = some t
    · have ht' : p.holder = some t := by rw [← hh]; exact ht
      simp only [step, specStep, ht, ht', if_true]
      exact ⟨hw (by simp [ht]), rfl, (fun h => by cases h), fun _ => rfl⟩
    · have ht' : ¬ p.holder = some t := by rw [← hh]; exact ht
      simp only [step, specStep, ht, ht', if_false]
      exact ⟨hc, hh, hw, hn⟩
  | exitErr t =>
    by_cases ht : s.holder = some t
    · have ht' : p.holder = some t := by rw [← hh]; exact ht
      simp only [step, specStep, ht, ht', if_true]
      exact ⟨hc, rfl, (fun h => by cases h), fun _ => rfl⟩
    · have ht' : ¬ p.holder = some t := by rw [← hh]; exact ht
      simp only [step, specStep, ht, ht', if_false]
      exact ⟨hc, hh, hw, hn⟩

/-- **Serialisability**: for every interleaving of the operations of any number of tasks, the
committed database equals the result of applying, one whole transaction after the other in commit
order, exactly the transactions that were left normally; statements of a task that does not hold
the transaction, and of transactions that were rolled back, contribute nothing. -/
theorem session_serialisable {σ : Type} (init : σ) (ops : List (Op σ)) :
    (run { committed := init, working := init } ops).committed =
      (specRun { result := init } ops).result := by
  have key : ∀ (ops : List (Op σ)) (s : State σ) (p : Spec σ), Rel s p → Rel (run s ops) (specRun p ops) := by
    intro ops
    induction ops with
    | nil => intro s p h; exact h
    | cons o os ih =>
      intro s p h
      exact ih _ _ (rel_step s p o h)
  exact (key ops _ _ ⟨rfl, rfl, (fun h => by cases h), fun _ => rfl⟩).1

/-- Only the holder's statements are executed: a statement issued by any other task is refused
and changes nothing (this is what makes the blocks of concurrent requests non-interleaving). -/
theorem exec_requires_holder {σ : Type} (s : State σ) (t : Nat) (f : σ → σ) (h : s.holder ≠ some t) :
    step s (.exec t f) = (s, .refused) := by
  simp [step, h]

/-! Non-vacuity: two tasks, the second waits, the first is rolled back, the second commits. -/
example : (run { committed := (0 : Nat), working := 0 }
    [.enter 1, .enter 2, .exec 1 (· + 5), .exec 2 (· + 100), .exitErr 1, .enter 2, .exec 2 (· + 7), .exitOk 2]).committed
      = 7 := by decide

end StepupModel.Props.C15
