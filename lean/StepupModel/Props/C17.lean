import StepupModel.Lemmas.NGlob
import StepupModel.Generated.NGlob
/-!
# C17  Named glob matching is consistent with the file system and with itself

Every theorem is about the model in `P/NGlob.lean` (tokeniser, the two compilers, a regex AST with
a backtracking `fullmatch`, CPython's `iglob` on a finite tree, `NamedGlob` results); the
correspondence harness (`harness/props/c17.py`) ties each modelled function to
`stepup/core/nglob.py` on generated patterns, trees and change sets.
-/
namespace StepupModel.Props.C17
open StepupModel.P.NGlob

/-! ## 1. Updating a recorded match set = scanning again -/

/-- `r` is what a scan of the path list `paths` records for the matcher `m`: a dictionary of
non-empty sets that holds exactly the matching paths, each under its key. -/
def Records (m : Str → Option Key) (r : Results) (paths : List Str) : Prop :=
  WF r ∧ ∀ k q, q ∈ r.get k ↔ (q ∈ paths ∧ m q = some k)

/-- `added` and `deleted` are complete and disjoint relative to the old and new path sets.
(`added` may repeat unchanged paths, `deleted` may name paths that never existed: the watcher's
`updated` set holds modified files too.) -/
structure ChangeSet (oldP newP added deleted : List Str) : Prop where
  added_exist : ∀ p ∈ added, p ∈ newP
  deleted_gone : ∀ p ∈ deleted, p ∉ newP
  new_covered : ∀ p ∈ newP, p ∈ oldP ∨ p ∈ added
  old_covered : ∀ p ∈ oldP, p ∈ newP ∨ p ∈ deleted

/-- A scan (`extend` from the empty dictionary) records its path list. -/
theorem scan_records (m : Str → Option Key) (paths : List Str) :
    Records m (extend m [] paths) paths := by
  refine ⟨wf_extend paths wf_nil, fun k q => ?_⟩
  rw [mem_get_extend]; simp [get_nil]

/-- `reduce (extend old added) deleted` records the new path set: the invariant `Records` is
preserved, so any number of incremental updates stays equal to a fresh scan. -/
theorem incremental_records (m : Str → Option Key) (old : Results) (oldP newP added deleted : List Str)
    (hold : Records m old oldP) (hc : ChangeSet oldP newP added deleted) :
    Records m (reduce m (extend m old added) deleted) newP := by
  obtain ⟨hw, hg⟩ := hold
  have hcons : Consistent m old := fun k q hq => ((hg k q).mp hq).2
  refine ⟨wf_reduce deleted (wf_extend added hw), fun k q => ?_⟩
  rw [mem_get_reduce (wf_extend added hw) (consistent_extend added hcons), mem_get_extend, hg]
  constructor
  · rintro ⟨(⟨ho, hm⟩ | ⟨ha, hm⟩), hd⟩
    · rcases hc.old_covered q ho with h | h
      · exact ⟨h, hm⟩
      · exact absurd h hd
    · exact ⟨hc.added_exist q ha, hm⟩
  · rintro ⟨hn, hm⟩
    refine ⟨?_, fun hd => hc.deleted_gone q hd hn⟩
    rcases hc.new_covered q hn with h | h
    · exact Or.inl ⟨h, hm⟩
    · exact Or.inr ⟨h, hm⟩

/-- The incremental update equals (as a dictionary of sets, `dict.__eq__`) the result of
matching the new path set from scratch. -/
theorem incremental_eq_rescan (m : Str → Option Key) (old : Results) (oldP newP added deleted : List Str)
    (hold : Records m old oldP) (hc : ChangeSet oldP newP added deleted) :
    eqv (reduce m (extend m old added) deleted) (extend m [] newP) = true := by
  have h1 := incremental_records m old oldP newP added deleted hold hc
  have h2 := scan_records m newP
  rw [eqv_iff h1.1 h2.1]
  intro k q
  rw [h1.2, h2.2]

/-- `will_change` returns `None` exactly when a fresh scan of the new path set would record what
is recorded already. -/
theorem will_change_none_iff (m : Str → Option Key) (old : Results) (oldP newP added deleted : List Str)
    (hold : Records m old oldP) (hc : ChangeSet oldP newP added deleted) :
    willChange m old deleted added = none ↔ eqv (extend m [] newP) old = true := by
  have h1 := incremental_records m old oldP newP added deleted hold hc
  have h2 := scan_records m newP
  unfold willChange
  simp only
  have key : eqv (reduce m (extend m old added) deleted) old = eqv (extend m [] newP) old := by
    rw [Bool.eq_iff_iff, eqv_iff h1.1 hold.1, eqv_iff h2.1 hold.1]
    constructor
    · intro h k q; rw [h2.2, ← h1.2]; exact h k q
    · intro h k q; rw [h1.2, ← h2.2]; exact h k q
  rw [key]
  split <;> simp_all

/-- When `will_change` returns a value it is the fresh scan. -/
theorem will_change_some (m : Str → Option Key) (old : Results) (oldP newP added deleted : List Str)
    (hold : Records m old oldP) (hc : ChangeSet oldP newP added deleted) (e : Results)
    (h : willChange m old deleted added = some e) : eqv e (extend m [] newP) = true := by
  unfold willChange at h
  simp only at h
  split at h
  · cases h
  · cases h; exact incremental_eq_rescan m old oldP newP added deleted hold hc

/-- `files()` lists exactly the recorded paths. -/
theorem files_spec (m : Str → Option Key) (r : Results) (paths : List Str) (h : Records m r paths) (q : Str) :
    q ∈ files r ↔ q ∈ paths ∧ (m q).isSome = true := by
  rw [mem_files h.1.1]
  constructor
  · rintro ⟨k, hk⟩
    have := (h.2 k q).mp hk
    exact ⟨this.1, by rw [this.2]; rfl⟩
  · rintro ⟨hp, hm⟩
    obtain ⟨k, hk⟩ := Option.isSome_iff_exists.mp hm
    exact ⟨k, (h.2 k q).mpr ⟨hp, hk⟩⟩

/-! ## 2. A repeated name binds equal substrings -/

/-- In a successful match of a compiled pattern the subject splits into one segment per part of
the expression, every part accepts its segment, and every occurrence of a name `n` (the group and
all its back-references) has the segment bound to `n` in the returned `groupdict`. -/
theorem backref_equal (pattern : Str) (subs : Subs) (re : List Item) (s : Str) (env : Env)
    (hc : compileRegex pattern subs = .ok re) (hm : fullmatch re s = some env) :
    ∃ segs : List Str, segs.flatten = s ∧ SegsOK env re segs := by
  obtain ⟨segs, h1, h2, _⟩ :=
    matchItems_sound re [] s env hm (compileRegex_nodup hc) (fun _ _ => rfl)
  exact ⟨segs, h1, h2⟩

/-- Two occurrences of one name matched equal substrings. -/
theorem backref_occurrences_equal (env : Env) (re : List Item) (segs : List Str) (h : SegsOK env re segs)
    (it1 it2 : Item) (s1 s2 n : Str) (h1 : (it1, s1) ∈ re.zip segs) (h2 : (it2, s2) ∈ re.zip segs)
    (n1 : it1.name? = some n) (n2 : it2.name? = some n) : s1 = s2 := by
  have key : ∀ (re : List Item) (segs : List Str), SegsOK env re segs → ∀ it s, (it, s) ∈ re.zip segs →
      it.name? = some n → env.get n = some s := by
    intro re
    induction re with
    | nil => intro segs _ it s hz; simp at hz
    | cons x xs ih =>
      intro segs hs it s hz hn
      cases segs with
      | nil => simp at hz
      | cons y ys =>
        obtain ⟨hx, hxs⟩ := hs
        rcases List.mem_cons.mp hz with e | e
        · simp only [Prod.mk.injEq] at e
          obtain ⟨rfl, rfl⟩ := e
          cases it with
          | atom a => cases hn
          | group m body => cases hn; exact hx.2
          | bref m => cases hn; exact hx
        · exact ih ys hxs it s e hn
  have a := key re segs h it1 s1 h1 n1
  have b := key re segs h it2 s2 h2 n2
  rw [a] at b; cases b; rfl

/-- The compiler emits at most one group per name; every further occurrence is a back-reference. -/
theorem one_group_per_name (pattern : Str) (subs : Subs) (re : List Item)
    (hc : compileRegex pattern subs = .ok re) : (groupNames re).Nodup :=
  compileRegex_nodup hc

/-! ## 3. The recorded set -/

theorem matcher_isSome (ng : NG) (q : Str) : (ng.matcher q).isSome = accepts ng.regex q := by
  unfold NG.matcher matchValues accepts
  cases fullmatch ng.regex q <;> rfl

/-- What `glob()` records: the paths yielded by the modelled `iglob` (directories marked with a
trailing separator) that the regular expression accepts. -/
theorem recorded_spec (ng : NG) (t : Tree) (q : Str) :
    q ∈ files (ng.scan t) ↔ q ∈ globPaths t ng.glob ∧ accepts ng.regex q = true := by
  unfold NG.scan
  rw [files_spec ng.matcher _ _ (scan_records ng.matcher _), matcher_isSome]

/-- Statement of "recorded = existing, globbed and accepted". -/
def RecordedEqAccepted : Prop :=
  ∀ (pattern : Str) (subs : Subs) (ng : NG) (t : Tree), mkNG pattern subs = .ok ng → ∀ q,
    q ∈ files (ng.scan t) ↔ (q ∈ treePaths t ∧ q ∈ globPaths t ng.glob ∧ accepts ng.regex q = true)

/-- The recorded set equals the set of tree paths (directories with trailing slash) returned by
`iglob` and accepted by the regex: `NamedGlob.glob` only hands existing paths to `extend`
(the existence filter added for F10; CPython's `_glob2` yields its base unchecked). -/
theorem recorded_eq_accepted (ng : NG) (t : Tree) (q : Str) :
    q ∈ files (ng.scan t) ↔ (q ∈ treePaths t ∧ q ∈ globPaths t ng.glob ∧ accepts ng.regex q = true) := by
  rw [recorded_spec]
  constructor
  · rintro ⟨h1, h2⟩; exact ⟨globPaths_exist t ng.glob q h1, h1, h2⟩
  · rintro ⟨_, h1, h2⟩; exact ⟨h1, h2⟩

theorem recorded_eq_accepted_all : RecordedEqAccepted :=
  fun _ _ ng t _ q => recorded_eq_accepted ng t q

/-- The property as worded ("recorded = existing paths the matcher accepts") follows from the
theorem above plus completeness of the glob for this pattern and tree.  Completeness is the
full statement `GlobComplete` below, which is false in the four classes named by the
`..._negation` theorems of section 4. -/
theorem recorded_eq_existing_accepted_partial (ng : NG) (t : Tree)
    (hcomplete : ∀ q ∈ treePaths t, accepts ng.regex q = true → q ∈ globPaths t ng.glob) (q : Str) :
    q ∈ files (ng.scan t) ↔ (q ∈ treePaths t ∧ accepts ng.regex q = true) := by
  rw [recorded_eq_accepted ng t]
  constructor
  · rintro ⟨h1, _, h3⟩; exact ⟨h1, h3⟩
  · rintro ⟨h1, h3⟩; exact ⟨h1, hcomplete q h1 h3, h3⟩

/-- Every path handed to `extend` exists. -/
theorem globbed_exist (t : Tree) (g : Str) (q : Str) (hq : q ∈ globPaths t g) : q ∈ treePaths t :=
  globPaths_exist t g q hq

/-- Former F10 witnesses, now behaving correctly: in an empty tree `n/**` records nothing although
the modelled `iglob` still yields `n/`; with `a/f` a regular file `a/f/**` records nothing. -/
theorem phantom_base_fixed :
    (mkNG [110, 47, 42, 42] []).toOption.map (fun ng => ((iglob [] ng.glob).map render, files (ng.scan []))) =
      some ([[110, 47]], []) ∧
    (mkNG [97, 47, 102, 47, 42, 42] []).toOption.map
      (fun ng => files (ng.scan [([[97]], true), ([[97], [102]], false)])) = some [] := by decide

/-! ### Obligations on the regenerated table `Generated/NGlob.lean` -/

/-- `NGLOB_REGEX_FLAGS` contains `re.DOTALL` and nothing else that changes matching. -/
theorem dotall_flag_set : Generated.NGlob.dotAll = true ∧ Generated.NGlob.onlyDotAll = true := by decide

/-- Every `re.compile` of an emitted expression (nglob.py, workflow.py) passes the flags. -/
theorem compile_sites_pass_flags :
    Generated.NGlob.compileSites = Generated.NGlob.compileSitesWithFlags ∧ 0 < Generated.NGlob.compileSites := by
  decide

/-- `.` accepts every character, so `**` accepts names with a newline. -/
theorem dot_matches_all (c : Nat) : CSet.dot.mem c = true := by
  simp [CSet.mem, dotall_flag_set.1]

/-! ## 4. The two compilers against each other (language statements) -/

/-- No name occurs twice in the pattern. -/
def NoRepeatedNames (pattern : Str) : Prop :=
  ((tokenize pattern).filterMap fun t => match t with | .named n => some n | _ => none).Nodup

/-- Full statement `glob_complete`: every existing path the regex accepts is returned by the
plain recursive glob. -/
def GlobComplete : Prop :=
  ∀ (pattern : Str) (subs : Subs) (ng : NG) (t : Tree), mkNG pattern subs = .ok ng → closedTree t = true →
    ∀ q ∈ treePaths t, accepts ng.regex q = true → q ∈ globPaths t ng.glob

/-- Full statement `regex_eq_glob_no_repeats`: without repeated names the regex accepts exactly
what the recursive glob (hidden entries included) returns, on every tree. -/
def RegexEqGlobNoRepeats : Prop :=
  ∀ (pattern : Str) (subs : Subs) (ng : NG) (t : Tree), mkNG pattern subs = .ok ng → NoRepeatedNames pattern →
    closedTree t = true → ∀ q ∈ treePaths t, (accepts ng.regex q = true ↔ q ∈ globPaths t ng.glob)

/-- Former F4 witness, now behaving correctly: tree `d/`, `d/ok`, `d/a\\nb`, pattern `d/**`: the
name with a newline is accepted by `d/.*` (DOTALL) and recorded. -/
theorem newline_fixed :
    (mkNG [100, 47, 42, 42] []).toOption.map (fun ng =>
      (accepts ng.regex [100, 47, 97, 10, 98],
       files (ng.scan [([[100]], true), ([[100], [111, 107]], false), ([[100], [97, 10, 98]], false)]))) =
    some (true, [[100, 47], [100, 47, 97, 10, 98], [100, 47, 111, 107]]) := by decide

/-- By design a directory is only accepted through a trailing single-component wildcard, `**`
or `/`: the literal pattern `a` does not record the directory `a/` that the glob returns. -/
theorem directory_needs_wildcard_negation : ¬ RegexEqGlobNoRepeats := by
  intro h
  have hng : mkNG [97] [] = .ok ⟨[.atom (.lit [97])], [], [97]⟩ := by rfl
  have h1 := (h _ _ _ [([[97]], true)] hng (by unfold NoRepeatedNames; decide) (by decide) [97, 47] (by decide)).mpr (by decide)
  exact absurd h1 (by decide)

/-- `[!x]` is copied as `[^x]`, which matches a separator: `?[!x]f` accepts the existing path
`b/f` that no single-component glob returns. -/
theorem negated_class_slash_negation : ¬ GlobComplete := by
  intro h
  have hng : mkNG [63, 91, 33, 120, 93, 102] [] =
      .ok ⟨[.atom (.one .notSlash), .atom (.one (.cls true [120])), .atom (.lit [102])], [],
        [63, 91, 33, 120, 93, 102]⟩ := by rfl
  have h1 := h _ _ _ [([[98]], true), ([[98], [102]], false)] hng (by decide) [98, 47, 102] (by decide) (by decide)
  exact absurd h1 (by decide)

/-- `a/**/*` compiles to `a/(?:.*/|)[^/]*/?`: the trailing rule only looks for a literal `/`
before the wildcard, so the existing directory path `a/` itself is accepted. -/
theorem recursive_star_base_negation : ¬ GlobComplete := by
  intro h
  have hng : mkNG [97, 47, 42, 42, 47, 42] [] =
      .ok ⟨[.atom (.lit [97, 47]), .atom .dirs, .atom (.star .notSlash), .atom .optSlash], [],
        [97, 47, 42, 42, 47, 42]⟩ := by rfl
  have h1 := h _ _ _ [([[97]], true), ([[97], [120]], false)] hng (by decide) [97, 47] (by decide) (by decide)
  exact absurd h1 (by decide)

/-- A back-reference that makes up a whole component may be empty: `b${*n}/${*n}` accepts the
existing directory path `b/` with `n` bound to the empty string. -/
theorem backref_empty_component_negation : ¬ GlobComplete := by
  intro h
  have hng : mkNG [98, 36, 123, 42, 110, 125, 47, 36, 123, 42, 110, 125] [] =
      .ok ⟨[.atom (.lit [98]), .group [110] [.star .notSlash], .atom (.lit [47]), .bref [110]], [[110]],
        [98, 42, 47, 42]⟩ := by rfl
  have h1 := h _ _ _ [([[98]], true)] hng (by decide) [98, 47] (by decide) (by decide)
  exact absurd h1 (by decide)


/-- The run of single-component wildcards `${*m}*` may be empty as a whole: `a/${*m}*` accepts the
existing directory path `a/` (the non-empty rule only covers a lone wildcard after a separator). -/
theorem wildcard_run_empty_component_negation : ¬ GlobComplete := by
  intro h
  have hng : mkNG [97, 47, 36, 123, 42, 109, 125, 42] [] =
      .ok ⟨[.atom (.lit [97, 47]), .group [109] [.star .notSlash], .atom (.star .notSlash), .atom .optSlash],
        [[109]], [97, 47, 42]⟩ := by rfl
  have h1 := h _ _ _ [([[97]], true), ([[97], [120]], false)] hng (by decide) [97, 47] (by decide) (by decide)
  exact absurd h1 (by decide)

/-! ### Anonymous `*` versus a fresh named wildcard -/

/-- Acceptance by the expression compiled from a token list (`false` when the compiler raises). -/
def acceptsT (toks : List Tok) (subs : Subs) (s : Str) : Bool :=
  match compileToks toks subs with
  | .ok re => accepts re s
  | .error _ => false

def acceptsP (pattern : Str) (subs : Subs) (s : Str) : Bool :=
  match compileRegex pattern subs with
  | .ok re => accepts re s
  | .error _ => false

/-- `${*n}` -/
def wildText (n : Str) : Str := [36, 123, 42] ++ n ++ [125]

/-- Full statement `anon_named_equiv` on pattern strings: the `*` after `pre` is a token of its
own, `n` is a fresh valid name without substitution; replacing that `*` by `${*n}` does not
change the accepted set. -/
def AnonNamedEquiv : Prop :=
  ∀ (pre post n : Str) (subs : Subs) (tp tq : List Tok),
    tokenize (pre ++ 42 :: post) = tp ++ Tok.star :: tq → renderToks tp = pre →
    n ≠ [] → n.all isNameChar = true → Tok.named n ∉ tp → Tok.named n ∉ tq → subs.getD n = [42] →
    ∀ s, acceptsP (pre ++ 42 :: post) subs s = acceptsP (pre ++ wildText n ++ post) subs s

/-- Proved part, on token lists: when the replaced `*` is not preceded by a `*`/`**` token and not
followed by a `*`, `**` or `**/` token, both patterns compile to the same expression up to the
group around that wildcard, and accept the same strings (all strings, not only paths).
Not proved: that the tokeniser maps the two pattern strings to these two token lists. -/
theorem anon_named_equiv_partial (subs : Subs) (tp tq : List Tok) (n : Str)
    (hn : n ≠ []) (hsub : subs.getD n = [42]) (hp : Tok.named n ∉ tp) (hq : Tok.named n ∉ tq)
    (hl1 : tp.getLast? ≠ some .star) (hl2 : tp.getLast? ≠ some .dstar)
    (hright : ∀ t, tq.head? = some t → starLike t = false) (s : Str) :
    acceptsT (tp ++ .star :: tq) subs s = acceptsT (tp ++ .named n :: tq) subs s := by
  unfold acceptsT
  rcases compileToks_anon subs tp tq n hn hsub hp hq hl1 hl2 hright with ⟨R, h1, h2, hb⟩ | ⟨e, h1, h2⟩
  · rw [h1, h2]; exact accepts_anon n R hb s
  · rw [h1, h2]

/-- The hypothesis on the neighbours is needed: `a/***` rejects the directory path `a/`, while
`a/*${*n}*` accepts it (the middle `*` replaced). -/
theorem anon_named_adjacent_negation : ¬ AnonNamedEquiv := by
  intro h
  have := h [97, 47, 42] [42] [110] [] [.lit [97, 47], .star] [.star] (by rfl) (by rfl) (by decide) (by decide)
    (by decide) (by decide) (by rfl) [97, 47]
  revert this
  decide

/-! ## Non-vacuity -/

/-- A change set with an addition, a deletion, an unchanged path and a re-reported path. -/
example : ChangeSet [[97], [98], [99]] [[98], [99], [100]] [[100], [99]] [[97], [101]] := by
  constructor <;> decide

/-- `${*n}/x${*n}` matches `ab/xab` with `n = ab` and rejects `ab/xba`. -/
example : (compileRegex [36, 123, 42, 110, 125, 47, 120, 36, 123, 42, 110, 125] []).toOption.map
    (fun re => (fullmatch re [97, 98, 47, 120, 97, 98], accepts re [97, 98, 47, 120, 98, 97])) =
    some (some [([110], [97, 98])], false) := by decide

/-- A trailing `**`: the base and everything below it, hidden entries included, are recorded. -/
example : (mkNG [97, 47, 42, 42] []).toOption.map
      (fun ng => files (ng.scan [([[97]], true), ([[97], [120]], false), ([[97], [46, 104]], true)])) =
      some [[97, 47], [97, 47, 46, 104, 47], [97, 47, 120]] := by decide

/-- The hypotheses of `anon_named_equiv_partial` for `a/*.txt` and `a/${*n}.txt`. -/
example (s : Str) : acceptsT ([.lit [97, 47]] ++ .star :: [.lit [46, 116, 120, 116]]) [] s =
    acceptsT ([.lit [97, 47]] ++ .named [110] :: [.lit [46, 116, 120, 116]]) [] s :=
  anon_named_equiv_partial [] _ _ [110] (by decide) (by rfl) (by decide) (by decide) (by decide) (by decide)
    (by intro t ht; cases ht; rfl) s

end StepupModel.Props.C17
