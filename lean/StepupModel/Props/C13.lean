import StepupModel.Lemmas.Hash
import StepupModel.Lemmas.Order
/-!
# C13  Change detection by hashes is sound

Theorems about the byte strings fed to SHA-256 (`P/Hash.lean`).  The tie to the code is the
correspondence `sha256(model stream) = digest computed by StepHash`, on generated configurations.
SHA-256 itself is trusted to be injective on the strings that occur.
-/
namespace StepupModel.Props.C13
open StepupModel.P.Hash StepupModel.P.Like

/-- Well-formedness as the property quantifies it (NUL-free label, paths, names and values; mode
and size below 2^64, `to_bytes(8)` raises otherwise; digests of 32 bytes or the unknown marker)
*plus* one extra hypothesis inside `WFEnv`: no tracked variable is called `__env_overrides__`
(finding F1, a known finding).  The former hypothesis on digests (F2) is gone since the `fix:`
commit that hashes an unknown digest as a missing word. -/
def WFCfg (c : InpCfg) : Prop :=
  NulFree c.label ∧ (∀ f ∈ c.files, WFFile f) ∧ (∀ e ∈ c.envs, WFEnv e) ∧ (∀ e ∈ c.ovr, WFOvr e)

theorem kwShell_nf : NulFree kwShell := by intro x hx; simp [kwShell] at hx; omega

/-- Equal input streams of ordered ingredient lists imply equal ingredient lists. -/
theorem inp_ordered_injective_partial (c1 c2 : InpCfg) (h1 : WFCfg c1) (h2 : WFCfg c2)
    (h : inpStreamOrdered c1 = inpStreamOrdered c2) : c1 = c2 := by
  obtain ⟨l1, s1, f1, e1, o1⟩ := c1
  obtain ⟨l2, s2, f2, e2, o2⟩ := c2
  obtain ⟨hl1, hf1, he1, ho1⟩ := h1
  obtain ⟨hl2, hf2, he2, ho2⟩ := h2
  simp only at hl1 hf1 he1 ho1 hl2 hf2 he2 ho2
  simp only [inpStreamOrdered, wStr, wBytes, List.cons_append, List.cons.injEq, true_and] at h
  obtain ⟨hl, h⟩ := str_split hl1 hl2 (cont_zero _) (cont_zero _) h
  simp only [List.cons.injEq, true_and, List.append_cancel_left_eq, List.nil_append] at h
  obtain ⟨hs, h⟩ := h
  have hterm : ∀ (es : List (Bytes × Option Bytes)) (os : List (Bytes × Bytes)),
      FilesTerm (0 :: 1 :: (kwEnv ++ (encEnvs es ++ 0 :: 1 :: (kwOvr ++ encOvrs os)))) := by
    intro es os
    refine Or.inr ⟨kwEnv, _, rfl, kwEnv_nulFree, Or.inr ?_⟩
    cases es with
    | nil => exact ⟨_, Or.inl rfl⟩
    | cons e es => simp only [encEnvs, List.append_assoc, encEnv_append]; exact ⟨_, Or.inl rfl⟩
  obtain ⟨hf, h⟩ := files_inj f1 f2 _ _ hf1 hf2 (hterm e1 o1) (hterm e2 o2) h
  simp only [List.cons.injEq, true_and, List.append_cancel_left_eq] at h
  have hterm2 : ∀ (os : List (Bytes × Bytes)), EnvTerm (0 :: 1 :: (kwOvr ++ encOvrs os)) := by
    intro os
    refine ⟨_, rfl, ?_⟩
    cases os with
    | nil => exact Or.inl rfl
    | cons o os => simp only [encOvrs, encOvr, wStr, List.cons_append]; exact Or.inr ⟨_, rfl⟩
  obtain ⟨he, h⟩ := envs_inj e1 e2 _ _ he1 he2 (hterm2 o1) (hterm2 o2) h
  simp only [List.cons.injEq, true_and, List.append_cancel_left_eq] at h
  have ho := ovrs_inj o1 o2 ho1 ho2 h
  have hs' : s1 = s2 := by cases s1 <;> cases s2 <;> simp_all
  subst hl hf he ho hs'
  rfl

theorem wf_canon {c : InpCfg} (h : WFCfg c) : WFCfg (canon c) := by
  obtain ⟨h1, h2, h3, h4⟩ := h
  refine ⟨h1, ?_, ?_, ?_⟩
  · intro f hf; exact h2 f (by simpa [canon, sortFiles] using hf)
  · intro f hf; exact h3 f (by simpa [canon, sortEnvs] using hf)
  · intro f hf; exact h4 f (by simpa [canon, sortOvrs] using hf)

/-- **Injectivity of the input digest's preimage** (partial: `WFCfg` excludes tracked variables
named `__env_overrides__`): two well-formed configurations with the same stream have the same
label, shell flag and the same three finite maps. -/
theorem inp_stream_injective_partial (c1 c2 : InpCfg) (h1 : WFCfg c1) (h2 : WFCfg c2)
    (h : inpStream c1 = inpStream c2) : canon c1 = canon c2 :=
  inp_ordered_injective_partial _ _ (wf_canon h1) (wf_canon h2) h

/-- Same for the output digest. -/
theorem out_stream_injective (fs gs : List FileE) (h1 : ∀ f ∈ fs, WFFile f)
    (h2 : ∀ g ∈ gs, WFFile g) (h : outStream fs = outStream gs) : sortFiles fs = sortFiles gs := by
  have := files_inj (sortFiles fs) (sortFiles gs) [] []
    (fun f hf => h1 f (by simpa [sortFiles] using hf)) (fun f hf => h2 f (by simpa [sortFiles] using hf))
    (Or.inl rfl) (Or.inl rfl) (by simpa [outStream] using h)
  exact this.1

/-! ## Order independence -/

theorem sort_perm {α : Type} (key : α → Bytes) (l1 l2 : List α)
    (hk : ∀ a ∈ l1, ∀ b ∈ l1, key a = key b → a = b) (hp : l1.Perm l2) :
    l1.mergeSort (fun a b => leB (key a) (key b)) = l2.mergeSort (fun a b => leB (key a) (key b)) := by
  apply List.Perm.eq_of_pairwise (le := fun a b => leB (key a) (key b) = true)
  · intro a b ha hb hab hba
    have ha' : a ∈ l1 := by simpa using ha
    have hb' : b ∈ l1 := hp.symm.subset (by simpa using hb)
    exact hk a ha' b hb' (leB_antisymm _ _ hab hba)
  · exact List.pairwise_mergeSort (le := fun a b => leB (key a) (key b))
      (fun a b c => leB_trans (key a) (key b) (key c)) (fun a b => leB_total (key a) (key b)) l1
  · exact List.pairwise_mergeSort (le := fun a b => leB (key a) (key b))
      (fun a b c => leB_trans (key a) (key b) (key c)) (fun a b => leB_total (key a) (key b)) l2
  · exact (List.mergeSort_perm l1 _).trans (hp.trans (List.mergeSort_perm l2 _).symm)

/-- The input stream depends on its three maps only as maps: any reordering of the entries of a
map (distinct keys) gives the same stream. -/
theorem inp_stream_perm_invariant (c1 c2 : InpCfg) (hl : c1.label = c2.label) (hs : c1.shell = c2.shell)
    (kf : ∀ a ∈ c1.files, ∀ b ∈ c1.files, a.path = b.path → a = b)
    (ke : ∀ a ∈ c1.envs, ∀ b ∈ c1.envs, a.1 = b.1 → a = b)
    (ko : ∀ a ∈ c1.ovr, ∀ b ∈ c1.ovr, a.1 = b.1 → a = b)
    (pf : c1.files.Perm c2.files) (pe : c1.envs.Perm c2.envs) (po : c1.ovr.Perm c2.ovr) :
    inpStream c1 = inpStream c2 := by
  have h1 : sortFiles c1.files = sortFiles c2.files := sort_perm (fun f : FileE => f.path) _ _ kf pf
  have h2 : sortEnvs c1.envs = sortEnvs c2.envs := sort_perm (fun e : Bytes × Option Bytes => e.1) _ _ ke pe
  have h3 : sortOvrs c1.ovr = sortOvrs c2.ovr := sort_perm (fun e : Bytes × Bytes => e.1) _ _ ko po
  have hc : canon c1 = canon c2 := by
    obtain ⟨l1, s1, f1, e1, o1⟩ := c1
    obtain ⟨l2, s2, f2, e2, o2⟩ := c2
    simp only at hl hs h1 h2 h3
    simp only [canon, hl, hs, h1, h2, h3]
  simp only [inpStream, hc]

theorem out_stream_perm_invariant (fs gs : List FileE)
    (kf : ∀ a ∈ fs, ∀ b ∈ fs, a.path = b.path → a = b) (pf : fs.Perm gs) :
    outStream fs = outStream gs := by
  simp only [outStream, show sortFiles fs = sortFiles gs from sort_perm (fun f : FileE => f.path) _ _ kf pf]

/-- Conversely two configurations with equal canonical forms are permutations of each other,
so `canon c1 = canon c2` in the injectivity theorems means "equal as finite maps". -/
theorem canon_eq_perm (c1 c2 : InpCfg) (h : canon c1 = canon c2) :
    c1.label = c2.label ∧ c1.shell = c2.shell ∧ c1.files.Perm c2.files ∧ c1.envs.Perm c2.envs ∧
      c1.ovr.Perm c2.ovr := by
  simp only [canon, InpCfg.mk.injEq] at h
  obtain ⟨hl, hs, hf, he, ho⟩ := h
  refine ⟨hl, hs, ?_, ?_, ?_⟩
  · exact (List.mergeSort_perm _ _).symm.trans (by rw [sortFiles] at hf; rw [hf]; exact List.mergeSort_perm _ _)
  · exact (List.mergeSort_perm _ _).symm.trans (by rw [sortEnvs] at he; rw [he]; exact List.mergeSort_perm _ _)
  · exact (List.mergeSort_perm _ _).symm.trans (by rw [sortOvrs] at ho; rw [ho]; exact List.mergeSort_perm _ _)

/-! ## The full statement for inputs is false: F1 -/

/-- Well-formedness exactly as the property quantifies it, without the extra hypothesis. -/
def WFBasic (c : InpCfg) : Prop :=
  NulFree c.label ∧ (∀ f ∈ c.files, WFFile f) ∧
  (∀ e ∈ c.envs, NulFree e.1 ∧ ∀ w, e.2 = some w → NulFree w) ∧ (∀ e ∈ c.ovr, WFOvr e)

/-- The full-strength statement of input-digest soundness. -/
def InpDigestSoundFull : Prop :=
  ∀ c1 c2, WFBasic c1 → WFBasic c2 → inpStream c1 = inpStream c2 → canon c1 = canon c2

def f1a : InpCfg := ⟨[99], false, [], [(kwOvr, some [88])], []⟩
def f1b : InpCfg := ⟨[99], false, [], [], [([88], kwOvr)]⟩

/-- F1 (known finding): a tracked variable named `__env_overrides__` with value `X`, versus an
override `X = "__env_overrides__"`: different configurations, same stream. -/
theorem inp_keyword_collision_negation : ¬ InpDigestSoundFull := by
  intro h
  have hnf : NulFree kwOvr := kwOvr_nulFree
  have w1 : WFBasic f1a := by
    refine ⟨by intro x hx; simp [f1a] at hx; omega, by simp [f1a], ?_, by simp [f1a]⟩
    intro e he; simp [f1a] at he; subst he
    exact ⟨hnf, by intro w hw; simp at hw; subst hw; intro x hx; simp at hx; omega⟩
  have w2 : WFBasic f1b := by
    refine ⟨by intro x hx; simp [f1b] at hx; omega, by simp [f1b], by simp [f1b], ?_⟩
    intro e he; simp [f1b] at he; subst he
    exact ⟨by intro x hx; simp at hx; omega, hnf⟩
  have hs : inpStream f1a = inpStream f1b := by
    simp [inpStream, canon, f1a, f1b, sortFiles, sortEnvs, sortOvrs, inpStreamOrdered, encFiles,
      encEnvs, encOvrs, encEnv, encOvr, wStr]
  have := h f1a f1b w1 w2 hs
  simp [canon, f1a, f1b, sortFiles, sortEnvs, sortOvrs] at this

/-! ## The former output collision (F2) is separated by the repaired encoding -/

def f2digest : Bytes :=
  [117, 0, 1, 98, 99, 100, 101, 102, 103, 0, 0, 0, 0, 0, 0, 0, 0, 0, 0, 0, 0, 0, 0, 0, 0, 0, 0, 0, 0, 0, 0, 117]
def f2a : List FileE := [⟨[97], 0, 0, unknownDigest⟩, ⟨[98, 99, 100, 101, 102, 103], 0, 0, unknownDigest⟩]
def f2b : List FileE := [⟨[97], 0, 0, f2digest⟩]

/-- F2 (fixed): outputs `{a: unknown, bcdefg: unknown}` versus `{a: D}` for the crafted `D`. -/
theorem out_digest_marker_fixed : outStream f2a ≠ outStream f2b := by
  have s1 : sortFiles f2a = f2a := by
    apply List.mergeSort_of_pairwise; simp [f2a]; decide
  have s2 : sortFiles f2b = f2b := by
    apply List.mergeSort_of_pairwise; simp [f2b]
  simp only [outStream, s1, s2]; decide

/-! ## `FileHash.refreshed` -/

/-- If the file cannot be stat'ed the result is the unknown hash. -/
theorem refreshed_missing_unknown (h : FileHash) (content : Bytes) :
    (h.refreshed none content).isUnknown = true := by
  unfold FileHash.refreshed
  by_cases hu : h.isUnknown = true
  · simp [hu]
  · simp only [hu]
    rfl

/-- Whenever mtime, size, inode or mode differs from the record, the result is the hash of the
current file: it compares unequal to the record as soon as content digest, size or mode differ. -/
theorem refreshed_detects_change (h : FileHash) (st : Stat) (content : Bytes)
    (hdiff : h.mode ≠ st.mode ∨ h.mtime ≠ st.mtime ∨ h.size ≠ st.size ∨ h.inode ≠ st.inode) :
    h.refreshed (some st) content = ⟨content, st.mode, st.mtime, st.size, st.inode⟩ ∧
    ((content ≠ h.digest ∨ st.size ≠ h.size ∨ st.mode ≠ h.mode) →
      (h.refreshed (some st) content).same h = false) := by
  have hne : ¬ (h.mode = st.mode ∧ h.mtime = st.mtime ∧ h.size = st.size ∧ h.inode = st.inode) := by
    intro ⟨a, b, c, d⟩; rcases hdiff with x | x | x | x <;> contradiction
  refine ⟨by simp [FileHash.refreshed, hne], ?_⟩
  intro hc
  simp only [FileHash.refreshed, hne, if_false, FileHash.same, Bool.and_eq_false_iff, beq_eq_false_iff_ne]
  rcases hc with x | x | x
  · exact Or.inl (Or.inl x)
  · exact Or.inr x
  · exact Or.inl (Or.inr x)

/-- The stated limit of the mechanism: with all four stat fields unchanged the record is kept
without looking at the content. -/
theorem refreshed_same_stat_keeps (h : FileHash) (st : Stat) (content : Bytes)
    (hm : h.mode = st.mode) (ht : h.mtime = st.mtime) (hs : h.size = st.size) (hi : h.inode = st.inode) :
    h.refreshed (some st) content = h := by
  simp [FileHash.refreshed, hm, ht, hs, hi]

/-! Non-vacuity: a non-trivial configuration satisfies `WFCfg`. -/
example : WFCfg ⟨[99, 112], true, [⟨[97, 47, 98], 420, 3, unknownDigest⟩], [([72], none), ([80], some [47])],
    [([79], [49])]⟩ := by
  refine ⟨by intro x hx; simp at hx; omega, ?_, ?_, ?_⟩
  · intro f hf; simp at hf; subst hf
    exact ⟨by intro x hx; simp at hx; omega, by decide, by decide, Or.inl rfl⟩
  · intro e he; simp at he
    rcases he with rfl | rfl
    · exact ⟨by intro x hx; simp at hx; omega, by simp, by decide⟩
    · exact ⟨by intro x hx; simp at hx; omega, by intro w hw; simp at hw; subst hw; intro x hx; simp at hx; omega,
        by decide⟩
  · intro e he; simp at he; subst he
    exact ⟨by intro x hx; simp at hx; omega, by intro x hx; simp at hx; omega⟩

end StepupModel.Props.C13
