import StepupModel.Lemmas.Path
/-!
# C20  A path means the same file to a step and to the director

Theorems about the model in `P/Path.lean`, for all path strings (lists of code points).
The meaning of a path is `resolve base p`: the normalized component list of
`normpath(join(base, p))`, i.e. lexical resolution on a symlink-free tree (`..` through a
symbolic link is out of scope).  The correspondence harness (`harness/props/c20.py`) ties every
modelled function to the implementation and checks the same statements on a real directory tree.
-/
namespace StepupModel.Props.C20
open StepupModel.P.Path

/-! ## Supporting facts about `posixpath` -/

/-- `normpath` is idempotent. -/
theorem normpath_idempotent (s : Str) : normpath (normpath s) = normpath s := normpath_idem s

/-- `normpath` keeps the meaning of a path, from every absolute base directory. -/
theorem normpath_denotes (base s : Str) (hb : isabs base = true) :
    resolve base (normpath s) = resolve base s := by
  by_cases hs : isabs s = true
  · rw [resolve_abs_eq (by rw [isabs_normpath]; exact hs), resolve_abs_eq hs, parseNorm_normpath]
  · have hs : isabs s = false := by simpa using hs
    rw [resolve_rel hb (by rw [isabs_normpath]; exact hs), resolve_rel hb hs, normComps_eq, normComps_eq,
      run_append, run_append, run_comps_normpath_rel _ hs]

/-- Relative path round trip on normalized absolute component lists:
`normalize(start ++ relpath(target, start)) = target`. -/
theorem relpath_roundtrip (start target : List Str) (hs : Clean start) (ht : Clean target) :
    normComps true (start ++ relSegs start target) = target := relSegs_roundtrip hs ht

/-- The same at string level, for `path.Path.relpath`: `Path(dest).relpath(origin)` interpreted in
`origin` designates `dest` (also when the roots `/` and `//` differ and the result is absolute). -/
theorem relpath_denotes (cwd origin dest : Str) (ho : isabs origin = true) (hd : isabs dest = true) :
    resolve origin (relpathTo cwd origin dest) = resolve origin dest := by
  rw [resolve_relpathTo ho hd, resolve_abs_eq hd]

/-! ## translate -/

/-- An absolute path is returned unchanged up to `normpath`. -/
theorem translate_abs (cwd root here wd p : Str) (hp : isabs p = true) :
    translate cwd root here p wd = normpath p := by
  simp [translate, isabs_normpath, hp]

/-- A path given by a step that runs in `root/here`, with working directory argument `wd`
(relative to the step's directory, or absolute), is translated to a path that, interpreted in the
root, designates the same location as the original path interpreted in `root/here/wd`.
No hypothesis on `here`, `wd` or `p`: relative, absolute, with `.`/`..`, `//`, trailing slashes. -/
theorem translate_denotes (cwd root here wd p : Str) (hroot : isabs root = true) :
    resolve root (translate cwd root here p wd) = resolve (join (join root here) wd) p := by
  have hA : isabs (join root here) = true := isabs_join_left hroot
  by_cases hp : isabs p = true
  · rw [translate_abs _ _ _ _ _ hp, resolve_abs_eq (by rw [isabs_normpath]; exact hp), resolve_abs_eq hp,
      parseNorm_normpath]
  have hp : isabs p = false := by simpa using hp
  have hp1 : isabs (normpath p) = false := by rw [isabs_normpath]; exact hp
  by_cases hwd : isabs wd = true
  · have hwd1 : isabs (normpath wd) = true := by rw [isabs_normpath]; exact hwd
    simp only [translate, hp1, hwd1, Bool.false_eq_true, if_false, if_true]
    rw [normpath_denotes _ _ hroot, resolve_abs (isabs_join_left hwd1), comps_join hp1,
      comps_normpath_abs hwd, ← normComps_append_abs,
      join_abs hwd, resolve_rel hwd hp, normComps_eq, normComps_eq, run_append, run_append,
      run_comps_normpath_rel _ hp]
  · have hwd : isabs wd = false := by simpa using hwd
    have hwd1 : isabs (normpath wd) = false := by rw [isabs_normpath]; exact hwd
    have hj : isabs (join (normpath wd) (normpath p)) = false := isabs_join_rel hwd1 hp1
    have hX : isabs (join (join root here) (join (normpath wd) (normpath p))) = true := isabs_join_left hA
    simp only [translate, hp1, hwd1, Bool.false_eq_true, if_false]
    rw [resolve_relpathTo hroot (by rw [isabs_normpath]; exact hX), parseNorm_normpath, parseNorm_eq, hX,
      comps_join hj, comps_join hp1, resolve_rel (isabs_join_left hA) hp, comps_join hwd]
    simp only [normComps_eq, run_append, run_comps_normpath_rel _ hp, run_comps_normpath_rel _ hwd]

/-! ## translate_back -/

/-- A path recorded by the director (relative to the root, or absolute) is handed back as a path
that, interpreted in the step's directory `root/here/wd`, designates the same location. -/
theorem translate_back_denotes (cwd root here wd p : Str) (hroot : isabs root = true) :
    resolve (join (join root here) wd) (translateBack cwd root here p wd) = resolve root p := by
  have hA : isabs (join root here) = true := isabs_join_left hroot
  rw [← resolve_base_normpath hA]
  by_cases hp : isabs p = true
  · have hp1 : isabs (normpath p) = true := by rw [isabs_normpath]; exact hp
    simp only [translateBack, hp1, if_true]
    rw [resolve_abs_eq (base := root) hp]
    split
    · rename_i h
      rw [join_abs h.1, resolve_relpathTo h.1 hp1, parseNorm_normpath]
    · rw [resolve_abs_eq hp1, parseNorm_normpath]
  · have hp : isabs p = false := by simpa using hp
    have hp1 : isabs (normpath p) = false := by rw [isabs_normpath]; exact hp
    simp only [translateBack, hp1, Bool.false_eq_true, if_false]
    rw [resolve_relpathTo (isabs_join_left hA) (isabs_join_left hroot), parseNorm_eq, isabs_join_left hroot,
      comps_join hp1, resolve_rel hroot hp]
    simp only [normComps_eq, run_append, run_comps_normpath_rel _ hp]

/-- Round trip: what a step gets back for a path it declared designates, from the step's directory,
the file it named. -/
theorem roundtrip_denotes (cwd root here wd p : Str) (hroot : isabs root = true) :
    resolve (join (join root here) wd) (translateBack cwd root here (translate cwd root here p wd) wd) =
      resolve (join (join root here) wd) p := by
  rw [translate_back_denotes _ _ _ _ _ hroot, translate_denotes _ _ _ _ _ hroot]

/-- The other round trip: translating a handed-back path again designates the recorded location. -/
theorem roundtrip_back_denotes (cwd root here wd q : Str) (hroot : isabs root = true) :
    resolve root (translate cwd root here (translateBack cwd root here q wd) wd) = resolve root q := by
  rw [translate_denotes _ _ _ _ _ hroot, translate_back_denotes _ _ _ _ _ hroot]

/-! ## The recorded path is normalized and canonical -/

/-- The recorded label is a function of the designated location alone: for relative arguments it is
the relative path from the root's location to the location of `root/here/wd/p`. -/
theorem translate_label_of_location (cwd root here wd p : Str) (hroot : isabs root = true)
    (hhere : isabs here = false) (hwd : isabs wd = false) (hp : isabs p = false) :
    translate cwd root here p wd =
      renderRel (relSegs (resolve root dot) (resolve (join (join root here) wd) p)) := by
  have hp1 : isabs (normpath p) = false := by rw [isabs_normpath]; exact hp
  have hwd1 : isabs (normpath wd) = false := by rw [isabs_normpath]; exact hwd
  have hj := isabs_join_rel hwd1 hp1
  have hXn : isabs (normpath (join (join root here) (join (normpath wd) (normpath p)))) = true := by
    rw [isabs_normpath]; exact isabs_join_left (isabs_join_left hroot)
  have hq : translate cwd root here p wd =
      relpathTo cwd root (normpath (join (join root here) (join (normpath wd) (normpath p)))) := by
    simp only [translate, hp1, hwd1, Bool.false_eq_true, if_false]
  have h := translate_denotes cwd root here wd p hroot
  rw [hq, resolve_relpathTo hroot hXn, parseNorm_eq, hXn] at h
  simp only at h
  rw [hq, relpathTo_same hroot hXn (by rw [rootK_normpath, rootK_join hj, rootK_join hhere]), h,
    resolve_dot_eq hroot, parseNorm_eq, hroot]

/-- Two spellings of the same location, given from any two step directories, are recorded under the
same label. -/
theorem translate_same_location_same_label (cwd root here₁ wd₁ p₁ here₂ wd₂ p₂ : Str)
    (hroot : isabs root = true)
    (h1 : isabs here₁ = false ∧ isabs wd₁ = false ∧ isabs p₁ = false)
    (h2 : isabs here₂ = false ∧ isabs wd₂ = false ∧ isabs p₂ = false)
    (hloc : resolve (join (join root here₁) wd₁) p₁ = resolve (join (join root here₂) wd₂) p₂) :
    translate cwd root here₁ p₁ wd₁ = translate cwd root here₂ p₂ wd₂ := by
  rw [translate_label_of_location _ _ _ _ _ hroot h1.1 h1.2.1 h1.2.2,
    translate_label_of_location _ _ _ _ _ hroot h2.1 h2.2.1 h2.2.2, hloc]

/-- The meaning of a path is a normalized absolute component list. -/
theorem resolve_clean (base p : Str) (hb : isabs base = true) : Clean (resolve base p) := by
  have h := parseNorm_normal (join base p)
  have hk : (parseNorm (join base p)).1 ≠ 0 := by
    rw [parseNorm_eq]; simpa [isabs_eq] using isabs_join_left (b := p) hb
  have h3 := h.2.2
  simp only [hk, if_false] at h3
  exact h3

/-- The translated path is always normalized (since the `fix:` commit that normalizes the join with
an absolute working directory; before it `translate("../x", "/a/b")` was `"/a/b/../x"`). -/
theorem translate_normalized (cwd root here wd p : Str) (hroot : isabs root = true) :
    normpath (translate cwd root here p wd) = translate cwd root here p wd := by
  by_cases hp : isabs p = true
  · rw [translate_abs _ _ _ _ _ hp, normpath_idem]
  · have hp : isabs p = false := by simpa using hp
    have hp1 : isabs (normpath p) = false := by rw [isabs_normpath]; exact hp
    by_cases hwd : isabs wd = true
    · have hwd1 : isabs (normpath wd) = true := by rw [isabs_normpath]; exact hwd
      simp only [translate, hp1, hwd1, Bool.false_eq_true, if_false, if_true]
      exact normpath_idem _
    · have hwd : isabs wd = false := by simpa using hwd
      have hwd1 : isabs (normpath wd) = false := by rw [isabs_normpath]; exact hwd
      simp only [translate, hp1, hwd1, Bool.false_eq_true, if_false]
      exact normpath_relpathTo hroot (by
        rw [isabs_normpath]; exact isabs_join_left (isabs_join_left hroot))

/-- The witness of the repaired defect now evaluates to the normalized path `/a/x`. -/
theorem translate_abs_workdir_witness :
    translate [47, 114] [47, 114] [46] [46, 46, 47, 120] [47, 97, 47, 98] = [47, 97, 47, 120] := by decide

/-- A translated path is canonical: translating it again as the director would (from the root,
`HERE = "."`, `workdir = "."`) leaves it unchanged. -/
theorem translate_canonical (cwd root here wd p : Str) (hroot : isabs root = true) :
    translate cwd root dot (translate cwd root here p wd) dot = translate cwd root here p wd := by
  by_cases hp : isabs p = true
  · rw [translate_abs _ _ _ _ _ hp, translate_abs _ _ _ _ _ (by rw [isabs_normpath]; exact hp), normpath_idem]
  · have hp : isabs p = false := by simpa using hp
    have hp1 : isabs (normpath p) = false := by rw [isabs_normpath]; exact hp
    by_cases hwd : isabs wd = true
    · have hwd1 : isabs (normpath wd) = true := by rw [isabs_normpath]; exact hwd
      have hq : translate cwd root here p wd = normpath (join (normpath wd) (normpath p)) := by
        simp only [translate, hp1, hwd1, Bool.false_eq_true, if_false, if_true]
      rw [hq, translate_abs _ _ _ _ _ (by rw [isabs_normpath]; exact isabs_join_left hwd1), normpath_idem]
    · have hwd : isabs wd = false := by simpa using hwd
      have hwd1 : isabs (normpath wd) = false := by rw [isabs_normpath]; exact hwd
      have hX : isabs (normpath (join (join root here) (join (normpath wd) (normpath p)))) = true := by
        rw [isabs_normpath]; exact isabs_join_left (isabs_join_left hroot)
      have hq : translate cwd root here p wd =
          relpathTo cwd root (normpath (join (join root here) (join (normpath wd) (normpath p)))) := by
        simp only [translate, hp1, hwd1, Bool.false_eq_true, if_false]
      rw [hq]
      by_cases hk : rootK root = rootK (normpath (join (join root here) (join (normpath wd) (normpath p))))
      · rw [relpathTo_same hroot hX hk]
        exact translate_relSegs hroot (normComps_clean _) (fun c hc => comps_slashFree (mem_normComps hc))
      · rw [relpathTo_diff hroot hX hk, translate_abs _ _ _ _ _ (by rw [isabs_normpath]; exact hX),
          normpath_idem]

/-- Idempotence on the director's side. -/
theorem translate_idempotent (cwd root p : Str) (hroot : isabs root = true) :
    translate cwd root dot (translate cwd root dot p dot) dot = translate cwd root dot p dot :=
  translate_canonical cwd root dot dot p hroot

/-- Full statement of `translate_fixed` for every normalized relative path. -/
def translate_fixed_full : Prop :=
  ∀ cwd root p : Str, isabs root = true → isabs p = false → normpath p = p →
    translate cwd root dot p dot = p

/-- `translate` leaves an already normalized path inside the root (no `..` component) unchanged
when `HERE` is `.` and the working directory is `.`. -/
theorem translate_fixed_partial (cwd root p : Str) (hroot : isabs root = true) (hp : isabs p = false)
    (hn : normpath p = p) (hin : dotdot ∉ comps p) : translate cwd root dot p dot = p := by
  have hN := parseNorm_normal p
  have hk : (parseNorm p).1 = 0 := by rw [parseNorm_eq]; simpa [isabs_eq] using hp
  have hg := hN.good
  obtain ⟨_, hsf, h3⟩ := hN
  simp only [hk, if_true] at h3
  have hcl : Clean (parseNorm p).2 := by
    obtain ⟨k, ns, hl, hns⟩ := h3
    cases k with
    | zero => rw [hl]; simpa using hns
    | succ k =>
      exfalso; apply hin
      have : dotdot ∈ (parseNorm p).2 := by rw [hl]; simp [List.replicate_succ]
      rw [parseNorm_eq] at this
      exact mem_normComps this
  have hp_eq : p = renderRel (relSegs (normComps true (comps root))
      (normComps true (comps root) ++ (parseNorm p).2)) := by
    rw [relSegs_prefix _ _ hcl (normComps_clean _), renderRel_eq_render hg]
    conv => lhs; rw [← hn, normpath_eq_render, hk]
  have := translate_relSegs (cwd := cwd) hroot ((normComps_clean (comps root)).append hcl)
    (fun c hc => by
      rcases List.mem_append.mp hc with hc | hc
      · exact comps_slashFree (mem_normComps hc)
      · exact hsf c hc)
  rw [← hp_eq] at this
  exact this

/-- A normalized path that leaves the root and comes back is rewritten (correctly) to its canonical
form: with root `/r/a`, `translate("../a/x") = "x"`. -/
theorem translate_fixed_negation : ¬ translate_fixed_full := by
  intro h
  have := h [47, 114] [47, 114, 47, 97] [46, 46, 47, 97, 47, 120] rfl rfl (by decide)
  revert this; decide

/-! ## Affixes -/

/-- `get_affixes` only ever returns `""`/`"./"` and `""`/`"/"`. -/
theorem get_affixes_shape (p : Str) :
    ((getAffixes p).1 = [] ∨ (getAffixes p).1 = dotSlash) ∧
    ((getAffixes p).2 = [] ∨ (getAffixes p).2 = [slash]) := getAffixes_shape p

/-- `apply_affixes` raises exactly in the documented cases: a leading affix other than `./`, a
leading affix on a path that starts with `/` or `./`, a trailing affix other than `/`, a trailing
affix on a path (after the leading affix was added) that ends with `/`. -/
theorem apply_affixes_rejects_iff (p l t : Str) :
    (∃ n, applyAffixes p l t = .error n) ↔
      (l ≠ [] ∧ (l ≠ dotSlash ∨ isabs p = true ∨ dotSlash.isPrefixOf p = true)) ∨
      (t ≠ [] ∧ (t ≠ [slash] ∨ endsSlash (l ++ p) = true)) := applyAffixes_error_iff p l t

/-- When `apply_affixes` succeeds the result is the plain concatenation. -/
theorem apply_affixes_value (p l t r : Str) (h : applyAffixes p l t = .ok r) : r = l ++ p ++ t :=
  applyAffixes_ok p l t r h

/-- Full statement: `_keep_affixes(p, translate)` succeeds for every path and the result carries
exactly the affixes of the argument. -/
def affixes_preserved_full : Prop :=
  ∀ cwd root here p : Str, isabs root = true → isabs here = false →
    ∃ r, keepAffixes (fun x => translate cwd root here x dot) p = .ok r ∧ getAffixes r = getAffixes p

/-- `_keep_affixes(p, translate)`: unless `p` is a spelling of the root directory (`/`, `//.`, `/..`),
the result is the translated path with a leading `./` and a trailing `/` exactly when `p` had them,
and it designates the same location as the translated path. -/
theorem affixes_preserved_partial (cwd root here p : Str) (hroot : isabs root = true)
    (hhere : isabs here = false) (hnr : isabs p = true → normComps true (comps p) ≠ []) :
    keepAffixes (fun x => translate cwd root here x dot) p =
      .ok ((getAffixes p).1 ++ translate cwd root here p dot ++ (getAffixes p).2) ∧
    getAffixes ((getAffixes p).1 ++ translate cwd root here p dot ++ (getAffixes p).2) = getAffixes p ∧
    resolve root ((getAffixes p).1 ++ translate cwd root here p dot ++ (getAffixes p).2) =
      resolve root (translate cwd root here p dot) := by
  have habs : isabs (translate cwd root here p dot) = true → isabs p = true := by
    intro h
    cases hp : isabs p with
    | true => rfl
    | false => rw [isabs_translate_rel hroot hhere hp isabs_dot] at h; cases h
  have hplain : Plain (translate cwd root here p dot) := by
    apply normal_plain (translate_normalized _ _ _ _ _ hroot)
    intro h
    have hp := habs h
    rw [translate_abs _ _ _ _ _ hp, comps_normpath_abs hp, normComps_idem_abs]
    exact hnr hp
  obtain ⟨h1, h2⟩ := keepAffixes_plain (fun x => translate cwd root here x dot) p hplain habs
  exact ⟨h1, h2, resolve_affixes hroot hplain (getAffixes_shape p).1 (getAffixes_shape p).2
    (fun h => getAffixes_lead_abs (habs h))⟩

/-- `_keep_affixes("/", translate)` raises (`Path already has a trailing slash`). -/
theorem affixes_preserved_negation : ¬ affixes_preserved_full := by
  intro h
  obtain ⟨r, hr, _⟩ := h [47, 114] [47, 114] [46] [47] rfl rfl
  have hv : keepAffixes (fun x => translate [47, 114] [47, 114] [46] x dot) [47] = .error 4 := by rfl
  rw [hv] at hr; cases hr

/-- `_translate_glob_path(p)` (the patterns and matches that `glob()` and `static()` send to the
director): unless `p` is a spelling of the root directory, the result is the translated path followed
by `/` exactly when `p` ended with one; it never starts with `./`, whatever the spelling of `p`, and
it designates the same location as the translated path. So `./*.txt` and `*.txt` are recorded as
the same pattern. -/
theorem glob_path_trailing_only (cwd root here p : Str) (hroot : isabs root = true)
    (hhere : isabs here = false) (hnr : isabs p = true → normComps true (comps p) ≠ []) :
    globPath (fun x => translate cwd root here x dot) p =
      .ok (translate cwd root here p dot ++ (getAffixes p).2) ∧
    getAffixes (translate cwd root here p dot ++ (getAffixes p).2) = ([], (getAffixes p).2) ∧
    resolve root (translate cwd root here p dot ++ (getAffixes p).2) =
      resolve root (translate cwd root here p dot) := by
  have habs : isabs (translate cwd root here p dot) = true → isabs p = true := by
    intro h
    cases hp : isabs p with
    | true => rfl
    | false => rw [isabs_translate_rel hroot hhere hp isabs_dot] at h; cases h
  have hplain : Plain (translate cwd root here p dot) := by
    apply normal_plain (translate_normalized _ _ _ _ _ hroot)
    intro h
    have hp := habs h
    rw [translate_abs _ _ _ _ _ hp, comps_normpath_abs hp, normComps_idem_abs]
    exact hnr hp
  have h := apply_plain (l := []) hplain (Or.inl rfl) (getAffixes_shape p).2 (fun _ => rfl)
  have hr := resolve_affixes (l := []) hroot hplain (Or.inl rfl) (getAffixes_shape p).2 (fun _ => rfl)
  simp only [List.nil_append] at h hr
  exact ⟨h.1, h.2, hr⟩

/-- Two spellings of one pattern that differ only by a leading `./` are recorded identically. -/
theorem glob_path_dot_slash_irrelevant (cwd root here p : Str) (hroot : isabs root = true)
    (hhere : isabs here = false) (hrel : isabs p = false)
    (htr : translate cwd root here (dotSlash ++ p) dot = translate cwd root here p dot)
    (hsuf : (getAffixes (dotSlash ++ p)).2 = (getAffixes p).2) :
    globPath (fun x => translate cwd root here x dot) (dotSlash ++ p) =
      globPath (fun x => translate cwd root here x dot) p := by
  have hrel2 : isabs (dotSlash ++ p) = false := by rfl
  rw [(glob_path_trailing_only cwd root here p hroot hhere (fun h => by rw [hrel] at h; cases h)).1,
    (glob_path_trailing_only cwd root here (dotSlash ++ p) hroot hhere
      (fun h => by rw [hrel2] at h; cases h)).1, htr, hsuf]

example : globPath (fun x => translate [47] [47, 114] [115, 117, 98] x dot) [46, 47, 42, 46, 116, 47] =
    .ok [115, 117, 98, 47, 42, 46, 116, 47] := by rfl

/-- The same for `_keep_affixes(p, translate_back)` (`getenv(..., back=True)`). -/
theorem affixes_preserved_back_partial (cwd root here p : Str) (hroot : isabs root = true)
    (hhere : isabs here = false) (hnr : isabs p = true → normComps true (comps p) ≠ []) :
    keepAffixes (fun x => translateBack cwd root here x dot) p =
      .ok ((getAffixes p).1 ++ translateBack cwd root here p dot ++ (getAffixes p).2) ∧
    getAffixes ((getAffixes p).1 ++ translateBack cwd root here p dot ++ (getAffixes p).2) = getAffixes p ∧
    resolve (join root here) ((getAffixes p).1 ++ translateBack cwd root here p dot ++ (getAffixes p).2) =
      resolve (join root here) (translateBack cwd root here p dot) := by
  have hnd : isabs (normpath dot) = false := by decide
  have hval : isabs p = true → translateBack cwd root here p dot = normpath p := by
    intro hp
    have hp1 : isabs (normpath p) = true := by rw [isabs_normpath]; exact hp
    simp [translateBack, hp1, hnd]
  have habs : isabs (translateBack cwd root here p dot) = true → isabs p = true := by
    intro h
    cases hp : isabs p with
    | true => rfl
    | false => rw [isabs_translateBack_rel hroot hhere hp isabs_dot] at h; cases h
  have hnorm : normpath (translateBack cwd root here p dot) = translateBack cwd root here p dot := by
    cases hp : isabs p with
    | true => rw [hval hp, normpath_idem]
    | false =>
      have hp1 : isabs (normpath p) = false := by rw [isabs_normpath]; exact hp
      simp only [translateBack, hp1, Bool.false_eq_true, if_false]
      exact normpath_relpathTo (isabs_join_left (isabs_join_left hroot)) (isabs_join_left hroot)
  have hplain : Plain (translateBack cwd root here p dot) := by
    apply normal_plain hnorm
    intro h
    have hp := habs h
    rw [hval hp, comps_normpath_abs hp, normComps_idem_abs]
    exact hnr hp
  obtain ⟨h1, h2⟩ := keepAffixes_plain (fun x => translateBack cwd root here x dot) p hplain habs
  exact ⟨h1, h2, resolve_affixes (isabs_join_left hroot) hplain (getAffixes_shape p).1 (getAffixes_shape p).2
    (fun h => getAffixes_lead_abs (habs h))⟩

/-- And for `_keep_affixes(p, Path.normpath)` (`script`, `runsh`, `getenv`). -/
theorem affixes_preserved_normpath_partial (base p : Str) (hb : isabs base = true)
    (hnr : isabs p = true → normComps true (comps p) ≠ []) :
    keepAffixes normpath p = .ok ((getAffixes p).1 ++ normpath p ++ (getAffixes p).2) ∧
    getAffixes ((getAffixes p).1 ++ normpath p ++ (getAffixes p).2) = getAffixes p ∧
    resolve base ((getAffixes p).1 ++ normpath p ++ (getAffixes p).2) = resolve base p := by
  have habs : isabs (normpath p) = true → isabs p = true := fun h => by rwa [isabs_normpath] at h
  have hplain : Plain (normpath p) := by
    apply normal_plain (normpath_idem p)
    intro h
    rw [comps_normpath_abs (habs h), normComps_idem_abs]
    exact hnr (habs h)
  obtain ⟨h1, h2⟩ := keepAffixes_plain normpath p hplain habs
  refine ⟨h1, h2, ?_⟩
  rw [resolve_affixes hb hplain (getAffixes_shape p).1 (getAffixes_shape p).2
    (fun h => getAffixes_lead_abs (habs h)), normpath_denotes base p hb]

/-! ## `STEPUP_ROOT`, `HERE` and `ROOT` -/

/-- `get_stepup_root()` is absolute and normalized, whatever `STEPUP_ROOT` contains. -/
theorem stepup_root_normal (cwd : Str) (envRoot : Option Str) (hc : isabs cwd = true) :
    isabs (getRoot cwd envRoot) = true ∧ normpath (getRoot cwd envRoot) = getRoot cwd envRoot := by
  refine ⟨isabs_abspath hc, ?_⟩
  rw [getRoot, abspath_eq, normpath_idem]

/-- `translate` as a step calls it (root and `HERE` from the environment, any values). -/
theorem translate_env_denotes (cwd : Str) (envRoot envHere : Option Str) (wd p : Str) (hc : isabs cwd = true) :
    resolve (getRoot cwd envRoot) (translateEnv cwd envRoot envHere p wd) =
      resolve (join (join (getRoot cwd envRoot) (getHere cwd (getRoot cwd envRoot) envHere)) wd) p :=
  translate_denotes _ _ _ _ _ (isabs_abspath hc)

/-- Without `HERE` in the environment the step's directory is the current directory:
the translated path designates `cwd/wd/p`. -/
theorem translate_default_here_denotes (cwd root wd p : Str) (hc : isabs cwd = true) (hroot : isabs root = true) :
    resolve root (translate cwd root (getHere cwd root none) p wd) = resolve (join cwd wd) p := by
  rw [translate_denotes _ _ _ _ _ hroot]
  apply resolve_base_congr (isabs_join_left hroot) hc
  have h := resolve_relpathTo_gen (cwd := cwd) (o := root) (d := dot) hc
  rw [join_abs hroot, resolve_dot_eq hc] at h
  exact h

/-- `HERE` as set by the executor (director's directory = root, step working directory `w`):
`HERE` designates `root/w`. -/
theorem env_here_denotes (root w : Str) (hroot : isabs root = true) :
    resolve root (envHereVar root w) = resolve root w := by
  have h := resolve_relpathTo_gen (cwd := root) (o := dot) (d := w) hroot
  rwa [resolve_join_dot hroot] at h

/-- `ROOT` as set by the executor designates the root from the step's directory `root/w`. -/
theorem env_root_denotes (root w : Str) (hroot : isabs root = true) :
    resolve (join root w) (envRootVar root w) = resolve root dot := by
  have h := resolve_relpathTo_gen (cwd := root) (o := w) (d := root) hroot
  rwa [resolve_self_eq_dot hroot] at h

/-- With `HERE` from the executor, a path given by the step (running in `root/w`) is recorded as the
path that designates `root/w/wd/p` from the root. -/
theorem translate_executor_here (cwd root w wd p : Str) (hroot : isabs root = true) :
    resolve root (translate cwd root (envHereVar root w) p wd) = resolve (join (join root w) wd) p := by
  rw [translate_denotes _ _ _ _ _ hroot]
  apply resolve_base_congr (isabs_join_left hroot) (isabs_join_left hroot)
  exact env_here_denotes root w hroot

/-- With an absolute working directory argument the result is the normalized join of the two
arguments. -/
theorem translate_abs_workdir_value (cwd root here wd p : Str) (hwd : isabs wd = true) (hp : isabs p = false) :
    translate cwd root here p wd = normpath (join wd p) := by
  have hp1 : isabs (normpath p) = false := by rw [isabs_normpath]; exact hp
  have hwd1 : isabs (normpath wd) = true := by rw [isabs_normpath]; exact hwd
  simp only [translate, hp1, hwd1, Bool.false_eq_true, if_false, if_true]
  rw [normpath_eq, normpath_eq (join wd p), rootK_join hp1, rootK_join hp, rootK_normpath,
    isabs_join_left hwd1, isabs_join_left hwd, comps_join hp1, comps_join hp, comps_normpath_abs hwd,
    ← normComps_append_abs]
  simp only [normComps_eq, run_append, run_comps_normpath_rel _ hp]

/-! ## Non-vacuity: the hypotheses hold for ordinary values, and the functions compute

Root `/r`, `HERE = sub`: `translate("../a/./b", "w") = "sub/a/b"`, `translate_back("sub/a/b", "w") =
"../a/b"`, `translate("../../é/y/") = "../é/y"`, `_keep_affixes("./../a b/", translate) = "./a b/"`. -/
example : isabs [47, 114] = true ∧ isabs [115, 117, 98] = false ∧ isabs dot = false := by decide
example : translate [47] [47, 114] [115, 117, 98] [46, 46, 47, 97, 47, 46, 47, 98] [119] =
    [115, 117, 98, 47, 97, 47, 98] := by decide
example : translateBack [47] [47, 114] [115, 117, 98] [115, 117, 98, 47, 97, 47, 98] [119] =
    [46, 46, 47, 97, 47, 98] := by decide
example : translate [47] [47, 114] [115, 117, 98] [46, 46, 47, 46, 46, 47, 233, 47, 121, 47] dot =
    [46, 46, 47, 233, 47, 121] := by decide
example : resolve [47, 114] (translate [47] [47, 114] [115, 117, 98] [46, 46, 47, 97, 47, 46, 47, 98] [119]) =
    [[114], [115, 117, 98], [97], [98]] := by decide
example : keepAffixes (fun x => translate [47] [47, 114] [115, 117, 98] x dot) [46, 47, 46, 46, 47, 97, 32, 98, 47] =
    .ok [46, 47, 97, 32, 98, 47] := by rfl
/-- hypotheses of `translate_fixed_partial` -/
example : isabs [97, 47, 98] = false ∧ normpath [97, 47, 98] = [97, 47, 98] ∧ dotdot ∉ comps [97, 47, 98] := by
  decide
/-- hypothesis `hnr` of the affix theorems for an absolute path that is not the root -/
example : normComps true (comps [47, 97, 47]) ≠ [] := by decide
/-- hypotheses of `relpath_roundtrip` -/
example : Clean [[114], [97]] ∧ Clean [[114], [98], [99]] ∧
    relSegs [[114], [97]] [[114], [98], [99]] = [dotdot, [98], [99]] := by
  refine ⟨?_, ?_, by decide⟩ <;> intro c hc <;> simp at hc <;> rcases hc with rfl | hc <;>
    (try subst hc) <;> (try (rcases hc with rfl | rfl)) <;> exact ⟨by decide, by decide, by decide⟩

/-! Index (name : status)
normpath_idempotent : full            normpath_denotes : full
relpath_roundtrip : full              relpath_denotes : full
translate_abs : full                  translate_denotes : full
translate_back_denotes : full         roundtrip_denotes : full       roundtrip_back_denotes : full
translate_normalized : full (since the fix of translate-abs-workdir-unnormalized)
translate_abs_workdir_witness : full   translate_canonical : full   translate_idempotent : full
translate_label_of_location, translate_same_location_same_label, resolve_clean : full
translate_fixed_partial : partial (hypothesis: no `..` component)
translate_fixed_negation : negation (witness root /r/a, "../a/x" -> "x")
get_affixes_shape, apply_affixes_rejects_iff, apply_affixes_value : full
affixes_preserved_partial, affixes_preserved_back_partial, affixes_preserved_normpath_partial : partial
  (hypothesis: the path is not a spelling of the root directory)
affixes_preserved_negation : negation (witness "/")
stepup_root_normal, translate_env_denotes, translate_default_here_denotes, env_here_denotes,
env_root_denotes, translate_executor_here, translate_abs_workdir_value : full
depends-on-generated: []
-/

end StepupModel.Props.C20
