import StepupModel.Props.C10
import StepupModel.Lemmas.Restart
import StepupModel.Lemmas.Windows
import StepupModel.B.Exec
/-!
# C03  A step only succeeds on inputs that were final while it ran

Proved here:

* dispatch side (kernel model, builds on `Props/C10.lean`): a step is dispatched only when it is
  eligible, an eligible step is `_ready`, and a step whose readiness holds on the graph has no
  blocking input: every declared input is an attached BUILT/CONFIRMED file, no input is volatile,
  no attached amended input is PLANNED/OUTDATED; in that situation the sanity checks of
  `_derive_job` do not raise;
* completion side (`B/Exec.lean`, the decision logic of `Executor.execute_job`, tied to the real
  `Executor` by the correspondence in `harness/props/c03.py`): the completion carries a step hash
  (= the kernel records SUCCEEDED) only if the command returned 0, every input recorded at dispatch
  was unchanged on disk before the command, every input that is BUILT/CONFIRMED at completion is
  unchanged on disk after it, every output exists, and no amend of this run reported an
  unavailable or unfresh input; a changed input fails the step, marks the input and drains the
  scheduler; an unavailable/unfresh amended input defers the step; without a hash the kernel
  never records SUCCEEDED;
* freshness (`B/Windows.lean`, tied to the real `Scheduler` methods): for all event sequences, if
  `ran_concurrently(p, c)` is false while `c` runs, then `p` has not completed successfully since
  `c` started (pruning of `stop_times` and the conservative tie included);
* the amend classification of the kernel model and the `carry_on` decision of the director.

Stated limits: content that changes and changes back between the two hash points is invisible
to the mechanism (ABA); the theorem speaks about the two hash points.  An input that is not
BUILT/CONFIRMED at completion (re-declared and UNCONFIRMED, or OUTDATED because its producer became
pending) is not among the inputs checked then (`completionInputs`), and the records compared at
completion are the current rows, not the ones verified before the command: that is the code's
behaviour (the correspondence confirms it) and the root of the oracle's findings
`succeeded-on-stale-input:input-unchecked-at-completion` and `...:record-updated-during-run`.
That the cached `_ready` column equals its definition for steps that are not flagged is C10's
cache invariant, decided by C10's oracle.
-/
namespace StepupModel.Props.C03
open StepupModel.K StepupModel.Generated StepupModel.B

/-! ## Dispatch: a started step has no blocking input -/

/-- What `_ready` means on the graph, for one dependency edge into the step. -/
theorem ready_no_blocking_input (s : KState) (k : Key) (h : s.computeReady k = true) (d : Dep)
    (hd : d ∈ s.deps) (hk : d.snk = k) (n : Node) (hn : s.find? d.src = some n) (hfile : n.key.kind = .file) :
    n.fstate ≠ .volatile ∧
    (d.dyn = false → n.detached = false ∧ (n.fstate = .built ∨ n.fstate = .confirmed)) ∧
    (d.dyn = true → n.detached = false → n.fstate ≠ .planned ∧ n.fstate ≠ .outdated) := by
  unfold KState.computeReady at h
  have hb : s.inputBlocks d = false := by
    cases hx : s.inputBlocks d with
    | false => rfl
    | true =>
      exfalso
      have : (s.deps.any fun d => decide (d.snk = k) && s.inputBlocks d) = true :=
        List.any_eq_true.2 ⟨d, hd, by simp [hk, hx]⟩
      simp [this] at h
  unfold KState.inputBlocks at hb
  simp only [hn, hfile, decide_true, Bool.true_and] at hb
  rw [C10.unavailable_table_exact] at hb
  unfold C10.unavailableSpec at hb
  cases hst : n.fstate <;> cases hdyn : d.dyn <;> cases hdet : n.detached <;> simp_all

/-- A loop in `Except` whose body succeeds on every element succeeds. -/
theorem forIn_ok {α β ε : Type} (l : List α) (f : α → β → Except ε (ForInStep β)) (init : β)
    (hstep : ∀ a ∈ l, ∀ b, ∃ r, f a b = .ok r) : ∃ r, forIn l init f = .ok r := by
  induction l generalizing init with
  | nil => exact ⟨init, rfl⟩
  | cons a as ih =>
    rw [List.forIn_cons]
    obtain ⟨r, hr⟩ := hstep a List.mem_cons_self init
    cases r with
    | done b => exact ⟨b, by simp [hr, bind, Except.bind, pure, Except.pure]⟩
    | yield b =>
      obtain ⟨r', hr'⟩ := ih b (fun a' ha' => hstep a' (List.mem_cons_of_mem _ ha'))
      exact ⟨r', by simp [hr, bind, Except.bind, hr']⟩

theorem bind_ok_of_ok {α β : Type} {x : M α} {g : α → M β} (hx : ∃ r, x = .ok r) (hg : ∀ r, ∃ b, g r = .ok b) :
    ∃ b, (x >>= g) = .ok b := by
  obtain ⟨r, hr⟩ := hx
  obtain ⟨b, hb⟩ := hg r
  exact ⟨b, by simp [hr, bind, Except.bind, hb]⟩

/-- The sanity checks of `Scheduler._derive_job` never raise for a step that is ready on the
graph: dispatch cannot fail internally on a step it selected. -/
theorem derive_job_no_consistency_error (s : KState) (k : Key) (h : s.computeReady k = true) :
    ∃ b, s.deriveJob k = .ok b := by
  unfold KState.deriveJob
  apply bind_ok_of_ok
  · apply forIn_ok
    intro d hdm init
    rw [List.mem_filter] at hdm
    have hd : d ∈ s.deps := hdm.1
    have hk : d.snk = k := by simpa using hdm.2
    cases hf : s.find? d.src with
    | none => exact ⟨_, rfl⟩
    | some f =>
      by_cases hfile : f.key.kind = .file
      · obtain ⟨hv, hinit, hdyn⟩ := ready_no_blocking_input s k h d hd hk f hf hfile
        by_cases hok : !f.detached ∧ (f.fstate = .built ∨ f.fstate = .confirmed)
        · simp only [hfile, hv, hok, ne_eq, not_true_eq_false, if_false, if_true, bind, Except.bind, pure,
            Except.pure, and_self]
          exact ⟨_, rfl⟩
        · cases hd' : d.dyn with
          | false =>
            exfalso
            obtain ⟨h1, h2⟩ := hinit hd'
            exact hok ⟨by simp [h1], h2⟩
          | true =>
            have hnp : ¬ (!f.detached ∧ (f.fstate = .planned ∨ f.fstate = .outdated)) := by
              rintro ⟨h1, h2⟩
              have hdet : f.detached = false := by simpa using h1
              obtain ⟨h3, h4⟩ := hdyn hd' hdet
              rcases h2 with e | e
              · exact h3 e
              · exact h4 e
            simp only [hfile, hv, hok, hnp, ne_eq, not_true_eq_false, if_false, if_true, bind, Except.bind, pure,
              Except.pure]
            exact ⟨_, rfl⟩
      · simp only [hfile, ne_eq, not_false_eq_true, if_true, bind, Except.bind, pure, Except.pure]
        exact ⟨_, rfl⟩
  · intro r
    exact ⟨_, rfl⟩

/-- **A step's command never starts before its inputs are available**: whatever `pop_next_job`
dispatches was eligible in the state with refreshed metadata; an eligible step is PENDING,
attached and `_ready`. -/
theorem dispatched_step_is_ready (s s' : KState) (cfg : KConfig) (choice : Option Key) (k : Key) (chk run : Bool)
    (h : s.popNext cfg choice = .ok (s', .job k chk run)) :
    ∃ su, s.updateMeta cfg = .ok su ∧ ∃ n ∈ su.nodes, n.key = k ∧ n.sstate = .pending ∧ n.detached = false ∧
      n.deferred = false ∧ n.ready = true := by
  obtain ⟨su, hsu, hspec⟩ := C10.popNext_exact s s' cfg choice (.job k chk run) h
  obtain ⟨n, hn, hkey, helig⟩ := hspec
  obtain ⟨_, hp, hdet, hdef, hready, _⟩ := C10.eligible_sound su cfg n helig
  exact ⟨su, hsu, n, hn, hkey, hp, hdet, hdef, hready⟩

/-- `_update_meta_ready` makes the cached column equal to the definition for every flagged step,
so for those the two theorems above compose: a dispatched step that was flagged has no blocking
input in the very state in which it is dispatched.  (For unflagged steps the equality is C10's
cache invariant.) -/
theorem dispatch_inputs_available (s : KState) (n : Node) (hn : n ∈ s.nodes) (hk : n.key.kind = .step)
    (hflag : n.checkReady = true) :
    ∃ n' ∈ s.updateMetaReady.nodes, n'.key = n.key ∧
      (n'.ready = true → ∀ d ∈ s.updateMetaReady.deps, d.snk = n.key → ∀ f, s.updateMetaReady.find? d.src = some f →
        f.key.kind = .file → d.dyn = false → f.detached = false ∧ (f.fstate = .built ∨ f.fstate = .confirmed)) := by
  obtain ⟨n', hn', hkey, _, hready⟩ := C10.updateMetaReady_correct s n hn hk hflag
  refine ⟨n', hn', hkey, ?_⟩
  intro hr d hd hsnk f hf hfile hdyn
  have hc : s.updateMetaReady.computeReady n.key = true := by
    rw [C10.computeReady_cache_independent, ← hready]; exact hr
  exact (ready_no_blocking_input s.updateMetaReady n.key hc d hd hsnk f hf hfile).2.1 hdyn

/-! ## Completion: SUCCEEDED only on stable inputs -/

open Exec

theorem changedInputs_nil (rec : Hashes) (disk : Disk) (h : changedInputs rec disk = []) :
    ∀ e ∈ rec, diskHash disk e.1 = some e.2 := by
  intro e he
  unfold changedInputs at h
  rw [List.map_eq_nil_iff, List.filter_eq_nil_iff] at h
  have := h e he
  simpa using this

theorem missingOutputs_nil (outs : List String) (disk : Disk) (h : missingOutputs outs disk = []) :
    ∀ p ∈ outs, (diskHash disk p).isSome := by
  intro p hp
  unfold missingOutputs at h
  have := List.filter_eq_nil_iff.1 h p hp
  cases hx : diskHash disk p <;> simp_all

/-- **The completion request records SUCCEEDED only if** the command returned 0, no hash
computation was cancelled, every input recorded at dispatch had its recorded content on disk
before the command ran, every input that is BUILT/CONFIRMED at completion has its recorded
content on disk after the command ran, every output exists, and no `amend` of this run returned
an unavailable or unfresh input. -/
theorem success_requires_stable_inputs (sc : Scenario) (h : (executeJob sc).hash.isSome) :
    sc.cancelledPre = false ∧ sc.cancelledPost = false ∧ sc.rc = 0 ∧ sc.deferCalled = false ∧
    (∀ e ∈ sc.dispatchInputs, diskHash sc.diskPre e.1 = some e.2) ∧
    (∀ e ∈ sc.completionInputs, diskHash sc.diskPost e.1 = some e.2) ∧
    (∀ p ∈ sc.outputs, (diskHash sc.diskPost p).isSome) ∧
    (executeJob sc).hash = some sc.stepHash ∧ (executeJob sc).wantsDefer = false := by
  unfold executeJob at h ⊢
  by_cases h1 : sc.cancelledPre = true
  · simp [h1] at h
  · simp only [h1, Bool.false_eq_true, if_false] at h ⊢
    by_cases h2 : (changedInputs sc.dispatchInputs sc.diskPre).isEmpty = true
    · simp only [h2, Bool.not_true, Bool.false_eq_true, if_false] at h ⊢
      by_cases h3 : sc.cancelledPost = true
      · simp only [h3, if_true] at h
        unfold classify at h
        simp at h
        split at h <;> simp at h
      · simp only [h3, Bool.false_eq_true, if_false] at h ⊢
        -- the regular completion
        by_cases hin : (changedInputs sc.completionInputs sc.diskPost).isEmpty = true
        · by_cases hu : sc.deferCalled = true
          · exfalso
            have hr : runAfterCommand sc =
                { success := false, unavailable := sc.amendUnavailable, unfresh := sc.amendUnfresh } := by
              unfold runAfterCommand; simp [hu]
            unfold classify at h
            simp only [hr, hin] at h
            split at h
            · simp at h
            · split at h
              · simp at h
              · simp at h
          · have hu' : sc.deferCalled = false := by simpa using hu
            have hr : runAfterCommand sc = { success := sc.rc == 0 } := by
              unfold runAfterCommand; simp [hu']
            by_cases hrc : sc.rc = 0
            · by_cases hout : (missingOutputs sc.outputs sc.diskPost).isEmpty = true
              · refine ⟨by simpa using h1, by simpa using h3, hrc, hu',
                  changedInputs_nil _ _ (List.isEmpty_iff.1 h2), changedInputs_nil _ _ (List.isEmpty_iff.1 hin),
                  missingOutputs_nil _ _ (List.isEmpty_iff.1 hout), ?_, ?_⟩
                · simp [classify, hr, hrc, hin, hout]
                · simp [classify, hr, hrc, hin, hout]
              · exfalso
                simp [classify, hr, hrc, hin, hout] at h
            · exfalso
              simp [classify, hr, hrc, hin] at h
        · exfalso
          simp [classify, hin] at h
    · simp [h2] at h

/-- **An input that changes underneath a running step makes it fail and stops dispatch**
(pre-run check): nothing is executed, the step is completed without hash and without deferral,
the changed inputs are reported to the workflow with cause FAILED, the scheduler drains. -/
theorem changed_before_run_fails_and_drains (sc : Scenario) (hc : sc.cancelledPre = false)
    (hch : changedInputs sc.dispatchInputs sc.diskPre ≠ []) :
    (executeJob sc).ranCommand = false ∧ (executeJob sc).hash = none ∧ (executeJob sc).wantsDefer = false ∧
      (executeJob sc).failedInputs = applicable sc (changedInputs sc.dispatchInputs sc.diskPre) ∧
      (executeJob sc).drainUnexpected = true := by
  have hne : (changedInputs sc.dispatchInputs sc.diskPre).isEmpty = false := by
    cases hx : (changedInputs sc.dispatchInputs sc.diskPre).isEmpty with
    | true => exact absurd (List.isEmpty_iff.1 hx) hch
    | false => rfl
  unfold executeJob
  simp [hc, hne]

/-- The same for the post-run check: whatever the command returned and whatever `amend` said, a
changed input means FAILED (no deferral), the input marked, draining, and the report tag FAIL. -/
theorem changed_during_run_fails_and_drains (sc : Scenario) (hc : sc.cancelledPre = false)
    (hpre : changedInputs sc.dispatchInputs sc.diskPre = []) (hc2 : sc.cancelledPost = false)
    (hch : changedInputs sc.completionInputs sc.diskPost ≠ []) :
    (executeJob sc).ranCommand = true ∧ (executeJob sc).hash = none ∧ (executeJob sc).wantsDefer = false ∧
      (executeJob sc).failedInputs = applicable sc (changedInputs sc.completionInputs sc.diskPost) ∧
      (executeJob sc).drainUnexpected = true ∧ tag (executeJob sc) false = "FAIL" ∧
      (executeJob sc).outCause = some false := by
  have hne : (changedInputs sc.completionInputs sc.diskPost).isEmpty = false := by
    cases hx : (changedInputs sc.completionInputs sc.diskPost).isEmpty with
    | true => exact absurd (List.isEmpty_iff.1 hx) hch
    | false => rfl
  unfold tag executeJob
  simp [hc, hpre, hc2, hne, classify]

/-- The changed inputs that are recorded with cause FAILED are rows that are still BUILT or
CONFIRMED in the recording transaction (the fix of the findings `build-error:hash-update-FAILED-on-*`):
nothing that another request re-declared or marked MISSING meanwhile is written. -/
theorem failed_update_only_recordable (sc : Scenario) :
    ∀ p ∈ (executeJob sc).failedInputs, p ∉ sc.notRecordable := by
  have key : ∀ l : List String, ∀ p ∈ applicable sc l, p ∉ sc.notRecordable := by
    intro l p hp
    unfold applicable at hp
    rw [List.mem_filter] at hp
    simpa using hp.2
  intro p hp
  unfold executeJob at hp
  split at hp
  · cases hp
  · split at hp
    · exact key _ p hp
    · split at hp
      · simp only [classify] at hp
        split at hp <;> try (split at hp) <;> try (split at hp)
        all_goals first | cases hp | exact key _ p hp
      · exact key _ p hp

/-- For a BUILT or CONFIRMED row the hash-transition table has an entry with cause FAILED whether the
new hash is known or not, so that update cannot raise "Unexpected file hash update" (regenerated
table). -/
theorem failed_update_has_transition :
    ∀ st ∈ [FileState.built, FileState.confirmed], ∀ known : Bool, (lookupTransition .failed st known).isSome := by
  decide

/-- **An announced input that is missing or not fresh makes the step run again later instead of
succeed**: with unchanged inputs, a non-empty `unavailable`/`unfresh` set completes the step
without hash and with `wants_defer`, does not drain, and the report tag is DEFERRED unless the
defer cap interrupts. -/
theorem amend_unavailable_defers (sc : Scenario) (hc : sc.cancelledPre = false)
    (hpre : changedInputs sc.dispatchInputs sc.diskPre = []) (hc2 : sc.cancelledPost = false)
    (hpost : changedInputs sc.completionInputs sc.diskPost = []) (hd : sc.deferCalled = true)
    (hu : sc.amendUnavailable ≠ [] ∨ sc.amendUnfresh ≠ []) :
    (executeJob sc).hash = none ∧ (executeJob sc).wantsDefer = true ∧ (executeJob sc).drainUnexpected = false ∧
      tag (executeJob sc) false = "DEFERRED" ∧ tag (executeJob sc) true = "FAIL" := by
  have hw : (!sc.amendUnavailable.isEmpty || !sc.amendUnfresh.isEmpty) = true := by
    rcases hu with h | h
    · cases hx : sc.amendUnavailable with
      | nil => exact absurd hx h
      | cons a as => simp
    · cases hx : sc.amendUnfresh with
      | nil => exact absurd hx h
      | cons a as => simp
  have hr : runAfterCommand sc =
      { success := false, unavailable := sc.amendUnavailable, unfresh := sc.amendUnfresh } := by
    unfold runAfterCommand
    simp [hd]
  unfold tag executeJob
  simp [hc, hpre, hc2, hpost, classify, hr, hw]

/-- A completion without a step hash never records SUCCEEDED in the kernel: the state written is
PENDING (granted deferral) or FAILED, and nothing after it touches the state. -/
theorem completion_without_hash_not_succeeded (s s' : KState) (cfg : KConfig) (k : Key) (wd b : Bool)
    (h : s.markCompleted cfg k none wd = .ok (s', b)) : s'.sstateOf k ≠ some .succeeded := by
  unfold KState.markCompleted at h
  obtain ⟨st, hst, hret⟩ := bind_eq_ok h
  simp only [pure, Except.pure, Except.ok.injEq, Prod.mk.injEq] at hret
  obtain ⟨rfl, _⟩ := hret
  unfold KState.completeFailure at hst
  obtain ⟨s1, h1, hst⟩ := bind_eq_ok hst
  obtain ⟨s2, h2, hst⟩ := bind_eq_ok hst
  obtain ⟨s3, h3, hst⟩ := bind_eq_ok hst
  simp only [pure, Except.pure, Except.ok.injEq] at hst
  subst hst
  -- the state written for the step
  have hw : s2.sstateOf k ≠ some .succeeded := by
    unfold KState.writeFailureState at h2
    split at h2
    · rw [setStepState_eq] at h2
      rw [(writeStepState_effect _ s2 k _ _ h2).1 k]
      simp only [if_true]
      cases (KState.sstateOf (s1.bumpDeferCount k wd) k) <;> simp
    · rw [setStepState_eq] at h2
      rw [(writeStepState_effect _ s2 k _ _ h2).1 k]
      simp only [if_true]
      cases (KState.sstateOf (s1.bumpDeferCount k wd) k) <;> simp
  have e3 : s3.sstateOf k = s2.sstateOf k := by
    unfold KState.detachCreatedIfFailed at h3
    split at h3
    · unfold KState.detachCreatedSteps at h3
      exact sstateOf_foldlM_detach _ s2 s3 k h3
    · simp only [pure, Except.pure, Except.ok.injEq] at h3
      subst h3; rfl
  rw [sstateOf_deleteHash, e3]
  exact hw

/-! ## `amend`: what is accepted as an input -/

/-- An input that `Workflow.amend_step` puts in none of its three lists (unavailable, to be
confirmed, unfresh) is attached and either CONFIRMED, or BUILT by a producer for which
`ran_concurrently` is false. -/
theorem amend_accepts_only_final (s : KState) (infos : List Supply) (concurrent : List Key) (i : Supply)
    (hi : i ∈ infos)
    (h1 : i.file.label ∉ (s.amendClassify infos concurrent).unavailable)
    (h2 : i.file.label ∉ (s.amendClassify infos concurrent).toCheck)
    (h3 : i.file.label ∉ (s.amendClassify infos concurrent).unfresh) :
    i.detached = false ∧ (i.state = .confirmed ∨
      (i.state = .built ∧ ∀ p, (s.find? i.file).bind (·.creator) = some p → p.kind = .step → s.has p = true →
        p ∉ concurrent)) := by
  unfold KState.amendClassify at h1 h2 h3
  simp only [sortStrs, List.mem_mergeSort, List.mem_map, List.mem_filter, not_exists, not_and] at h1 h2 h3
  have a1 : ¬ i.avail = .unavailable := fun e => h1 i ⟨hi, by simp [e]⟩ rfl
  have a2 : ¬ i.avail = .unconfirmed := fun e => h2 i ⟨hi, by simp [e]⟩ rfl
  have hav : i.avail = .available := by
    cases hx : i.avail with
    | available => rfl
    | unconfirmed => exact absurd hx a2
    | unavailable => exact absurd hx a1
  unfold Supply.avail at hav
  by_cases hdet : i.detached = true
  · simp [hdet] at hav
  · have hdet' : i.detached = false := by simpa using hdet
    refine ⟨hdet', ?_⟩
    simp only [hdet', Bool.false_eq_true, if_false] at hav
    by_cases hun : i.state = .unconfirmed
    · simp [hun] at hav
    · simp only [hun, if_false] at hav
      by_cases hbc : i.state = .built ∨ i.state = .confirmed
      · rcases hbc with hb | hcf
        · right
          refine ⟨hb, ?_⟩
          intro p hp hkind hhas hmem
          apply h3 i ⟨hi, ?_⟩ rfl
          have : i.avail = .available := by
            unfold Supply.avail; simp [hdet', hun, hb]
          simp [this, hb, hp, hkind, hhas, hmem]
        · exact Or.inl hcf
      · simp [hbc] at hav

/-- `carry_on` of `DirectorHandler.amend_step` is true only if the workflow reported nothing
unavailable or unfresh and every input that had to be confirmed first ended CONFIRMED or BUILT:
the handler does not let the step continue on an input that is still UNCONFIRMED. -/
theorem amend_carry_on_iff (u f : List String) (checked : List (String × CheckedState)) :
    (amendCarryOn u f checked).1 = true ↔ u = [] ∧ f = [] ∧ ∀ e ∈ checked, e.2 ≠ .other := by
  unfold amendCarryOn
  simp only [Bool.and_eq_true, List.isEmpty_iff, List.append_eq_nil_iff, List.map_eq_nil_iff,
    List.filter_eq_nil_iff, decide_eq_true_eq]
  constructor
  · rintro ⟨⟨h1, h2⟩, h3⟩; exact ⟨h1, h3, h2⟩
  · rintro ⟨h1, h2, h3⟩; exact ⟨⟨h1, h3⟩, h2⟩

/-! ## Freshness: `ran_concurrently` for all event sequences -/

open Windows

/-- `c` keeps running with the start it has recorded: no new start or stop of `c`, no end of
the build phase. -/
def KeepsRunning (c : Nat) (post : List Ev) : Prop :=
  ∀ e ∈ post, (∀ t, e ≠ .start c t) ∧ (∀ ok t, e ≠ .stop c ok t) ∧ e ≠ .phaseEnd

/-- Having a stop time of `p` that is not older than `c`'s start. -/
def FreshStop (s : Sched) (p tc : Nat) : Prop := ∃ tp, lookup s.stops p = some tp ∧ tc ≤ tp

theorem window_step (c p tc : Nat) (s0 : Sched) (e : Ev) (hc : lookup s0.starts c = some tc)
    (h1 : ∀ t, e ≠ .start c t) (h2 : ∀ ok t, e ≠ .stop c ok t) (h3 : e ≠ .phaseEnd)
    (hlate : ∀ t, e.time? = some t → tc ≤ t) :
    lookup (step s0 e).starts c = some tc ∧
      (((∃ t, e = .stop p true t) ∨ FreshStop s0 p tc) → FreshStop (step s0 e) p tc) := by
  cases e with
  | phaseEnd => exact absurd rfl h3
  | start i t =>
    have hic : c ≠ i := fun e => h1 t (by rw [e])
    refine ⟨?_, ?_⟩
    · show lookup (set s0.starts i t) c = some tc
      rw [lookup_set_ne _ _ _ _ hic]; exact hc
    · rintro (⟨t', ht'⟩ | hf)
      · cases ht'
      · exact hf
  | stop i ok t =>
    have hic : c ≠ i := fun e => h2 ok t (by rw [e])
    have hstart : lookup (erase s0.starts i) c = some tc := by rw [lookup_erase_ne _ _ _ hic]; exact hc
    obtain ⟨oldest, hmin⟩ := minTime_some_of_mem _ _ (mem_of_lookup _ _ _ hstart)
    have hold : oldest ≤ tc := minTime_le _ _ hmin _ (mem_of_lookup _ _ _ hstart)
    have htc : tc ≤ t := hlate t rfl
    refine ⟨hstart, ?_⟩
    intro hgood
    show ∃ tp, lookup (prune (erase s0.starts i) (if ok = true then set s0.stops i t else s0.stops)) p = some tp ∧ tc ≤ tp
    unfold prune
    rw [hmin]
    by_cases hpi : i = p ∧ ok = true
    · obtain ⟨rfl, rfl⟩ := hpi
      exact ⟨t, lookup_dropOlder _ _ _ _ (by simp [lookup_set_self]) (by omega), htc⟩
    · have hf : FreshStop s0 p tc := by
        rcases hgood with ⟨t', ht'⟩ | hf
        · cases ht'; exact absurd ⟨rfl, rfl⟩ hpi
        · exact hf
      obtain ⟨tp, htp, hle⟩ := hf
      refine ⟨tp, lookup_dropOlder _ _ _ _ ?_ (by omega), hle⟩
      cases hok : ok with
      | false => simpa using htp
      | true =>
        have hne : p ≠ i := fun e => hpi ⟨e.symm, hok⟩
        simp only [if_true]
        rw [lookup_set_ne _ _ _ _ hne]; exact htp

theorem window_invariant (c p tc : Nat) (post : List Ev) :
    ∀ (s0 : Sched), lookup s0.starts c = some tc → KeepsRunning c post →
      (∀ e ∈ post, ∀ t, e.time? = some t → tc ≤ t) →
      lookup (run s0 post).starts c = some tc ∧
        (((∃ t, Ev.stop p true t ∈ post) ∨ FreshStop s0 p tc) → FreshStop (run s0 post) p tc) := by
  induction post with
  | nil =>
    intro s0 hc _ _
    refine ⟨hc, ?_⟩
    rintro (⟨t, ht⟩ | hf)
    · cases ht
    · exact hf
  | cons e rest ih =>
    intro s0 hc hkeep hlate
    obtain ⟨k1, k2, k3⟩ := hkeep e List.mem_cons_self
    obtain ⟨hc1, hgood1⟩ := window_step c p tc s0 e hc k1 k2 k3 (hlate e List.mem_cons_self)
    obtain ⟨hc2, hgood2⟩ := ih (step s0 e) hc1 (fun e' he' => hkeep e' (List.mem_cons_of_mem _ he'))
      (fun e' he' => hlate e' (List.mem_cons_of_mem _ he'))
    refine ⟨hc2, ?_⟩
    intro hg
    apply hgood2
    rcases hg with ⟨t, ht⟩ | hf
    · rcases List.mem_cons.mp ht with rfl | hin
      · exact Or.inr (hgood1 (Or.inl ⟨t, rfl⟩))
      · exact Or.inl ⟨t, hin⟩
    · exact Or.inr (hgood1 (Or.inr hf))

/-- **Freshness of an amended input.**  For every sequence of `record_run_started` /
`record_run_stopped` / end-of-phase events with a clock that never goes back: if, while the
consumer `c` is running (it started at `tc` and has not stopped), `ran_concurrently(p, c)` is
false, then the producer `p` has not completed successfully since `c` started.  So a BUILT input
that `amend` accepts as fresh was finished before the consumer's command began; pruning of
`stop_times` never hides a completion that matters, and a tie of the two time stamps counts as
concurrent. -/
theorem amend_fresh (pre post : List Ev) (c p tc : Nat) (hkeep : KeepsRunning c post)
    (hlate : ∀ e ∈ post, ∀ t, e.time? = some t → tc ≤ t)
    (hfresh : ranConcurrently (run {} (pre ++ [.start c tc] ++ post)) p c = false) :
    ∀ t, Ev.stop p true t ∉ post := by
  intro t hmem
  have hrun : run {} (pre ++ [.start c tc] ++ post) = run (recordStarted (run {} pre) c tc) post := by
    unfold run
    rw [List.foldl_append, List.foldl_append]
    rfl
  rw [hrun] at hfresh
  have hc0 : lookup (recordStarted (run {} pre) c tc).starts c = some tc := lookup_set_self _ _ _
  obtain ⟨hc, hgood⟩ := window_invariant c p tc post _ hc0 hkeep hlate
  obtain ⟨tp, htp, hle⟩ := hgood (Or.inl ⟨t, hmem⟩)
  unfold ranConcurrently at hfresh
  rw [htp, hc] at hfresh
  simp [hle] at hfresh

/-- A clock that never goes back gives the lateness hypothesis of `amend_fresh`. -/
theorem late_of_monotone (pre post : List Ev) (c tc : Nat)
    (hmono : (pre ++ [Ev.start c tc] ++ post).Pairwise
      (fun a b => ∀ ta tb, a.time? = some ta → b.time? = some tb → ta ≤ tb)) :
    ∀ e ∈ post, ∀ t, e.time? = some t → tc ≤ t := by
  intro e he t ht
  have := (List.pairwise_append.1 hmono).2.2 (Ev.start c tc) (by simp) e he
  exact this tc t rfl ht

/-! Non-vacuity -/

/-- A producer that finishes while the consumer runs is seen; one that finished before is not;
a tie counts as concurrent. -/
example : ranConcurrently (run {} [.start 1 10, .start 2 11, .stop 1 true 12]) 1 2 = true := by decide
example : ranConcurrently (run {} [.start 1 10, .start 3 10, .stop 1 true 11, .start 2 12]) 1 2 = false := by decide
example : ranConcurrently (run {} [.start 1 10, .start 3 10, .stop 1 true 12, .start 2 12]) 1 2 = true := by decide

/-- A scenario that succeeds, and the same scenario with an input rewritten during the run. -/
def okScenario : Scenario :=
  { dispatchInputs := [("a", 1)], diskPre := [("a", 1)], completionInputs := [("a", 1)], outputs := ["o"],
    diskPost := [("a", 1), ("o", 5)], stepHash := 9 }
example : (executeJob okScenario).hash = some 9 := by decide
example : (executeJob { okScenario with diskPost := [("a", 2), ("o", 5)] }).hash = none ∧
    (executeJob { okScenario with diskPost := [("a", 2), ("o", 5)] }).drainUnexpected = true := by decide

end StepupModel.Props.C03
