import StepupModel.Lemmas.Rpc
/-!
# C16  Remote calls are answered exactly once and correctly paired

Theorems about the model of `stepup/core/rpc.py` in `P/Rpc.lean`: for all message lists, all ways
to cut the byte stream into chunks, all event scripts (arrivals, completion orders, writer
pauses and losses, stops).  The tie to the code is the correspondence of `harness/props/c16.py`
(the real `RPCServerConnection` and `SocketAsyncRPCClient` on in-memory streams, event by event)
and the regenerated `Generated/Rpc.lean` (wire constants, the attribute table of
`DirectorHandler`, the exception classes).

Three statements of the property are false of the code as literally stated; each is kept as a
`def ... : Prop` with a `_negation` witness (replayed on the real code by the harness) and the
part that holds is proved as `_partial`:

* `server_exactly_once`: a call whose handler completes after the stop event was set (the peer
  closed its side, sent the close request, or the server is stopping) gets no reply at all;
* `client_pairing`: a reply with an unknown or already answered call id ends the receive loop
  and fails every other pending call;
* `failure_isolated` ("without disturbing other calls"): a result that cannot be pickled tears
  the connection down and cancels the other handlers (not reachable through `DirectorHandler`).
-/
namespace StepupModel.Props.C16
open StepupModel.P.Rpc StepupModel.Generated.Rpc

/-! ## (1) Framing -/

/-- For every list of encodable messages and every way to cut the concatenated encoding into
chunks, the incremental decoder yields exactly those messages, in order (an empty body is read
back as the sentinel), and is left at a message boundary. -/
theorem frame_roundtrip_any_fragmentation (msgs : List Msg) (chunks : List Bytes)
    (hwf : ∀ m ∈ msgs, m.WF) (hsplit : chunks.flatten = (msgs.map encodeMessage).flatten) :
    runChunks (.buf []) chunks = (msgs.map Msg.norm, .buf []) := by
  rw [runChunks_eq, hsplit]
  have := pump_encodes msgs [] hwf
  simpa [pump_nil] using this

/-- A header announcing more than `MAX_BODY_SIZE` after any number of good messages: the messages
before it are delivered, the outcome is the error, whatever follows and however it is cut. -/
theorem frame_oversize_header_is_error (msgs : List Msg) (hdr rest : Bytes) (chunks : List Bytes)
    (hwf : ∀ m ∈ msgs, m.WF) (hbad : BadHeader hdr)
    (hsplit : chunks.flatten = (msgs.map encodeMessage).flatten ++ (hdr ++ rest)) :
    runChunks (.buf []) chunks = (msgs.map Msg.norm, .bad) ∧ streamEnd (runChunks (.buf []) chunks).2 = .error := by
  have h : runChunks (.buf []) chunks = (msgs.map Msg.norm, .bad) := by
    rw [runChunks_eq, hsplit, pump_encodes msgs _ hwf, pump_of_bad (parseOne_badHeader hdr rest hbad)]
    simp
  exact ⟨h, by rw [h]; rfl⟩

/-- A stream that ends inside a message (anywhere in its header or body): exactly the complete
messages are delivered, never a partial one, and the outcome at EOF is "peer gone", not an error. -/
theorem frame_truncated_is_peer_gone (msgs : List Msg) (m : Msg) (t : Bytes) (chunks : List Bytes)
    (hwf : ∀ m ∈ msgs, m.WF) (hm : m.WF) (hpre : t <+: encodeMessage m)
    (hlt : t.length < (encodeMessage m).length)
    (hsplit : chunks.flatten = (msgs.map encodeMessage).flatten ++ t) :
    runChunks (.buf []) chunks = (msgs.map Msg.norm, .buf t) ∧
      streamEnd (runChunks (.buf []) chunks).2 = .peerGone := by
  have h : runChunks (.buf []) chunks = (msgs.map Msg.norm, .buf t) := by
    rw [runChunks_eq, hsplit, pump_encodes msgs _ hwf, pump_of_need (parseOne_truncated m t hm hpre hlt)]
    simp
  exact ⟨h, by rw [h]; rfl⟩

/-- Chunking never matters, also for streams that are not encodings of anything. -/
theorem decoder_chunking_irrelevant (chunks chunks' : List Bytes) (h : chunks.flatten = chunks'.flatten) :
    runChunks (.buf []) chunks = runChunks (.buf []) chunks' := by
  rw [runChunks_eq, runChunks_eq, h]

/-! ## (2) The server connection -/

/-- The full statement: whenever all handlers have completed and the writer has drained, every
received call has exactly one reply.  False of the code, see `server_exactly_once_negation`. -/
def server_exactly_once_full : Prop :=
  ∀ (cfg : Cfg) (evs : List Ev), let c := run cfg {} evs
    c.inflight = [] → c.sendBlocked = false → (c.sent.map (·.call)).Perm c.recvd

/-- The handler procedure `w` used in witnesses. -/
def wName : Name := [119]
def wCfg : Cfg := ⟨[(wName, true)], []⟩

/-- Witness: a call arrives, the peer closes its sending side, the handler completes.  The reply is
dropped (`RPCServerConnection.stop` documents this), although the peer may still be reading. -/
def dropScript : List Ev := [.frame (.call 7 wName true), .eof, .complete 0 .result]

theorem server_exactly_once_negation : ¬ server_exactly_once_full := by
  intro h
  have := h wCfg dropScript (by decide) (by decide)
  revert this
  decide

/-- What holds for every event script (arrivals in any fragmentation, completions in any order,
writer pauses, drains and losses, stops, malformed frames):

1. every received call is in exactly one of: in flight, reply queued, replied, dropped;
   received calls are distinct instances (`seq`) and keep the id they came with;
2. every reply written carries the `(seq, id)` of a received call, and no call is replied twice;
3. as long as the stop event is not set (no EOF, close request, stop, lost writer or failure),
   once all handlers have completed and the writer has drained, the replies are exactly the
   received calls: each has exactly one reply, with its own id. -/
theorem server_exactly_once_partial (cfg : Cfg) (evs : List Ev) :
    let c := run cfg {} evs
    (c.inflight ++ (c.queue.map (·.call) ++ (c.sent.map (·.call) ++ c.dropped))).Perm c.recvd ∧
    c.recvd.Nodup ∧ c.recvd.map (·.seq) = List.range c.recvd.length ∧
    (∀ r ∈ c.sent, r.call ∈ c.recvd) ∧ (c.sent.map (·.call)).Nodup ∧
    (c.stopped = false → c.inflight = [] → c.sendBlocked = false → (c.sent.map (·.call)).Perm c.recvd) := by
  intro c
  have h : Inv cfg c := inv_run evs (inv_init cfg)
  refine ⟨calls_perm h, nodup_recvd h, h.seqs, ?_, sent_nodup h, sent_perm_of_live h⟩
  intro r hr
  exact sent_mem_recvd h r.call (List.mem_map.mpr ⟨r, hr, rfl⟩)

/-- Part 3 in terms of events: on every script made of calls arriving, handlers completing in any
order with a result or an exception, and the writer pausing and draining, once nothing is in
flight and the writer has drained every received call has exactly one reply, with its own id. -/
theorem server_exactly_once_without_faults (cfg : Cfg) (evs : List Ev) (he : ∀ e ∈ evs, e.benign = true) :
    let c := run cfg {} evs
    c.inflight = [] → c.sendBlocked = false → (c.sent.map (·.call)).Perm c.recvd := by
  intro c hi hb
  have hcalm : Calm c := calm_run evs ⟨rfl, rfl, rfl, fun _ h => by cases h⟩ he
  exact sent_perm_of_live (inv_run evs (inv_init cfg)) hcalm.1 hi hb

/-- Exactly-one-of, spelled out per call: the number of places a received call is accounted in is 1. -/
theorem server_call_in_exactly_one_class (cfg : Cfg) (evs : List Ev) (x : Call) :
    let c := run cfg {} evs
    x ∈ c.recvd →
      c.inflight.count x + (c.queue.map (·.call)).count x + (c.sent.map (·.call)).count x + c.dropped.count x = 1 := by
  intro c hx
  have h : Inv cfg c := inv_run evs (inv_init cfg)
  have h1 := h.acct x
  have h2 := (List.Nodup.count (a := x) (nodup_recvd h))
  simp only [Conn.calls, List.count_append] at h1
  simp only [hx, if_true] at h2
  omega

/-- Nothing is dropped and both loops keep running as long as the stop event is not set. -/
theorem server_live_until_stopped (cfg : Cfg) (evs : List Ev) :
    let c := run cfg {} evs
    c.stopped = false → c.failed = none ∧ c.sendAlive = true ∧ c.recvAlive = true ∧ c.dropped = [] := by
  intro c
  exact (inv_run evs (inv_init cfg)).live

/-- A handler that completes while the send loop is idle and the writer works is answered at once,
with its own id and the kind of its outcome (value, failure, or the sentinel). -/
theorem server_reply_is_paired (c : Conn) (call : Call) (o : Outcome) (ha : c.sendAlive = true)
    (hb : c.sendBlocked = false) (hq : c.queue = []) (hl : c.lost = false) :
    (complete c call o).sent = c.sent ++ [⟨call, o.kind⟩] :=
  complete_writes c call o ha hb hq hl

/-- The full statement "a failure does not disturb other calls": whatever way a handler ends, the
other handlers of the connection keep running.  False of the code for one kind of internal
fault, see `failure_isolated_negation`. -/
def failure_isolated_full : Prop :=
  ∀ (cfg : Cfg) (evs : List Ev) (k : Nat) (o : Outcome) (x : Call), let c := run cfg {} evs
    x ∈ c.inflight → c.invoked[k]?.map (·.1) ≠ some x → x ∈ (step cfg c (.complete k o)).inflight

/-- Witness: two calls in flight, the first returns a value that cannot be pickled: the send loop
raises after sending the sentinel, the connection is torn down and the second handler is
cancelled.  (No procedure of `DirectorHandler` returns such a value.) -/
theorem failure_isolated_negation : ¬ failure_isolated_full := by
  intro h
  have := h wCfg [.frame (.call 1 wName true), .frame (.call 2 wName true)] 0 .unpicklable ⟨1, 2⟩
    (by decide) (by decide)
  revert this
  decide

/-- What holds: a handler that ends with a result or with any exception (usage error or internal
fault) leaves every other handler of the connection running, on every reachable state. -/
theorem failure_isolated_partial (cfg : Cfg) (evs : List Ev) (k : Nat) (o : Outcome) (ho : o ≠ .unpicklable)
    (x : Call) : let c := run cfg {} evs
    x ∈ c.inflight → c.invoked[k]?.map (·.1) ≠ some x →
      x ∈ (step cfg c (.complete k o)).inflight ∧ (step cfg c (.complete k o)).cancelled = c.cancelled := by
  intro c hx hne
  exact step_complete_keeps_others (inv_run evs (inv_init cfg)) k o ho x hx hne

/-- A handler that raises `CancelledError` from the inside (it awaited something of the server that
somebody else cancelled) while its connection is live: `_call_and_capture_failure` turns it into
a reply like any other exception.  On an idle working writer exactly one error reply (the
`RemoteFailure` of a `CancelledError`, not a usage error, hence `RPCError` for the caller) is
written at once under the id of that call, every other handler keeps running, nothing fails. -/
theorem cancelled_inside_gets_one_error_reply (cfg : Cfg) (evs : List Ev) (k : Nat) (call : Call) (name : Name) :
    let c := run cfg {} evs
    c.invoked[k]? = some (call, name) → call ∈ c.inflight →
    c.sendAlive = true → c.sendBlocked = false → c.lost = false →
    let c' := step cfg c (.complete k .cancelledInside)
    c'.sent = c.sent ++ [⟨call, .cancelFailure⟩] ∧
    (∀ x ∈ c.inflight, x ≠ call → x ∈ c'.inflight) ∧ c'.cancelled = c.cancelled := by
  intro c hk hin ha hb hl c'
  have hinv : Inv cfg c := inv_run evs (inv_init cfg)
  refine ⟨step_complete_writes hinv k .cancelledInside call name hk hin ha hb hl, ?_, ?_⟩
  · intro x hx hne
    refine (step_complete_keeps_others hinv k .cancelledInside (by simp) x hx ?_).1
    rw [hk]; simpa using fun e => hne e.symm
  · cases hin' : c.inflight with
    | nil => rw [hin'] at hin; cases hin
    | cons y ys =>
      by_cases hy : c.invoked[k]?.map (·.1) = some y
      · -- `y` is the completing call itself: use the frame lemma through `complete` directly
        unfold c' step
        rw [(settleRecv_inflight _).2]
        simp only [stepCore, hk, hin, if_true]
        exact (complete_keeps_inflight (by simpa [Idle] using hinv.idle) call _ (by simp)).2
      · exact (step_complete_keeps_others hinv k .cancelledInside (by simp) y (by rw [hin']; simp) hy).2

/-- The same in every context: such a handler is one of the "benign" completions of
`server_exactly_once_without_faults` and one of the outcomes of `failure_isolated_partial`. -/
example : (Ev.complete 0 .cancelledInside).benign = true ∧ Outcome.cancelledInside ≠ .unpicklable := by decide

/-- Writer loss: which `ConnectionError` subclass the transport reports (`ConnectionResetError`,
`BrokenPipeError`, `ConnectionAbortedError`) and whether `write` or `drain` raises it makes no
difference to the connection. -/
theorem writer_loss_class_irrelevant (cfg : Cfg) (c : Conn) (k k' : LossClass) (s s' : LossSite) :
    step cfg c (.lose k s) = step cfg c (.lose k' s') := rfl

/-- A peer that vanishes never crashes the connection and never costs a handler: on every script
without a malformed frame and without an unpicklable result (calls, close request, EOF/reset,
`stop()`, handlers ending in any order with a result or any exception including a
`CancelledError` from inside, big replies, the writer pausing, draining and being lost with any
`ConnectionError` while calls are in flight), `serve()` does not raise and no handler is cancelled:
every request that arrived in full runs to completion. -/
theorem vanished_peer_never_fails_connection (cfg : Cfg) (evs : List Ev) (he : ∀ e ∈ evs, e.harmless = true) :
    let c := run cfg {} evs
    c.failed = none ∧ c.cancelled = [] := by
  intro c
  have h : Quiet c := quiet_run evs ⟨rfl, rfl, rfl, fun _ h => by cases h⟩ he
  exact ⟨h.1, h.2.1⟩

/-- "Received in full is applied in full": once a request is decoded its handler is never
cancelled by the teardown of the connection.  However the requester goes away afterwards (EOF or
reset, the polite close request, `stop()`, a lost writer, in any order and mixed with further
arrivals, completions, pauses) and however much time passes (`tick`: no wait of the connection is
bounded), every call that was in flight is still in flight or has run to completion (its reply
queued, written or dropped): none is cancelled and `serve()` does not raise. -/
theorem handler_survives_teardown (cfg : Cfg) (evs more : List Ev) (hm : ∀ e ∈ evs ++ more, e.harmless = true)
    (x : Call) : let c := run cfg {} evs
    let c' := run cfg c more
    x ∈ c.inflight →
      c'.cancelled = [] ∧ c'.failed = none ∧
      (x ∈ c'.inflight ∨ x ∈ c'.queue.map (·.call) ∨ x ∈ c'.sent.map (·.call) ∨ x ∈ c'.dropped) := by
  intro c c' hx
  have hrun : c' = run cfg {} (evs ++ more) := by simp [c', c, run, List.foldl_append]
  have hq : Quiet c' := by rw [hrun]; exact quiet_run _ ⟨rfl, rfl, rfl, fun _ h => by cases h⟩ hm
  refine ⟨hq.2.1, hq.1, ?_⟩
  have hinv : Inv cfg c := inv_run evs (inv_init cfg)
  have hinv' : Inv cfg c' := inv_run more hinv
  have hrec : x ∈ c.recvd := by
    have := hinv.acct x
    have hpos : 0 < List.count x c.inflight := List.count_pos_iff.mpr hx
    simp only [Conn.calls, List.count_append] at this
    exact List.count_pos_iff.mp (by omega)
  have hsub : x ∈ c'.recvd := recvd_mono_run cfg more c x hrec
  have h1 := hinv'.acct x
  have hpos : 0 < List.count x c'.recvd := List.count_pos_iff.mpr hsub
  simp only [Conn.calls, List.count_append] at h1
  by_cases a : 0 < List.count x c'.inflight
  · exact Or.inl (List.count_pos_iff.mp a)
  by_cases b : 0 < List.count x (c'.queue.map (·.call))
  · exact Or.inr (Or.inl (List.count_pos_iff.mp b))
  by_cases d : 0 < List.count x (c'.sent.map (·.call))
  · exact Or.inr (Or.inr (Or.inl (List.count_pos_iff.mp d)))
  · exact Or.inr (Or.inr (Or.inr (List.count_pos_iff.mp (by omega))))

/-- Time alone changes nothing. -/
theorem passing_time_changes_nothing (cfg : Cfg) (c : Conn) :
    (step cfg c .tick).inflight = c.inflight ∧ (step cfg c .tick).cancelled = c.cancelled ∧
    (step cfg c .tick).failed = c.failed ∧ (step cfg c .tick).sent = c.sent := by
  unfold step settleRecv
  simp only [stepCore]
  by_cases h : c.stopped = true <;> simp [h]

/-! ## (3) The client -/

/-- The full statement: a reply with an id that is not pending leaves the other calls alone.
False of the code, see `client_pairing_negation`. -/
def client_pairing_full : Prop :=
  ∀ (c : Client) (id : Nat) (body : Option Bytes), c.alive = true → c.pending.lookup id = none →
    (cstep c (.reply id body)).pending = c.pending

/-- Witness: one call pending (id 1), a reply for id 99 arrives: `_recv_loop` raises `RPCError`
and its `finally` fails the pending call with `ConnectionResetError`. -/
theorem client_pairing_negation : ¬ client_pairing_full := by
  intro h
  have := h (crun {} [.call 0]) 99 none (by decide) (by decide)
  revert this
  decide

/-- The same for a second reply to an answered call: the duplicate is an unknown id by then. -/
theorem client_duplicate_reply_fails_others :
    (crun {} [.call 0, .call 1, .reply 1 (some [1]), .reply 1 (some [1])]).resolved =
      [(0, .body (some [1])), (1, .connectionLost)] := by decide

/-- What holds: call ids in the pending table are distinct at all times; a reply with a pending id
resolves the caller registered under that id with exactly the body received, removes that entry,
and leaves every other entry and every earlier result untouched. -/
theorem client_pairing_partial (evs : List CEv) (id : Nat) (body : Option Bytes) (caller : Nat) :
    let c := crun {} evs
    ((c.pending.map (·.1)).Nodup) ∧
    (c.alive = true → c.pending.lookup id = some caller →
      let c' := cstep c (.reply id body)
      c'.resolved = c.resolved ++ [(caller, .body body)] ∧
      c'.pending = c.pending.filter (fun p => p.1 != id) ∧
      (∀ p ∈ c.pending, p.1 ≠ id → p ∈ c'.pending) ∧
      (∀ p ∈ c'.pending, p ∈ c.pending ∧ p.1 ≠ id) ∧ c'.alive = true) := by
  intro c
  refine ⟨(cinv_crun evs).1, ?_⟩
  intro ha hl
  have hstep : cstep c (.reply id body) =
      { c with
        pending := c.pending.filter (fun p => p.1 != id)
        resolved := c.resolved ++ [(caller, .body body)] } := by
    simp [cstep, ha, hl]
  rw [hstep]
  refine ⟨rfl, rfl, ?_, ?_, ha⟩
  · intro p hp hne
    exact List.mem_filter.mpr ⟨hp, by simpa using hne⟩
  · intro p hp
    have := List.mem_filter.mp hp
    exact ⟨this.1, by simpa using this.2⟩

/-- Ids are issued by a counter: a new call gets an id no pending call has. -/
theorem client_fresh_id (evs : List CEv) : ∀ p ∈ (crun {} evs).pending, p.1 ≤ (crun {} evs).counter :=
  (cinv_crun evs).2

/-! ## (4) Only exposed procedures -/

/-- A procedure is invoked iff its name resolves to an attribute carrying the flag and the
arguments bind; on every event script only such names are ever invoked. -/
theorem only_allowed (cfg : Cfg) (evs : List Ev) :
    (∀ name b, callDecision cfg.table name b = .invoke ↔ cfg.table.lookup name = some true ∧ b = true) ∧
    (∀ p ∈ (run cfg {} evs).invoked, cfg.table.lookup p.2 = some true ∧ (p.2, true) ∈ cfg.table) := by
  refine ⟨fun _ _ => callDecision_invoke, fun p hp => ?_⟩
  have := (inv_run evs (inv_init cfg)).allowed p hp
  exact ⟨this, lookup_mem this⟩

/-- A rejected call (unknown name, attribute without the flag, arguments that do not bind) invokes
nothing and is answered at once by exactly one error reply carrying its id. -/
theorem only_allowed_rejected_gets_one_error_reply (cfg : Cfg) (c : Conn) (id : Nat) (name : Name) (b : Bool)
    (hd : callDecision cfg.table name b ≠ .invoke) (hr : c.recvAlive = true) (ha : c.sendAlive = true)
    (hb : c.sendBlocked = false) (hq : c.queue = []) (hl : c.lost = false) :
    (stepFrame cfg c (.call id name b)).sent = c.sent ++ [⟨⟨c.recvd.length, id⟩, .failure false none⟩] ∧
    (stepFrame cfg c (.call id name b)).invoked = c.invoked :=
  stepFrame_rejected cfg c id name b hd hr ha hb hq hl

def hasDot (n : Name) : Bool := n.contains 46

/-- Over the regenerated attribute table of `DirectorHandler`: no flagged name is a dunder name,
is private, is empty or contains a dot (checked on the complete table). -/
theorem handler_table_flagged_names_plain :
    handlerAttrs.all (fun p => !p.2 || (!isDunder p.1 && !hasDot p.1 && p.1.head? != some 95 && !p.1.isEmpty)) = true := by
  decide +kernel

/-- The names in the table are distinct, so `lookup` sees every row. -/
theorem handler_table_names_distinct : (handlerAttrs.map (·.1)).Nodup := by
  decide +kernel

/-- Hence, for the real handler: dunder names, private names, dotted names and names that are not
attributes are never invoked, whatever the arguments. -/
theorem only_allowed_director (name : Name) (b : Bool)
    (h : isDunder name = true ∨ hasDot name = true ∨ name.head? = some 95 ∨ handlerAttrs.lookup name = none) :
    callDecision handlerAttrs name b ≠ .invoke := by
  intro hinv
  have hl := (callDecision_invoke.mp hinv).1
  have hm := lookup_mem hl
  have hall := List.all_eq_true.mp handler_table_flagged_names_plain _ hm
  simp only [Bool.not_true, Bool.false_or, Bool.and_eq_true, Bool.not_eq_true', bne_iff_ne, ne_eq] at hall
  rcases h with h | h | h | h
  · rw [hall.1.1.1] at h; cases h
  · rw [hall.1.1.2] at h; cases h
  · exact hall.1.2 h
  · rw [h] at hl; cases hl

/-- The public attributes of `DirectorHandler` without the flag, each rejected as "not allowed". -/
theorem only_allowed_director_public_unflagged :
    (handlerAttrs.filter (fun p => !p.2 && p.1.head? != some 95)).all
      (fun p => callDecision handlerAttrs p.1 true == .notAllowed) = true := by
  decide +kernel

/-! ## (5) The class of the error the caller sees -/

/-- A `UsageError`-family exception comes back as the same class when the class is found again by
module and qualified name and can be built from one string (and `STEPUP_DEBUG` is off); in every
other case (not importable, richer constructor, debug mode, internal fault) as the generic
`RPCError`. -/
theorem failure_class (e : Exc) (debug : Bool) :
    (e.usage = true → e.importable = true → e.ctorOk = true → debug = false → clientClass e debug = e.name) ∧
    (e.usage = false → clientClass e debug = rpcErrorName) ∧
    (e.importable = false ∨ e.ctorOk = false ∨ debug = true → clientClass e debug = rpcErrorName) := by
  refine ⟨?_, ?_, ?_⟩
  · intro h1 h2 h3 h4; simp [clientClass, h1, h2, h3, h4]
  · intro h1; simp [clientClass, h1]
  · intro h; rcases h with h | h | h <;> simp [clientClass, h]

/-- Over the regenerated table of `stepup.core.exceptions`: every `UsageError` subclass is rebuilt
as itself, every other class arrives as `RPCError`. -/
theorem failure_class_table :
    excTable.all (fun (n, u, i, k) =>
      clientClass ⟨n, u, i, k⟩ false == (if u then n else rpcErrorName) &&
      clientClass ⟨n, u, i, k⟩ true == rpcErrorName) = true := by
  decide +kernel

/-! ## Non-vacuity -/

/-- Encodable messages exist in every shape: the sentinel, an empty body, a non-empty body, the largest id. -/
example : ∀ m ∈ [(⟨0, none⟩ : Msg), ⟨1, some []⟩, ⟨2 ^ 64 - 1, some [1, 2, 3]⟩], m.WF := by
  intro m hm
  simp only [List.mem_cons, List.mem_nil_iff, or_false] at hm
  rcases hm with rfl | rfl | rfl <;> exact ⟨by decide, by decide⟩

/-- A bad header and a proper truncation exist. -/
example : BadHeader (List.replicate 16 255) := ⟨by decide, by decide⟩
example : [0, 0, 0, 0, 0] <+: encodeMessage ⟨5, some [9]⟩ ∧ [0, 0, 0, 0, 0].length < (encodeMessage ⟨5, some [9]⟩).length := by
  decide

/-- A script satisfying the hypotheses of part 3 of `server_exactly_once_partial` with two calls
completing out of order, a paused writer and a rejected call in between: all three are replied. -/
def liveScript : List Ev :=
  [.frame (.call 1 wName true), .frame (.call 2 wName true), .pause, .complete 1 (.usage 3),
   .frame (.call 3 [104] true), .complete 0 .result, .resume]

example : ∀ e ∈ liveScript, e.benign = true := by decide

example : let c := run wCfg {} liveScript
    c.stopped = false ∧ c.inflight = [] ∧ c.sendBlocked = false ∧
    c.sent = [⟨⟨1, 2⟩, .failure true (some 3)⟩, ⟨⟨2, 3⟩, .failure false none⟩, ⟨⟨0, 1⟩, .value⟩] := by
  decide

/-- A script for `vanished_peer_never_fails_connection`: two calls in flight, a big reply fills the
buffer, the peer vanishes with a broken pipe while the send loop waits in `drain()`; the other
handler still completes, `serve()` ends normally. -/
def vanishScript : List Ev :=
  [.frame (.call 1 wName true), .frame (.call 2 wName true), .complete 1 .bigResult,
   .lose .brokenPipe .drain, .complete 0 .cancelledInside, .eof]

example : (∀ e ∈ vanishScript, e.harmless = true) ∧
    (let c := run wCfg {} vanishScript
     c.failed = none ∧ c.cancelled = [] ∧ c.finished = true ∧ c.sent = [⟨⟨1, 2⟩, .value⟩] ∧ c.dropped = [⟨0, 1⟩]) := by
  decide

/-- A state for `cancelled_inside_gets_one_error_reply`. -/
example : let c := run wCfg {} [.frame (.call 1 wName true), .frame (.call 2 wName true)]
    c.invoked[0]? = some (⟨0, 1⟩, wName) ∧ (⟨0, 1⟩ : Call) ∈ c.inflight ∧ c.sendAlive = true ∧
    c.sendBlocked = false ∧ c.lost = false := by decide

/-- The negation witness ends quiescent with the call dropped. -/
example : let c := run wCfg {} dropScript
    c.inflight = [] ∧ c.sendBlocked = false ∧ c.sent = [] ∧ c.dropped = [⟨0, 7⟩] ∧ c.finished = true := by
  decide

/-- A client state satisfying the hypotheses of `client_pairing_partial`. -/
example : let c := crun {} [.call 10, .call 11]
    c.alive = true ∧ c.pending.lookup 2 = some 11 := by decide

end StepupModel.Props.C16
