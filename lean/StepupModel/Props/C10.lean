import StepupModel.K.Scheduler
import StepupModel.Lemmas.K
import StepupModel.Lemmas.MetaAfterW
import StepupModel.Lemmas.MetaSafeReach
import StepupModel.Lemmas.Discipline
import StepupModel.Lemmas.ReadyDiscipline
import StepupModel.Lemmas.SafeDiscipline
import StepupModel.Lemmas.JobLoopLive
import StepupModel.Generated.JobLoop
import StepupModel.Lemmas.BuildWitness
/-!
# C10  Dispatch is exact: nothing ineligible starts, nothing eligible is left

The dispatch decision of the model (`K/Scheduler.lean`) reads the regenerated truth tables of
`STEP_DISPATCH_WHERE` and `UNAVAILABLE_INPUT_WHERE`.  The theorems below (1) pin those tables to
their specification for the complete finite domain, (2) show that what `popNext` dispatches
satisfies the specification on the cached columns and that `none` is returned only when no step
does, (3) show that `_update_meta_ready` makes the cached `_ready` equal to its definition, and
(4) the defer cap, (5) the worklist of `_update_meta_after` computes the unique solution of the
local equations of `_implied_need`/`_tail_time`, equals the from-scratch refresh and terminates in
every reachable database, under the flag discipline `CacheInvAfter`.  (6) the same for `_update_meta_safe`
(`_safe`, `_safe_ignoring_hold`) under its discipline `CacheInvSafeW`, the weakest possible one, and
termination of the whole refresh in every reachable database.  The two flag disciplines after any
history are decided by the oracle on the real database
(`harness/koracles.py`), not yet by a theorem (DESIGN section 9/C10, T2).
-/
namespace StepupModel.Props.C10
open StepupModel.K StepupModel.Generated

def allStepStates : List StepState := [.pending, .running, .succeeded, .failed, .checking]
def allNeeds : List Need := [.optional, .default, .target, .plan]
def allFileStates : List FileState :=
  [.undeclared, .unconfirmed, .missing, .confirmed, .planned, .built, .outdated, .volatile]
def bools : List Bool := [false, true]

/-- The complete 640-row domain of `STEP_DISPATCH_WHERE`. -/
def dispatchDomain : List (StepState × Bool × Bool × Bool × Bool × Need × Bool) :=
  allStepStates.flatMap fun st => bools.flatMap fun safe => bools.flatMap fun hh => bools.flatMap fun snh =>
    bools.flatMap fun d => allNeeds.flatMap fun need => bools.map fun ready => (st, safe, hh, snh, d, need, ready)

/-- The specification of the step-only part of dispatch eligibility. -/
def dispatchSpec (r : StepState × Bool × Bool × Bool × Bool × Need × Bool) : Bool :=
  let (st, safe, hh, snh, deferred, need, ready) := r
  st = .pending && (safe || (hh && snh)) && !deferred && need ≠ .optional && ready

/-- `STEP_DISPATCH_WHERE`, executed by SQLite on every row of its domain, is exactly: PENDING,
(safe or (has a hash and safe ignoring holds)), not deferred, needed, ready. -/
theorem dispatch_table_exact :
    ∀ r ∈ dispatchDomain, (dispatchRows.contains r) = dispatchSpec r := by decide +kernel

/-- The unconditional form: for every row whatsoever (the domain above is complete). -/
theorem dispatch_rows_spec (r : StepState × Bool × Bool × Bool × Bool × Need × Bool) :
    dispatchRows.contains r = dispatchSpec r := by
  obtain ⟨st, a, b, c, d, n, e⟩ := r
  cases st <;> cases a <;> cases b <;> cases c <;> cases d <;> cases n <;> cases e <;> rfl

/-- The specification of "this input blocks its consumer". -/
def unavailableSpec (st : FileState) (dyn detached : Bool) : Bool :=
  st = .volatile || (dyn && !detached && (st = .planned || st = .outdated)) ||
    (!dyn && (detached || !(st = .built || st = .confirmed)))

/-- `UNAVAILABLE_INPUT_WHERE`, executed by SQLite on its complete domain, equals the
specification; in particular a volatile input always blocks and a declared (initial) input
blocks unless it is an attached BUILT or CONFIRMED file. -/
theorem unavailable_table_exact (st : FileState) (dyn detached : Bool) :
    lookupUnavailable st dyn detached = unavailableSpec st dyn detached := by
  cases st <;> cases dyn <;> cases detached <;> decide

/-- Nothing ineligible starts (on the cached columns): a step accepted by the model of
`SELECT_NEXT_STEP` is PENDING, attached, not deferred, needed above the threshold, ready, safe
(or hash-checkable and safe but for holds), and its resources are free unless it is only checked. -/
theorem eligible_sound (s : KState) (cfg : KConfig) (n : Node) (h : s.eligible cfg n = true) :
    n.key.kind = .step ∧ n.sstate = .pending ∧ n.detached = false ∧ n.deferred = false ∧ n.ready = true ∧
      n.impliedNeed ≠ .optional ∧ cfg.threshold.rank < n.impliedNeed.rank ∧
      (n.safe = true ∨ (n.hasHash = true ∧ n.safeNH = true)) ∧
      (n.hasHash = true ∨ s.resourceUnavailable cfg n = false) := by
  unfold KState.eligible at h
  simp only [Bool.and_eq_true, decide_eq_true_eq, Bool.not_eq_true', Bool.or_eq_true] at h
  obtain ⟨⟨⟨⟨hk, hrow⟩, hthr⟩, hdet⟩, hres⟩ := h
  rw [dispatch_rows_spec] at hrow
  simp only [dispatchSpec, Bool.and_eq_true, decide_eq_true_eq, Bool.or_eq_true, Bool.not_eq_true',
    bne_iff_ne, ne_eq] at hrow
  obtain ⟨⟨⟨⟨hst, hsafe⟩, hdef⟩, hneed⟩, hready⟩ := hrow
  exact ⟨hk, hst, hdet, hdef, hready, hneed, hthr, hsafe, hres⟩

/-- Nothing eligible is left (on the cached columns): a step with all of these properties is
accepted. -/
theorem eligible_complete (s : KState) (cfg : KConfig) (n : Node)
    (hk : n.key.kind = .step) (hst : n.sstate = .pending) (hdet : n.detached = false)
    (hdef : n.deferred = false) (hready : n.ready = true) (hneed : n.impliedNeed ≠ .optional)
    (hthr : cfg.threshold.rank < n.impliedNeed.rank)
    (hsafe : n.safe = true ∨ (n.hasHash = true ∧ n.safeNH = true))
    (hres : n.hasHash = true ∨ s.resourceUnavailable cfg n = false) :
    s.eligible cfg n = true := by
  unfold KState.eligible
  simp only [Bool.and_eq_true, decide_eq_true_eq, Bool.not_eq_true', Bool.or_eq_true]
  refine ⟨⟨⟨⟨hk, ?_⟩, hthr⟩, hdet⟩, hres⟩
  rw [dispatch_rows_spec]
  simp only [dispatchSpec, Bool.and_eq_true, decide_eq_true_eq, Bool.or_eq_true, Bool.not_eq_true',
    bne_iff_ne, ne_eq]
  exact ⟨⟨⟨⟨hst, hsafe⟩, hdef⟩, hneed⟩, hready⟩

/-- `popNext` (the model of `pop_next_job`) dispatches a step only if it is eligible in the state
with refreshed metadata, and answers "nothing to do" only if no step is eligible there. -/
theorem popNext_exact (s s' : KState) (cfg : KConfig) (choice : Option Key) (d : Dispatch)
    (h : s.popNext cfg choice = .ok (s', d)) :
    ∃ su, s.updateMeta cfg = .ok su ∧
      (match d with
       | .none => ∀ n ∈ su.nodes, su.eligible cfg n = false
       | .job k _ _ => ∃ n ∈ su.nodes, n.key = k ∧ su.eligible cfg n = true) := by
  unfold KState.popNext at h
  cases hu : s.updateMeta cfg with
  | error e => simp [hu, bind, Except.bind] at h
  | ok su =>
    refine ⟨su, rfl, ?_⟩
    simp only [hu, bind, Except.bind] at h
    cases choice with
    | none =>
      simp only at h
      split at h
      · rename_i hempty
        simp only [pure, Except.pure, Except.ok.injEq, Prod.mk.injEq] at h
        obtain ⟨_, rfl⟩ := h
        intro n hn
        have : n ∉ su.nodes.filter (su.eligible cfg) := by
          rw [List.isEmpty_iff.mp hempty]; simp
        simpa [List.mem_filter, hn] using this
      · cases h
    | some k =>
      simp only at h
      cases hf : (su.nodes.filter (su.eligible cfg)).find? (·.key = k) with
      | none => simp [hf] at h
      | some n =>
        simp only [hf] at h
        have hmem := List.mem_of_find?_eq_some hf
        have hkey : n.key = k := by simpa using List.find?_some hf
        rw [List.mem_filter] at hmem
        -- whatever the remaining checks do, a successful result dispatches `k`
        have : ∀ b c, d = .job k b c → ∃ n ∈ su.nodes, n.key = k ∧ su.eligible cfg n = true :=
          fun _ _ _ => ⟨n, hmem.1, hkey, hmem.2⟩
        split at h
        · cases h
        · split at h
          · cases h
          · cases hj : su.deriveJob k with
            | error e => simp [hj] at h
            | ok run =>
              simp only [hj] at h
              cases hs : su.setStepState k (if n.hasHash = true then StepState.checking else StepState.running) with
              | error e => simp [hs] at h
              | ok s2 =>
                simp only [hs, pure, Except.pure, Except.ok.injEq, Prod.mk.injEq] at h
                obtain ⟨_, rfl⟩ := h
                exact ⟨n, hmem.1, hkey, hmem.2⟩

/-- `_update_meta_ready` leaves no step flagged, and a step that was flagged has its cached
`_ready` equal to the definition evaluated on the graph. -/
theorem updateMetaReady_correct (s : KState) (n : Node) (hn : n ∈ s.nodes) (hk : n.key.kind = .step)
    (hflag : n.checkReady = true) :
    ∃ n' ∈ s.updateMetaReady.nodes, n'.key = n.key ∧ n'.checkReady = false ∧ n'.ready = s.computeReady n.key := by
  refine ⟨{ n with ready := s.computeReady n.key, checkReady := false }, ?_, rfl, rfl, rfl⟩
  unfold KState.updateMetaReady KState.modifyWhere
  simp only [List.mem_map]
  exact ⟨n, hn, by simp [hk, hflag]⟩

/-- Readiness, as defined on the graph, does not depend on any cached column: recomputing the
cache does not change the definition it is compared with. -/
theorem computeReady_cache_independent (s : KState) (k : Key) :
    s.updateMetaReady.computeReady k = s.computeReady k := by
  have hfind : ∀ q : Key, (s.updateMetaReady.find? q).map (fun n => (n.key.kind, n.fstate, n.detached)) =
      (s.find? q).map (fun n => (n.key.kind, n.fstate, n.detached)) := by
    intro q
    unfold KState.updateMetaReady
    exact find?_modifyWhere_proj s _ _ _ q (fun _ => rfl) (fun _ => rfl)
  have hdeps : s.updateMetaReady.deps = s.deps := rfl
  have hblk : ∀ d : Dep, s.updateMetaReady.inputBlocks d = s.inputBlocks d := by
    intro d
    unfold KState.inputBlocks
    have := hfind d.src
    cases h1 : s.updateMetaReady.find? d.src <;> cases h2 : s.find? d.src <;> simp_all
  unfold KState.computeReady
  rw [hdeps]
  simp only [hblk]

/-! ## The defer cap -/

/-- The decision `Step.mark_completed` takes for an unsuccessful run that asks for a deferral
(`deferOutcome`, used by the model of `mark_completed`): once the defer count has reached the
cap the step is FAILED (not PENDING), so a step that keeps deferring fails after `cap` attempts
and the phase cannot go on forever on it.  The count only restarts on SUCCEEDED
(`stepRowWrite_inv` in C09). -/
theorem defer_cap (cap k : Nat) (h : cap ≤ k) : deferOutcome cap k = .failed := by
  unfold deferOutcome
  have : ¬ (k + 1 ≤ cap) := by omega
  simp [this]

/-! ## The cached `_implied_need` / `_tail_time` agree with their definition after a refresh -/

open StepupModel.K.MetaAfter in
/-- Worklist correctness of `_update_meta_after`.  Flag discipline (`CacheInvAfterW`): every attached
step that is not flagged `_check_after` satisfies its local equation (cached pair = value
recomputed from its declared need, its outputs versus the targets, and the cached pairs of the
attached consumer steps) OR has a flagged consumer step (the first round writes and propagates
from every flagged step).  This is the discipline the code maintains: a new input edge flags only
the consumer, and the producer is repaired in the second round.  Then after the refresh EVERY attached step satisfies its local equation,
all flags are cleared and nothing but the three cached columns changed. -/
theorem update_meta_after_correct (s s' : KState) (cfg : KConfig) (hk : KeysUnique s)
    (hc : CacheInvAfterW s cfg) (h : s.updateMetaAfter cfg = .ok s') :
    AfterConsistent s' cfg ∧ (∀ n ∈ s'.nodes, n.key.kind = .step → n.checkAfter = false) ∧ AfterFrame s s' :=
  updateMetaAfter_correct_weak s s' cfg hk hc h

open StepupModel.K.MetaAfter in
/-- The local equations determine the cached columns: two tables that differ only in the cached
columns and both satisfy all local equations agree on every attached step.  So "the cache agrees
with its definition" is exactly `AfterConsistent`. -/
theorem cached_need_is_determined (s t : KState) (cfg : KConfig) (hk : KeysUnique s)
    (hf : AfterFrame s t) (hs : AfterConsistent s cfg) (ht : AfterConsistent t cfg) :
    ∀ n ∈ s.nodes, ∀ n' ∈ t.nodes, n'.key = n.key → n.key.kind = .step → n.detached = false →
      n'.impliedNeed = n.impliedNeed ∧ n'.tail = n.tail :=
  afterConsistent_unique_general s t cfg hk hf hs ht

open StepupModel.K.MetaAfter in
/-- The incremental refresh equals the refresh from scratch (every step flagged), as an equation
of states, on an acyclic table that obeys the flag discipline. -/
theorem incremental_refresh_equals_from_scratch (s s' : KState) (cfg : KConfig) (hac : Acyclic s)
    (hk : KeysUnique s) (hc : CacheInvAfterW s cfg) (h : s.updateMetaAfter cfg = .ok s') :
    recomputeAfter s cfg = .ok s' :=
  updateMetaAfter_eq_recomputeAfter_weak s s' cfg hac hk hc h

open StepupModel.K.MetaAfter in
/-- `_update_meta_after` terminates (never reports a hang) in every reachable database: the
dependency graph of a reachable database is acyclic (C09), and the work set of round r only
contains steps at the start of a dependency chain of length >= 2r. -/
theorem update_meta_after_terminates_after_every_history (h : List (KConfig × Req)) (cfg : KConfig) :
    ∃ s', (KState.init.run h).updateMetaAfter cfg = .ok s' :=
  updateMetaAfter_reachable_no_hang h cfg

/-! ## The cached `_safe` / `_safe_ignoring_hold` agree with their definition after a refresh -/

open StepupModel.K.MetaSafe in
/-- `_update_meta_safe` (`FILL_SAFE_UPDATE` with `MAX(depth)` + `APPLY_SAFE_UPDATE`): with unique keys,
well-founded step-creator links and the flag discipline `CacheInvSafeW` (every step that is neither
flagged `_check_safe` nor below a flagged step satisfies its local equation) the refresh ends,
changes only `_safe`, `_safe_ignoring_hold`, `_check_safe`, clears every flag and leaves every step
with both local equations satisfied.  `updateMetaSafe_correct_iff` shows this discipline is the
weakest possible: the result is consistent iff it held. -/
theorem update_meta_safe_correct {s : KState} (hk : KeysUnique s) (hwf : StepCreatorWF s) (hc : CacheInvSafeW s) :
    ∃ s', s.updateMetaSafe = .ok s' ∧ SafeFrame s s' ∧
      (∀ n ∈ s'.nodes, n.key.kind = .step → n.checkSafe = false ∧ SafeLocal s' n ∧ SafeNHLocal s' n) :=
  updateMetaSafe_spec hk hwf hc

open StepupModel.K.MetaSafe in
/-- Incremental = from scratch: after the refresh the cached columns equal the specification
(walk up the creator links: every recursive step creator RUNNING or SUCCEEDED, and not holding). -/
theorem cached_safe_equals_definition {s s' : KState} (hk : KeysUnique s) (hwf : StepCreatorWF s)
    (hc : CacheInvSafeW s) (h : s.updateMetaSafe = .ok s') :
    ∀ n' ∈ s'.nodes, n'.key.kind = .step → n'.safe = safeSpec s' n' ∧ n'.safeNH = safeNHSpec s' n' :=
  (updateMetaSafe_eq_spec hk hwf hc h).1

open StepupModel.K.MetaSafe in
/-- "Created by steps that are running or succeeded and are not holding it back": the job that
`pop_next_job` hands out has every recursive step creator RUNNING or SUCCEEDED with no open hold,
or it has a stored hash, is only hash-checked (`checking`), and every recursive step creator is
RUNNING or SUCCEEDED. -/
theorem dispatched_step_has_active_creators {s s' : KState} {cfg : KConfig} {k : Key} {d : Dispatch}
    (hk : KeysUnique s) (hwf : StepCreatorWF s) (hc : CacheInvSafeW s)
    (h : s.popNext cfg (some k) = .ok (s', d)) :
    ∃ su n, s.updateMeta cfg = .ok su ∧ SameStruct s su ∧ n ∈ su.nodes ∧ n.key = k ∧
      ((∀ a, StrictAnc su a n → a.sstate.active = true ∧ a.holding = 0) ∨
       (n.hasHash = true ∧ (∃ run, d = .job k true run) ∧ ∀ a, StrictAnc su a n → a.sstate.active = true)) :=
  popNext_job_creators hk hwf hc h

open StepupModel.K.MetaSafe in
/-- The whole metadata refresh (`_update_meta`: safe, after, ready) terminates in every reachable
database: creator links (of attached AND detached nodes) and dependencies are acyclic after every
history, so neither recursive query can run away (the defect F11 was such a runaway). -/
theorem update_meta_terminates_after_every_history (h : List (KConfig × Req)) (cfg : KConfig) :
    ∃ su, (KState.init.run h).updateMeta cfg = .ok su :=
  updateMeta_reachable_no_hang h cfg

open StepupModel.K.MetaSafe in
/-- The repaired defect F14 on the model: with `MIN(depth)` as duplicate resolution the witness
(a flagged step two creator levels below a flagged ancestor, stale value in between) ends with a
row that violates its local equation and no flag left to repair it; with `MAX(depth)` it is
consistent. -/
theorem min_depth_resolution_is_wrong :
    (∃ s', updateMetaSafeMin defectWitness = .ok s' ∧ ¬ SafeConsistent s' ∧ (∀ n ∈ s'.nodes, n.checkSafe = false)) ∧
    (∃ s', defectWitness.updateMetaSafe = .ok s' ∧ SafeConsistent s') := by
  obtain ⟨s1, h1, hn, hf, _⟩ := defectWitness_min
  obtain ⟨s2, h2, hc, _⟩ := defectWitness_max
  exact ⟨⟨s1, h1, hn, hf⟩, ⟨s2, h2, hc⟩⟩

/-! ## The flag discipline is an invariant of every history with constant targets -/

open StepupModel.K.MetaAfter StepupModel.K.Discipline in
/-- **The cached `_implied_need` / `_tail_time` agree with their definition whenever a decision is
taken, after any history of graph changes.**  For every history of accepted and rejected requests
from the empty workflow that runs under the target sets of `cfg` (`HistOK'`: additionally `amend`
is issued for an existing step, `reset_for_rerun` for a step, and a raw `detach` of an output file
is not issued: the director never does), the flag discipline holds in the reached database, hence
`_update_meta_after` terminates there, leaves every attached step with its local equation
satisfied (whose unique solution is the definition), clears every flag and writes nothing else.
This is the invariant that the repaired defect F20 violated: every one of the 24 request kinds is
shown to flag what it may invalidate (`Lemmas/Discipline*.lean`). -/
theorem cached_need_agrees_after_every_history (cfg : KConfig) (h : List (KConfig × Req))
    (hh : HistOK' cfg KState.init h) :
    ∃ s', (KState.init.run h).updateMetaAfter cfg = .ok s' ∧ AfterConsistent s' cfg ∧
      (∀ n ∈ s'.nodes, n.key.kind = .step → n.checkAfter = false) ∧ AfterFrame (KState.init.run h) s' :=
  reachable_updateMetaAfter_correct' cfg h hh

open StepupModel.K.MetaAfter StepupModel.K.Discipline in
/-- A new director with other targets: `reconcile_targets` carries the discipline from the old
target sets to the new ones (it flags every step whose cached TARGET elevation may be stale and
every producer of a new target). -/
theorem reconcile_carries_discipline_to_new_targets (cfgO cfgN : KConfig) (s : KState) (res : KState × String)
    (hp : TI cfgO s) (h : s.exec cfgN .reconcile = .ok res) : TI cfgN res.1 :=
  exec_reconcile_retarget cfgO cfgN s res hp h

open StepupModel.K.MetaAfter StepupModel.K.Discipline in
/-- The side condition on `detach` is needed: detaching the output FILE of a step (a request the
director never issues; `Node.detach` is only called on steps, trees and static files) leaves the
producer with a stale TARGET elevation and no flag. -/
theorem raw_detach_of_an_output_file_negation : Disc cxCfg cxState ∧ Struct cxState ∧
    ¬ FileDetachOK cxState (fileKey "o") ∧
    ∃ s', cxState.detach (fileKey "o") = .ok s' ∧ ¬ CacheInvAfterW s' cxCfg :=
  detach_output_file_breaks_discipline

open StepupModel.K.MetaSafe StepupModel.K.SafeDisc in
/-- **The cached `_safe` / `_safe_ignoring_hold` agree with their definition whenever a decision is
taken, after any history.**  For every history in which a step is only defined "safe from the
start" by the root (`HistOKS`: what `initialize_boot` does; no other caller passes `_safe=True`),
under configurations that may change freely, the flag discipline of `_update_meta_safe` holds in
the reached database, hence the refresh terminates there, clears every flag and leaves in every
step row the value of the specification (every recursive step creator RUNNING or SUCCEEDED, and
holding nothing). -/
theorem cached_safe_agrees_after_every_history (h : List (KConfig × Req)) (hh : HistOKS h) :
    ∃ s', (KState.init.run h).updateMetaSafe = .ok s' ∧ SafeFrame (KState.init.run h) s' ∧
      (∀ n ∈ s'.nodes, n.key.kind = .step →
        n.checkSafe = false ∧ SafeLocal s' n ∧ SafeNHLocal s' n ∧ n.safe = safeSpec s' n ∧ n.safeNH = safeNHSpec s' n) :=
  reachable_updateMetaSafe_correct h hh

open StepupModel.K.MetaSafe StepupModel.K.SafeDisc in
/-- The side condition is needed: a step defined `safe` below a step creator that is not active is
left with a wrong, unflagged `_safe` (a request the director never issues; replayed on the real
code: `harness/witness/define_safe_under_step.txt`). -/
theorem define_safe_under_step_negation :
    CacheInvSafeW cxState ∧ KeysUnique cxState ∧
    ¬ InitKindS (stepKey "A") (some (stepKey "./plan.py")) (.step { safe := true }) ∧
    ∃ s', cxState.create (stepKey "A") (some (stepKey "./plan.py")) (.step { safe := true }) = .ok s' ∧
      ¬ CacheInvSafeW s' :=
  define_safe_under_step_breaks_discipline

open StepupModel.K.ReadyDisc in
/-- **The cached `_ready` agrees with its definition after every history, unconditionally** (every
request kind, configurations free): every step that is not flagged `_check_ready` has
`_ready = "no input is unavailable"` computed from the graph.  Each of the four triggers (file
state, detached flag, dependency insert/delete, dynamic flag) is shown to be needed by a
`decide`-checked witness in `Lemmas/ReadyDiscipline.lean`. -/
theorem cached_ready_agrees_after_every_history (h : List (KConfig × Req)) :
    ∀ n ∈ (KState.init.run h).nodes, n.key.kind = .step → n.checkReady = false →
      n.ready = (KState.init.run h).computeReady n.key :=
  reachable_cacheInvReady h

open StepupModel.K.ReadyDisc in
/-- "A step is dispatched only when ... it has all inputs available", on the graph, after every
history: when `pop_next_job` hands out a job for step `k`, no input of `k` is unavailable, neither
in the database it found nor in the one it leaves: every declared input is an attached BUILT or
CONFIRMED file, no input is VOLATILE, no amended input is an attached PLANNED/OUTDATED file
(`noUnavailableInput_spec`). -/
theorem dispatched_step_inputs_available_after_every_history (h : List (KConfig × Req)) (cfg : KConfig)
    (choice : Option Key) (s' : KState) (k : Key) (chk run : Bool)
    (hd : (KState.init.run h).popNext cfg choice = .ok (s', .job k chk run)) :
    NoUnavailableInput (KState.init.run h) k ∧ NoUnavailableInput s' k :=
  reachable_dispatch_no_unavailable_input h cfg choice s' k chk run hd

/-! All three flag disciplines are additionally sampled: on the model state after every request of
the generated histories (`k cacheinv` of the driver runs the executable forms, proved equivalent),
and on the real database by the cache oracle (`koracles.cache_invariants`). -/

/-! Non-vacuity -/
example : dispatchSpec (.pending, true, false, false, false, .default, true) = true := by decide
example : dispatchRows ≠ [] := by decide

/-! ## The builder's job loop (`builder.py`, `hash_queue.py`): the phase ends only when idle, the loop
never sleeps on startable work, and its inner loop terminates -/

open StepupModel.B.JobLoop in
/-- The phase ends (`job_loop` returns) only when no task is running and none waits to be retired. -/
theorem job_loop_returns_only_when_idle (njob : Nat) (evs : List Ev)
    (h : (run njob evs).status = .returned) : (run njob evs).running = [] ∧ (run njob evs).done = [] :=
  run_retIdle njob evs h

open StepupModel.B.JobLoop in
/-- **No lost wake-up**: whenever the loop is parked on `wake_job_loop.wait()`, the event is clear
and, if a job slot is free, the scheduler has no job on offer and every queued hash job has already
been claimed by a promoted runner: the loop never sleeps on work it could start. -/
theorem parked_loop_has_nothing_to_start (njob : Nat) (evs : List Ev)
    (h : (run njob evs).status = .waiting) :
    (run njob evs).wake = false ∧
    ((run njob evs).running.length < njob →
      (run njob evs).offers = [] ∧ ∀ i ∈ (run njob evs).queue, i ∈ (run njob evs).claimed) := by
  obtain ⟨h1, h2⟩ := run_parkedInv njob evs h
  rw [(run_running njob evs).2] at h2
  exact ⟨h1, h2⟩

open StepupModel.B.JobLoop in
/-- The inner loop terminates: `njob + 4` passes always suffice (more fuel changes nothing). -/
theorem job_loop_passes_bounded (s : JL) (k : Nat) :
    settleN (s.njob + 4 + k) s = settleN (s.njob + 4) s :=
  settleN_fuel_enough _ s k (by have := mu_le s; omega)

open StepupModel.B.JobLoop in
/-- **A phase ends only after the scheduler has answered "no job"**: the pass of `job_loop` that
returns has called `pop_next_job` in that same pass and got nothing, with no task running, none left to
retire and no unclaimed hash job queued (`njob ≥ 1` is enforced by `ServeConfig`).  Together with
`popNext_exact` (the kernel side: "nothing" is answered only when no step is
eligible) and the fact that with no task running no request can reach the director between that poll
and the return, this is the converse direction of the property on the builder side. -/
theorem phase_ends_only_after_an_empty_poll (s : JL) (hn : 1 ≤ s.njob) (h : (iter s).2 = .ret) :
    (iter s).1.polls = s.polls + 1 ∧ s.offers = [] ∧ s.running = [] ∧ (∀ i ∈ s.queue, i ∈ s.claimed) :=
  iter_ret_polled s hn h

/-! ## The composed build phase: job loop × kernel (`B/Build.lean`, `Lemmas/Build*.lean`) -/

open StepupModel.B.Build in
/-- **Nothing ineligible starts, in the composed system**: whenever an event makes the loop start a step
job, that event is a pass of the loop in which the kernel's `pop_next_job` (not draining) answered with a
step that is eligible in the refreshed kernel state, and the new kernel state is that refreshed state with
the step set CHECKING or RUNNING. -/
theorem composed_start_is_a_dispatch (k0 : KState) (cfg : KConfig) (njob : Nat) (evs : List Ev) (e : Ev) (i : Nat)
    (h : (run k0 cfg njob (evs ++ [e])).jl.started = (run k0 cfg njob evs).jl.started ++ [.step i]) :
    ∃ key chk rj su n, e = .pass (some key) ∧ (run k0 cfg njob evs).draining = false ∧
      (run k0 cfg njob evs).k.popNext (run k0 cfg njob evs).cfg (some key) =
        .ok ((run k0 cfg njob (evs ++ [e])).k, .job key chk rj) ∧
      (run k0 cfg njob evs).k.updateMeta (run k0 cfg njob evs).cfg = .ok su ∧ n ∈ su.nodes ∧ n.key = key ∧
      su.eligible (run k0 cfg njob evs).cfg n = true ∧ chk = n.hasHash ∧
      su.setStepState key (if chk = true then .checking else .running) = .ok (run k0 cfg njob (evs ++ [e])).k ∧
      i = (run k0 cfg njob evs).assigned.length + 1 ∧
      (run k0 cfg njob (evs ++ [e])).assigned = (run k0 cfg njob evs).assigned ++ [(i, key, chk)] :=
  run_start_is_dispatch k0 cfg njob evs e i h

open StepupModel.B.Build in
/-- **Nothing eligible is left: a build phase that is not draining ends only when no step is eligible.**
In the composed system, for `njob ≥ 1` (enforced by `ServeConfig`), from any kernel state and after any
event sequence: if an event makes `job_loop` return while the scheduler is not draining, then that event is a
pass in which `pop_next_job` answered "nothing", no task runs and none waits to be retired, the kernel state
at that moment is the refreshed state, and no step is eligible in it. -/
theorem phase_ends_only_when_nothing_is_eligible (k0 : KState) (cfg : KConfig) (njob : Nat) (hn : 1 ≤ njob)
    (evs : List Ev) (e : Ev)
    (h0 : (run k0 cfg njob evs).jl.status ≠ .returned)
    (h1 : (run k0 cfg njob (evs ++ [e])).jl.status = .returned)
    (hdr : (run k0 cfg njob evs).draining = false) :
    e = .pass none ∧
    (run k0 cfg njob (evs ++ [e])).jl.running = [] ∧ (run k0 cfg njob (evs ++ [e])).jl.done = [] ∧
    (run k0 cfg njob evs).k.updateMeta (run k0 cfg njob evs).cfg = .ok (run k0 cfg njob (evs ++ [e])).k ∧
    (∀ n ∈ (run k0 cfg njob (evs ++ [e])).k.nodes,
      (run k0 cfg njob (evs ++ [e])).k.eligible (run k0 cfg njob evs).cfg n = false) ∧
    NoEligible (run k0 cfg njob (evs ++ [e])).k (run k0 cfg njob evs).cfg :=
  run_return_is_quiescent k0 cfg njob hn evs e h0 h1 hdr

open StepupModel.B.Build in
/-- **No lost wake-up, composed, under a named proviso**: if every event that happens while the loop is
parked either keeps "no step is eligible" or sets the wake event (`ProvisoAlong`; proved for every event
kind except the end of a promoted hash job that writes to the database and RPC requests other than
`define`/`release`: `benign_wakesOrKeeps`), then a parked loop with a free slot and a scheduler that is not
draining has no eligible step. -/
theorem composed_no_lost_wakeup_partial (k0 : KState) (cfg : KConfig) (njob : Nat) (evs : List Ev)
    (hp : ProvisoAlong (init k0 cfg njob) evs) (hpk : (run k0 cfg njob evs).parked = true) :
    (run k0 cfg njob evs).jl.wake = false ∧
    ((run k0 cfg njob evs).jl.running.length < njob → (run k0 cfg njob evs).draining = false →
      NoEligible (run k0 cfg njob evs).k cfg) :=
  no_lost_wakeup k0 cfg njob evs hp hpk

open StepupModel.B.Build StepupModel.B.Build.Witness in
/-- The proviso is necessary: a kernel-checked run (two slots) after which the loop is parked with a free
slot, the wake event clear and the scheduler not draining, although step `B` is eligible: the end of a
promoted hash job (started by an `amend` of the still running step A) confirmed B's input and set no wake
event.  The real code behaves the same (`harness/witness/build_promoted_hash_wakeup.py`): the dispatch of B
waits for the next wake-up, at the latest the end of A (`parked_loop_is_woken_by_the_end_of_a_task`); the
phase cannot end meanwhile (`phase_ends_only_when_nothing_is_eligible`).  A delay, not a violation of the
property as stated. -/
theorem composed_no_lost_wakeup_negation :
    s11.parked = true ∧ s11.jl.wake = false ∧ s11.jl.running.length < 2 ∧ s11.draining = false ∧
    s11.jl.running = [.step 1] ∧
    ¬ NoEligible s11.k {} ∧ NoEligible s10.k {} ∧ ¬ WakesOrKeeps s10 lastEv ∧ ¬ Benign s10 lastEv :=
  promoted_hash_job_delays_dispatch

open StepupModel.B.Build in
/-- Without any proviso: a parked loop always has a running task, and the end of any running task takes
it out of `wait()`. -/
theorem parked_loop_is_woken_by_the_end_of_a_task (k0 : KState) (cfg : KConfig) (njob : Nat) (evs : List Ev)
    (hpk : (run k0 cfg njob evs).parked = true) :
    ((run k0 cfg njob evs).jl.wake = false ∧ (run k0 cfg njob evs).jl.done = [] ∧
      (run k0 cfg njob evs).jl.running ≠ []) ∧
    (∀ j rs, StepupModel.B.JobLoop.Job.step j ∈ (run k0 cfg njob evs).jl.running →
      (step (run k0 cfg njob evs) (.finish j rs)).parked = false) :=
  ⟨parked_loop_has_a_running_task k0 cfg njob evs hpk, (end_of_running_job_unparks _ hpk).1⟩

/-- Obligations on the source (tables regenerated by `ast` on every run): the events that the
model treats as setting the wake event do so in the code: a finished task (`_task_done`), a retired
task (`handle_done_tasks`), a submitted hash job (`HashQueue.submit`); the loop body ends with
`wait()` directly followed by `clear()`; the loop returns under exactly the modelled test; and every
RPC handler that can make a step runnable (`define_step`, `release`) sets the wake event. -/
theorem wake_sites_as_modelled :
    (∀ f ∈ Generated.jobLoopWakeFacts, f.2 = true) ∧
    Generated.jobLoopReturnTests = ["len(self.running_tasks) == 0 and len(self.done_tasks) == 0"] ∧
    (∀ r ∈ Generated.handlerWakes, r.2.1 = true → r.2.2 = true) ∧
    (∃ r ∈ Generated.handlerWakes, r.1 = "define_step" ∧ r.2.1 = true) ∧
    (∃ r ∈ Generated.handlerWakes, r.1 = "release_dispatch" ∧ r.2.1 = true) := by decide

open StepupModel.B.JobLoop in
/-- Non-vacuity: a parked loop with a free slot (one job running, two slots) and a loop that has
returned after retiring its only job. -/
example : (run 2 [.offer 1, .start]).status = .waiting ∧ (run 2 [.offer 1, .start]).running.length < 2 ∧
    (run 2 [.offer 1, .start, .fin (.step 1)]).status = .returned := by decide

end StepupModel.Props.C10
