import StepupModel.K.Scheduler
import StepupModel.Lemmas.StableInst
import StepupModel.Lemmas.Ownership
import StepupModel.Lemmas.OwnershipProducts
import StepupModel.Lemmas.OwnershipWitness
import StepupModel.Lemmas.OwnershipEdge
import StepupModel.Lemmas.OwnershipEdgeWitness
/-!
# C08  Every path has one owner and conflicts are rejected in either order

Decision logic of the declaration guards of the kernel model (`_existing_claim`,
`_check_declaration`, `_find_owning_static_tree`, `_declare_file`).  The global ownership
invariants (one attached claim per path, trees own what is beneath them, globs match no product)
are evaluated on the real database after every request by the oracle, and the both-orders
behaviour of whole requests (accept/reject and message text) is decided on the implementation by
running every pair in both orders on fresh workflows (`harness/props/c08.py`).
-/
namespace StepupModel.Props.C08
open StepupModel.K

/-- A path that nothing claims can be declared. -/
theorem declaration_free (s : KState) (p : String) (c : Option Key) (role : FileRole)
    (h : s.existingClaim p = none) : s.checkDeclaration c p role = .ok true := by
  simp [KState.checkDeclaration, h, pure, Except.pure]

/-- Repeating a declaration by the same creator in the same role is a no-op: the guard answers
"nothing new to declare" and raises nothing. -/
theorem repeat_noop (s : KState) (p : String) (c : Key) (role : FileRole)
    (h : s.existingClaim p = some (role, c)) : s.checkDeclaration (some c) p role = .ok false := by
  simp [KState.checkDeclaration, h, pure, Except.pure]

/-- Any other declaration of a claimed path is rejected: another creator, or the same creator
in another role.  (Rejected with which error: see `collision_is_graph_error` and
`collision_by_tree_internal_error`.) -/
theorem collision_rejected (s : KState) (p : String) (c k : Key) (r role : FileRole)
    (h : s.existingClaim p = some (r, c)) (hne : ¬ (r = role ∧ c = k)) :
    ∃ e, s.checkDeclaration (some k) p role = .error e := by
  simp only [KState.checkDeclaration, h]
  rw [if_neg hne]
  split
  · exact ⟨_, rfl⟩
  · split
    · exact ⟨_, rfl⟩
    · exact ⟨_, rfl⟩

/-- Between declarers a plan author can be pointed at (steps and the root), the rejection is the
user-facing `GraphError`. -/
theorem collision_is_graph_error (s : KState) (p : String) (c k : Key) (r role : FileRole)
    (h : s.existingClaim p = some (r, c)) (hne : ¬ (r = role ∧ c = k))
    (hk : k.kind ≠ .st) (hc : c.kind ≠ .st) :
    ∃ msg, s.checkDeclaration (some k) p role = .error (.graph msg) := by
  refine ⟨"claim collision", ?_⟩
  simp only [KState.checkDeclaration, h]
  rw [if_neg hne, if_neg hk, if_neg (fun h => hc h.1)]
  rfl

/-- The code's collision message has no phrase for a static tree (`_creator_phrase`): when the
declarer is a tree (a static file handed over to its owning tree) and the path is claimed by
someone else, the rejection is an internal `ConsistencyError` instead of a `GraphError`.  A
reachable state with such a claim is the known finding `tree-reattached-by-recycle` (C08). -/
theorem collision_by_tree_internal_error (s : KState) (p : String) (c k : Key) (r role : FileRole)
    (h : s.existingClaim p = some (r, c)) (hne : ¬ (r = role ∧ c = k)) (hk : k.kind = .st) :
    s.checkDeclaration (some k) p role = .error .consistency := by
  simp only [KState.checkDeclaration, h]
  rw [if_neg hne, if_pos hk]
  rfl

/-- A declaration by a node that does not exist yet (a step being defined) collides with every
existing claim. -/
theorem new_step_collides (s : KState) (p : String) (c : Key) (r role : FileRole)
    (h : s.existingClaim p = some (r, c)) :
    ∃ e, s.checkDeclaration none p role = .error e := by
  simp only [KState.checkDeclaration, h]
  split
  · exact ⟨_, rfl⟩
  · exact ⟨_, rfl⟩

/-- **Either order**: let declaration A = (roleA by cA) hold the path in state `sA` and
declaration B = (roleB by cB) hold it in state `sB`.  Then B arriving after A is rejected exactly
when A arriving after B is: whether two declarations of one path conflict does not depend on
which of them is already in the graph. -/
theorem file_conflict_symmetric (sA sB : KState) (p : String) (cA cB : Key) (rA rB : FileRole)
    (hA : sA.existingClaim p = some (rA, cA)) (hB : sB.existingClaim p = some (rB, cB)) :
    (∃ e, sA.checkDeclaration (some cB) p rB = .error e) ↔
      (∃ e, sB.checkDeclaration (some cA) p rA = .error e) := by
  by_cases hsame : rA = rB ∧ cA = cB
  · obtain ⟨rfl, rfl⟩ := hsame
    constructor
    · rintro ⟨m, hm⟩; rw [repeat_noop sA p cA rA hA] at hm; cases hm
    · rintro ⟨m, hm⟩; rw [repeat_noop sB p cA rA hB] at hm; cases hm
  · constructor
    · intro _
      exact collision_rejected sB p cB cA rB rA hB (fun h => hsame ⟨h.1.symm, h.2.symm⟩)
    · intro _
      exact collision_rejected sA p cA cB rA rB hA hsame

/-- A claim is only ever reported for an attached file node that has a role and an existing
creator: detached rows ("a memory of a former life") claim nothing. -/
theorem claim_is_attached (s : KState) (p : String) (r : FileRole) (c : Key)
    (h : s.existingClaim p = some (r, c)) :
    ∃ n, s.find? (fileKey p) = some n ∧ n.detached = false ∧ n.creator = some c ∧ n.fstate.role? = some r := by
  unfold KState.existingClaim at h
  cases hf : s.find? (fileKey p) with
  | none => simp [hf] at h
  | some n =>
    simp only [hf] at h
    by_cases hd : n.detached = true
    · simp [hd] at h
    · simp only [hd, Bool.false_eq_true, if_false] at h
      cases hc : n.creator with
      | none => simp [hc] at h
      | some cc =>
        cases hr : n.fstate.role? with
        | none => simp [hc, hr] at h
        | some rr =>
          simp only [hc, hr] at h
          by_cases hh : s.has cc = true
          · simp only [hh, if_true, Option.some.injEq, Prod.mk.injEq] at h
            obtain ⟨rfl, rfl⟩ := h
            exact ⟨n, rfl, by simpa using hd, hc, hr⟩
          · simp [hh] at h

/-- The owning static tree reported for a path is an attached tree whose label is a prefix of
the path as given (a directory is passed with its trailing slash; byte-exact, see C18). -/
theorem owning_tree_spec (s : KState) (p : String) (t : Key) (h : s.owningTree p = .ok (some t)) :
    ∃ n ∈ s.nodes, n.key = t ∧ n.key.kind = .st ∧ n.detached = false ∧ p.startsWith n.key.label = true := by
  unfold KState.owningTree at h
  simp only at h
  split at h
  · cases h
  · rename_i tn heq
    simp only [pure, Except.pure, Except.ok.injEq, Option.some.injEq] at h
    have hm : tn ∈ s.nodes.filter fun n => decide (n.key.kind = .st ∧ (!n.detached) = true ∧
        p.startsWith n.key.label = true) := by rw [heq]; simp
    rw [List.mem_filter] at hm
    refine ⟨tn, hm.1, h, ?_⟩
    simpa using hm.2
  · cases h

/-- A product or a static file declared by anyone but the tree itself under an attached static
tree is rejected by `_declare_file` (the tree is the sole owner of the paths beneath it). -/
theorem declare_under_tree_rejected (s : KState) (cfg : KConfig) (creator : Key) (p : String) (st : FileState)
    (t : Key) (hdecl : Generated.Enums.declarableStates.contains st = true)
    (hv : ¬ (st = .volatile ∧ p.endsWith "/" = true)) (hc : creator.kind ≠ .st)
    (ht : s.owningTree p = .ok (some t)) :
    ∃ msg, s.declareFile cfg creator p st = .error (.graph msg) := by
  refine ⟨"static tree owns path", ?_⟩
  unfold KState.declareFile KState.declareFileGuard KState.declareFileChecks
  rw [if_pos hdecl]
  simp [hv, hc, ht, bind, Except.bind, graphErr, throw, throwThe, MonadExceptOf.throw]

/-! ## One claim per path, after every history -/

theorem inj_of_nodup_map {α β : Type} (f : α → β) :
    ∀ (l : List α), (l.map f).Nodup → ∀ a b, a ∈ l → b ∈ l → f a = f b → a = b := by
  intro l
  induction l with
  | nil => intro _ a b ha; cases ha
  | cons x xs ih =>
    intro h a b ha hb hab
    simp only [List.map_cons, List.nodup_cons, List.mem_map, not_exists, not_and] at h
    simp only [List.mem_cons] at ha hb
    rcases ha with rfl | ha <;> rcases hb with rfl | hb
    · rfl
    · exact absurd hab.symm (h.1 b hb)
    · exact absurd hab (h.1 a ha)
    · exact ih h.2 a b ha hb hab

/-- In every reachable database a path has at most one file node (and a label at most one step),
hence at most one declaration: one state (role) and one creator.  "At any time a path is claimed
by at most one declaration (static file, step output or volatile output, by one creator)". -/
theorem one_declaration_per_path_after_every_history (h : List (KConfig × Req)) (n1 n2 : Node)
    (h1 : n1 ∈ (KState.init.run h).nodes) (h2 : n2 ∈ (KState.init.run h).nodes)
    (hk : n1.key = n2.key) : n1 = n2 :=
  inj_of_nodup_map (·.key) _ (keysNodup_reachable h) n1 n2 h1 h2 hk

/-! ## The ownership invariants over whole histories (`Lemmas/Ownership*.lean`) -/

open StepupModel.K.Own in
/-- **Every attached file has a role and an existing creator, after every history** (no side
condition). -/
theorem attached_files_are_owned_after_every_history (h : List (KConfig × Req)) :
    FilesOwned (KState.init.run h) :=
  filesOwned_after_every_history h

open StepupModel.K.Own in
/-- **Static trees never nest and own every attached file beneath them, after every history** whose
requests satisfy `ReqOKO`: a `define` that takes the full-recycle short cut must bring back a product
subtree that is consistent with what was declared in the meantime (`RecycleClean`; implied by "the
recycled step brings back no tree and no file under an attached tree": `recycleClean_of_simple`), and
three clauses about declarations made in the name of a tree, which only the model can express.  The
other 20 request kinds (and the partial-recycle branch) need nothing. -/
theorem static_trees_exclusive_after_every_history_partial (h : List (KConfig × Req)) (hg : HistOKO KState.init h) :
    TreesDisjoint (KState.init.run h) ∧ TreeOwnsBeneath (KState.init.run h) :=
  ⟨treesDisjoint_after_every_history h hg, treeOwnsBeneath_after_every_history h hg⟩

open StepupModel.K.Own in
/-- The side condition on recycling is necessary, and the unguarded statement is false of model and
code alike (the known finding F21): three kernel-checked histories made of director requests only in
which the last `define` recycles a step and afterwards a file under an attached tree is owned by a
step, two attached trees nest, respectively an output of a recycled step lies under a tree registered
in the meantime.  Each replays on the real code (`harness/witness/ownership_*.txt`) with the same answers
and the implementation-side oracle reports the violation after the last request; the guard refuses
exactly that request, and does not refuse recycling as such (`guard_accepts_clean_recycle`). -/
theorem static_trees_exclusive_negation :
    (TreesDisjoint wState1 ∧ TreeOwnsBeneath wState1 ∧ ¬ ReqOKO wState1 (.define wPlan wDecl) ∧
      ∃ s', wState1.exec wCfg (.define wPlan wDecl) = .ok s' ∧ ¬ TreeOwnsBeneath s'.1) ∧
    (TreesDisjoint wState2 ∧ TreeOwnsBeneath wState2 ∧ ¬ ReqOKO wState2 (.define wPlan wDecl) ∧
      ∃ s', wState2.exec wCfg (.define wPlan wDecl) = .ok s' ∧ ¬ TreesDisjoint s'.1) ∧
    (TreesDisjoint wState3 ∧ TreeOwnsBeneath wState3 ∧ ¬ ReqOKO wState3 (.define wPlan wDecl) ∧
      ∃ s', wState3.exec wCfg (.define wPlan wDecl) = .ok s' ∧ ¬ TreeOwnsBeneath s'.1) ∧
    RecycleClean wState3a (stepKey "T") :=
  ⟨⟨recycled_tree_over_file_breaks_O4.1, recycled_tree_over_file_breaks_O4.2.1, guard_refuses_1,
     recycled_tree_over_file_breaks_O4.2.2⟩,
   ⟨recycled_tree_nested_breaks_O1.1, recycled_tree_nested_breaks_O1.2.1, guard_refuses_2,
     recycled_tree_nested_breaks_O1.2.2⟩,
   ⟨recycled_file_under_tree_breaks_O4.1, recycled_file_under_tree_breaks_O4.2.1, guard_refuses_3,
     recycled_file_under_tree_breaks_O4.2.2⟩,
   guard_accepts_clean_recycle⟩

open StepupModel.K.Own in
/-- **Products belong to steps and have no second producer**: an attached file in a product state is
created by a step (histories in which `amend` names steps, as the handler resolves it), and every step
with an edge into it is that creator (under the guard of the I4 development, which this clause is read
off); dependency edges are never duplicated (unconditional).  Not proved over histories: that the
edge creator → product exists (evaluated by the oracle on every generated request). -/
theorem products_are_owned_by_their_only_producer_partial (h : List (KConfig × Req)) (ha : Ever.AmendsSteps h)
    (hg : SuccOut.HistOKS KState.init h) :
    ProductByStep (KState.init.run h) ∧ ProducersAreCreator (KState.init.run h) ∧ DepsUnique (KState.init.run h) :=
  ⟨productByStep_after_every_history h ha, producersAreCreator_after_every_history h hg,
    depsUnique_after_every_history h⟩

open StepupModel.K.Own StepupModel.K.OwnE in
/-- **Every attached product is created by a step, which is its one and only producer** (the clause
`producers == [creator]` of the oracle), after every history in which `amend` names steps, the requests
satisfy the side conditions of the I4 development (which the "no second producer" part is read off) and
`reset_for_rerun` is never asked of a file key (a request that only the model can express:
`Step.reset_for_rerun` does not exist on files; kernel-checked counterexample
`reset_for_rerun_of_file_breaks_O5`, refused by the guard). -/
theorem products_owned_after_every_history (h : List (KConfig × Req)) (ha : Ever.AmendsSteps h)
    (hs : SuccOut.HistOKS KState.init h) (hn : ResetsNoFile h) : ProductsOwned (KState.init.run h) :=
  productsOwned_after_every_history' h ha hs hn

end StepupModel.Props.C08
