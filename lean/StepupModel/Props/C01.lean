import StepupModel.Lemmas.KProp
import StepupModel.Lemmas.KFrame
import StepupModel.P.Skip
/-!
# C01  An incremental build is equivalent to a build from scratch

The full statement (DESIGN section 9/C01: for every history, the last successful build leaves
the same canonical database and the same output bytes as a build from scratch) is decided by the
oracle on simulated builds of the real director (`harness/props/c01.py`).  Proved here are the
decomposition lemmas on the kernel model (`K/*.lean`, tied to the code by the kernel
correspondence over the scopes declarations, propagation, completion, startup) and on the model of
the executor's skip decision (`P/Skip.lean`, tied by `harness/skipcorr.py`):

* **propagation_complete** (`mark_step_pending` / `mark_file_outdated` /
  `mark_consuming_steps_pending`, for all graphs and all fuel): a marked step ends PENDING unless it
  is RUNNING/CHECKING; none of its BUILT outputs stays BUILT; the propagation never creates a
  stale dependency (a SUCCEEDED step with an input that is not BUILT/CONFIRMED) nor a BUILT file
  behind a step that is no longer SUCCEEDED; consequently, from a state without such defects and
  with no step RUNNING or CHECKING (startup rescan, watch phase), after the consumers of a
  changed file (or a step whose environment / glob matches changed) are marked, **every** node
  reachable through recorded dependency edges, attached or detached, is invalidated: no step on
  the way is SUCCEEDED and no file on the way is BUILT.  Stored step hashes are kept (the step is
  re-checked, not trusted).  `external_update_complete_partial` is the end-to-end form for one
  request: `update_file_hashes({p: h}, EXTERNAL)` (startup rescan, watcher) for a static input that
  changed or vanished and for an output that vanished, using the regenerated `_HASH_TRANSITIONS`
  table, leaves a sound database with everything downstream of `p` invalidated.  The remaining
  case (an output that the user *modified*: only the producer is marked, the consumers follow
  when it completes) is why the full statement `ExternalUpdateComplete` stays a `def`; it is the
  known finding `watch-differs:external-update-order` of C14; `rescanEnv_propagation_complete` is the same for
  `rescan_env_vars`.
* **skip_sound**: `try_skip_job` records SUCCEEDED without running only if the recomputed input
  digest and the recomputed output digest both equal the stored ones; every other outcome resets
  the step (hash deleted) or fails it.
* **recycle_sound**: `Step.can_recycle` holds only if the four declared lists equal the recorded
  initial ones; a partial recycle (`Trellis.create` on a detached step) leaves the step PENDING
  with its source edges cut; a creator that loses a product loses its hash.
* **redefinition_declares_env** (finding `stale-env-dependency`, fixed by 7574d5c), the full
  statement for every accepted `define_step` in all its branches: afterwards every non-dynamic
  `env_var` row of the step is a declared variable.  Pieces: the partial recycle leaves the step
  without rows (`partial_recycle_clears_env_rows`), `add_env_deps` on a step without rows records
  exactly the declared names (`addEnvDeps_from_empty`, `addEnvDeps_complete`), the full recycle
  keeps rows whose names `can_recycle` has compared with the declaration.

* the two later fixes: a full recycle with a changed shell flag or changed overrides re-checks the
  step (`recycle_rechecks_changed_shell_or_overrides`, 2c5d2b4), and a step recorded SUCCEEDED
  carries the current values of its tracked variables (`success_records_current_env`, bd1d0f5).

Not proved (oracle only): `closed_unique`, `successful_build_closed` (DESIGN T1/T2), the
propagation of `update_file_hashes` batches of several files (one file per request is proved;
the watcher and the rescan issue one request per file), and
`process_nglob_changes` (not part of the kernel model; its effect is `mark_step_pending`).
-/
namespace StepupModel.Props.C01
open StepupModel.K StepupModel.P.Skip

/-! ## 1. Pending propagation -/

/-- `x` is reachable from `x0` through at least one recorded dependency edge. -/
inductive Downstream (deps : List Dep) (x0 : Key) : Key → Prop
  | direct (d : Dep) : d ∈ deps → d.src = x0 → Downstream deps x0 d.snk
  | next (d : Dep) : d ∈ deps → Downstream deps x0 d.src → Downstream deps x0 d.snk

/-- Edges join a file to a step or a step to a file (`dependency_check_kinds_ins`). -/
def DepKinds (s : KState) : Prop :=
  ∀ d ∈ s.deps, (d.src.kind = .file ∧ d.snk.kind = .step) ∨ (d.src.kind = .step ∧ d.snk.kind = .file)

/-- Every BUILT file with a producing step has that step SUCCEEDED (or RUNNING / CHECKING). -/
def NoOrphanBuilt (s : KState) : Prop := ∀ d, ¬ OrphanBuilt s d

/-- A file with a producing step is not in a static state (UNCONFIRMED, MISSING, CONFIRMED). -/
def OutputsNotStatic (s : KState) : Prop :=
  ∀ d ∈ s.deps, d.src.kind = .step → ∀ st, s.fstateOf d.snk = some st → st.role? ≠ some .static

/-- What "invalidated" means for a node downstream of a change: a step is not SUCCEEDED, a file
is neither BUILT nor CONFIRMED (it is OUTDATED, PLANNED, ...: nothing a consumer may use). -/
def Invalidated (s : KState) (x : Key) : Prop :=
  (x.kind = .step → s.sstateOf x ≠ some .succeeded) ∧
  (x.kind = .file → s.fstateOf x ≠ some .built ∧ s.fstateOf x ≠ some .confirmed)

/-- The database invariants the propagation relies on and maintains; `E` says which stale
dependencies (a SUCCEEDED step with an input that is not BUILT/CONFIRMED) are tolerated for
the moment: none in a committed state, those of the file being updated in the middle of
`update_file_hashes`. -/
structure SoundBut (E : Dep → Prop) (s : KState) : Prop where
  quiet : NoneBusy s
  kinds : DepKinds s
  stale : ∀ d, StaleDep s d → E d
  noOrphan : NoOrphanBuilt s
  outputs : OutputsNotStatic s

/-- No stale dependency at all. -/
abbrev Sound (s : KState) : Prop := SoundBut (fun _ => False) s

/-- `mark_step_pending(k)`: afterwards `k` is PENDING, unless it is RUNNING or CHECKING (the call
is then ignored; such a step notices the change itself when it completes). -/
theorem markStepPending_result (s s' : KState) (k : Key) (h : s.markStepPending k = .ok s') :
    ∀ st, s'.sstateOf k = some st → st = .pending ∨ st = .running ∨ st = .checking :=
  markStepPending_notDone s.fuel s s' k h

/-- `mark_step_pending(k)` on a step that had completed: none of the files it has an edge to is
BUILT afterwards (they are OUTDATED), attached or detached. -/
theorem markStepPending_outputs_not_built (s s' : KState) (k : Key) (st : StepState)
    (hst : s.sstateOf k = some st) (hdone : st = .succeeded ∨ st = .failed)
    (h : s.markStepPending k = .ok s') :
    ∀ f ∈ s.sinksOf k, f.kind = .file → s'.fstateOf f ≠ some .built :=
  markStepPending_sinks_notBuilt s.fuel s s' k st hst hdone h

/-- `mark_consuming_steps_pending(f)`: every step with a recorded edge from `f`, attached or
detached, is PENDING afterwards (or RUNNING / CHECKING). -/
theorem markConsumersPending_direct (s s' : KState) (f : Key) (h : s.markConsumersPending f = .ok s') :
    ∀ t ∈ s.sinksOf f, t.kind = .step →
      ∀ st, s'.sstateOf t = some st → st = .pending ∨ st = .running ∨ st = .checking :=
  markConsumersPending_notDone s s' f h

/-- The propagation never *creates* staleness: a SUCCEEDED step with an unusable input after
`mark_step_pending` was one before (when a file turns OUTDATED all its consumers are marked). -/
theorem propagation_creates_no_stale_dependency (s s' : KState) (k : Key) (h : s.markStepPending k = .ok s') :
    ∀ d, StaleDep s' d → StaleDep s d :=
  markStepPending_stale_mono s.fuel s s' k h

/-- Nor a BUILT file behind a step that is not SUCCEEDED any more. -/
theorem propagation_creates_no_orphan_built (s s' : KState) (k : Key) (h : s.markStepPending k = .ok s') :
    ∀ d, OrphanBuilt s' d → OrphanBuilt s d :=
  markStepPending_orphan_mono s.fuel s s' k h

/-- The propagation keeps stored step hashes: a step marked pending is re-checked against its
hash before it runs (CHECKING), it is not trusted and not forgotten. -/
theorem propagation_keeps_step_hashes (s s' : KState) (k q : Key) (h : s.markStepPending k = .ok s') :
    s'.shashOf q = s.shashOf q :=
  markStepPending_inv (propInv_shash q (s.shashOf q)) s.fuel s s' k rfl h

/-- `SoundBut E` is preserved by every run of the propagation routines. -/
theorem soundBut_preserved {E : Dep → Prop} {f : KState → M KState}
    (hinv : ∀ (Q : KState → Prop), PropInv Q → ∀ s s', Q s → f s = .ok s' → Q s')
    (hstale : ∀ s s', f s = .ok s' → ∀ d, StaleDep s' d → StaleDep s d)
    (horph : ∀ s s', f s = .ok s' → ∀ d, OrphanBuilt s' d → OrphanBuilt s d)
    (s s' : KState) (hs : SoundBut E s) (h : f s = .ok s') : SoundBut E s' := by
  have hdeps : s'.deps = s.deps := hinv _ (propInv_deps s.deps) s s' rfl h
  refine ⟨hinv _ propInv_noneBusy s s' hs.quiet h, ?_, ?_, ?_, ?_⟩
  · intro d hd; exact hs.kinds d (hdeps ▸ hd)
  · intro d hd; exact hs.stale d (hstale s s' h d hd)
  · intro d hd; exact hs.noOrphan d (horph s s' h d hd)
  · intro d hd hk
    exact hinv _ (propInv_notStaticRole d.snk) s s' (hs.outputs d (hdeps ▸ hd) hk) h

theorem soundBut_markStepPending {E : Dep → Prop} (s s' : KState) (k : Key) (hs : SoundBut E s)
    (h : s.markStepPending k = .ok s') : SoundBut E s' :=
  soundBut_preserved (f := fun s => s.markStepPending k)
    (fun _ hQ s s' hq h => markStepPending_inv hQ s.fuel s s' k hq h)
    (fun s s' h => markStepPending_stale_mono s.fuel s s' k h)
    (fun s s' h => markStepPending_orphan_mono s.fuel s s' k h) s s' hs h

theorem soundBut_markConsumersPending {E : Dep → Prop} (s s' : KState) (f : Key) (hs : SoundBut E s)
    (h : s.markConsumersPending f = .ok s') : SoundBut E s' :=
  soundBut_preserved (f := fun s => s.markConsumersPending f)
    (fun _ hQ s s' hq h => markConsumersPending_inv hQ s s' f hq h)
    (fun s s' h => markConsumersPending_stale_mono s s' f h)
    (fun s s' h => markConsumersPending_orphan_mono s s' f h) s s' hs h

/-- In a sound state, invalidation of the direct successors of `x0` extends to everything
reachable from `x0`. -/
theorem downstream_invalidated (s : KState) (x0 : Key) (hs : Sound s)
    (hbase : ∀ d ∈ s.deps, d.src = x0 → Invalidated s d.snk) :
    ∀ x, Downstream s.deps x0 x → Invalidated s x := by
  have hnc : ∀ d ∈ s.deps, d.src.kind = .step → s.fstateOf d.snk ≠ some .confirmed := by
    intro d hd hk hc
    exact hs.outputs d hd hk _ hc rfl
  intro x hx
  induction hx with
  | direct d hd hsrc => exact hbase d hd hsrc
  | next d hd _ ih =>
    rcases hs.kinds d hd with ⟨hsf, hst⟩ | ⟨hss, hsf⟩
    · refine ⟨fun _ hsucc => ?_, fun hf => (by rw [hst] at hf; cases hf)⟩
      obtain ⟨hnb, hnc'⟩ := ih.2 hsf
      exact hs.stale d ⟨hd, hst, hsucc, fun hav => hav.elim hnb hnc'⟩
    · refine ⟨fun hk => (by rw [hsf] at hk; cases hk), fun _ => ⟨fun hb => ?_, hnc d hd hss⟩⟩
      have hns := ih.1 hss
      refine hs.noOrphan d ⟨hd, hsf, hb, hns, ?_, ?_⟩
      · intro hr; exact (hs.quiet _ _ hr).1 rfl
      · intro hc; exact (hs.quiet _ _ hc).2 rfl

/-- The direct successors of a step that is not SUCCEEDED, in a sound state. -/
theorem step_base (s : KState) (k : Key) (hk : k.kind = .step) (hs : Sound s)
    (hns : s.sstateOf k ≠ some .succeeded) : ∀ d ∈ s.deps, d.src = k → Invalidated s d.snk := by
  intro d hd hsrc
  rcases hs.kinds d hd with ⟨hsf, _⟩ | ⟨_, hsf⟩
  · rw [hsrc, hk] at hsf; cases hsf
  · refine ⟨fun hx => (by rw [hsf] at hx; cases hx), fun _ => ⟨fun hb => ?_, fun hc => ?_⟩⟩
    · refine hs.noOrphan d ⟨hd, hsf, hb, hsrc ▸ hns, ?_, ?_⟩
      · intro hr; exact (hs.quiet _ _ hr).1 rfl
      · intro hc; exact (hs.quiet _ _ hc).2 rfl
    · exact hs.outputs d hd (hsrc ▸ hk) _ hc rfl

/-- The common end of every hash-update action: the consumers of `f0` are marked in a state
whose only tolerated stale dependencies are those of `f0` itself.  Afterwards the database is
sound again and everything downstream of `f0` is invalidated. -/
theorem consumers_marked_complete (s s' : KState) (f0 : Key) (hf0 : f0.kind = .file)
    (hs : SoundBut (fun d => d.src = f0) s) (h : s.markConsumersPending f0 = .ok s') :
    Sound s' ∧ ∀ x, Downstream s.deps f0 x → Invalidated s' x := by
  have hdeps := markConsumersPending_deps s s' f0 h
  have hnd := markConsumersPending_notDone s s' f0 h
  have hs1 := soundBut_markConsumersPending s s' f0 hs h
  have hs' : Sound s' := by
    refine ⟨hs1.quiet, hs1.kinds, ?_, hs1.noOrphan, hs1.outputs⟩
    intro d hd
    have hsrc : d.src = f0 := hs1.stale d hd
    obtain ⟨hmem, hkind, hsucc, _⟩ := hd
    have hmem0 : d ∈ s.deps := hdeps ▸ hmem
    have := hnd d.snk (hsrc ▸ mem_sinksOf s d hmem0) hkind _ hsucc
    rcases this with h1 | h1 | h1 <;> cases h1
  refine ⟨hs', ?_⟩
  rw [← hdeps]
  refine downstream_invalidated s' f0 hs' ?_
  intro d hd hsrc
  have hd0 : d ∈ s.deps := hdeps ▸ hd
  rcases hs.kinds d hd0 with ⟨_, hst⟩ | ⟨hss, _⟩
  · refine ⟨fun _ hsucc => ?_, fun hf => (by rw [hst] at hf; cases hf)⟩
    have := hnd d.snk (hsrc ▸ mem_sinksOf s d hd0) hst _ hsucc
    rcases this with h1 | h1 | h1 <;> cases h1
  · rw [hsrc, hf0] at hss; cases hss

/-- **propagation_complete** (changed static file).  From a sound database in which no step is
RUNNING or CHECKING: after the consumers of the file `f0` have been marked, every node
downstream of `f0` along recorded dependency edges (through attached and detached nodes alike)
is invalidated: no such step is SUCCEEDED and no such file is BUILT. -/
theorem propagation_complete (s s' : KState) (f0 : Key) (hf0 : f0.kind = .file) (hs : Sound s)
    (h : s.markConsumersPending f0 = .ok s') :
    Sound s' ∧ ∀ x, Downstream s.deps f0 x → Invalidated s' x :=
  consumers_marked_complete s s' f0 hf0
    ⟨hs.quiet, hs.kinds, fun d hd => (hs.stale d hd).elim, hs.noOrphan, hs.outputs⟩ h

theorem soundBut_pendCreator {E : Dep → Prop} (s s' : KState) (f : Key) (hs : SoundBut E s)
    (h : s.pendCreator f = .ok s') : SoundBut E s' ∧ s'.deps = s.deps := by
  unfold KState.pendCreator at h
  split at h
  · rename_i c _
    exact ⟨soundBut_markStepPending s s' c hs h, markStepPending_deps s.fuel s s' c h⟩
  · simp only [pure, Except.pure, Except.ok.injEq] at h
    subst h; exact ⟨hs, rfl⟩

/-- `handle_updated_file` of a CONFIRMED file is exactly the marking of its consumers. -/
theorem handleUpdated_confirmed (s : KState) (f : Key) (h : s.fstateOf f = some .confirmed) :
    s.handleUpdated f = s.markConsumersPending f := by
  unfold KState.handleUpdated KState.fileState?
  unfold KState.fstateOf at h
  simp [h]

/-- `handle_updated_file` on a file that is CONFIRMED after the update (a static input whose
content changed).  For a PLANNED / OUTDATED file (an output that the user modified) the code only
marks the *producer* pending; the consumers are marked when the producer completes again. -/
theorem handleUpdated_complete (s s' : KState) (f0 : Key) (hf0 : f0.kind = .file)
    (hs : SoundBut (fun d => d.src = f0) s) (hst : s.fstateOf f0 = some .confirmed)
    (h : s.handleUpdated f0 = .ok s') :
    Sound s' ∧ ∀ x, Downstream s.deps f0 x → Invalidated s' x := by
  rw [handleUpdated_confirmed s f0 hst] at h
  exact consumers_marked_complete s s' f0 hf0 hs h

/-- `handle_deleted_file`. -/
theorem handleDeleted_complete (s s' : KState) (f0 : Key) (hf0 : f0.kind = .file)
    (hs : SoundBut (fun d => d.src = f0) s) (h : s.handleDeleted f0 = .ok s') :
    Sound s' ∧ ∀ x, Downstream s.deps f0 x → Invalidated s' x := by
  unfold KState.handleDeleted at h
  by_cases hp : s.fileState? f0 = some .planned
  · simp only [hp, if_true, bind, Except.bind] at h
    cases hc : s.pendCreator f0 with
    | error e => simp [hc] at h
    | ok s1 =>
      simp only [hc] at h
      obtain ⟨hs1, hdeps1⟩ := soundBut_pendCreator s s1 f0 hs hc
      have := consumers_marked_complete s1 s' f0 hf0 hs1 h
      rw [hdeps1] at this
      exact this
  · simp only [hp, if_false, bind, Except.bind, pure, Except.pure] at h
    exact consumers_marked_complete s s' f0 hf0 hs h

/-- The full statement: whatever file an EXTERNAL update concerns.  Not a theorem: when the user
modifies an *output* (BUILT / OUTDATED, hash known) the file turns PLANNED and only its producer is
marked pending; its consumers stay SUCCEEDED until the producer has run again (known finding of
C14, `watch-differs:external-update-order`; the fix was withdrawn because an upstream example
pins the step states). -/
def ExternalUpdateComplete : Prop :=
  ∀ (s s' : KState) (p : String) (hh : Option Nat), Sound s → s.updateFileHashes [(p, hh)] .external = .ok s' →
    Sound s' ∧ ∀ x, Downstream s.deps (fileKey p) x → Invalidated s' x

/-- **propagation_complete, end to end for one file**: `update_file_hashes({p: h}, EXTERNAL)` (what
the startup rescan and the watcher apply for a file whose hash changed or that vanished), from a
sound database with no step RUNNING or CHECKING, for a static input that changed or vanished and
for an output that vanished: the request leaves a sound database in which every node downstream
of `p`, attached or detached, is invalidated.  (`_partial`: the case "output modified", excluded
by `hcase`, is the one described at `ExternalUpdateComplete`.) -/
theorem external_update_complete_partial (s s' : KState) (p : String) (hh : Option Nat) (hs : Sound s)
    (hcase : hh = none ∨ ∀ n, s.find? (fileKey p) = some n → n.fstate ≠ .built ∧ n.fstate ≠ .outdated)
    (h : s.updateFileHashes [(p, hh)] .external = .ok s') :
    Sound s' ∧ ∀ x, Downstream s.deps (fileKey p) x → Invalidated s' x := by
  rw [updateFileHashes_single] at h
  simp only [bind, Except.bind] at h
  cases hr : s.hashRec .external (p, hh) with
  | error e => simp [hr] at h
  | ok r =>
    simp only [hr] at h
    -- the transition
    unfold KState.hashRec at hr
    cases hf : s.find? (fileKey p) with
    | none => simp [hf, throw, throwThe, MonadExceptOf.throw] at hr
    | some n =>
      simp only [hf] at hr
      cases hl : lookupTransition .external n.fstate hh.isSome with
      | none => simp [hl, throw, throwThe, MonadExceptOf.throw] at hr
      | some na =>
        obtain ⟨new, act⟩ := na
        simp only [hl, pure, Except.pure, Except.ok.injEq] at hr
        subst hr
        obtain ⟨hnew, hact, hrole⟩ := external_transition_facts n.fstate new hh.isSome act hl
        simp only at h
        cases hw : s.writeFile (fileKey p) new (some hh) with
        | error e => simp [hw] at h
        | ok s1 =>
          simp only [hw] at h
          obtain ⟨hfs, hss, hdeps⟩ := writeFile_effect s s1 (fileKey p) new (some hh) hw
          have hfnew : s1.fstateOf (fileKey p) = some new := by
            rw [hfs]; simp [KState.fstateOf, hf]
          have hnb : new ≠ .built := by rcases hnew with rfl | rfl | rfl <;> simp
          -- the state after the write is sound but for the consumers of `p`
          have hs1 : SoundBut (fun d => d.src = fileKey p) s1 := by
            refine ⟨?_, ?_, ?_, ?_, ?_⟩
            · intro q st hq; rw [hss] at hq; exact hs.quiet q st hq
            · intro d hd; exact hs.kinds d (hdeps ▸ hd)
            · intro d ⟨hmem, hkind, hsucc, hav⟩
              apply Classical.byContradiction
              intro hne
              refine hs.stale d ⟨hdeps ▸ hmem, hkind, by rw [← hss]; exact hsucc, ?_⟩
              rw [hfs d.src] at hav
              simpa [hne] using hav
            · intro d ⟨hmem, hkind, hb, h1, h2, h3⟩
              have hne : d.snk ≠ fileKey p := by
                intro he; rw [he, hfnew] at hb; exact hnb (Option.some.inj hb)
              refine hs.noOrphan d ⟨hdeps ▸ hmem, hkind, ?_, by rw [← hss]; exact h1, by rw [← hss]; exact h2,
                by rw [← hss]; exact h3⟩
              rw [hfs d.snk] at hb
              simpa [hne] using hb
            · intro d hd hk st hst
              by_cases he : d.snk = fileKey p
              · rw [he, hfnew] at hst
                have := hs.outputs d (hdeps ▸ hd) hk n.fstate (by rw [he]; simp [KState.fstateOf, hf])
                rw [← Option.some.inj hst, hrole]; exact this
              · rw [hfs d.snk] at hst
                simp only [he, if_false] at hst
                exact hs.outputs d (hdeps ▸ hd) hk st hst
          have hkf : (fileKey p).kind = .file := rfl
          rw [← hdeps]
          rcases hact with rfl | rfl
          · -- updated
            simp only [if_true, pure, Except.pure] at h
            cases hu : s1.handleUpdated (fileKey p) with
            | error e => simp [hu] at h
            | ok s2 =>
              simp only [hu, Option.some.injEq, reduceCtorEq, if_false, Except.ok.injEq] at h
              subst h
              refine handleUpdated_complete s1 s2 (fileKey p) hkf hs1 ?_ hu
              rw [hfnew]
              -- an "updated" action leads to CONFIRMED, or to PLANNED for a modified output (excluded)
              have hcase' : hh.isSome = false ∨ (n.fstate ≠ .built ∧ n.fstate ≠ .outdated) := by
                rcases hcase with h0 | h0
                · left; rw [h0]; rfl
                · right; exact h0 n hf
              unfold lookupTransition at hl
              rcases hnew with rfl | rfl | rfl
              · exfalso
                cases hst : n.fstate <;> cases hk : hh.isSome <;>
                  simp [hst, hk, Generated.hashTransitions, List.find?] at hl
              · rfl
              · exfalso
                rcases hcase' with h0 | ⟨h1, h2⟩
                · cases hst : n.fstate <;> simp [hst, h0, Generated.hashTransitions, List.find?] at hl
                · cases hst : n.fstate <;> cases hk : hh.isSome <;>
                    simp [hst, hk, Generated.hashTransitions, List.find?] at hl
                  · exact h1 hst
                  · exact h2 hst
          · -- deleted
            simp only [if_true, pure, Except.pure] at h
            cases hd : s1.handleDeleted (fileKey p) with
            | error e => simp [hd] at h
            | ok s2 =>
              simp only [hd, Option.some.injEq, reduceCtorEq, if_false, Except.ok.injEq] at h
              subst h
              exact handleDeleted_complete s1 s2 (fileKey p) hkf hs1 hd

/-- **propagation_complete** (a step whose own ingredients changed: recorded environment value,
glob matches, interrupted run).  After `mark_step_pending(k)` the step is not SUCCEEDED and every
node downstream of it is invalidated. -/
theorem propagation_complete_step (s s' : KState) (k : Key) (hk : k.kind = .step) (hs : Sound s)
    (h : s.markStepPending k = .ok s') :
    Sound s' ∧ s'.sstateOf k ≠ some .succeeded ∧ ∀ x, Downstream s.deps k x → Invalidated s' x := by
  have hs' : Sound s' := soundBut_markStepPending s s' k hs h
  have hdeps : s'.deps = s.deps := markStepPending_deps s.fuel s s' k h
  have hnd := markStepPending_notDone s.fuel s s' k h
  have hk_ns : s'.sstateOf k ≠ some .succeeded := by
    intro hsucc
    rcases hnd _ hsucc with h1 | h1 | h1 <;> cases h1
  refine ⟨hs', hk_ns, ?_⟩
  rw [← hdeps]
  exact downstream_invalidated s' k hs' (step_base s' k hk hs' hk_ns)

/-- **Environment rescan** (`startup.rescan_env_vars`): every step, attached or (since the repair
d05c184) detached, whose recorded value of a variable differs from the current environment is not
SUCCEEDED afterwards, and everything downstream of it is invalidated. -/
theorem rescanEnv_propagation_complete (s s' : KState) (cfg : KConfig) (hs : Sound s)
    (h : s.rescanEnvVars cfg = .ok s') :
    Sound s' ∧ ∀ n ∈ s.nodes, n.key.kind = .step →
      (∃ e ∈ n.envs, envValue cfg e.1 ≠ e.2.1) →
      s'.sstateOf n.key ≠ some .succeeded ∧ ∀ x, Downstream s.deps n.key x → Invalidated s' x := by
  unfold KState.rescanEnvVars at h
  have hs' : Sound s' :=
    foldlM_keeps Sound _ _ (fun b a b' _ hb hr => soundBut_markStepPending b b' a.key hb hr) s s' hs h
  have hdeps : s'.deps = s.deps :=
    foldlM_keeps (fun b => b.deps = s.deps) _ _
      (fun b a b' _ hb hr => (markStepPending_deps b.fuel b b' a.key hr).trans hb) s s' rfl h
  refine ⟨hs', ?_⟩
  intro n hn hk ⟨e, he, hne⟩
  have hmem : n ∈ s.nodes.filter fun n =>
      decide (n.key.kind = .step ∧ (n.envs.any fun e => decide (envValue cfg e.1 ≠ e.2.1)) = true) := by
    rw [List.mem_filter]
    refine ⟨hn, ?_⟩
    simp only [decide_eq_true_eq, List.any_eq_true]
    exact ⟨hk, e, he, hne⟩
  have hnd : NotDone s' n.key :=
    foldlM_each (fun (m : Node) (b : KState) => NotDone b m.key) _ _
      (fun b a b' hr => markStepPending_notDone b.fuel b b' a.key hr)
      (fun b a a' b' hb hr => markStepPending_inv (propInv_notDone a.key) b.fuel b b' a'.key hb hr)
      s s' h n hmem
  have hk_ns : s'.sstateOf n.key ≠ some .succeeded := by
    intro hsucc
    rcases hnd _ hsucc with h1 | h1 | h1 <;> cases h1
  refine ⟨hk_ns, ?_⟩
  rw [← hdeps]
  exact downstream_invalidated s' n.key hs' (step_base s' n.key hk hs' hk_ns)

/-! ## 2. The skip decision of the executor -/

/-- **skip_sound**: `try_skip_job` records the step SUCCEEDED without running it only if the
recomputed input digest and the recomputed output digest are both present and equal to the stored
ones; the hash it records is the stored one. -/
theorem skip_sound {δ : Type} [DecidableEq δ] (stored : Digests δ) (newInp newOut : Option δ) (rec : Digests δ)
    (h : trySkip stored newInp newOut = .skipped rec) :
    newInp = some stored.inp ∧ newOut = some stored.out ∧ rec = stored := by
  unfold trySkip at h
  cases newInp with
  | none => cases h
  | some i =>
    simp only at h
    by_cases hi : stored.inp ≠ i
    · rw [if_pos hi] at h; cases h
    · rw [if_neg hi] at h
      have hi' : stored.inp = i := Classical.not_not.mp hi
      cases newOut with
      | none => cases h
      | some o =>
        simp only at h
        by_cases ho : stored.out ≠ o
        · rw [if_pos ho] at h; cases h
        · rw [if_neg ho] at h
          have ho' : stored.out = o := Classical.not_not.mp ho
          cases h
          subst hi' ho'
          exact ⟨rfl, rfl, rfl⟩

/-- Conversely, equal digests are skipped (nothing reruns without a reason: C04). -/
theorem skip_complete {δ : Type} [DecidableEq δ] (stored : Digests δ) :
    trySkip stored (some stored.inp) (some stored.out) = .skipped stored := by
  unfold trySkip
  simp

/-- Every outcome other than a skip either resets the step (`reset_for_rerun`, `delete_hash`,
PENDING: it will run) or completes it as failed; none of them records a hash. -/
theorem no_skip_means_reset_or_fail {δ : Type} [DecidableEq δ] (stored : Digests δ) (newInp newOut : Option δ)
    (h : ∀ r, trySkip stored newInp newOut ≠ .skipped r) :
    (trySkip stored newInp newOut).ops = ["reset_for_rerun", "delete_hash", "set_state:PENDING"] ∨
      (trySkip stored newInp newOut).ops = ["mark_completed:none"] := by
  cases hr : trySkip stored newInp newOut with
  | failedEarly => right; rfl
  | resetInputs => left; rfl
  | cancelled => right; rfl
  | resetOutputs => left; rfl
  | skipped r => exact absurd hr (h r)

/-- `validate_dynamic_job` keeps the stored hash (puts the step back to PENDING untouched) only
if the recomputed input digest equals the stored one. -/
theorem validate_sound {δ : Type} [DecidableEq δ] (storedInp : δ) (newInp : Option δ)
    (h : validateDynamic storedInp newInp = .keepWaiting) : newInp = some storedInp := by
  unfold validateDynamic at h
  cases newInp with
  | none => cases h
  | some i =>
    simp only at h
    by_cases hi : storedInp ≠ i
    · rw [if_pos hi] at h; cases h
    · rw [Classical.not_not.mp hi]

/-! ## 3. Recycling -/

/-- **recycle_sound** (full recycle): `Step.can_recycle` answers yes only if the recorded initial
inputs, environment variables, outputs and volatile outputs equal the four declared lists. -/
theorem recycle_sound (s : KState) (step : Key) (d : StepDecl) (h : s.canRecycle step d = true) :
    ∃ n, s.find? step = some n ∧
      (s.initialPaths step).1 = sortStrs d.inp ∧
      sortStrs ((n.envs.filter fun e => !e.2.2).map (·.1)) = sortStrs d.env ∧
      (s.initialPaths step).2.1 = sortStrs d.out ∧
      (s.initialPaths step).2.2 = sortStrs d.vol := by
  unfold KState.canRecycle at h
  cases hf : s.find? step with
  | none => simp [hf] at h
  | some n =>
    simp only [hf, decide_eq_true_eq] at h
    exact ⟨n, rfl, h.1, h.2.1, h.2.2.1, h.2.2.2⟩

/-- A creator that loses a product (its product is re-created or recycled by someone else)
loses its stored hash: it cannot be skipped on the strength of a run that declared something
else. -/
theorem lost_product_drops_hash (s s' : KState) (k : Key) (hk : k.kind = .step)
    (h : s.afterLostProduct k = .ok s') : s'.shashOf k = none := by
  unfold KState.afterLostProduct at h
  simp only [hk, pure, Except.pure, Except.ok.injEq] at h
  subst h
  unfold KState.shashOf KState.deleteHash
  rw [find?_modify_self s k _ (by
    intro n hn
    split <;> simp [hn])]
  cases hf : s.find? k with
  | none => rfl
  | some n =>
    simp only [Option.map_some, Option.bind_some]
    split
    · rfl
    · rename_i hnone
      simpa using hnone

/-- **recycle_sound** (partial recycle): `Trellis.create` on an existing detached step node leaves
the step PENDING whatever it was (so it is at least re-checked) and keeps no source edge. -/
theorem partial_recycle_pending (s s' : KState) (k : Key) (n : Node) (creator : Option Key) (i : StepInit)
    (hn : s.find? k = some n) (h : s.create k creator (.step i) = .ok s') :
    ∀ st, s'.sstateOf k = some st → st = .pending := by
  unfold KState.create at h
  simp only [hn] at h
  split at h
  · simp [throw, throwThe, MonadExceptOf.throw] at h
  · split at h
    · simp [throw, throwThe, MonadExceptOf.throw] at h
    · unfold KState.recycleCore at h
      simp only [bind, Except.bind] at h
      split at h
      · cases h
      · split at h
        · cases h
        · split at h
          · cases h
          · rename_i s3 _
            simp only [KState.initRow, pure, Except.pure, Except.ok.injEq] at h
            subst h
            intro st hst
            unfold KState.sstateOf KState.initStepRow at hst
            rw [find?_modify_self] at hst
            · cases hf : s3.find? k with
              | none => simp [hf] at hst
              | some m => simp [hf] at hst; exact hst.symm
            · intro m hm; exact hm

/-- What C01 needs of a redefinition: after an accepted `define_step` the non-dynamic `env_var`
rows of the step are among the declared variables: nothing is left over from an earlier
definition of the step (finding `stale-env-dependency`, fixed by 7574d5c). -/
def RedefinitionDeclaresEnv : Prop :=
  ∀ (s s' : KState) (cfg : KConfig) (creator : Key) (d : StepDecl) (chk : List String) (sk : Key) (n : Node),
    s.defineStep cfg creator d = .ok (s', chk) → stepLabel d.cmd d.workdir = some sk.label → sk.kind = .step →
    s'.find? sk = some n → ∀ e ∈ n.envs, e.2.2 = false → e.1 ∈ normPaths d.env

/-- Creation branch, first half: the partial recycle of a
step (`Trellis.create` on an existing detached step node) leaves it without any `env_var` row
(`Step.initialize_row` deletes them; before the fix 7574d5c they survived and a redefinition that
dropped a variable kept depending on it: finding `stale-env-dependency`). -/
theorem partial_recycle_clears_env_rows (s s' : KState) (k : Key) (n : Node) (creator : Option Key) (i : StepInit)
    (hn : s.find? k = some n) (h : s.create k creator (.step i) = .ok s') :
    (s'.find? k).map (·.envs) = some [] := by
  unfold KState.create at h
  simp only [hn] at h
  split at h
  · simp [throw, throwThe, MonadExceptOf.throw] at h
  · split at h
    · simp [throw, throwThe, MonadExceptOf.throw] at h
    · obtain ⟨s3, hframe, hs'⟩ := recycleCore_step_split s s' k n creator i h
      have h3 := envFrame_find? s s3 hframe k
      rw [hn] at h3
      subst hs'
      unfold KState.initStepRow
      rw [find?_modify_self]
      · cases hf : s3.find? k with
        | none => simp [hf] at h3
        | some m => rfl
      · intro m hm; exact hm

/-- Second half: `Step.add_env_deps` adds exactly the declared names, as non-dynamic rows, and
keeps nothing else but what was there: on a step without rows the result is the declaration. -/
theorem addEnvDeps_rows (cfg : KConfig) (n : Node) (names : List String)
    (e : String × Option String × Bool) (he : e ∈ (addEnvDeps cfg n names).envs) :
    e ∈ n.envs ∨ (e.1 ∈ names ∧ e.2.2 = false) := by
  unfold addEnvDeps at he
  induction names generalizing n with
  | nil => exact Or.inl he
  | cons a as ih =>
    simp only [List.foldl_cons] at he
    rcases ih _ he with h | h
    · simp only [List.mem_append, List.mem_filter, List.mem_singleton] at h
      rcases h with h | h
      · exact Or.inl h.1
      · subst h; exact Or.inr ⟨List.mem_cons_self, rfl⟩
    · exact Or.inr ⟨List.mem_cons_of_mem _ h.1, h.2⟩

/-- Every declared name gets a row. -/
theorem addEnvDeps_complete (cfg : KConfig) (n : Node) (names : List String) (a : String) (ha : a ∈ names) :
    ∃ e ∈ (addEnvDeps cfg n names).envs, e.1 = a := by
  unfold addEnvDeps
  induction names generalizing n with
  | nil => cases ha
  | cons x xs ih =>
    simp only [List.foldl_cons]
    by_cases hmem : a ∈ xs
    · exact ih _ hmem
    · have hax : a = x := by
        rcases List.mem_cons.mp ha with h | h
        · exact h
        · exact absurd h hmem
      subst hax
      -- the row appended for `a` is not removed by the later names
      have keep : ∀ (l : List String) (m : Node), a ∉ l → (∃ e ∈ m.envs, e.1 = a) →
          ∃ e ∈ (l.foldl (fun n name =>
            { n with envs := (n.envs.filter (·.1 ≠ name)) ++ [(name, envValue cfg name, false)] }) m).envs, e.1 = a := by
        intro l
        induction l with
        | nil => intro m _ h; exact h
        | cons y ys ihy =>
          intro m hnot ⟨e, hem, hea⟩
          simp only [List.foldl_cons]
          apply ihy
          · exact fun h => hnot (List.mem_cons_of_mem _ h)
          · refine ⟨e, ?_, hea⟩
            simp only [List.mem_append, List.mem_filter]
            left
            refine ⟨hem, ?_⟩
            simp only [ne_eq, decide_eq_true_eq]
            intro h
            exact hnot (by rw [← hea, h]; exact List.mem_cons_self)
      exact keep xs _ hmem ⟨(a, envValue cfg a, false), by simp, rfl⟩

/-- On a step without recorded variables (a fresh node, or a partially recycled one by
`partial_recycle_clears_env_rows`), `add_env_deps` records exactly the declaration. -/
theorem addEnvDeps_from_empty (cfg : KConfig) (n : Node) (names : List String) (hn : n.envs = []) :
    ∀ e ∈ (addEnvDeps cfg n names).envs, e.1 ∈ names ∧ e.2.2 = false := by
  intro e he
  rcases addEnvDeps_rows cfg n names e he with h | h
  · rw [hn] at h; cases h
  · exact h

/-- **redefinition_declares_env**: for every state, every creator and every declaration, in all
three branches of `define_step` (full recycle, partial recycle, fresh node). Full recycle: the
rows are kept (`recycleStep_envsOf`) and `can_recycle` has checked that their names are the
declared ones.  Otherwise: `Trellis.create` leaves the step without rows (`create_step_envsOf`),
`supply_files` and the product declarations touch no `env_var` row of a step
(`supplyFiles_envsOf`, `declareProducts_envsOf`), and `add_env_deps` writes the declared names. -/
theorem redefinition_declares_env : RedefinitionDeclaresEnv := by
  intro s s' cfg creator d chk sk n h hlabel hkind hfind e he hdyn
  rw [defineStep_eq_body] at h
  have henv : d.normalised.env = normPaths d.env := rfl
  have hcmd : stepLabel d.normalised.cmd d.normalised.workdir = some sk.label := hlabel
  generalize d.normalised = d' at h henv hcmd
  unfold KState.defineBody at h
  simp only [bind, Except.bind] at h
  rw [← henv]
  cases hg : s.defineGuard cfg creator d' with
  | error err => simp [hg] at h
  | ok v =>
    simp only [hg] at h
    obtain ⟨label, hl, hv⟩ := defineGuard_key s cfg creator d' v hg
    have hsk : v = sk := by
      rw [hcmd] at hl
      have : sk.label = label := Option.some.inj hl
      subst hv
      cases sk with
      | mk kind lab =>
        simp only at hkind this
        subst hkind this
        rfl
    subst hsk
    have henvs : s'.envsOf v = some n.envs := by simp [KState.envsOf, hfind]
    -- the creation branch
    have hcreate : ∀ r, s.createStep cfg v creator d' = .ok r → r = (s', chk) → e.1 ∈ d'.env := by
      intro r hr hrs
      obtain ⟨n3, hn3, hrows⟩ := createStep_env_rows s cfg v creator d' r hkind hr
      rw [hrs] at hrows
      rw [henvs] at hrows
      have he' : e ∈ (addEnvDeps cfg n3 d'.env).envs := by rw [← Option.some.inj hrows]; exact he
      rcases addEnvDeps_rows cfg n3 d'.env e he' with h1 | h1
      · rw [hn3] at h1; cases h1
      · exact h1.1
    cases hf : s.find? v with
    | none =>
      simp only [hf] at h
      cases hng : s.newStepGuard v d' with
      | error err => simp [hng] at h
      | ok u =>
        simp only [hng] at h
        exact hcreate _ h rfl
    | some n0 =>
      simp only [hf] at h
      split at h
      · rename_i hrec
        cases hr : s.recycleStep v creator d' n0 with
        | error err => simp [hr] at h
        | ok s1 =>
          simp only [hr, pure, Except.pure, Except.ok.injEq, Prod.mk.injEq] at h
          obtain ⟨hs1, _⟩ := h
          subst hs1
          have hsame := recycleStep_envsOf s s1 v creator d' n0 hr v
          rw [henvs] at hsame
          have hn0 : n.envs = n0.envs := by
            simpa [KState.envsOf, hf] using hsame
          -- `can_recycle`: the recorded non-dynamic names are the declared ones
          have hcan := hrec.2
          unfold KState.canRecycle at hcan
          simp only [hf, decide_eq_true_eq] at hcan
          have hnames := hcan.2.1
          have : e.1 ∈ sortStrs ((n0.envs.filter fun e => !e.2.2).map (·.1)) := by
            rw [mem_sortStrs, List.mem_map]
            refine ⟨e, ?_, rfl⟩
            rw [List.mem_filter]
            exact ⟨hn0 ▸ he, by simp [hdyn]⟩
          rw [hnames, mem_sortStrs] at this
          exact this
      · cases hng : s.newStepGuard v d' with
        | error err => simp [hng] at h
        | ok u =>
          simp only [hng] at h
          exact hcreate _ h rfl


/-- **Fix 2c5d2b4**: a full recycle with a changed shell flag or changed environment overrides
(both are ingredients of the step hash) does not keep the step SUCCEEDED: `Step.after_recycle`
marks it pending, so it is checked against its stored hash, which differs, and reruns (finding
`redefinition-not-noticed`). -/
theorem recycle_rechecks_changed_shell_or_overrides (s s' : KState) (sk : Key) (d : StepDecl) (n : Node)
    (hch : n.shell ≠ d.shell ∨ n.overrides ≠ d.overrides) (h : s.afterRecycle sk d n = .ok s') :
    ∀ st, s'.sstateOf sk = some st → st = .pending ∨ st = .running ∨ st = .checking := by
  unfold KState.afterRecycle at h
  rw [if_pos (Or.inr hch)] at h
  exact markStepPending_notDone _ _ s' sk h

/-- **Fix bd1d0f5**: a step that is recorded SUCCEEDED has the current value of every tracked
environment variable recorded with it, so the next `rescan_env_vars` under the same environment
does not mark it (finding `env-value-reverted-not-noticed`: before, the value recorded at
declaration time was compared, and a variable changed 1 -> 2 -> 1 went unnoticed). -/
theorem success_records_current_env (s s' : KState) (cfg : KConfig) (step : Key) (hash : Nat)
    (h : s.completeSuccess cfg step hash = .ok s') :
    ∀ n, s'.find? step = some n → ∀ e ∈ n.envs, envValue cfg e.1 = e.2.1 := by
  unfold KState.completeSuccess at h
  simp only [bind, Except.bind] at h
  cases h1 : s.setStepState step .succeeded with
  | error e => simp [h1] at h
  | ok s1 =>
    simp only [h1] at h
    cases h2 : s1.rebuildOutdatedProducts step with
    | error e => simp [h2] at h
    | ok s2 =>
      simp only [h2, pure, Except.pure, Except.ok.injEq] at h
      subst h
      intro n hn e he
      unfold KState.refreshEnvValues at hn
      rw [find?_modify_self] at hn
      · cases hf : (s2.setHash step hash).find? step with
        | none => simp [hf] at hn
        | some m =>
          simp only [hf, Option.map_some, Option.some.injEq] at hn
          subst hn
          simp only [List.mem_map] at he
          obtain ⟨e0, _, rfl⟩ := he
          rfl
      · intro m hm; exact hm

/-! Non-vacuity -/
example : trySkip (⟨1, 2⟩ : Digests Nat) (some 1) (some 2) = .skipped ⟨1, 2⟩ := by decide
example : trySkip (⟨1, 2⟩ : Digests Nat) (some 1) (some 3) = .resetOutputs := by decide
example : Sound KState.init :=
  ⟨by intro q st h
      unfold KState.sstateOf KState.find? KState.init at h
      simp only [List.find?_cons, List.find?_nil] at h
      split at h
      · simp only [Option.map_some, Option.some.injEq] at h
        subst h; exact ⟨by simp, by simp⟩
      · simp at h,
   by intro d hd; simp [KState.init] at hd,
   by intro d hd; have := hd.1; simp [KState.init] at this,
   by intro d hd; have := hd.1; simp [KState.init] at this,
   by intro d hd; simp [KState.init] at hd⟩
example : Downstream [({ src := fileKey "a", snk := stepKey "s" } : Dep)] (fileKey "a") (stepKey "s") :=
  .direct _ List.mem_cons_self rfl

end StepupModel.Props.C01
