import StepupModel.Props.C10
import StepupModel.Lemmas.MetaAfterW
/-!
# C11  Exactly the needed steps are executed

Kernel part: what `UPDATE_CHECK_AFTER` computes for one step (`afterValues`), the dispatch
threshold, and the selection of `revert_optional_steps`.  That the cached `_implied_need` equals
its from-scratch definition at every dispatch decision is decided by the oracle of C10/C11 on the
real database; that exactly the needed steps ran in whole builds by the simulated director.
-/
namespace StepupModel.Props.C11
open StepupModel.K StepupModel.Generated StepupModel.Props

theorem max_rank_left (a b : Need) : a.rank ≤ (a.max b).rank := by
  unfold Need.max; split <;> omega

theorem max_rank_right (a b : Need) : b.rank ≤ (a.max b).rank := by
  unfold Need.max; split <;> omega

theorem foldl_max_ge_init (l : List Node) (init : Need) :
    init.rank ≤ (l.foldl (fun acc m => acc.max m.impliedNeed) init).rank := by
  induction l generalizing init with
  | nil => exact Nat.le_refl _
  | cons x xs ih => exact Nat.le_trans (max_rank_left init x.impliedNeed) (ih _)

theorem foldl_max_ge_mem (l : List Node) (init : Need) (m : Node) (hm : m ∈ l) :
    m.impliedNeed.rank ≤ (l.foldl (fun acc m => acc.max m.impliedNeed) init).rank := by
  induction l generalizing init with
  | nil => cases hm
  | cons x xs ih =>
    simp only [List.mem_cons] at hm
    rcases hm with rfl | hm
    · exact Nat.le_trans (max_rank_right init m.impliedNeed) (foldl_max_ge_init xs _)
    · exact ih _ hm

/-- The recomputed implied need of a step is never below its declared need: a non-optional step
is always needed. -/
theorem implied_ge_declared (s : KState) (cfg : KConfig) (n : Node) :
    n.need.rank ≤ (s.afterValues cfg n).1.rank := by
  unfold KState.afterValues
  simp only
  exact Nat.le_trans (max_rank_left _ _) (foldl_max_ge_init _ _)

/-- A step with a regular output that is an exact target is elevated to at least TARGET,
whatever its declared need (an OPTIONAL producer of a named file is built). -/
theorem exact_target_elevates (s : KState) (cfg : KConfig) (n : Node) (o : String)
    (ho : o ∈ s.regularOutputs n.key) (ht : o ∈ cfg.targets) :
    Need.target.rank ≤ (s.afterValues cfg n).1.rank := by
  unfold KState.afterValues
  simp only
  have hany : (s.regularOutputs n.key).any cfg.targets.contains = true := by
    rw [List.any_eq_true]; exact ⟨o, ho, by simpa using ht⟩
  simp only [hany, if_true]
  exact Nat.le_trans (max_rank_right _ _) (foldl_max_ge_init _ _)

/-- A directory target only elevates steps declared DEFAULT: an OPTIONAL step whose outputs are
no exact targets gets no elevation from targets at all. -/
theorem dir_target_spares_optional (s : KState) (cfg : KConfig) (n : Node) (hn : n.need = .optional)
    (hno : (s.regularOutputs n.key).any cfg.targets.contains = false)
    (hsinks : s.consumerSteps n.key = []) :
    (s.afterValues cfg n).1 = .optional := by
  unfold KState.afterValues
  simp [hno, hn, hsinks, Need.max, Need.rank]

/-- Need propagates against the dependency direction: a step is needed at least as much as every
attached step that consumes one of its outputs (this is what makes an OPTIONAL producer of an
input of a built step be built, transitively). -/
theorem consumer_elevates (s : KState) (cfg : KConfig) (n : Node) (f c : Key) (m : Node)
    (hf : f ∈ s.sinksOf n.key) (hc : c ∈ s.sinksOf f) (hm : s.find? c = some m)
    (hk : m.key.kind = .step) (hd : m.detached = false) :
    m.impliedNeed.rank ≤ (s.afterValues cfg n).1.rank := by
  unfold KState.afterValues
  simp only
  apply foldl_max_ge_mem
  unfold KState.consumerSteps
  rw [List.mem_filterMap]
  refine ⟨c, ?_, by simp [hm, hk, hd]⟩
  rw [List.mem_flatMap]
  exact ⟨f, hf, hc⟩

/-- The dispatch threshold: without targets everything above OPTIONAL is built; with file or
directory targets only what is above DEFAULT (TARGET and PLAN). -/
theorem threshold_spec (cfg : KConfig) :
    cfg.threshold = (if cfg.targets = [] ∧ cfg.targetDirs = [] then Need.optional else Need.default) := by
  unfold KConfig.threshold
  simp [List.isEmpty_iff]

/-- Only needed steps are dispatched: the implied need of a dispatched step exceeds the
threshold; in particular a step whose implied need is OPTIONAL never runs. -/
theorem dispatched_is_needed (s : KState) (cfg : KConfig) (n : Node) (h : s.eligible cfg n = true) :
    cfg.threshold.rank < n.impliedNeed.rank ∧ n.impliedNeed ≠ .optional :=
  ⟨(C10.eligible_sound s cfg n h).2.2.2.2.2.2.1, (C10.eligible_sound s cfg n h).2.2.2.2.2.1⟩

/-- With targets, a DEFAULT step that no target elevates is not dispatched. -/
theorem default_not_built_under_targets (s : KState) (cfg : KConfig) (n : Node)
    (ht : ¬ (cfg.targets = [] ∧ cfg.targetDirs = [])) (hn : n.impliedNeed = .default) :
    s.eligible cfg n = false := by
  cases he : s.eligible cfg n with
  | false => rfl
  | true =>
    have := (dispatched_is_needed s cfg n he).1
    rw [threshold_spec, if_neg ht, hn] at this
    simp [Need.rank] at this

/-! Non-vacuity -/
example : (Need.optional.max .target).rank = 2 := by decide

/-! ## The need of a step after a metadata refresh, in closed form -/

open StepupModel.K.MetaAfter in
/-- After a refresh (`AfterConsistent`), on an acyclic table: the cached need of an attached step is
the maximum of the OWN needs (declared need, or TARGET for a producer of a target) of the
attached steps it transitively feeds (itself included): it dominates each of them and is attained
by one of them.  "An optional step is built exactly when one of its outputs is required, directly
or through other optional steps, as input of a step that is built". -/
theorem implied_need_closed_form {s : KState} {cfg : KConfig} (hac : Acyclic s) (hc : AfterConsistent s cfg)
    {n : Node} (hn : n ∈ s.nodes) (hs : n.key.kind = .step) (hd : n.detached = false) :
    (∀ p, Feeds s n p → (ownNeed s cfg p).rank ≤ n.impliedNeed.rank) ∧
    ∃ p, Feeds s n p ∧ ownNeed s cfg p = n.impliedNeed :=
  implied_closed_form hac hc hn hs hd

open StepupModel.K.MetaAfter in
/-- An OPTIONAL step that produces no target and whose attached consumers are all OPTIONAL-implied
is not dispatched. -/
theorem unneeded_optional_not_dispatched {s : KState} {cfg : KConfig} {n : Node} (h : AfterLocal s cfg n)
    (hn : n.need = .optional) (hno : (s.regularOutputs n.key).any cfg.targets.contains = false)
    (hcons : ∀ m ∈ s.consumerSteps n.key, m.impliedNeed = .optional) : s.eligible cfg n = false :=
  optional_not_dispatched h hn hno hcons

open StepupModel.K.MetaAfter in
/-- Every dispatched step has a reason: on a table that obeys the flag discipline, a step that
`pop_next_job` dispatches is, or transitively feeds, an attached step whose own need (its declared
need, or TARGET because it produces a requested target) exceeds the threshold of the build. -/
theorem dispatched_step_has_a_reason (s s' : KState) (cfg : KConfig) (k : Key) (d : Dispatch)
    (hk : KeysUnique s) (hac : Acyclic s) (hc : CacheInvAfterW s cfg)
    (h : s.popNext cfg (some k) = .ok (s', d)) :
    ∃ s1 n p, s.updateMeta cfg = .ok s1 ∧ AfterConsistent s1 cfg ∧ n ∈ s1.nodes ∧ n.key = k ∧
      Feeds s1 n p ∧ cfg.threshold.rank < (ownNeed s1 cfg p).rank ∧
      (ownNeed s1 cfg p = p.need ∨ (ownNeed s1 cfg p = .target ∧ TargetHit s1 cfg p)) :=
  popNext_job_has_reason_weak s s' cfg k d hk hac hc h

end StepupModel.Props.C11
