import StepupModel.Lemmas.KGlobal
import StepupModel.Lemmas.StableInst
import StepupModel.Lemmas.Acyclic
import StepupModel.Lemmas.Reach
import StepupModel.Lemmas.EverOutput
import StepupModel.Lemmas.SuccOutputs
import StepupModel.Lemmas.SuccOutputsWitness
import StepupModel.Lemmas.SuccOutputsGuard
/-!
# C09  The stored workflow satisfies its invariants after every transaction

Theorems about the kernel model (`K/*.lean`); the tie is the kernel correspondence over all
scopes plus the regenerated tables.  First round (see DESIGN section 9/C09): table obligations,
the per-primitive state/hash invariants, the creator-cycle guard, and the lift of the state/hash
consistency to every request (`KState.exec`, the function the driver runs and the correspondence
compares) and every history of accepted and rejected requests (`KState.run`).  The other clauses
of `Inv` are evaluated on the real database by the oracle after every request.
-/
namespace StepupModel.Props.C09
open StepupModel.K StepupModel.Generated

/-! ## Obligations on the regenerated transition table -/

/-- Every hash transition keeps the role of the file: the documented state transitions of a
file never turn a static file into an output or vice versa. -/
theorem transitions_preserve_role :
    ∀ e ∈ hashTransitions, (e.1.2.1).role? = (e.2.1).role? := by decide

/-- A transition into CONFIRMED / BUILT / OUTDATED always comes with a known hash, one into
MISSING happens only when the hash is unknown (the file is not on disk). -/
theorem transitions_hash_consistent :
    ∀ e ∈ hashTransitions,
      ((e.2.1 = .confirmed ∨ e.2.1 = .built ∨ e.2.1 = .outdated) → e.1.2.2 = true) ∧
      (e.2.1 = .missing → e.1.2.2 = false) := by decide

/-- No transition starts from or leads to UNDECLARED, VOLATILE: hash updates only concern
declared static files and regular outputs. -/
theorem transitions_domain :
    ∀ e ∈ hashTransitions, e.1.2.1 ≠ .undeclared ∧ e.1.2.1 ≠ .volatile ∧ e.2.1 ≠ .undeclared ∧
      e.2.1 ≠ .volatile ∧ e.2.1 ≠ .unconfirmed := by decide

/-- The table is a function: one entry per (cause, state, known). -/
theorem transitions_functional :
    ∀ e ∈ hashTransitions, ∀ f ∈ hashTransitions, e.1 = f.1 → e.2 = f.2 := by decide

/-- Every "deleted" action leaves the file MISSING or PLANNED; "completed" leaves it available. -/
theorem transitions_actions :
    ∀ e ∈ hashTransitions,
      (e.2.2 = some .deleted → e.2.1 = .missing ∨ e.2.1 = .planned) ∧
      (e.2.2 = some .completed → e.2.1 = .confirmed ∨ e.2.1 = .built) := by decide

/-! ## State / hash consistency of one file row (I5) -/

/-! The row-level invariant the `file` table keeps is `K.HashInv` (`Lemmas/Inv.lean`): states that
promise a hash have one, states that must not have one do not. -/

/-- Whatever is written to a `file` row (every `UPDATE file` of the code goes through
`fileRowWrite`), the row it leaves satisfies `HashInv`: the CHECK constraint rejects the first
kind of violation and the `file_clear_hash` trigger repairs the second.  The write touches no
other column of the row, and an UNDECLARED state is only ever written on a detached node (I3). -/
theorem fileRowWrite_inv (n n' : Node) (st : FileState) (nh : Option (Option Nat))
    (h : fileRowWrite n st nh = .ok n') :
    HashInv n'.fstate n'.fhash ∧ n'.fstate = st ∧ (st = .undeclared → n'.detached = true) ∧
      n'.key = n.key ∧ n'.creator = n.creator ∧ n'.detached = n.detached := by
  unfold fileRowWrite at h
  dsimp only at h
  by_cases hcheck : (st = .confirmed ∨ st = .built ∨ st = .outdated) ∧
      (pickHash nh n.fhash).isNone
  · rw [if_pos hcheck] at h
    cases h
  · by_cases hund : st = .undeclared ∧ (!n.detached) = true
    · rw [if_neg hcheck, if_pos hund] at h
      cases h
    · rw [if_neg hcheck, if_neg hund] at h
      simp only [pure, Except.pure, Except.ok.injEq] at h
      subst h
      refine ⟨⟨?_, ?_⟩, rfl, ?_, rfl, rfl, rfl⟩
      · intro hst
        have hcl : clearsHash n.fstate st = false := by
          rcases hst with rfl | rfl | rfl <;> simp [clearsHash]
        simp only [hcl, Bool.false_eq_true, if_false]
        cases hh : (pickHash nh n.fhash) with
        | some v => simp
        | none => exact absurd ⟨hst, by simp [hh]⟩ hcheck
      · intro hst
        have hcl : clearsHash n.fstate st = true := by
          rcases hst with rfl | rfl | rfl <;> simp [clearsHash]
        simp [hcl]
      · intro hu
        cases hd : n.detached with
        | true => rfl
        | false => exact absurd ⟨hu, by simp [hd]⟩ hund

/-- Row-level invariant of the `step` table: a deferred step is PENDING, a holding step is
RUNNING. -/
def StepRowInv (n : Node) : Prop :=
  (n.deferred = true → n.sstate = .pending) ∧ (0 < n.holding → n.sstate = .running)

/-- Every `UPDATE step SET state` (all of them go through `stepRowWrite`) leaves a row that
satisfies `StepRowInv`, whatever the row was before: the CHECK constraint and the triggers
`step_reset_holding`, `step_clear_deferred` enforce it.  It also flags `_check_safe`, and a
SUCCEEDED step restarts its defer count. -/
theorem stepRowWrite_inv (n n' : Node) (st : StepState) (d : Option Bool)
    (h : stepRowWrite n st d = .ok n') :
    StepRowInv n' ∧ n'.sstate = st ∧ n'.checkSafe = true ∧ (st = .succeeded → n'.deferCount = 0) ∧
      n'.key = n.key ∧ n'.creator = n.creator ∧ n'.detached = n.detached ∧ n'.shash = n.shash := by
  unfold stepRowWrite at h
  dsimp only at h
  by_cases hcheck : (pickDeferred d n.deferred) = true ∧ st ≠ .pending
  · rw [if_pos hcheck] at h
    cases h
  · rw [if_neg hcheck] at h
    simp only [pure, Except.pure, Except.ok.injEq] at h
    subst h
    refine ⟨⟨?_, ?_⟩, rfl, rfl, ?_, rfl, rfl, rfl, rfl⟩
    · intro hd
      simp only at hd ⊢
      by_cases hsf : st = .succeeded ∨ st = .failed
      · simp [hsf] at hd
      · simp only [hsf, if_false] at hd
        cases hp : decide (st = .pending) with
        | true => simpa using hp
        | false => exact absurd ⟨hd, by simpa using hp⟩ hcheck
    · intro hh
      simp only at hh ⊢
      by_cases hr : st = .running
      · exact hr
      · simp [hr] at hh
    · intro hs; simp [hs]

/-- A rejected write leaves no trace: the functions return an error instead of a row. -/
theorem fileRowWrite_rejects (n : Node) (st : FileState) (nh : Option (Option Nat)) :
    (∃ e, fileRowWrite n st nh = .error e) ↔
      (((st = .confirmed ∨ st = .built ∨ st = .outdated) ∧
          (pickHash nh n.fhash).isNone = true) ∨
        (st = .undeclared ∧ n.detached = false)) := by
  unfold fileRowWrite
  dsimp only
  by_cases hc : (st = .confirmed ∨ st = .built ∨ st = .outdated) ∧
      (pickHash nh n.fhash).isNone = true
  · rw [if_pos hc]
    exact ⟨fun _ => Or.inl hc, fun _ => ⟨_, rfl⟩⟩
  · by_cases hu : st = .undeclared ∧ (!n.detached) = true
    · rw [if_neg hc, if_pos hu]
      exact ⟨fun _ => Or.inr ⟨hu.1, by simpa using hu.2⟩, fun _ => ⟨_, rfl⟩⟩
    · rw [if_neg hc, if_neg hu]
      constructor
      · rintro ⟨e, h⟩; cases h
      · rintro (h | ⟨h1, h2⟩)
        · exact absurd h hc
        · exact absurd ⟨h1, by simp [h2]⟩ hu

/-! ## The creator-cycle guard (fix of F11 / F13) -/

/-- `reattach` refuses a creator that is the node itself or one of its recursive products and
leaves the state untouched (the request is rolled back). -/
theorem reattach_rejects_own_subtree (s : KState) (k c : Key) (n : Node)
    (hn : s.find? k = some n) (hd : n.detached = true) (hc : s.createdBy k c = true) :
    ∃ msg, s.reattach k c = .error (.graph msg) := by
  refine ⟨"recreated by itself or by one of its own products", ?_⟩
  unfold KState.reattach
  simp [hn, hd, hc]
  rfl

/-- `create` refuses to recreate a node by itself. -/
theorem create_rejects_self (s : KState) (k : Key) (n : Node) (init : Init)
    (hn : s.find? k = some n) (hd : n.detached = true) :
    ∃ msg, s.create k (some k) init = .error (.graph msg) := by
  refine ⟨"recreated by itself", ?_⟩
  unfold KState.create
  simp [hn, hd]
  rfl

/-! ## State/hash consistency of the whole database, after every request and every history -/

/-- A request of any kind (declaration, dispatch, completion, hash update, cleanup, startup
routine) that is accepted maps a database in which every file row is state/hash consistent to
such a database. -/
theorem request_keeps_state_hash_consistency (cfg : KConfig) (r : Req) (s : KState) (res : KState × String)
    (hinv : FilesOK s) (h : s.exec cfg r = .ok res) : FilesOK res.1 :=
  exec_filesOK cfg r s res hinv h

/-- After every history of requests, valid or rejected (a rejected one is rolled back), each
under its own configuration, starting from the empty workflow: every file row of the stored
workflow is state/hash consistent. -/
theorem state_hash_consistent_after_every_history (h : List (KConfig × Req)) :
    ∀ n ∈ (KState.init.run h).nodes, HashInv n.fstate n.fhash :=
  run_filesOK h KState.init init_filesOK

/-- A rejected request leaves the stored workflow exactly as it was. -/
theorem rejected_request_changes_nothing (cfg : KConfig) (r : Req) (s : KState) (e : Err)
    (h : s.exec cfg r = .error e) : s.step cfg r = s := by
  unfold KState.step; rw [h]

/-! ## Every predicate that the primitive writes keep is an invariant of every history -/

/-- The meta-theorem behind the invariants of this file: `Stable P` lists what the primitive
writes of the kernel (cache-only row updates, `fileRowWrite`, `stepRowWrite`, edge insertion
under its kind check, edge deletion, node insertion under a fresh key, node removal, the queue)
must preserve; every request function of the model is composed of those writes, so `P` then
holds after every history of accepted and rejected requests. -/
theorem stable_predicate_is_invariant {P : KState → Prop} (L : Stable P) (h0 : P KState.init)
    (h : List (KConfig × Req)) : P (KState.init.run h) :=
  reachable_stable L h0 h

/-- "Dependencies only link files with steps": every edge of every reachable database goes
file -> step, step -> file or static tree -> file. -/
theorem dependencies_link_files_with_steps_after_every_history (h : List (KConfig × Req)) :
    ∀ d ∈ (KState.init.run h).deps, depKindOk d.src.kind d.snk.kind = true :=
  depsKindOK_reachable h

/-- One row per (kind, label) in every reachable database: a path or a step label never has two
nodes (the structural half of "every path has one owner"). -/
theorem one_node_per_key_after_every_history (h : List (KConfig × Req)) :
    ((KState.init.run h).nodes.map (·.key)).Nodup :=
  keysNodup_reachable h

/-- "A node is marked detached exactly when it is not reachable from the root through creator
links", after every history of accepted and rejected requests.  `Reach s k`: following the creator
links from `k` arrives at the root.  The invariant behind it (`Forest`: unique keys, every creator
exists, the root is attached and its own creator, an attached node has an attached creator, a
detached node has no attached creator) is preserved by every request; creator links among attached
nodes are well-founded in every reachable database; the recursive walk of
`RECURSIVELY_SET_DETACHED` reaches exactly the recursive products (`mem_descendants`). -/
theorem detached_iff_unreachable_after_every_history (h : List (KConfig × Req)) :
    ∀ n ∈ (KState.init.run h).nodes, (n.detached = true ↔ ¬ Reach (KState.init.run h) n.key) :=
  detached_iff_not_reach_reachable h

/-- The local form `Trellis._check_consistency` tests at every restart holds after every history:
the root is attached, an attached node has an attached creator, a detached node has no attached
creator. -/
theorem creator_links_consistent_after_every_history (h : List (KConfig × Req)) :
    CreatorOK (KState.init.run h) :=
  creatorOK_reachable h

/-- A request to detach the root is rejected (the CHECK constraints of the `node` table) and
leaves the database unchanged. -/
theorem detach_root_is_a_noop (s : KState) (cfg : KConfig) (hr : RootAttached s) :
    s.step cfg (.detach rootKey) = s :=
  detach_root_request_noop s cfg hr

/-- "A file without any declaration is detached", after every history: an UNDECLARED file row (the
placeholder for an input nobody has declared yet) is detached and has no creator. -/
theorem undeclared_file_is_detached_after_every_history (h : List (KConfig × Req)) :
    ∀ n ∈ (KState.init.run h).nodes, n.key.kind = .file → n.fstate = .undeclared →
      n.detached = true ∧ n.creator = none :=
  fun n hn hk hu => ⟨StepupModel.K.Ever.undeclared_is_detached h n hn hk hu,
    StepupModel.K.Ever.undeclared_has_no_creator h n hn hk hu⟩

/-! ## I4: a SUCCEEDED step's outputs are BUILT (or VOLATILE) -/

open StepupModel.K.SuccOut in
/-- **"Every attached output of a SUCCEEDED step is BUILT or VOLATILE" after every history** whose
requests satisfy `ReqOKS` (20 of the 24 request kinds unconditionally; rejected requests and changing
configurations allowed): a raw `set_state(SUCCEEDED)` only when the outputs are already built (the
code sets SUCCEEDED only inside `mark_completed`), `completed` with a hash only when no own output is
still PLANNED (`update_file_hashes(.., SUCCEEDED)` precedes `mark_completed` in the same transaction),
no `amend` and no `reset_for_rerun` of a step that is SUCCEEDED (both act on the RUNNING step that
issued them / was just popped).  In the executor's order of requests the invariant holds after
every kernel request, not only at the end of the director transaction. -/
theorem succeeded_outputs_built_after_every_history (h : List (KConfig × Req)) (hg : HistOKS KState.init h) :
    SuccOutputsOK (KState.init.run h) :=
  succOutputs_after_every_history h hg

open StepupModel.K.SuccOut in
/-- The inductive form: any state that satisfies the invariant (not only a reachable one, e.g. a
database read at a restart) keeps it under every accepted or rejected request that satisfies the
side condition. -/
theorem request_keeps_succeeded_outputs_invariant (cfg : KConfig) (r : Req) (s : KState) (hr : ReqOKS s r)
    (hp : Inv4 s) : Inv4 (s.step cfg r) ∧ (CreatorOK (s.step cfg r) → SuccOutputsOK (s.step cfg r)) :=
  ⟨step_JK cfg r s hr hp, fun hc => succOutputsOK_of_JK (step_JK cfg r s hr hp) hc⟩

open StepupModel.K.SuccOut in
/-- Each of the four side conditions is necessary: a kernel-checked state that satisfies I4 (and, for
the first three, the whole inductive invariant), a request the guard refuses, and I4 false after it.
The same histories are replayed on the real code (`harness/witness/succ_outputs_*.txt`): model and
implementation agree, and the implementation-side oracle reports the I4 violation after the last
line.  The director issues none of the four. -/
theorem succeeded_outputs_side_conditions_needed :
    (SuccOutputsOK wState1 ∧ Inv4 wState1 ∧ ¬ ReqOKS wState1 (.setState (stepKey "A") .succeeded) ∧
      ∃ s', wState1.exec wCfg (.setState (stepKey "A") .succeeded) = .ok s' ∧ ¬ SuccOutputsOK s'.1) ∧
    (SuccOutputsOK wState2 ∧ Inv4 wState2 ∧ ¬ ReqOKS wState2 (.completed (stepKey "A") (some 7) false) ∧
      ∃ s', wState2.exec wCfg (.completed (stepKey "A") (some 7) false) = .ok s' ∧ ¬ SuccOutputsOK s'.1) ∧
    (SuccOutputsOK wState3 ∧ Inv4 wState3 ∧ ¬ ReqOKS wState3 (.amend (stepKey "A") [] [] ["o2"] [] []) ∧
      ∃ s', wState3.exec wCfg (.amend (stepKey "A") [] [] ["o2"] [] []) = .ok s' ∧ ¬ SuccOutputsOK s'.1) ∧
    (SuccOutputsOK wState4 ∧ ¬ ReqOKS wState4 (.resetRerun (stepKey "A")) ∧
      ∃ s', wState4.exec wCfg (.resetRerun (stepKey "A")) = .ok s' ∧ ¬ SuccOutputsOK s'.1) :=
  ⟨⟨set_state_succeeded_breaks_I4.1, inv4_wState1, guard_refuses_set_state, set_state_succeeded_breaks_I4.2⟩,
   ⟨completed_with_planned_output_breaks_I4.1, inv4_wState2, guard_refuses_completed,
     completed_with_planned_output_breaks_I4.2⟩,
   ⟨amend_of_succeeded_step_breaks_I4.1, inv4_wState3, guard_refuses_amend, amend_of_succeeded_step_breaks_I4.2⟩,
   ⟨reset_for_rerun_of_succeeded_step_breaks_I4.1, guard_refuses_reset, reset_for_rerun_of_succeeded_step_breaks_I4.2⟩⟩

/-- "Dependencies are acyclic" after every history: no chain of dependency edges leads from a
node back to itself.  The insertion sites (`_supply_files`, `add_source`) check the recursive
sinks first; `mem_sinkClosure_iff` shows that the model of that recursive query computes exactly
the nodes reachable through edges, and a batch of new input edges of one step needs only one
check on the state before the batch. -/
theorem dependencies_acyclic_after_every_history (h : List (KConfig × Req)) :
    ∀ k, ¬ Path (KState.init.run h).deps k k :=
  acyclic_reachable h

/-- The cycle check of the model is exact: `b` is in the recursive sinks of `a` iff `b = a` or a
chain of edges leads from `a` to `b`. -/
theorem cycle_check_is_exact (s : KState) (a b : Key) :
    b ∈ s.sinkClosure a ↔ b = a ∨ Path s.deps a b :=
  mem_sinkClosure_iff s a b

/-- Acyclicity is NOT a consequence of the primitive writes alone (an unchecked, kind-correct
edge insertion can close a cycle): the check at the insertion sites is what carries it. -/
theorem acyclicity_needs_the_check : ¬ Stable Acyclic := acyclic_not_stable

theorem stepRowInv_eq (n : Node) : StepRowInv n ↔ StepRowOK n := Iff.rfl

/-- The step-row invariant (deferred => PENDING, holding => RUNNING) after every history whose
`hold` requests are issued for RUNNING steps, which is what `DirectorHandler.hold` does (it
resolves the job in flight).  The unguarded statement is false of the model and of the code:
see `hold_on_idle_step_negation`. -/
theorem step_rows_consistent_after_every_history_partial (h : List (KConfig × Req))
    (hg : HoldsGuarded HoldOnRunning KState.init h) :
    ∀ n ∈ (KState.init.run h).nodes, StepRowInv n :=
  stepRowsOK_reachable_guarded h hg

/-- `Step.hold` increments `_holding` without looking at the state: a `hold` request for a step
that is not running leaves a PENDING row with `_holding = 1`. -/
theorem hold_on_idle_step_negation :
    StepRowsOK holdWitness ∧ ¬ StepRowsOK (holdWitness.step {} (.hold (stepKey "x"))) :=
  ⟨hold_request_breaks_stepRowsOK.1, hold_request_breaks_stepRowsOK.2.2⟩

/-! Non-vacuity: concrete rows meet the hypotheses. -/
example : ∃ n', fileRowWrite { key := ⟨.file, "a"⟩, fstate := .planned } .built (some (some 7)) = .ok n' ∧
    n'.fhash = some 7 := ⟨_, rfl, rfl⟩
example : ∃ n', stepRowWrite { key := ⟨.step, "s"⟩, sstate := .running, holding := 2 } .succeeded (some false) = .ok n' ∧
    n'.holding = 0 := ⟨_, rfl, rfl⟩

/-- The hypothesis of `request_keeps_state_hash_consistency` is met by a non-trivial database: a
BUILT output with a hash next to a PLANNED one without.  (That histories reach such states is
observed on every run: the correspondence evidence counts the BUILT rows the sequences reach.) -/
example : FilesOK { KState.init with nodes := KState.init.nodes ++
    [{ key := ⟨.file, "b.txt"⟩, fstate := .built, fhash := some 9 },
     { key := ⟨.file, "c.txt"⟩, fstate := .planned, fhash := none }] } := by
  intro n hn
  simp [KState.init] at hn
  rcases hn with rfl | rfl | rfl <;> simp [HashInv]

end StepupModel.Props.C09
