import StepupModel.Lemmas.Restart
/-!
# C05  A build killed at any point is completed correctly after restart

What is proved here, on the kernel model (`K/*.lean`, tied to the code by the kernel
correspondence over all scopes):

* the restart's first transaction pair, `reset_interrupted_steps` (`resetInterrupted`): afterwards
  no step is RUNNING or CHECKING, no attached step is FAILED, every `_holding` counter is zero, and
  no file at the end of a dependency edge from an interrupted (RUNNING) or FAILED attached step is
  BUILT; more generally the reset creates no BUILT file behind a PENDING step except behind a step
  that was CHECKING (which never had a BUILT output, see the oracle's committed-state invariant);
* the two places that keep "no BUILT output behind a step that has not succeeded" true while a
  build runs: the failure branch of `mark_completed` and `reset_for_rerun`;
* the deletion queue `to_be_deleted` is memory only: `crash_leaves_orphan_files_negation` is the
  witness (finding F6) that a path can be gone from the graph, queued, and forgotten by a kill.

What is decided by the oracle only (`harness/props/c05.py`, simulated director): that the
database left by a kill after ANY commit or step action opens without consistency error under
`STEPUP_DEBUG=1`, and that the completed restart equals the uninterrupted build (graph, files,
return code).  `committed_states_invariant` of DESIGN is C09's theorem set (`Props/C09.lean`); the
SQL form of the invariants is evaluated by the oracle after every commit of every simulated build.
-/
namespace StepupModel.Props.C05
open StepupModel.K

/-! ## `reset_interrupted_steps` -/

/-- The keys written by `UPDATE step SET state = FAILED WHERE state = RUNNING`. -/
def runningRows (s : KState) : List Node := s.nodes.filter fun n => n.key.kind = .step ∧ n.sstate = .running
/-- The keys written by `UPDATE step SET state = PENDING WHERE state = CHECKING`. -/
def checkingRows (s : KState) : List Node := s.nodes.filter fun n => n.key.kind = .step ∧ n.sstate = .checking
/-- `workflow.steps(FAILED, include_detached=True)`: the FAILED steps, attached or detached (a detached one
comes back with its state when its creator is recycled), which are then marked pending. -/
def failedRows (s : KState) : List Node :=
  s.nodes.filter fun n => n.key.kind = .step ∧ n.sstate = .failed

/-- The three stages of `resetInterrupted`, named. -/
theorem reset_stages (s s' : KState) (h : s.resetInterrupted = .ok s') :
    ∃ s1 s2, (runningRows s).foldlM (fun st n => st.writeStepState n.key .failed none) s = .ok s1 ∧
      (checkingRows s).foldlM (fun st n => st.writeStepState n.key .pending none) s1 = .ok s2 ∧
      (failedRows s2).foldlM (fun st n => st.markStepPending n.key) s2 = .ok s' := by
  unfold KState.resetInterrupted at h
  obtain ⟨s1, h1, h⟩ := bind_eq_ok h
  obtain ⟨s2, h2, h⟩ := bind_eq_ok h
  exact ⟨s1, s2, h1, h2, h⟩

theorem mem_runningRows (s : KState) (q : Key) (hq : q.kind = .step) (h : s.sstateOf q = some .running) :
    q ∈ (runningRows s).map (·.key) := by
  unfold KState.sstateOf at h
  cases hf : s.find? q with
  | none => simp [hf] at h
  | some n =>
    simp only [hf, Option.map_some, Option.some.injEq] at h
    have hk := find?_key s q n hf
    rw [List.mem_map]
    exact ⟨n, by unfold runningRows; rw [List.mem_filter]; exact ⟨mem_nodes_of_find? hf, by simp [hk, hq, h]⟩, hk⟩

theorem mem_checkingRows (s : KState) (q : Key) (hq : q.kind = .step) (h : s.sstateOf q = some .checking) :
    q ∈ (checkingRows s).map (·.key) := by
  unfold KState.sstateOf at h
  cases hf : s.find? q with
  | none => simp [hf] at h
  | some n =>
    simp only [hf, Option.map_some, Option.some.injEq] at h
    have hk := find?_key s q n hf
    rw [List.mem_map]
    exact ⟨n, by unfold checkingRows; rw [List.mem_filter]; exact ⟨mem_nodes_of_find? hf, by simp [hk, hq, h]⟩, hk⟩

/-- The state of a step key after the two raw updates. -/
theorem after_raw_updates (s s1 s2 : KState)
    (h1 : (runningRows s).foldlM (fun st n => st.writeStepState n.key .failed none) s = .ok s1)
    (h2 : (checkingRows s).foldlM (fun st n => st.writeStepState n.key .pending none) s1 = .ok s2)
    (q : Key) (hq : q.kind = .step) :
    s2.sstateOf q ≠ some .running ∧ s2.sstateOf q ≠ some .checking ∧
      (s2.sstateOf q = some .pending → s.sstateOf q = some .pending ∨ q ∈ (checkingRows s).map (·.key)) ∧
      (q ∉ (runningRows s).map (·.key) → q ∉ (checkingRows s).map (·.key) → s2.sstateOf q = s.sstateOf q) ∧
      (q ∈ (runningRows s).map (·.key) → q ∉ (checkingRows s).map (·.key) → (s.sstateOf q).isSome →
        s2.sstateOf q = some .failed) := by
  obtain ⟨e1, _, _, _⟩ := foldlM_writeStepState .failed (runningRows s) s s1 h1
  obtain ⟨e2, _, _, _⟩ := foldlM_writeStepState .pending (checkingRows s) s1 s2 h2
  have hA : s1.sstateOf q ≠ some .running := by
    rw [e1 q]
    by_cases hm : q ∈ (runningRows s).map (·.key)
    · simp only [hm, if_true]; cases s.sstateOf q <;> simp
    · simp only [hm, if_false]; exact fun hr => hm (mem_runningRows s q hq hr)
  have hB : s1.sstateOf q = some .checking → s.sstateOf q = some .checking := by
    rw [e1 q]
    by_cases hm : q ∈ (runningRows s).map (·.key)
    · simp only [hm, if_true]; cases s.sstateOf q <;> simp
    · simp only [hm, if_false]; exact id
  refine ⟨?_, ?_, ?_, ?_, ?_⟩
  · rw [e2 q]
    by_cases hm : q ∈ (checkingRows s).map (·.key)
    · simp only [hm, if_true]; cases s1.sstateOf q <;> simp
    · simp only [hm, if_false]; exact hA
  · rw [e2 q]
    by_cases hm : q ∈ (checkingRows s).map (·.key)
    · simp only [hm, if_true]; cases s1.sstateOf q <;> simp
    · simp only [hm, if_false]; exact fun hc => hm (mem_checkingRows s q hq (hB hc))
  · intro hp
    by_cases hm : q ∈ (checkingRows s).map (·.key)
    · exact Or.inr hm
    · left
      rw [e2 q] at hp
      simp only [hm, if_false] at hp
      rw [e1 q] at hp
      by_cases hm1 : q ∈ (runningRows s).map (·.key)
      · simp only [hm1, if_true] at hp; cases hx : s.sstateOf q <;> simp [hx] at hp
      · simpa [hm1] using hp
  · intro hm1 hm2
    rw [e2 q, e1 q]; simp [hm1, hm2]
  · intro hm1 hm2 hsome
    rw [e2 q, e1 q]
    simp only [hm1, hm2, if_true, if_false]
    cases hx : s.sstateOf q with
    | none => simp [hx] at hsome
    | some y => rfl

/-- **After the reset no step is RUNNING or CHECKING.** -/
theorem reset_no_running_checking (s s' : KState) (h : s.resetInterrupted = .ok s') (q : Key)
    (hq : q.kind = .step) : s'.sstateOf q ≠ some .running ∧ s'.sstateOf q ≠ some .checking := by
  obtain ⟨s1, s2, h1, h2, h3⟩ := reset_stages s s' h
  obtain ⟨hr, hc, _⟩ := after_raw_updates s s1 s2 h1 h2 q hq
  exact ⟨foldlM_markStepPending_inv (propInv_stepNot q .running (by decide)) _ s2 s' hr h3,
    foldlM_markStepPending_inv (propInv_stepNot q .checking (by decide)) _ s2 s' hc h3⟩

/-- **After the reset no attached step is FAILED**: every step that failed in the killed build,
or was running when it was killed, is tried again. -/
theorem reset_no_attached_failed (s s' : KState) (h : s.resetInterrupted = .ok s') (q : Key)
    (hq : q.kind = .step) (hatt : s'.detachedOf q = some false) : s'.sstateOf q ≠ some .failed := by
  obtain ⟨s1, s2, h1, h2, h3⟩ := reset_stages s s' h
  intro hfail
  -- the step was FAILED and attached before the marking
  have hf2 : s2.sstateOf q = some .failed := by
    apply Classical.byContradiction
    intro hne
    exact foldlM_markStepPending_inv (propInv_stepNot q .failed (by decide)) _ s2 s' hne h3 hfail
  have hd2 : s2.detachedOf q = some false := by
    have := foldlM_markStepPending_inv (propInv_detachedOf q (s2.detachedOf q)) _ s2 s' rfl h3
    rw [← this]; exact hatt
  unfold KState.sstateOf at hf2
  unfold KState.detachedOf at hd2
  cases hfind : s2.find? q with
  | none => simp [hfind] at hf2
  | some n =>
    simp only [hfind, Option.map_some, Option.some.injEq] at hf2 hd2
    have hk := find?_key s2 q n hfind
    have hmem : n ∈ failedRows s2 := by
      unfold failedRows; rw [List.mem_filter]
      exact ⟨mem_nodes_of_find? hfind, by simp [hk, hq, hf2, hd2]⟩
    have hnd := foldlM_markStepPending_notDone _ s2 s' h3 n hmem
    rw [hk] at hnd
    rcases hnd _ hfail with e | e | e <;> cases e

/-- **After the reset every `_holding` counter is zero**, given the row invariant of C09 (a
positive counter only on a RUNNING step). -/
theorem reset_holding_zero (s s' : KState) (h : s.resetInterrupted = .ok s')
    (hinv : ∀ q n, s.find? q = some n → 0 < n.holding → n.sstate = .running)
    (q : Key) (hq : q.kind = .step) : ∀ n, s'.find? q = some n → n.holding = 0 := by
  obtain ⟨s1, s2, h1, h2, h3⟩ := reset_stages s s' h
  have z1 : ∀ n, s1.find? q = some n → n.holding = 0 := by
    apply foldlM_writeStepState_holding .failed (by decide) (runningRows s) q s s1 h1
    by_cases hm : q ∈ (runningRows s).map (·.key)
    · exact Or.inl hm
    · right
      intro n hn
      apply Classical.byContradiction
      intro hpos
      have hrun := hinv q n hn (Nat.pos_of_ne_zero hpos)
      exact hm (mem_runningRows s q hq (by simp [KState.sstateOf, hn, hrun]))
  have z2 : ∀ n, s2.find? q = some n → n.holding = 0 :=
    foldlM_writeStepState_holding .pending (by decide) (checkingRows s) q s1 s2 h2 (Or.inr z1)
  exact foldlM_markStepPending_inv (propInv_holdingZero q) _ s2 s' z2 h3

/-- The reset creates no BUILT file behind a PENDING step, except behind a step that was
CHECKING when the build was killed: every such pair after the reset existed before it. -/
theorem reset_pending_built_origin (s s' : KState) (h : s.resetInterrupted = .ok s') (d : Dep)
    (hsrc : d.src.kind = .step) (hd : PendingBuilt s' d) :
    PendingBuilt s d ∨ (d.src ∈ (checkingRows s).map (·.key) ∧ s.fstateOf d.snk = some .built) := by
  obtain ⟨s1, s2, h1, h2, h3⟩ := reset_stages s s' h
  obtain ⟨_, f1, _, d1⟩ := foldlM_writeStepState .failed (runningRows s) s s1 h1
  obtain ⟨_, f2, _, d2⟩ := foldlM_writeStepState .pending (checkingRows s) s1 s2 h2
  obtain ⟨hmem, hkind, hb, hp⟩ := foldlM_markStepPending_pendingBuilt _ s2 s' h3 d hd
  have hb0 : s.fstateOf d.snk = some .built := by rw [← f1, ← f2]; exact hb
  have hmem0 : d ∈ s.deps := by rw [← d1, ← d2]; exact hmem
  obtain ⟨_, _, horigin, _⟩ := after_raw_updates s s1 s2 h1 h2 d.src hsrc
  rcases horigin hp with e | e
  · exact Or.inl ⟨hmem0, hkind, hb0, e⟩
  · exact Or.inr ⟨e, hb0⟩

/-- Two rows of a table with unique keys that share a key are the same row. -/
theorem row_unique (s : KState) (hnodup : (s.nodes.map (·.key)).Nodup) (n m : Node) (hn : n ∈ s.nodes)
    (hm : m ∈ s.nodes) (hk : n.key = m.key) : n = m :=
  eq_of_nodup_keys hnodup hn hm hk

/-- **No output of an interrupted step is treated as up to date**: after the reset, no file at
the end of a dependency edge from an attached step that was RUNNING when the build was killed
(or had FAILED) is BUILT; the step itself is PENDING, so it runs again before anything consumes
its outputs. -/
theorem reset_interrupted_outputs_not_built (s s' : KState) (h : s.resetInterrupted = .ok s')
    (hnodup : (s.nodes.map (·.key)).Nodup) (k : Key) (hk : k.kind = .step)
    (hst : s.sstateOf k = some .running ∨ s.sstateOf k = some .failed) (hatt : s.detachedOf k = some false) :
    s'.sstateOf k = some .pending ∧ ∀ f ∈ s.sinksOf k, f.kind = .file → s'.fstateOf f ≠ some .built := by
  obtain ⟨s1, s2, h1, h2, h3⟩ := reset_stages s s' h
  obtain ⟨_, f1, a1, d1⟩ := foldlM_writeStepState .failed (runningRows s) s s1 h1
  obtain ⟨_, f2, a2, d2⟩ := foldlM_writeStepState .pending (checkingRows s) s1 s2 h2
  obtain ⟨_, _, _, hsame, hfailed⟩ := after_raw_updates s s1 s2 h1 h2 k hk
  -- the row of `k`
  obtain ⟨n, hfind⟩ : ∃ n, s.find? k = some n := by
    unfold KState.detachedOf at hatt
    cases hf : s.find? k with
    | none => simp [hf] at hatt
    | some n => exact ⟨n, rfl⟩
  have hnk := find?_key s k n hfind
  have hnmem := mem_nodes_of_find? hfind
  have hns : s.sstateOf k = some n.sstate := by simp [KState.sstateOf, hfind]
  -- no other row has this key, so `k` is in neither raw update unless its own state says so
  have hnotchecking : k ∉ (checkingRows s).map (·.key) := by
    intro hm
    rw [List.mem_map] at hm
    obtain ⟨m, hm, hmk⟩ := hm
    unfold checkingRows at hm
    rw [List.mem_filter] at hm
    have := row_unique s hnodup m n hm.1 hnmem (hmk.trans hnk.symm)
    subst this
    have hc : m.sstate = .checking := (of_decide_eq_true hm.2).2
    rw [hns, hc] at hst
    rcases hst with e | e <;> cases e
  have hf2 : s2.sstateOf k = some .failed := by
    rcases hst with hr | hf
    · exact hfailed (mem_runningRows s k hk hr) hnotchecking (by rw [hr]; rfl)
    · have hnotrunning : k ∉ (runningRows s).map (·.key) := by
        intro hm
        rw [List.mem_map] at hm
        obtain ⟨m, hm, hmk⟩ := hm
        unfold runningRows at hm
        rw [List.mem_filter] at hm
        have := row_unique s hnodup m n hm.1 hnmem (hmk.trans hnk.symm)
        subst this
        have hc : m.sstate = .running := (of_decide_eq_true hm.2).2
        rw [hns, hc] at hf
        cases hf
      rw [hsame hnotrunning hnotchecking]; exact hf
  have hd2 : s2.detachedOf k = some false := by rw [a2, a1]; exact hatt
  -- `k` is one of the steps that are marked pending
  have hpend : s'.sstateOf k = some .pending := by
    unfold KState.sstateOf at hf2
    unfold KState.detachedOf at hd2
    cases hfind2 : s2.find? k with
    | none => simp [hfind2] at hf2
    | some n2 =>
      simp only [hfind2, Option.map_some, Option.some.injEq] at hf2 hd2
      have hk2 := find?_key s2 k n2 hfind2
      have hmem : n2 ∈ failedRows s2 := by
        unfold failedRows; rw [List.mem_filter]
        exact ⟨mem_nodes_of_find? hfind2, by simp [hk2, hk, hf2, hd2]⟩
      have hnd := foldlM_markStepPending_notDone _ s2 s' h3 n2 hmem
      rw [hk2] at hnd
      have hd' : s'.detachedOf k = some false := by
        have := foldlM_markStepPending_inv (propInv_detachedOf k (s2.detachedOf k)) _ s2 s' rfl h3
        rw [this]; simp [KState.detachedOf, hfind2, hd2]
      obtain ⟨hnr, hnc⟩ := reset_no_running_checking s s' h k hk
      unfold KState.detachedOf at hd'
      cases hfind' : s'.find? k with
      | none => simp [hfind'] at hd'
      | some n' =>
        have hs' : s'.sstateOf k = some n'.sstate := by simp [KState.sstateOf, hfind']
        rcases hnd _ hs' with e | e | e
        · rw [hs', e]
        · rw [hs', e] at hnr; exact absurd rfl hnr
        · rw [hs', e] at hnc; exact absurd rfl hnc
  refine ⟨hpend, ?_⟩
  intro f hfm hfk hbuilt
  -- the edge k → f
  unfold KState.sinksOf at hfm
  rw [List.mem_map] at hfm
  obtain ⟨d, hdm, hdf⟩ := hfm
  rw [List.mem_filter] at hdm
  have hdsrc : d.src = k := by simpa using hdm.2
  have hdeps' : s'.deps = s2.deps := foldlM_markStepPending_inv (propInv_deps s2.deps) _ s2 s' rfl h3
  have hpb : PendingBuilt s' d :=
    ⟨by rw [hdeps', d2, d1]; exact hdm.1, hdf ▸ hfk, hdf ▸ hbuilt, hdsrc ▸ hpend⟩
  have := (foldlM_markStepPending_pendingBuilt _ s2 s' h3 d hpb).2.2.2
  rw [hdsrc, hf2] at this
  cases this

/-! ## While the build runs: no BUILT output behind a step that has not succeeded -/

/-- **Failure branch of `mark_completed`** (non-zero exit, missing output, changed input, deferral):
afterwards no file created by the step is BUILT, so a kill right after this transaction leaves
nothing that looks up to date. -/
theorem complete_failure_products_not_built (s s' : KState) (cfg : KConfig) (k : Key) (wd : Bool)
    (hk : k.kind = .step) (h : s.completeFailure cfg k wd = .ok s') (q : Key) (hq : q.kind = .file)
    (hc : s.creatorOf q = some (some k)) : s'.fstateOf q ≠ some .built := by
  unfold KState.completeFailure at h
  simp only [bind, Except.bind] at h
  cases h1 : s.outdateBuiltProducts k with
  | error e => simp [h1] at h
  | ok s1 =>
    simp only [h1] at h
    cases h2 : (s1.bumpDeferCount k wd).writeFailureState k (s1.deferGranted cfg k wd) with
    | error e => simp [h2] at h
    | ok s2 =>
      simp only [h2] at h
      cases h3 : s2.detachCreatedIfFailed k with
      | error e => simp [h3] at h
      | ok s3 =>
        simp only [h3, pure, Except.pure, Except.ok.injEq] at h
        subst h
        -- after the first stage the file is not BUILT
        have hnb1 : s1.fstateOf q ≠ some .built := by
          unfold KState.outdateBuiltProducts at h1
          unfold KState.creatorOf at hc
          cases hfind : s.find? q with
          | none => simp [hfind] at hc
          | some n =>
            simp only [hfind, Option.map_some, Option.some.injEq] at hc
            have hnk := find?_key s q n hfind
            have hstab : ∀ (b : KState) (a : Node) (b' : KState), b.fstateOf q ≠ some .built →
                b.setFileState a.key .outdated = .ok b' → b'.fstateOf q ≠ some .built := by
              intro b a b' hb hw
              rw [setFileState_eq] at hw
              rw [(writeFile_effect b b' a.key _ _ hw).1 q]
              by_cases hqa : q = a.key
              · simp only [hqa, if_true]; cases b.fstateOf a.key <;> simp
              · simpa [hqa] using hb
            by_cases hbuilt : n.fstate = .built
            · have hmem : n ∈ (s.fileProducts k).filter (·.fstate = .built) := by
                rw [List.mem_filter]
                refine ⟨?_, by simp [hbuilt]⟩
                unfold KState.fileProducts
                rw [List.mem_mergeSort, List.mem_filter]
                refine ⟨?_, by simp [hnk, hq]⟩
                unfold KState.products
                rw [List.mem_filter]
                refine ⟨mem_nodes_of_find? hfind, ?_⟩
                have hne : n.key ≠ k := by
                  intro e; rw [hnk] at e; rw [e, hk] at hq; cases hq
                simp [hc, hne]
              have := foldlM_each (fun (a : Node) (b : KState) => b.fstateOf a.key ≠ some .built) _ _
                (fun b a b' hw => by
                  rw [setFileState_eq] at hw
                  rw [(writeFile_effect b b' a.key _ _ hw).1 a.key]
                  simp only [if_true]; cases b.fstateOf a.key <;> simp)
                (fun b a a' b' hb hw => by
                  rw [setFileState_eq] at hw
                  rw [(writeFile_effect b b' a'.key _ _ hw).1 a.key]
                  by_cases hqa : a.key = a'.key
                  · simp only [hqa, if_true]; cases b.fstateOf a'.key <;> simp
                  · simpa [hqa] using hb) s s1 h1 n hmem
              rw [hnk] at this; exact this
            · have h0 : s.fstateOf q ≠ some .built := by simp [KState.fstateOf, hfind, hbuilt]
              exact foldlM_keeps (fun b => b.fstateOf q ≠ some .built) _ _
                (fun b a b' _ hb hw => hstab b a b' hb hw) s s1 h0 h1
        -- the remaining stages write no file state
        have e2 : s2.fstateOf q = s1.fstateOf q := by
          have hb : (s1.bumpDeferCount k wd).fstateOf q = s1.fstateOf q := by
            unfold KState.bumpDeferCount
            split
            · exact fstateOf_modify s1 k q _ (fun _ => rfl) (fun _ => rfl)
            · rfl
          unfold KState.writeFailureState at h2
          split at h2
          · rw [setStepState_eq] at h2
            rw [(writeStepState_effect _ s2 k _ _ h2).2.1 q, hb]
          · rw [setStepState_eq] at h2
            rw [(writeStepState_effect _ s2 k _ _ h2).2.1 q, hb]
        have e3 : s3.fstateOf q = s2.fstateOf q := by
          unfold KState.detachCreatedIfFailed at h3
          split at h3
          · unfold KState.detachCreatedSteps at h3
            exact fstateOf_foldlM_detach _ s2 s3 q h3
          · simp only [pure, Except.pure, Except.ok.injEq] at h3
            subst h3; rfl
        rw [fstateOf_deleteHash, e3, e2]
        exact hnb1

/-- `outdateBuilt`, the last stage of `reset_for_rerun`: afterwards no file created by the step
is BUILT. -/
theorem outdateBuilt_products_not_built (s s' : KState) (k : Key) (hk : k.kind = .step)
    (h : s.outdateBuilt k = .ok s') (q : Key) (hq : q.kind = .file) (hc : s'.creatorOf q = some (some k)) :
    s'.fstateOf q ≠ some .built := by
  unfold KState.outdateBuilt at h
  -- creators do not change in this stage
  have hfilekind : ∀ a ∈ (s.products k).filter (fun n => n.key.kind = .file ∧ n.fstate = .built),
      a.key.kind = .file := by
    intro a ha
    rw [List.mem_filter] at ha
    exact (of_decide_eq_true ha.2).1
  have hcre : s'.creatorOf q = s.creatorOf q :=
    foldlM_keeps (fun b => b.creatorOf q = s.creatorOf q) _ _
      (fun b a b' ha hb hr => (markFileOutdated_inv (propInv_creatorOf q (b.creatorOf q)) b b' a.key
        (hfilekind a ha) rfl hr).trans hb) s s' rfl h
  rw [hcre] at hc
  unfold KState.creatorOf at hc
  cases hfind : s.find? q with
  | none => simp [hfind] at hc
  | some n =>
    simp only [hfind, Option.map_some, Option.some.injEq] at hc
    have hnk := find?_key s q n hfind
    by_cases hbuilt : n.fstate = .built
    · have hmem : n ∈ (s.products k).filter (fun n => n.key.kind = .file ∧ n.fstate = .built) := by
        rw [List.mem_filter]
        refine ⟨?_, by simp [hnk, hq, hbuilt]⟩
        unfold KState.products
        rw [List.mem_filter]
        refine ⟨mem_nodes_of_find? hfind, ?_⟩
        have hne : n.key ≠ k := by
          intro e; rw [hnk] at e; rw [e, hk] at hq; cases hq
        simp [hc, hne]
      have := foldlM_each_mem (fun (a : Node) (b : KState) => b.fstateOf a.key ≠ some .built) _ _
        (fun b a b' _ hr => markFileOutdated_self b b' a.key hr)
        (fun b a a' b' ha' hb hr => markFileOutdated_inv (propInv_notBuilt a.key) b b' a'.key (hfilekind a' ha') hb hr)
        s s' h n hmem
      rw [hnk] at this; exact this
    · have h0 : s.fstateOf q ≠ some .built := by simp [KState.fstateOf, hfind, hbuilt]
      exact foldlM_keeps (fun b => b.fstateOf q ≠ some .built) _ _
        (fun b a b' ha hb hr => markFileOutdated_inv (propInv_notBuilt q) b b' a.key (hfilekind a ha) hb hr) s s' h0 h

/-- **`reset_for_rerun`** (the transaction right before a command starts, and the reset of a
step whose stored hash no longer matches): afterwards no file created by the step is BUILT, so
from here until the completion transaction a kill finds the outputs of the running step OUTDATED
or PLANNED. -/
theorem reset_for_rerun_products_not_built (s s' : KState) (k : Key) (hk : k.kind = .step)
    (h : s.resetForRerun k = .ok s') (q : Key) (hq : q.kind = .file) (hc : s'.creatorOf q = some (some k)) :
    s'.fstateOf q ≠ some .built := by
  unfold KState.resetForRerun at h
  simp only [bind, Except.bind] at h
  cases h2 : (KState.dynamicSinks (s.dropDynamicInputs k) k).foldlM
      (fun st x => st.dropDynamicSink k x) (s.dropDynamicInputs k) with
  | error e => simp [h2] at h
  | ok s2 =>
    simp only [h2] at h
    cases h3 : s2.detachCreatedSteps k with
    | error e => simp [h3] at h
    | ok s3 =>
      simp only [h3] at h
      cases h4 : s3.detachProductsWhere k isStaticFileNode with
      | error e => simp [h4] at h
      | ok s4 =>
        simp only [h4] at h
        cases h5 : s4.detachProductsWhere k isTreeNode with
        | error e => simp [h5] at h
        | ok s5 =>
          simp only [h5] at h
          exact outdateBuilt_products_not_built s5 s' k hk h q hq hc

/-! ## The deletion queue does not survive a kill (finding F6) -/

/-- A kill of the director: the database keeps the last committed state, the memory-only queue
`Workflow.to_be_deleted` is gone. -/
def crash (s : KState) : KState := { s with toBeDeleted := [] }

theorem crash_queueDelete (s : KState) (p : String) (h : Option Nat) : crash (s.queueDelete p h) = crash s := rfl

theorem crash_markDir (s : KState) (d : String) : crash (s.markDirToBeDeleted d) = crash s := by
  unfold KState.markDirToBeDeleted
  split <;> rfl

/-- `File.before_delete` / `Step.before_delete` (called by `delete_detached` right before the row
is deleted, in the same transaction) leave no persistent trace: what they record is in the
memory-only queue, so a kill after that transaction's commit and before
`remove_deletable_files` is indistinguishable from never having recorded anything. -/
theorem before_delete_leaves_no_persistent_trace (s s1 : KState) (n : Node) (h : s.beforeDelete n = .ok s1) :
    crash s1 = crash s := by
  unfold KState.beforeDelete at h
  cases hk : n.key.kind with
  | root => simp [hk] at h
  | st => simp only [hk, pure, Except.pure, Except.ok.injEq] at h; subst h; rfl
  | step =>
    simp only [hk, pure, Except.pure, Except.ok.injEq] at h
    subst h
    exact crash_markDir _ _
  | file =>
    simp only [hk, pure, Except.pure, Except.ok.injEq] at h
    subst h
    rw [crash_markDir]
    cases n.fstate <;> try rfl
    all_goals (cases n.fhash <;> rfl)

/-- The full statement one would want: whatever `before_delete` records about a file whose row
is being deleted is still known after a kill. -/
def DeletionRecordSurvivesCrash : Prop :=
  ∀ (s s1 : KState) (n : Node), s.beforeDelete n = .ok s1 →
    ∀ p ∈ s1.toBeDeleted.map (·.1), p ∈ (crash s1).toBeDeleted.map (·.1)

/-- A detached BUILT output with a recorded hash whose plan no longer declares it. -/
def orphanRow : Node :=
  { key := fileKey "out/old.txt", creator := none, detached := true, fstate := .built, fhash := some 7 }

/-- It is false (finding F6): `before_delete` of the orphaned output queues its path (and its
directory), the row is deleted and committed, and a kill before `remove_deletable_files` forgets
the queue: nothing in the restarted director knows the file any more. -/
theorem crash_leaves_orphan_files_negation : ¬ DeletionRecordSurvivesCrash := by
  intro hall
  have hrun : ∃ s1, ({} : KState).beforeDelete orphanRow = .ok s1 ∧ s1.toBeDeleted ≠ [] := by
    refine ⟨_, rfl, ?_⟩
    show (KState.markDirToBeDeleted _ _).toBeDeleted ≠ []
    unfold KState.markDirToBeDeleted
    split
    · simp [KState.queueDelete, orphanRow]
    · simp [KState.queueDelete]
  obtain ⟨s1, hs1, hne⟩ := hrun
  cases hq : s1.toBeDeleted with
  | nil => exact hne hq
  | cons e es =>
    have := hall {} s1 orphanRow hs1 e.1 (by rw [hq]; simp)
    simp [crash] at this

/-! Non-vacuity: a killed build with a RUNNING step whose output is still BUILT in the database
(the reset makes the step PENDING and the output OUTDATED). -/
def killed : KState :=
  { nodes := [{ key := rootKey, creator := some rootKey },
              { key := stepKey "cc", creator := some rootKey, sstate := .running, holding := 1 },
              { key := fileKey "a.o", creator := some (stepKey "cc"), fstate := .built, fhash := some 3 }],
    deps := [{ src := stepKey "cc", snk := fileKey "a.o" }] }

example : ∃ s', killed.resetInterrupted = .ok s' ∧ s'.sstateOf (stepKey "cc") = some .pending ∧
    s'.fstateOf (fileKey "a.o") = some .outdated ∧ s'.holdingOf (stepKey "cc") = some 0 :=
  ⟨_, rfl, by decide, by decide, by decide⟩

example : (killed.nodes.map (·.key)).Nodup ∧ killed.sstateOf (stepKey "cc") = some .running ∧
    killed.detachedOf (stepKey "cc") = some false := by decide

end StepupModel.Props.C05
