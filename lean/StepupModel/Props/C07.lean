import StepupModel.Lemmas.Cleanup
/-!
# C07  A successful build leaves no orphaned outputs behind

Kernel part: the deletion loop `Trellis.delete_detached` (`deletePass`, `deleteDetachedBase`) and
`Workflow.delete_detached` of the kernel model.

Proved for all states:

* `delete_pass_decreases`, `delete_detached_terminates`: a pass that deletes something strictly
  decreases the number of nodes, and the loop always ends through its `break` within its
  `#nodes + 1` passes: the result has no candidate left (`delete_detached_fixpoint`,
  `workflow_delete_detached_fixpoint`).
* `only_detached_nodes_are_deleted`, `attached_nodes_survive`, `result_is_restriction`: the result
  is the input restricted to the surviving keys; only detached rows go.
* `survivor_characterisation` (DESIGN T2, here in full under the two table constraints
  `KeysNodup`, `SinksExist`): a node survives iff it is not `Deletable`, i.e. iff following product
  and dependency-sink edges from it one can reach an attached node or go on for ever (a cycle).
* `orphans_removed_partial`: under `NoDetachedMixedCycle` every detached node that survives
  reaches an attached node (is held by an active consumer or creator); every deleted VOLATILE /
  BUILT / OUTDATED file row has its path in the queue (`deleted_outputs_are_queued`), and every
  deleted file row the key of its parent directory (`deleted_file_queues_parent_directory`).
* `survivors_that_lost_a_product_have_no_hash`: a step that created a deleted node and is still
  there has no stored hash.
* `orphan_cycle_negation`: the full statement `OrphansRemoved` is false of the model: the detached
  cycle of finding F5 (step `S` created `T`, `T` built `o2`, `S` amended `o2`) survives with `o2`
  BUILT and nothing queued.

Decided by the oracle only (`harness/props/c07.py`): everything about whole builds (that the plan
edits leave the dropped steps detached, that optional steps that are not needed are reverted,
that the queued files and directories are actually removed from disk).
-/
namespace StepupModel.Props.C07
open StepupModel.K

/-! ## Termination and fixed point -/

/-- One pass of the loop: when it reports that it deleted something, the number of nodes went
down; when it reports nothing, rows (up to flags) and edges are unchanged. -/
theorem delete_pass_decreases (s s' : KState) (cs : List Key) (b : Bool) (h : s.deletePass = .ok (s', cs, b)) :
    (b = true → s'.nodes.length < s.nodes.length) ∧
    (b = false → s'.cores = s.cores ∧ s'.deps = s.deps) := by
  obtain ⟨hb, ps⟩ := deletePass_spec s s' cs b h
  constructor
  · intro hbt
    have hne : s.cands ≠ [] := by
      intro hnil; rw [hnil] at hb; simp [hbt] at hb
    have := pass_shrinks s s' cs ps hne
    simpa [cores_length] using this
  · intro hbf
    have hnil : s.cands = [] := by
      rw [hbf] at hb
      cases hc : s.cands with
      | nil => rfl
      | cons x xs => rw [hc] at hb; simp at hb
    exact pass_nil s s' cs ps hnil

/-- The survivors of `Trellis.delete_detached`: a detached node that is still there has a
product or an outgoing dependency edge. -/
def Fixpoint (s' : KState) : Prop :=
  ∀ n ∈ s'.nodes, n.detached = true →
    (∃ m ∈ s'.nodes, m.creator = some n.key ∧ m.key ≠ n.key) ∨ (∃ d ∈ s'.deps, d.src = n.key)

theorem fixpoint_of_noLeaf (s' : KState) (h : NoLeaf s') : Fixpoint s' := by
  intro n hn hdet
  have hnl := h n.core (List.mem_map.2 ⟨n, hn, rfl⟩)
  unfold isLeaf at hnl
  have hnl' := of_decide_eq_false hnl
  simp only [not_and, Node.core_detached, Node.core_key] at hnl'
  by_cases hall : (s'.cores.all fun m => !decide (m.2.1 = some n.key ∧ m.1 ≠ n.key)) = true
  · have hany := hnl' hdet hall
    simp only [Bool.not_eq_true', Bool.not_eq_false, List.any_eq_true] at hany
    obtain ⟨d, hd, hsrc⟩ := hany
    exact Or.inr ⟨d, hd, of_decide_eq_true hsrc⟩
  · left
    cases hany : (s'.cores.any fun m => decide (m.2.1 = some n.key ∧ m.1 ≠ n.key)) with
    | true =>
      simp only [List.any_eq_true, decide_eq_true_eq] at hany
      obtain ⟨c, hc, hcc⟩ := hany
      obtain ⟨m, hm, rfl⟩ := List.mem_map.1 hc
      exact ⟨m, hm, hcc.1, hcc.2⟩
    | false =>
      exfalso; apply hall
      rw [List.all_eq_true]
      intro m hm
      have h0 := List.any_eq_false.1 hany m hm
      have h1 : ¬ (m.2.1 = some n.key ∧ m.1 ≠ n.key) := fun hc' => h0 (decide_eq_true hc')
      simp only [Bool.not_eq_true', decide_eq_false_iff_not]
      exact h1

/-- **Termination.** The loop of `Trellis.delete_detached` never runs out of its `#nodes + 1`
passes: whenever the model returns a state, the loop was left through its `break`, i.e. the last
pass found no candidate.  (Every other pass deletes a node, see `delete_pass_decreases`.) -/
theorem delete_detached_terminates (s : KState) (r : KState × List Key)
    (h : forIn (List.range (s.nodes.length + 1)) (s, ([] : List Key)) baseBody = .ok r) :
    r.1.cands = [] := by
  obtain ⟨D, _, hnl⟩ := baseLoop_spec s r h
  rw [cands_eq]
  apply List.filter_eq_nil_iff.2
  intro n hn
  have := hnl n.core (List.mem_map.2 ⟨n, hn, rfl⟩)
  simp [this]

/-- **Fixed point.** After `Trellis.delete_detached` no detached node without products and
without outgoing dependency is left. -/
theorem delete_detached_fixpoint (s s' : KState) (h : s.deleteDetachedBase = .ok s') : Fixpoint s' := by
  obtain ⟨D, spec⟩ := deleteDetachedBase_spec s s' h
  exact fixpoint_of_noLeaf s' spec.noLeaf

/-- The same for `Workflow.delete_detached` (which first detaches unused static-tree files). -/
theorem workflow_delete_detached_fixpoint (s s' : KState) (h : s.deleteDetached = .ok s') : Fixpoint s' := by
  obtain ⟨st, _, hb⟩ := deleteDetached_split s s' h
  exact delete_detached_fixpoint st s' hb

/-! ## What is deleted -/

/-- The result is the input restricted to the surviving keys: rows (up to scheduling flags and
stored step hashes) and edges are kept or dropped as a whole, nothing is rewritten. -/
theorem result_is_restriction (s s' : KState) (h : s.deleteDetachedBase = .ok s') :
    ∃ D : List Key, s'.cores = s.cores.filter (fun c => !D.contains c.1) ∧
      s'.deps = s.deps.filter (fun d => !D.contains d.snk) ∧ (∀ d ∈ s'.deps, d.src ∉ D) := by
  obtain ⟨D, spec⟩ := deleteDetachedBase_spec s s' h
  exact ⟨D, spec.cores, spec.deps, spec.src_alive⟩

/-- Only detached nodes are deleted. -/
theorem only_detached_nodes_are_deleted (s s' : KState) (h : s.deleteDetachedBase = .ok s') (n : Node)
    (hn : n ∈ s.nodes) (hgone : s'.has n.key = false) :
    ∃ m ∈ s.nodes, m.key = n.key ∧ m.detached = true := by
  obtain ⟨D, spec⟩ := deleteDetachedBase_spec s s' h
  have hD : n.key ∈ D := by
    apply Classical.byContradiction
    intro hnot
    have : s'.has n.key = true := by
      rw [has_iff]
      refine ⟨n.core, ?_, rfl⟩
      rw [spec.cores, List.mem_filter]
      exact ⟨List.mem_map.2 ⟨n, hn, rfl⟩, by simpa using hnot⟩
    rw [hgone] at this; cases this
  obtain ⟨c, hc, hk, hdet⟩ := spec.leafs n.key hD
  obtain ⟨m, hm, rfl⟩ := List.mem_map.1 hc
  exact ⟨m, hm, hk, hdet⟩

/-- An attached node (every row with its key is attached) survives. -/
theorem attached_nodes_survive (s s' : KState) (h : s.deleteDetachedBase = .ok s') (n : Node)
    (hn : n ∈ s.nodes) (hatt : ∀ m ∈ s.nodes, m.key = n.key → m.detached = false) : s'.has n.key = true := by
  cases hh : s'.has n.key with
  | true => rfl
  | false =>
    obtain ⟨m, hm, hk, hdet⟩ := only_detached_nodes_are_deleted s s' h n hn hh
    rw [hatt m hm hk] at hdet; cases hdet

/-- **Survivor characterisation.** With unique keys and dependency edges that end in existing
nodes (both are constraints of the tables), a node survives `Trellis.delete_detached` iff it is
not `Deletable`: from it one can reach, along creator-to-product and source-to-sink edges, an
attached node or a cycle of such edges. -/
theorem survivor_characterisation (s s' : KState) (hnd : KeysNodup s) (hcl : SinksExist s)
    (h : s.deleteDetachedBase = .ok s') (n : Node) (hn : n ∈ s.nodes) :
    s'.has n.key = true ↔ ¬ Deletable s n.key := by
  obtain ⟨D, spec⟩ := deleteDetachedBase_spec s s' h
  constructor
  · intro hhas hdel
    exact deletable_removed s s' D spec hcl n.key hdel ((has_iff s' n.key).1 hhas)
  · intro hnot
    cases hh : s'.has n.key with
    | true => rfl
    | false =>
      exfalso
      apply hnot
      apply spec.deletable hnd
      apply Classical.byContradiction
      intro hD
      have : s'.has n.key = true := by
        rw [has_iff]
        refine ⟨n.core, ?_, rfl⟩
        rw [spec.cores, List.mem_filter]
        exact ⟨List.mem_map.2 ⟨n, hn, rfl⟩, by simpa using hD⟩
      rw [hh] at this; cases this

/-- A node reaches an attached node along creator-to-product and source-to-sink edges (it is held,
directly or indirectly, by something the workflow still defines). -/
inductive ReachesAttached (s : KState) : Key → Prop
  | here (k : Key) (c : Core) (hc : c ∈ s.cores) (hk : c.1 = k) (hatt : c.2.2.1 = false) : ReachesAttached s k
  | product (k : Key) (c : Core) (hc : c ∈ s.cores) (hcr : c.2.1 = some k) (hne : c.1 ≠ k)
      (h : ReachesAttached s c.1) : ReachesAttached s k
  | sink (k : Key) (d : Dep) (hd : d ∈ s.deps) (hsrc : d.src = k) (h : ReachesAttached s d.snk) :
      ReachesAttached s k

/-- No detached cycle of creator and dependency edges that is cut off from the attached part:
every detached node either reaches an attached node or sits on a well-founded detached subgraph. -/
def NoDetachedMixedCycle (s : KState) : Prop :=
  ∀ n ∈ s.nodes, n.detached = true → ReachesAttached s n.key ∨ Deletable s n.key

/-- The full statement of the kernel part of C07: whatever detached node is left after
`Workflow.delete_detached` is held by something attached. -/
def OrphansRemoved : Prop :=
  ∀ s s' : KState, KeysNodup s → SinksExist s → s.deleteDetached = .ok s' →
    ∀ n ∈ s'.nodes, n.detached = true → ReachesAttached s' n.key

/-- **Orphans are removed (partial: no detached mixed cycle).** Every detached node whose products
and sinks are, recursively, detached and well founded is gone after `Trellis.delete_detached`;
hence under `NoDetachedMixedCycle` every detached node that is still there reaches an attached
node of the state the cleanup started from. -/
theorem orphans_removed_partial (s s' : KState) (hcl : SinksExist s) (h : s.deleteDetachedBase = .ok s') :
    (∀ k, Deletable s k → s'.has k = false) ∧
    (NoDetachedMixedCycle s → ∀ n ∈ s.nodes, n.detached = true → s'.has n.key = true → ReachesAttached s n.key) := by
  obtain ⟨D, spec⟩ := deleteDetachedBase_spec s s' h
  have hdel : ∀ k, Deletable s k → s'.has k = false := by
    intro k hk
    cases hh : s'.has k with
    | false => rfl
    | true => exact absurd ((has_iff s' k).1 hh) (deletable_removed s s' D spec hcl k hk)
  refine ⟨hdel, fun hno n hn hdet hhas => ?_⟩
  rcases hno n hn hdet with hr | hd
  · exact hr
  · rw [hdel n.key hd] at hhas; cases hhas

/-- Every deleted VOLATILE / BUILT / OUTDATED file row with a usable record has its path in the
queue afterwards (so `remove_deletable_files` will consider it). -/
theorem deleted_outputs_are_queued (s s' : KState) (hnd : KeysNodup s) (h : s.deleteDetachedBase = .ok s')
    (n : Node) (hn : n ∈ s.nodes) (hgone : s'.has n.key = false) (e : String × Option Nat)
    (he : FileEntryOf n.core e) : ∃ e' ∈ s'.toBeDeleted, e'.1 = n.key.label := by
  obtain ⟨D, spec⟩ := deleteDetachedBase_spec s s' h
  have hD : n.key ∈ D := by
    apply Classical.byContradiction
    intro hnot
    have : s'.has n.key = true := by
      rw [has_iff]
      refine ⟨n.core, ?_, rfl⟩
      rw [spec.cores, List.mem_filter]
      exact ⟨List.mem_map.2 ⟨n, hn, rfl⟩, by simpa using hnot⟩
    rw [hgone] at this; cases this
  exact spec.complete hnd n.core (List.mem_map.2 ⟨n, hn, rfl⟩) hD n.key.label (Or.inl ⟨e, he, he.2.1⟩)

/-- ... together with the key of its parent directory (whatever the state of the file row): the
directories StepUp created for a deleted output are considered for removal. -/
theorem deleted_file_queues_parent_directory (s s' : KState) (hnd : KeysNodup s) (h : s.deleteDetachedBase = .ok s')
    (n : Node) (hn : n ∈ s.nodes) (hk : n.key.kind = .file) (hgone : s'.has n.key = false)
    (hdir : ¬ (parentDir n.key.label = "" ∨ parentDir n.key.label = ".")) :
    ∃ e' ∈ s'.toBeDeleted, e'.1 = parentDir n.key.label ++ "/" := by
  obtain ⟨D, spec⟩ := deleteDetachedBase_spec s s' h
  have hD : n.key ∈ D := by
    apply Classical.byContradiction
    intro hnot
    have : s'.has n.key = true := by
      rw [has_iff]
      refine ⟨n.core, ?_, rfl⟩
      rw [spec.cores, List.mem_filter]
      exact ⟨List.mem_map.2 ⟨n, hn, rfl⟩, by simpa using hnot⟩
    rw [hgone] at this; cases this
  exact spec.complete hnd n.core (List.mem_map.2 ⟨n, hn, rfl⟩) hD _ (Or.inr ⟨hk, hdir, rfl⟩)

/-- Nothing that was queued before is forgotten by the deletion loop. -/
theorem queue_keeps_paths (s s' : KState) (h : s.deleteDetachedBase = .ok s') :
    ∀ e ∈ s.toBeDeleted, ∃ e' ∈ s'.toBeDeleted, e'.1 = e.1 := by
  obtain ⟨D, spec⟩ := deleteDetachedBase_spec s s' h
  exact spec.keep

/-- **Creators that lost a product and survive have no hash.** If a deleted node was created by a
step that is still in the graph, that step's stored hash is gone, so it cannot be skipped when it
is recycled (it has to run again and recreate what was deleted). -/
theorem survivors_that_lost_a_product_have_no_hash (s s' : KState) (hnd : KeysNodup s)
    (h : s.deleteDetachedBase = .ok s') (n : Node) (hn : n ∈ s.nodes) (hgone : s'.has n.key = false)
    (x : Key) (hx : n.creator = some x) (hkind : x.kind = .step) (m : Node) (hm : m ∈ s'.nodes)
    (hmx : m.key = x) : m.shash = none := by
  obtain ⟨D, spec⟩ := deleteDetachedBase_spec s s' h
  have hD : n.key ∈ D := by
    apply Classical.byContradiction
    intro hnot
    have : s'.has n.key = true := by
      rw [has_iff]
      refine ⟨n.core, ?_, rfl⟩
      rw [spec.cores, List.mem_filter]
      exact ⟨List.mem_map.2 ⟨n, hn, rfl⟩, by simpa using hnot⟩
    rw [hgone] at this; cases this
  exact spec.lost hnd n.core (List.mem_map.2 ⟨n, hn, rfl⟩) hD x hx hkind m hm hmx

/-! ## The detached cycle (finding F5) -/

/-- Step `S` created step `T`, `T` built `o2`, `S` amended `o2` as an input; then the plan dropped
`S` (everything below it is detached, `S` has no creator any more). -/
def cycleState : KState :=
  { nodes := [
      { key := rootKey, creator := some rootKey, detached := false },
      { key := ⟨.step, "S"⟩, creator := none, detached := true, sstate := .succeeded, shash := some 1 },
      { key := ⟨.step, "T"⟩, creator := some ⟨.step, "S"⟩, detached := true, sstate := .succeeded, shash := some 2 },
      { key := ⟨.file, "o2"⟩, creator := some ⟨.step, "T"⟩, detached := true, fstate := .built, fhash := some 7 }],
    deps := [
      { src := ⟨.step, "T"⟩, snk := ⟨.file, "o2"⟩ },
      { src := ⟨.file, "o2"⟩, snk := ⟨.step, "S"⟩, dyn := true }] }

theorem cycle_not_reaching (k : Key) (h : ReachesAttached cycleState k) : k = rootKey := by
  induction h with
  | here k c hc hk hatt =>
    simp only [cycleState, KState.cores, List.map_cons, List.map_nil, List.mem_cons, List.not_mem_nil, or_false] at hc
    rcases hc with rfl | rfl | rfl | rfl
    · exact hk.symm
    · simp [Node.core] at hatt
    · simp [Node.core] at hatt
    · simp [Node.core] at hatt
  | product k c hc hcr hne _ ih =>
    simp only [cycleState, KState.cores, List.map_cons, List.map_nil, List.mem_cons, List.not_mem_nil, or_false] at hc
    rcases hc with rfl | rfl | rfl | rfl
    · simp only [Node.core] at hcr hne
      exact absurd (Option.some.inj hcr) hne
    · simp [Node.core] at hcr
    · simp [Node.core, rootKey] at ih
    · simp [Node.core, rootKey] at ih
  | sink k d hd hsrc _ ih =>
    simp only [cycleState, List.mem_cons, List.not_mem_nil, or_false] at hd
    rcases hd with rfl | rfl
    · simp [rootKey] at ih
    · simp [rootKey] at ih

/-- **Negation of the full statement (finding F5).** `Workflow.delete_detached` returns the
detached cycle unchanged: the BUILT file `o2` stays in the graph, nothing is queued for removal,
and none of the three nodes is held by anything attached. -/
theorem orphan_cycle_negation : ¬ OrphansRemoved := by
  intro hfull
  have hrun : cycleState.deleteDetached = .ok cycleState := by rfl
  have hnd : KeysNodup cycleState := by
    unfold KeysNodup cycleState KState.cores
    decide
  have hcl : SinksExist cycleState := by
    unfold SinksExist KState.hasKey cycleState KState.cores
    decide
  have := hfull cycleState cycleState hnd hcl hrun
    { key := ⟨.file, "o2"⟩, creator := some ⟨.step, "T"⟩, detached := true, fstate := .built, fhash := some 7 }
    (by simp [cycleState]) rfl
  have := cycle_not_reaching _ this
  simp [rootKey] at this

/-- What the witness shows in the terms of the property: the output is still in the graph, still
BUILT, and its path was not queued. -/
theorem orphan_cycle_output_stays :
    ∃ s', cycleState.deleteDetached = .ok s' ∧ s'.has ⟨.file, "o2"⟩ = true ∧ s'.toBeDeleted = [] :=
  ⟨cycleState, rfl, rfl, rfl⟩

/-! ## Non-vacuity -/

/-- A chain (dropped step `A` with output `o`, nothing consumes it): both are `Deletable`, keys
are unique, sinks exist; the first pass has `o` as its only candidate. -/
def chainState : KState :=
  { nodes := [
      { key := rootKey, creator := some rootKey, detached := false },
      { key := ⟨.step, "A"⟩, creator := none, detached := true, sstate := .succeeded },
      { key := ⟨.file, "o"⟩, creator := some ⟨.step, "A"⟩, detached := true, fstate := .built, fhash := some 5 }],
    deps := [{ src := ⟨.step, "A"⟩, snk := ⟨.file, "o"⟩ }] }

example : chainState.cands.map (·.key) = [⟨.file, "o"⟩] := by decide

example : Deletable chainState ⟨.file, "o"⟩ := by
  refine Deletable.mk _ ?_ ?_ ?_
  · intro c hc hk
    simp only [chainState, KState.cores, List.map_cons, List.map_nil, List.mem_cons, List.not_mem_nil, or_false] at hc
    rcases hc with rfl | rfl | rfl
    · simp [Node.core, rootKey] at hk
    · simp [Node.core] at hk
    · rfl
  · intro c hc hcr
    simp only [chainState, KState.cores, List.map_cons, List.map_nil, List.mem_cons, List.not_mem_nil, or_false] at hc
    rcases hc with rfl | rfl | rfl <;> simp [Node.core, rootKey] at hcr
  · intro d hd hsrc
    simp only [chainState, List.mem_cons, List.not_mem_nil, or_false] at hd
    subst hd
    simp at hsrc

example : KeysNodup chainState ∧ SinksExist chainState := by
  refine ⟨by unfold KeysNodup chainState KState.cores; decide, ?_⟩
  unfold SinksExist KState.hasKey chainState KState.cores
  decide

end StepupModel.Props.C07
