import StepupModel.Props.C10
import StepupModel.Lemmas.Resources
import StepupModel.Lemmas.ResourcesHold
import StepupModel.Props.C09
/-!
# C12  Job, resource and hold limits are never exceeded

Kernel part (dispatch decision and hold counter).  The overlap of real command executions in
time is decided on simulated builds (`harness/props/c12.py`).
-/
namespace StepupModel.Props.C12
open StepupModel.K StepupModel.Generated StepupModel.Props

/-- Units of resource `name` held by RUNNING steps (attached or not), as `RESOURCE_UNAVAILABLE`
sums them. -/
def usedBy (s : KState) (name : String) : Nat :=
  (s.nodes.filter fun m => m.key.kind = .step ∧ m.sstate = .running).foldl
    (fun acc m => acc + ((m.resources.filter (·.1 = name)).foldl (fun a r => a + r.2) 0)) 0

/-- A step that passes the resource test requires only defined resources, and what it requires
fits next to what the RUNNING steps already hold. -/
theorem resources_fit (s : KState) (cfg : KConfig) (n : Node) (h : s.resourceUnavailable cfg n = false)
    (name : String) (units : Nat) (hr : (name, units) ∈ n.resources) :
    ∃ avail, cfg.available.find? (·.1 = name) = some (name, avail) ∧ usedBy s name + units ≤ avail := by
  unfold KState.resourceUnavailable at h
  rw [List.any_eq_false] at h
  have := h (name, units) hr
  simp only at this
  cases hf : cfg.available.find? (·.1 = name) with
  | none => simp [hf] at this
  | some e =>
    obtain ⟨en, ea⟩ := e
    simp only [hf] at this
    have hn : en = name := by simpa using List.find?_some hf
    subst hn
    refine ⟨ea, rfl, ?_⟩
    have : ¬ (ea < usedBy s en + units) := by simpa [usedBy] using this
    omega

/-- A step dispatched to *run its command* (no stored hash) has all its named resources defined
and free at the moment of dispatch; a step that requires an undefined resource is never run. -/
theorem run_dispatch_respects_resources (s : KState) (cfg : KConfig) (n : Node)
    (h : s.eligible cfg n = true) (hrun : n.hasHash = false) (name : String) (units : Nat)
    (hr : (name, units) ∈ n.resources) :
    ∃ avail, cfg.available.find? (·.1 = name) = some (name, avail) ∧ usedBy s name + units ≤ avail := by
  have := (C10.eligible_sound s cfg n h).2.2.2.2.2.2.2.2
  rcases this with hh | hres
  · rw [hrun] at hh; cases hh
  · exact resources_fit s cfg n hres name units hr

/-- A step dispatched to run its command is `_safe`: none of its creators holds it back (given the
cache invariant of C10, `_safe` is the from-scratch definition, which consults `_holding` of
every step of the creator chain).  Only the hash check of a step with a stored hash may bypass a
hold, and a hash check runs no command. -/
theorem hold_blocks_run (s : KState) (cfg : KConfig) (n : Node)
    (h : s.eligible cfg n = true) (hrun : n.hasHash = false) : n.safe = true := by
  have := (C10.eligible_sound s cfg n h).2.2.2.2.2.2.2.1
  rcases this with hs | ⟨hh, _⟩
  · exact hs
  · rw [hrun] at hh; cases hh

/-- `release()` without a matching `hold()` is rejected and changes nothing. -/
theorem release_without_hold_rejected (s : KState) (k : Key) (n : Node)
    (hn : s.find? k = some n) (h0 : n.holding = 0) : ∃ msg, s.release k = .error (.graph msg) := by
  refine ⟨"release without hold", ?_⟩
  unfold KState.release
  simp [hn, h0]
  rfl

/-- Leaving RUNNING for any state resets the hold counter (trigger `step_reset_holding`), so a
failure inside a hold block cannot keep descendants blocked by a step that no longer runs. -/
theorem leaving_running_releases (n n' : Node) (st : StepState) (d : Option Bool)
    (h : stepRowWrite n st d = .ok n') (hst : st ≠ .running) : n'.holding = 0 := by
  have := (C09.stepRowWrite_inv n n' st d h).1.2
  by_cases h0 : n'.holding = 0
  · exact h0
  · have hpos : 0 < n'.holding := Nat.pos_of_ne_zero h0
    have hs := this hpos
    have := (C09.stepRowWrite_inv n n' st d h).2.1
    rw [this] at hs
    exact absurd hs hst

/-! ## Resources and holds over whole histories -/

open StepupModel.K.Resources in
/-- **The RUNNING steps never hold more units of a resource than available, and never an undefined
one, after every history** with a fixed resource table in which (a) no step is set RUNNING outside
the dispatch protocol unless its resources are free (`SetRunningOK`; the code sets RUNNING only in
`pop_next_job`), (b) a `define` that recycles a step whose command is still running fits the table
(`RecycleFits`; implied by "no recycle while running"), (c) declared resource names are distinct
(a dict in the code).  Both (a) and (b) are needed: `set_state_running_negation`,
`recycle_running_negation` (the known finding F7, replayed on the real code:
`harness/witness/f7_recycle_running.txt`). -/
theorem resources_never_overcommitted_partial (cfg : KConfig) (h : List (KConfig × Req))
    (hg : Guarded cfg.available KState.init h) : ResourcesOK (KState.init.run h) cfg :=
  reachable_resourcesOK cfg h hg

open StepupModel.K.Resources StepupModel.K.Resources.Witness StepupModel.K.MetaAfter in
theorem set_state_running_negation :
    (KeysUnique s2State ∧ ResKeyed s2State ∧ ResourcesOK s2State cfgA) ∧
    RecycleFits s2State cfgA (.setState stB .running) ∧ DeclKeyed (.setState stB .running) ∧
    ¬ SetRunningOK s2State cfgA (.setState stB .running) ∧
    ∃ res, s2State.exec cfgA (.setState stB .running) = .ok res ∧ ¬ ResourcesOK res.1 cfgA :=
  setState_running_negation

open StepupModel.K.Resources StepupModel.K.SafeDisc StepupModel.K.MetaSafe in
/-- **A step declared inside a hold block does not start before the outermost hold has been
released**: after every history of the director (`HistOKS`), a job that `pop_next_job` hands out as
a RUN (the command is started) belongs to a step all of whose recursive step creators are RUNNING
or SUCCEEDED and hold nothing.  (A step with a recorded hash may be hash-CHECKED below a holding
creator; that job starts no command and holds no resources: `check_bypasses_hold_of_director`.) -/
theorem held_step_is_not_started (h : List (KConfig × Req)) (hh : HistOKS h)
    {cfg : KConfig} {k : Key} {s' : KState} {run : Bool}
    (hp : (KState.init.run h).popNext cfg (some k) = .ok (s', .job k false run)) :
    ∀ n ∈ (KState.init.run h).nodes, n.key = k → ∀ a, StrictAnc (KState.init.run h) a n → Lets a :=
  hold_blocks_run_of_director h hh hp

end StepupModel.Props.C12
