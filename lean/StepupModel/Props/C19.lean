import StepupModel.K.Scheduler
import StepupModel.Lemmas.Report
import StepupModel.Lemmas.Pending
/-!
# C19  Exit status and final report tell the truth about the build

What is proved here, and on which model:

* `P/Report.lean` models `finalize.report_unbuilt` (and the two lines of `director.serve` that
  decide the exit status when a target is rejected).  `returncode_spec` characterises every flag
  by a bit-level iff; `returncode_zero_truth` is the user-facing direction ("zero only if every
  required step succeeded and nothing questionable was found"), also stated on the kernel model's
  `KState` (`kstate_zero_truth`).  The code does not look at glob violations when the build already
  went wrong; the literal reading "FAILED exactly when ... or a glob matched a built file" is
  therefore false of the code (`failed_bit_literal_negation`), the direction "FAILED implies one of
  the three reasons" holds in full (`failed_bit_sound`), and the converse holds for builds that are
  clean otherwise (`failed_bit_complete_partial`).
* `P/Pending.lean` models the attribution of `pending.py`: the choice of one primary blocker per
  pending step (`blocker_exactly_one`), the `UNION ALL` walk over the primary blockers
  (`walk_terminates`, for ANY blocker table with its primary key: no acyclicity is assumed, which is
  what makes it a theorem about dynamic cycles), and the partition
  (`pending_partition`, `summary_partition`: attributed + cyclic = total, every step under exactly
  one root or in the cyclic remainder; `summary_counts_add_up`: the two tables' attributed totals,
  the four attributed buckets and the cyclic bucket sum to `ntotal`), and the arithmetic of the
  hidden-row counters (`hidden_accounting`).
* Decided by the oracle only (harness/props/c19.py): that the base relations (`pend_step`,
  `pend_file_block`, `pend_dead_file`, `pend_unsafe_anc`, `pend_resource`) are what their comments
  say on real leftover graphs, that the cause a step is filed under is true of the graph, and the
  whole-build statement (`serve()`'s exit status against the final database of simulated builds).
  The models are tied to the code by correspondence on generated leftover graphs and by the
  regenerated `ReturnCode` bits, root-kind priorities and the statement skeleton of `report_unbuilt`.
-/
namespace StepupModel.Props.C19
open StepupModel StepupModel.K StepupModel.P.Report StepupModel.P.Pending StepupModel.Generated.Report

/-! ## Regenerated constants -/

/-- The flags are distinct single bits, so the exit status determines each flag. -/
theorem returncode_bits :
    rcInternal = 1 ∧ rcInterrupted = 2 ∧ rcFailed = 4 ∧ rcWarning = 8 ∧ rcPending = 16 ∧ rcDrained = 32 := by decide

/-- Root kinds win over a step-to-step edge and are ordered FILE < RESOURCE < FAILED < DEFERRED <
OTHER < RUNNABLE < BLOCK_STEP. -/
theorem root_kind_priorities :
    rootFile < rootResource ∧ rootResource < rootFailed ∧ rootFailed < rootDeferred ∧
      rootDeferred < rootOther ∧ rootOther < rootRunnable ∧ rootRunnable < blockStep := by decide

/-- The statement skeleton of `report_unbuilt` that the model was written from. -/
theorem report_unbuilt_skeleton :
    reportUnbuiltSkeleton =
      ["returncode = ReturnCode(0)",
       "nfailed = sum((1 for _ in workflow.steps(StepState.FAILED)))",
       "if nfailed > 0", "  returncode |= ReturnCode.FAILED",
       "if scheduler.draining", "  returncode |= ReturnCode.DRAINED", "  return",
       "returncode |= await _report_pending_steps(workflow, reporter)",
       "returncode |= await _report_missing_targets(workflow, reporter)",
       "if returncode == ReturnCode(0)", "  returncode |= await _report_glob_violations(workflow, reporter)",
       "return"] := by decide

/-- `_report_missing_targets` as modelled by the `invalidTargets` / `missingTargets` / `missingDirs` part of
`reportUnbuilt`: a requested target that is no regular output is INVALID when it is an attached file in a
state a target may never have (static, volatile) and sets FAILED; otherwise it is missing and sets WARNING;
a directory target without a regular output beneath it sets WARNING.  Regenerated from the source by `ast`. -/
theorem report_missing_targets_skeleton :
    reportMissingTargetsSkeleton =
      ["missing_targets = sorted((target for target in workflow.targets if not workflow.is_regular_output(target)))",
       "invalid_targets = []", "for target in missing_targets",
       "  file = workflow.find_attached(File, target)",
       "  if file is not None and file.get_state() in TARGET_FORBIDDEN_STATES",
       "    invalid_targets.append(target)",
       "missing_targets = [target for target in missing_targets if target not in invalid_targets]",
       "missing_target_dirs = sorted((target_dir for target_dir in workflow.target_dirs if not workflow.has_regular_output_under(target_dir)))",
       "returncode = ReturnCode(0)", "if len(invalid_targets) > 0", "  returncode |= ReturnCode.FAILED",
       "if len(missing_targets) > 0", "  returncode |= ReturnCode.WARNING",
       "if len(missing_target_dirs) > 0", "  returncode |= ReturnCode.WARNING", "return"] := by decide +kernel

/-! ## The exit status -/

/-- **The exit status, flag by flag.**  DRAINED iff the scheduler was draining; PENDING iff it was
not and an attached PENDING step above the need threshold remained; FAILED iff an attached step is
FAILED, or everything else was clean and a glob pattern matched a file that a step builds; WARNING
iff not draining and a target was not produced, or everything else was clean and a glob match is
not declared static. -/
theorem returncode_spec (i : Input) :
    ((returnCode i).drained = true ↔ i.draining = true) ∧
    ((returnCode i).pending = true ↔ i.draining = false ∧ anyPending i) ∧
    ((returnCode i).failed = true ↔
      anyFailed i ∨ (i.draining = false ∧ 0 < i.invalidTargets) ∨ (CleanBeforeGlobs i ∧ 0 < i.globErrors)) ∧
    ((returnCode i).warning = true ↔
      i.draining = false ∧ (0 < i.missingTargets ∨ 0 < i.missingDirs ∨ (CleanBeforeGlobs i ∧ 0 < i.globWarnings))) := by
  have hf := nfailed_pos i
  have hp := ntotal_pos i
  unfold CleanBeforeGlobs
  cases hd : i.draining with
  | true =>
    rw [returnCode_draining i hd]
    simp only [decide_eq_true_eq, Bool.false_eq_true, false_and, and_false, or_false, hf,
      Bool.true_eq_false, iff_self, and_self]
  | false =>
    rw [returnCode_running i hd]
    by_cases h1 : 0 < nfailed i <;> by_cases h2 : 0 < ntotal i <;> by_cases h3 : 0 < i.missingTargets <;>
      by_cases h4 : 0 < i.missingDirs <;> by_cases h5 : 0 < i.invalidTargets <;>
      simp [Flags.isZero, Flags.or, reportGlobs, h1, h2, h3, h4, h5, ← hf, ← hp] <;> omega

/-- FAILED implies one of the reasons the property lists (full strength, no side condition). -/
theorem failed_bit_sound (i : Input) (h : (returnCode i).failed = true) :
    anyFailed i ∨ 0 < i.invalidTargets ∨ 0 < i.globErrors := by
  rcases (returncode_spec i).2.2.1.mp h with h | ⟨_, h⟩ | ⟨_, h⟩
  · exact Or.inl h
  · exact Or.inr (Or.inl h)
  · exact Or.inr (Or.inr h)

/-- A requested target that ended the phase as a static file or a volatile output sets the bit
(unless the phase drained, in which case targets are not looked at). -/
theorem invalid_target_sets_bit (i : Input) (hd : i.draining = false) (h : 0 < i.invalidTargets) :
    (returnCode i).failed = true :=
  (returncode_spec i).2.2.1.mpr (Or.inr (Or.inl ⟨hd, h⟩))

/-- The converse for builds that are clean apart from the glob matches. -/
theorem failed_bit_complete_partial (i : Input) (hc : CleanBeforeGlobs i) (h : 0 < i.globErrors) :
    (returnCode i).failed = true :=
  (returncode_spec i).2.2.1.mpr (Or.inr (Or.inr ⟨hc, h⟩))

/-- A FAILED step always sets the bit, draining or not. -/
theorem failed_step_sets_bit (i : Input) (h : anyFailed i) : (returnCode i).failed = true :=
  (returncode_spec i).2.2.1.mpr (Or.inl h)

/-- The literal reading of the property for the FAILED bit (within one build phase). -/
def FailedBitLiteral : Prop :=
  ∀ i : Input, (returnCode i).failed = true ↔ anyFailed i ∨ 0 < i.globErrors

/-- The literal reading is false of the code: with a step left pending (or while draining) a
glob match that is a built file is not looked at, the exit status is PENDING without FAILED. -/
theorem failed_bit_literal_negation : ¬ FailedBitLiteral := by
  intro h
  have := (h { steps := [{ state := .pending, impliedNeed := .default, detached := false }],
               threshold := Need.optional, draining := false, missingTargets := 0, missingDirs := 0,
               globWarnings := 0, globErrors := 1 }).mpr (Or.inr (by decide))
  revert this
  decide

/-- No attached step is still RUNNING or CHECKING (the builder has stopped). -/
def Settled (i : Input) : Prop :=
  ∀ r ∈ i.steps, r.detached = false → r.state ≠ .running ∧ r.state ≠ .checking

/-- **Zero means clean.**  An exit status without any flag implies: the scheduler was not
draining, no attached step is FAILED, every attached step above the need threshold is neither
PENDING nor (once the builder has stopped) anything but SUCCEEDED, every target is produced (none is
missing, none is a static file or a volatile output), and no glob match is unjustified or a built file. -/
theorem returncode_zero_truth (i : Input) (h : (returnCode i).isZero = true) :
    i.draining = false ∧
    (∀ r ∈ i.steps, r.detached = false → r.state ≠ .failed ∧
      (i.threshold.rank < r.impliedNeed.rank → r.state ≠ .pending ∧ (Settled i → r.state = .succeeded))) ∧
    i.missingTargets = 0 ∧ i.missingDirs = 0 ∧ i.invalidTargets = 0 ∧ i.globWarnings = 0 ∧ i.globErrors = 0 := by
  obtain ⟨hd, hp, hf, hw⟩ := returncode_spec i
  simp only [Flags.isZero, Bool.and_eq_true, Bool.not_eq_true'] at h
  obtain ⟨⟨⟨h1, h2⟩, h3⟩, h4⟩ := h
  have hdr : i.draining = false := by
    cases hx : i.draining with
    | false => rfl
    | true => rw [hd.mpr hx] at h4; cases h4
  have nf : ¬ anyFailed i := fun hx => by rw [hf.mpr (Or.inl hx)] at h1; cases h1
  have np : ¬ anyPending i := fun hx => by rw [hp.mpr ⟨hdr, hx⟩] at h3; cases h3
  have nt : ¬ 0 < i.missingTargets := fun hx => by rw [hw.mpr ⟨hdr, Or.inl hx⟩] at h2; cases h2
  have nd : ¬ 0 < i.missingDirs := fun hx => by rw [hw.mpr ⟨hdr, Or.inr (Or.inl hx)⟩] at h2; cases h2
  have ni : ¬ 0 < i.invalidTargets := fun hx => by rw [hf.mpr (Or.inr (Or.inl ⟨hdr, hx⟩))] at h1; cases h1
  have hclean : CleanBeforeGlobs i := ⟨nf, hdr, np, by omega, by omega, by omega⟩
  have ngw : ¬ 0 < i.globWarnings := fun hx => by rw [hw.mpr ⟨hdr, Or.inr (Or.inr ⟨hclean, hx⟩)⟩] at h2; cases h2
  have nge : ¬ 0 < i.globErrors := fun hx => by rw [hf.mpr (Or.inr (Or.inr ⟨hclean, hx⟩))] at h1; cases h1
  refine ⟨hdr, ?_, by omega, by omega, by omega, by omega, by omega⟩
  intro r hr hdet
  refine ⟨fun hs => nf ⟨r, hr, hs, hdet⟩, fun hthr => ⟨fun hs => np ⟨r, hr, hs, hthr, hdet⟩, fun hset => ?_⟩⟩
  have := hset r hr hdet
  have h5 : r.state ≠ .failed := fun hs => nf ⟨r, hr, hs, hdet⟩
  have h6 : r.state ≠ .pending := fun hs => np ⟨r, hr, hs, hthr, hdet⟩
  cases hs : r.state <;> simp_all

/-- The number `stepup` exits with is zero exactly when no flag is set, and each flag can be read
back from it (`ReturnCode` is an `IntFlag`). -/
theorem toNat_faithful (f : Flags) :
    (f.toNat = 0 ↔ f.isZero = true) ∧ (f.toNat &&& rcFailed ≠ 0 ↔ f.failed = true) ∧
    (f.toNat &&& rcWarning ≠ 0 ↔ f.warning = true) ∧ (f.toNat &&& rcPending ≠ 0 ↔ f.pending = true) ∧
    (f.toNat &&& rcDrained ≠ 0 ↔ f.drained = true) := by
  obtain ⟨a, b, c, d⟩ := f
  cases a <;> cases b <;> cases c <;> cases d <;> decide

/-- `serve()`: a target that `reconcile_targets` rejects ends the run with FAILED alone; otherwise
the exit status is the one of the last build phase. -/
theorem serve_spec (invalidTarget : Bool) (phase : Flags) :
    ((serveReturnCode invalidTarget phase).failed = true ↔ invalidTarget = true ∨ phase.failed = true) ∧
    ((serveReturnCode invalidTarget phase).isZero = true → invalidTarget = false ∧ phase.isZero = true) := by
  cases invalidTarget <;> simp [serveReturnCode, Flags.isZero]

/-- The cleanup pass never runs after a phase whose status has anything but WARNING set. -/
theorem cleanup_only_when_complete (t : Bool) (rc : Flags) (c : Bool) (h : cleanupRuns t rc c = true) :
    t = false ∧ rc.failed = false ∧ rc.pending = false ∧ rc.drained = false ∧ c = true := by
  simp only [cleanupRuns, Bool.and_eq_true, Bool.not_eq_true', Bool.or_eq_false_iff] at h
  obtain ⟨⟨h1, ⟨h2, h3⟩, h4⟩, h5⟩ := h
  exact ⟨h1, h2, h3, h4, h5⟩

/-! ### The same on the kernel model's state -/

/-- The step rows of a kernel state as `report_unbuilt` reads them. -/
def rowsOf (s : KState) : List StepRow :=
  (s.nodes.filter (·.key.kind = .step)).map fun n =>
    { state := n.sstate, impliedNeed := n.impliedNeed, detached := n.detached }

/-- The input of the report for a kernel state and configuration. -/
def inputOf (s : KState) (cfg : KConfig) (draining : Bool) (mt md gw ge : Nat) : Input :=
  { steps := rowsOf s, threshold := cfg.threshold, draining := draining, missingTargets := mt,
    missingDirs := md, globWarnings := gw, globErrors := ge }

/-- Zero exit status on a kernel state: every attached step node whose `_implied_need` exceeds the
threshold is SUCCEEDED (given that none is RUNNING/CHECKING), and none is FAILED. -/
theorem kstate_zero_truth (s : KState) (cfg : KConfig) (draining : Bool) (mt md gw ge : Nat)
    (hset : ∀ n ∈ s.nodes, n.key.kind = .step → n.detached = false → n.sstate ≠ .running ∧ n.sstate ≠ .checking)
    (h : (returnCode (inputOf s cfg draining mt md gw ge)).isZero = true) :
    draining = false ∧ ∀ n ∈ s.nodes, n.key.kind = .step → n.detached = false →
      n.sstate ≠ .failed ∧ (cfg.threshold.rank < n.impliedNeed.rank → n.sstate = .succeeded) := by
  have hz := returncode_zero_truth _ h
  refine ⟨hz.1, ?_⟩
  intro n hn hk hdet
  have hmem : ({ state := n.sstate, impliedNeed := n.impliedNeed, detached := n.detached } : StepRow) ∈
      (inputOf s cfg draining mt md gw ge).steps := by
    simp only [inputOf, rowsOf, List.mem_map, List.mem_filter, decide_eq_true_eq]
    exact ⟨n, ⟨hn, hk⟩, rfl⟩
  have hsettled : Settled (inputOf s cfg draining mt md gw ge) := by
    intro r hr hrd
    simp only [inputOf, rowsOf, List.mem_map, List.mem_filter, decide_eq_true_eq] at hr
    obtain ⟨m, ⟨hm, hmk⟩, rfl⟩ := hr
    exact hset m hm hmk hrd
  have := hz.2.1 _ hmem hdet
  exact ⟨this.1, fun hthr => (this.2 hthr).2 hsettled⟩

/-! ## One primary blocker per pending step -/

/-- **Every pending step gets exactly one primary blocker or RUNNABLE.**  For a universe without
repeated ids and candidates that point into it, `pend_blocker` holds exactly one row per step; the
row is a candidate of that step before which no other candidate of the step sorts (root kinds before
step-to-step edges, by the regenerated priorities), or RUNNABLE when the step has no candidate. -/
theorem blocker_exactly_one (ids : List Nat) (cs : List Cand) (hids : ids.Nodup) (hsub : ∀ c ∈ cs, c.dst ∈ ids) :
    (∀ i ∈ ids, ∃ b ∈ pendBlocker ids cs, b.dst = i ∧ ∀ b' ∈ pendBlocker ids cs, b'.dst = i → b' = b) ∧
    (∀ b ∈ pendBlocker ids cs, b.dst ∈ ids ∧
      ((∃ c ∈ cs, c.dst = b.dst ∧ c.kind = b.kind ∧ c.src = b.src ∧ ∀ a ∈ cs, a.dst = b.dst → a.before c = false) ∨
       (b.kind = rootRunnable ∧ b.src = b.dst ∧ ∀ a ∈ cs, a.dst ≠ b.dst))) := by
  obtain ⟨huniq, hmem⟩ := pendBlocker_unique hids hsub
  constructor
  · intro i hi
    obtain ⟨b, hb, hbi⟩ := List.mem_map.mp ((hmem i).mpr hi)
    refine ⟨b, hb, hbi, ?_⟩
    intro b' hb' hb'i
    exact eq_of_dst_eq huniq hb' hb (hb'i.trans hbi.symm)
  · intro b hb
    refine ⟨(hmem b.dst).mp (List.mem_map_of_mem hb), ?_⟩
    unfold pendBlocker at hb
    rcases List.mem_append.mp hb with hp | hr
    · exact Or.inl (mem_primary hp)
    · right
      unfold runnable at hr
      obtain ⟨i, hi, rfl⟩ := List.mem_map.mp hr
      refine ⟨rfl, rfl, ?_⟩
      intro a ha had
      have h2 := (List.mem_filter.mp hi).2
      have : (primary cs).any (·.dst = i) = true := by
        have hd : i ∈ (primary cs).map (·.dst) := by
          rw [primary_dst]
          exact (mem_dedup _ _).mpr (List.mem_map.mpr ⟨a, ha, had⟩)
        obtain ⟨p, hp, hpi⟩ := List.mem_map.mp hd
        exact List.any_eq_true.mpr ⟨p, hp, by simpa using hpi⟩
      simp [this] at h2

/-! ## The attribution walk -/

/-- **The walk terminates.**  For every blocker table with one row per step the `UNION ALL`
recursion reaches an empty level after at most `|U|` non-empty ones, whatever cycles the
step-to-step edges contain. -/
theorem walk_terminates (B : List Blk) (hB : UniqueDst B) : ∃ rows, walk B = some rows := by
  obtain ⟨k, _, _, h⟩ := walk_eq_levels hB
  exact ⟨_, h⟩

/-- Without the primary key the same query need not terminate: two rows for one step that block
each other feed the recursion forever (fuel exhausted in the model). -/
theorem walk_needs_primary_key :
    walk [{ dst := 1, kind := rootFile, src := 9 }, { dst := 1, kind := blockStep, src := 1 }] = none := by
  decide

/-- **Exactly one cause per pending step, and the counts add up.**  The walk visits every step at
most once (no duplicate rows: the insert into `pend_attributed` cannot violate its primary key),
only steps of U, a step is either attributed to exactly one root or belongs to the cyclic
remainder, and `attributed + cyclic = total`. -/
theorem pending_partition (B : List Blk) (hB : UniqueDst B) :
    ∃ rows, walk B = some rows ∧ (rows.map (·.i)).Nodup ∧ (∀ w ∈ rows, w.i ∈ B.map (·.dst)) ∧
      (∀ b ∈ B, (b ∈ cyclicRows B rows ↔ ¬ ∃ w ∈ rows, w.i = b.dst) ∧
        (∀ w ∈ rows, ∀ w' ∈ rows, w.i = b.dst → w'.i = b.dst → w = w')) ∧
      rows.length + (cyclicRows B rows).length = B.length := by
  obtain ⟨k, _, _, hw⟩ := walk_eq_levels hB
  refine ⟨_, hw, levelsUpTo_ids_nodup hB k, ?_, ?_, ?_⟩
  · intro w hwm
    exact levelsUpTo_ids_subset hB k _ (List.mem_map_of_mem hwm)
  · intro b hb
    constructor
    · simp only [cyclicRows, List.mem_filter, hb, true_and, Bool.not_eq_true', List.any_eq_false,
        decide_eq_true_eq]
      constructor
      · rintro h ⟨w, hwm, hwi⟩; exact h w hwm hwi
      · intro h w hwm hwi; exact h ⟨w, hwm, hwi⟩
    · intro w hw1 w' hw2 h1 h2
      have hp := levelsUpTo_pairwise hB k
      apply Classical.byContradiction
      intro hne
      have hall := List.pairwise_iff_getElem.mp hp
      obtain ⟨a, ha, rfl⟩ := List.getElem_of_mem hw1
      obtain ⟨c, hc, rfl⟩ := List.getElem_of_mem hw2
      rcases Nat.lt_trichotomy a c with hlt | heq | hgt
      · exact hall a c ha hc hlt (h1.trans h2.symm)
      · subst heq; exact hne rfl
      · exact hall c a hc ha hgt (h2.trans h1.symm)
  · have hids := levelsUpTo_ids_nodup hB k
    have hsub := levelsUpTo_ids_subset hB k
    have h1 := filter_mem_length ((levelsUpTo B k).map (fun w : WRow => w.i)) (B.map (fun b : Blk => b.dst)) hids hB hsub
    rw [length_filter_map, List.length_map] at h1
    have h2 := filter_length_add (fun b : Blk => decide (b.dst ∈ (levelsUpTo B k).map (fun w : WRow => w.i))) B
    have h3 : cyclicRows B (levelsUpTo B k) =
        B.filter (fun b : Blk => !decide (b.dst ∈ (levelsUpTo B k).map (fun w : WRow => w.i))) := by
      unfold cyclicRows
      apply List.filter_congr
      intro b _
      congr 1
      exact any_eq_decide_mem _ _
    rw [h3]
    omega

/-- A step is attributed exactly when following its primary blockers upwards ends in a root; the
cyclic remainder are the steps whose chain never leaves step-to-step edges. -/
theorem attributed_iff_chain_reaches_root (B : List Blk) (hB : UniqueDst B) (rows : List WRow)
    (h : walk B = some rows) (w : WRow) : w ∈ rows ↔ ∃ n, climb B n w.i = some (w.rk, w.rid) :=
  mem_walk_iff hB h w

/-! ### The same for the table computed from the base relations -/

/-- **The summary accounts for every pending step under exactly one cause.**  From well-formed
base relations: the walk terminates, and the number of attributed steps plus the steps of the
`cyclic` bucket is `ntotal`. -/
theorem summary_partition (b : Base) (hw : WF b) :
    ∃ rows, walk (blockerOf b) = some rows ∧ (rows.map (·.i)).Nodup ∧ (∀ w ∈ rows, w.i ∈ b.ids) ∧
      rows.length + (cyclicBucket b rows).1 = b.steps.length := by
  obtain ⟨huniq, hmem⟩ := pendBlocker_unique hw.1 (cands_dst b hw)
  obtain ⟨rows, hwalk, hnd, hsub, _, _⟩ := pending_partition (blockerOf b) huniq
  have hsub' : ∀ x ∈ rows.map (·.i), x ∈ b.ids := by
    intro x hx
    obtain ⟨w, hwm, rfl⟩ := List.mem_map.mp hx
    exact (hmem _).mp (hsub w hwm)
  refine ⟨rows, hwalk, hnd, fun w hwm => hsub' _ (List.mem_map_of_mem hwm), ?_⟩
  have h1 := filter_mem_length (rows.map (fun w : WRow => w.i)) b.ids hnd hw.1 hsub'
  unfold Base.ids at h1
  rw [length_filter_map, List.length_map] at h1
  have h2 := filter_length_add (fun s : PStep => decide (s.i ∈ rows.map (fun w : WRow => w.i))) b.steps
  have h3 : (cyclicBucket b rows).1 =
      (b.steps.filter (fun s : PStep => !decide (s.i ∈ rows.map (fun w : WRow => w.i)))).length := by
    simp only [cyclicBucket]
    congr 1
    apply List.filter_congr
    intro s _
    congr 1
    exact any_eq_decide_mem _ _
  rw [h3]
  omega

/-! ### Totals per root kind -/

/-- Grouping the attributed steps by root kind loses none: the per-kind totals
(`attributed_totals`) add up to the number of attributed steps, for any duplicate free list of kinds
that covers the kinds that occur. -/
theorem totals_add_up (rows : List WRow) (ks : List Nat) (hnd : ks.Nodup) (hcov : ∀ w ∈ rows, w.rk ∈ ks) :
    (ks.map (total rows)).sum = rows.length := by
  induction rows with
  | nil => exact sum_map_zero ks _ (fun k _ => by simp [total])
  | cons w ws ih =>
    have h1 : ∀ k, total (w :: ws) k = (if w.rk = k then 1 else 0) + total ws k := by
      intro k
      unfold total
      by_cases h : w.rk = k <;> simp [h] <;> omega
    have h2 : (ks.map (total (w :: ws))).sum =
        (ks.map fun k => if w.rk = k then 1 else 0).sum + (ks.map (total ws)).sum := by
      clear ih hnd hcov
      induction ks with
      | nil => simp
      | cons k ks ihk => simp only [List.map_cons, List.sum_cons, h1, ihk]; omega
    rw [h2, sum_indicator ks w.rk hnd (hcov w (List.mem_cons_self ..)),
      ih (fun v hv => hcov v (List.mem_cons_of_mem _ hv))]
    simp; omega

/-- **The counts of the summary add up.**  From well-formed base relations: the steps attributed to
dead-end files, to unsatisfiable resources, to FAILED steps, the stale deferrals, the "other" and the
"runnable" steps, and the cyclic remainder are together `ntotal`. -/
theorem summary_counts_add_up (b : Base) (hw : WF b) :
    ∃ rows, walk (blockerOf b) = some rows ∧
      total rows rootFile + total rows rootResource + (bucket b rows rootFailed).1 + (bucket b rows rootDeferred).1 +
        (bucket b rows rootOther).1 + (bucket b rows rootRunnable).1 + (cyclicBucket b rows).1 = b.steps.length := by
  obtain ⟨huniq, _⟩ := pendBlocker_unique hw.1 (cands_dst b hw)
  obtain ⟨rows, hwalk, _, _, hlen⟩ := summary_partition b hw
  refine ⟨rows, hwalk, ?_⟩
  have hcov : ∀ w ∈ rows, w.rk ∈ rootKinds := by
    intro w hwm
    obtain ⟨n, hn⟩ := (mem_walk_iff huniq hwalk w).mp hwm
    obtain ⟨x, hx, hk, _, hne⟩ := climb_root_row _ n _ _ _ hn
    rcases blockerOf_kind b x hx with h | h
    · rw [← hk]; exact h
    · exact absurd h hne
  have hsum := totals_add_up rows rootKinds (by decide) hcov
  simp only [rootKinds, List.map_cons, List.map_nil, List.sum_cons, List.sum_nil] at hsum
  simp only [bucket, total] at hsum ⊢
  omega

/-! ### Hidden-row counters -/

/-- **The hidden-row counter is what is left of the attributed total.**  In `_rank_display` the
steps attributed to the displayed roots plus `nhidden_blocked` is the attributed total of all
roots of that kind, and the total does not depend on the ranking order. -/
theorem hidden_accounting (b : Base) (rows : List WRow) (kind : Nat) (roots : List Nat) :
    (rankDisplay b rows kind roots).shownAttributed + (rankDisplay b rows kind roots).nhiddenBlocked =
      (rankDisplay b rows kind roots).totalAttributed ∧
    (rankDisplay b rows kind roots).totalAttributed =
      (roots.map fun r => (rows.filter fun w => w.rk = kind ∧ w.rid = r).length).sum := by
  simp only [rankDisplay]
  constructor
  · have := sum_filter_le (fun rn : Nat × Nat => (shownOf b kind (ranked rows kind roots)).any (·.1 = rn.1))
      (fun rn : Nat × Nat => rn.2) (ranked rows kind roots)
    unfold shownAttr
    omega
  · unfold ranked
    rw [sum_sortBy]
    simp [counted, List.map_map, Function.comp_def]

/-! ## Non-vacuity -/

/-- A leftover graph with a dead-end file, a dynamic cycle and a runnable step: the hypotheses of
the partition theorems hold and all three kinds of outcome occur. -/
def exampleBase : Base :=
  { steps := [⟨1, "a", false, false⟩, ⟨2, "b", false, false⟩, ⟨3, "c", false, false⟩, ⟨4, "d", false, false⟩,
              ⟨5, "e", false, false⟩],
    fileBlock := [(10, 1), (11, 2), (12, 3), (13, 4)], dead := [(10, "missing.txt")],
    producers := [⟨11, 1, "a", false⟩, ⟨12, 4, "d", false⟩, ⟨13, 3, "c", false⟩],
    unsafeAnc := [], resBlock := [] }

example : WF exampleBase := by unfold WF; decide
example : walk (blockerOf exampleBase) =
    some [⟨1, rootFile, 10⟩, ⟨5, rootRunnable, 5⟩, ⟨2, rootFile, 10⟩] := by decide
example : (cyclicBucket exampleBase [⟨1, rootFile, 10⟩, ⟨5, rootRunnable, 5⟩, ⟨2, rootFile, 10⟩]) = (2, some "c") := by
  decide
def exampleFailedPending : Input :=
  { steps := [⟨StepState.failed, Need.default, false⟩, ⟨StepState.pending, Need.default, false⟩],
    threshold := Need.optional, draining := false, missingTargets := 0, missingDirs := 0,
    globWarnings := 0, globErrors := 0 }
def exampleClean : Input :=
  { steps := [⟨StepState.succeeded, Need.plan, false⟩, ⟨StepState.pending, Need.optional, false⟩],
    threshold := Need.optional, draining := false, missingTargets := 0, missingDirs := 0,
    globWarnings := 0, globErrors := 0 }
example : (returnCode exampleFailedPending).toNat = 20 := by decide
example : (returnCode exampleClean).isZero = true ∧ Settled exampleClean := by
  refine ⟨by decide, ?_⟩
  intro r hr _
  simp only [exampleClean, List.mem_cons, List.not_mem_nil, or_false] at hr
  rcases hr with rfl | rfl <;> decide

end StepupModel.Props.C19
