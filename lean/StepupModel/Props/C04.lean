import StepupModel.Lemmas.KProp
import StepupModel.P.Skip
import StepupModel.Props.C10
/-!
# C04  Rebuilding with nothing changed does nothing; edits rerun only their cone

Proved here (the T1 pieces of DESIGN section 9/C04, on the kernel model `K/*.lean` and on the
model of the executor's hash-job guard `P/Skip.lean`): every kernel request that the restart path
and the watch-mode rebuild issue is the identity on a *quiescent* database when nothing changed,
up to the `_check_*` cache flags, and nothing is eligible for dispatch afterwards:

* a rescanned file whose hash is unchanged is not applied to the workflow at all
  (`rescan_unchanged_identity`), and an empty hash update is the identity;
* `rescan_env_vars` is the identity when every recorded value equals the environment;
* `reset_interrupted_steps` is the identity when no step is RUNNING, CHECKING or (attached) FAILED;
* `reconcile_targets` and `_update_meta_ready` change nothing but `_check_after`
  (`_ready`/`_check_ready`): no state, hash, relation, need or queue entry;
* with every attached step SUCCEEDED (or not needed and PENDING is excluded by hypothesis), no step
  is eligible (`quiescent_nothing_eligible`); `pop_next_job` refreshes the cached columns, keeps
  every row's state and attachment, and answers "nothing to do" (`noop_pop_none`);
* composed (`noop_restart_identity`): the kernel requests of a restart on a quiescent database
  with an unchanged environment and no changed file differ from the identity only in
  `_check_after` flags.

Decided by the oracle only (`harness/props/c04.py`, on simulated builds of the real director):
the whole-build statements `noop_rebuild` (zero commands, identical graph text, identical file
times, restart and watch mode) and `cone` (every executed command lies in the cone of the edit).
`FILL_SAFE_UPDATE` / `UPDATE_CHECK_AFTER` recompute cached columns; that they reproduce the
stored values on a quiescent database is covered by C10's from-scratch oracle, not by a theorem.
-/
namespace StepupModel.Props.C04
open StepupModel.K StepupModel.P.Skip

/-! ## The rescan guard (`Executor._run_hash_job`) -/

/-- The result of rehashing a file is passed to the workflow exactly when it differs from the
recorded hash or the cause is CONFIRMED. -/
theorem hashJob_applies_iff {η : Type} [DecidableEq η] (old new : η) (cause : Cause) :
    hashJobApplies old new cause = true ↔ (new ≠ old ∨ cause = .confirmed) := by
  unfold hashJobApplies
  simp

/-- **rescan_unchanged_identity**: an EXTERNAL (startup rescan, watcher), SUCCEEDED or FAILED
rehash whose result equals the recorded hash is not applied: the workflow is not touched, in
particular no consumer is marked pending. -/
theorem rescan_unchanged_identity {η : Type} [DecidableEq η] (h : η) (cause : Cause) (hc : cause ≠ .confirmed) :
    hashJobApplies h h cause = false := by
  unfold hashJobApplies
  simp [hc]

/-- A changed file is always applied, whatever the cause. -/
theorem rescan_changed_applied {η : Type} [DecidableEq η] (old new : η) (cause : Cause) (hne : new ≠ old) :
    hashJobApplies old new cause = true := by
  unfold hashJobApplies
  simp [hne]

/-- The CONFIRMED cause is applied even when nothing changed (it has to flip UNCONFIRMED). -/
theorem confirmation_always_applied {η : Type} [DecidableEq η] (old new : η) :
    hashJobApplies old new .confirmed = true := by
  unfold hashJobApplies
  simp

/-- `update_file_hashes({})` is the identity (a rescan in which nothing changed applies nothing). -/
theorem updateFileHashes_empty (s : KState) (cause : Cause) : s.updateFileHashes [] cause = .ok s := by
  unfold KState.updateFileHashes
  rfl

/-! ## Startup requests on a quiescent database -/

/-- `rescan_env_vars`: when no step, attached or detached, has a recorded value that differs from the
current environment, nothing is marked pending and the database is unchanged. -/
theorem rescanEnv_unchanged_identity (s : KState) (cfg : KConfig)
    (h : ∀ n ∈ s.nodes, n.key.kind = .step →
      ∀ e ∈ n.envs, envValue cfg e.1 = e.2.1) :
    s.rescanEnvVars cfg = .ok s := by
  unfold KState.rescanEnvVars
  have hnil : (s.nodes.filter fun n =>
      decide (n.key.kind = .step ∧ (n.envs.any fun e => decide (envValue cfg e.1 ≠ e.2.1)) = true)) = [] := by
    rw [List.filter_eq_nil_iff]
    intro n hn
    simp only [decide_eq_true_eq, not_and, List.any_eq_true, not_exists]
    intro hk e he hne
    exact hne (h n hn hk e he)
  simp only [hnil]
  rfl

/-- `reset_interrupted_steps`: when no step is RUNNING or CHECKING and no step, attached or detached,
is FAILED (the state a successful build with its cleanup leaves; since the repair afb3954 detached FAILED
steps are made pending too), the database is unchanged. -/
theorem resetInterrupted_quiescent_identity (s : KState)
    (hr : ∀ n ∈ s.nodes, n.key.kind = .step → n.sstate ≠ .running ∧ n.sstate ≠ .checking)
    (hf : ∀ n ∈ s.nodes, n.key.kind = .step → n.sstate ≠ .failed) :
    s.resetInterrupted = .ok s := by
  unfold KState.resetInterrupted
  have h1 : (s.nodes.filter fun n => decide (n.key.kind = .step ∧ n.sstate = .running)) = [] := by
    rw [List.filter_eq_nil_iff]
    intro n hn
    simp only [decide_eq_true_eq, not_and]
    exact fun hk => (hr n hn hk).1
  have h2 : (s.nodes.filter fun n => decide (n.key.kind = .step ∧ n.sstate = .checking)) = [] := by
    rw [List.filter_eq_nil_iff]
    intro n hn
    simp only [decide_eq_true_eq, not_and]
    exact fun hk => (hr n hn hk).2
  have h3 : (s.nodes.filter fun n => decide (n.key.kind = .step ∧ n.sstate = .failed)) = [] := by
    rw [List.filter_eq_nil_iff]
    intro n hn
    simp only [decide_eq_true_eq, not_and]
    exact fun hk => hf n hn hk
  simp only [h1, h2, List.foldlM_nil, bind, Except.bind, pure, Except.pure, h3]

/-! ## Requests that only touch cache flags -/

/-- **reconcile_state_free**: `reconcile_targets` (accepted) changes nothing but `_check_after`
flags: no state, hash, creator, relation, need, cached need or queue entry. -/
theorem reconcileTargets_touches_only_check_after (s s' : KState) (cfg : KConfig)
    (h : s.reconcileTargets cfg = .ok s') : SameButAfter s s' := by
  unfold KState.reconcileTargets at h
  simp only [bind, Except.bind] at h
  split at h
  · cases h
  · rename_i s1 hfold
    simp only [pure, Except.pure, Except.ok.injEq] at h
    subst h
    have h0 : SameButAfter s
        (s.modifyWhere (fun n => decide (n.key.kind = .step ∧ n.impliedNeed = .target)) fun n => { n with checkAfter := true }) :=
      ⟨map_view_modifyWhere s _ _ noAfter (fun _ => rfl), rfl, rfl⟩
    have h1 : SameButAfter s s1 :=
      foldlM_keeps (fun b => SameButAfter s b) _ _
        (fun b a b' _ hb hr => hb.trans (reconcileTarget_sameButAfter b b' a hr)) _ s1 h0 hfold
    refine h1.trans ?_
    unfold KState.reconcileTargetDirs
    exact ⟨map_view_modifyWhere s1 _ _ noAfter (fun _ => rfl), rfl, rfl⟩

/-- `_update_meta_ready` changes nothing but `_ready` and `_check_ready`. -/
theorem updateMetaReady_touches_only_ready (s : KState) :
    s.updateMetaReady.nodes.map noReady = s.nodes.map noReady ∧ s.updateMetaReady.deps = s.deps ∧
      s.updateMetaReady.toBeDeleted = s.toBeDeleted := by
  unfold KState.updateMetaReady
  exact ⟨map_view_modifyWhere s _ _ noReady (fun _ => rfl), rfl, rfl⟩

/-! ## Nothing to dispatch -/

/-- **noop: nothing is eligible.** In a state in which no attached step is PENDING (after a
successful build every needed step is SUCCEEDED; unneeded ones are excluded by their need), the
dispatch query selects nothing, whatever the cached columns say. -/
theorem quiescent_nothing_eligible (s : KState) (cfg : KConfig)
    (h : ∀ n ∈ s.nodes, n.key.kind = .step → n.detached = false →
      n.sstate ≠ .pending ∨ n.impliedNeed = .optional) :
    ∀ n ∈ s.nodes, s.eligible cfg n = false := by
  intro n hn
  cases he : s.eligible cfg n with
  | false => rfl
  | true =>
    obtain ⟨hk, hst, hdet, _, _, hneed, _, _, _⟩ := C10.eligible_sound s cfg n he
    rcases h n hn hk hdet with h1 | h1
    · exact absurd hst h1
    · exact absurd h1 hneed

/-- **noop: nothing is dispatched.** When no attached step is PENDING (what a successful build
leaves when every step was needed), `pop_next_job` refreshes the cached columns, selects nothing
and leaves every row's state untouched, whatever the cached columns were. -/
theorem noop_pop_none (s : KState) (cfg : KConfig)
    (hq : ∀ n ∈ s.nodes, n.key.kind = .step → n.detached = false → n.sstate ≠ .pending)
    (su : KState) (hu : s.updateMeta cfg = .ok su) :
    s.popNext cfg none = .ok (su, .none) ∧ su.nodes.map Node.dcore = s.nodes.map Node.dcore := by
  have hdcore := updateMeta_dcore s su cfg hu
  have hq' : ∀ n ∈ su.nodes, n.key.kind = .step → n.detached = false → n.sstate ≠ .pending := by
    intro n hn hk hd
    have hmem : n.dcore ∈ su.nodes.map Node.dcore := List.mem_map_of_mem hn
    rw [hdcore, List.mem_map] at hmem
    obtain ⟨m, hm, hmc⟩ := hmem
    have h1 : m.key = n.key := congrArg Prod.fst hmc
    have h2 : m.sstate = n.sstate := congrArg (fun x => x.2.1) hmc
    have h3 : m.detached = n.detached := congrArg (fun x => x.2.2) hmc
    rw [← h2]
    exact hq m hm (h1 ▸ hk) (h3 ▸ hd)
  refine ⟨?_, hdcore⟩
  unfold KState.popNext
  simp only [hu, bind, Except.bind]
  have hnil : su.nodes.filter (su.eligible cfg) = [] := by
    rw [List.filter_eq_nil_iff]
    intro n hn he
    obtain ⟨hk, hst, hdet, _⟩ := C10.eligible_sound su cfg n he
    exact hq' n hn hk hdet hst
  simp [hnil, pure, Except.pure]


/-- The kernel requests of a restart (`resume_from_db`: `reset_interrupted_steps`,
`rescan_env_vars`, a file rescan in which no hash changed, then `reconcile_targets`). -/
def restartRequests (s : KState) (cfg : KConfig) : M KState := do
  let a ← s.resetInterrupted
  let b ← a.rescanEnvVars cfg
  let c ← b.updateFileHashes [] .external
  c.reconcileTargets cfg

/-- **noop_rebuild, kernel part**: on a quiescent database (no step RUNNING, CHECKING or FAILED, attached
or detached; every recorded environment value current; no file hash changed) the requests of a restart
change no persistent column: the result differs from the database before only in `_check_after`
flags. -/
theorem noop_restart_identity (s s' : KState) (cfg : KConfig)
    (hr : ∀ n ∈ s.nodes, n.key.kind = .step → n.sstate ≠ .running ∧ n.sstate ≠ .checking)
    (hf : ∀ n ∈ s.nodes, n.key.kind = .step → n.sstate ≠ .failed)
    (henv : ∀ n ∈ s.nodes, n.key.kind = .step → ∀ e ∈ n.envs, envValue cfg e.1 = e.2.1)
    (h : restartRequests s cfg = .ok s') : SameButAfter s s' := by
  unfold restartRequests at h
  rw [resetInterrupted_quiescent_identity s hr hf] at h
  simp only [bind, Except.bind] at h
  rw [rescanEnv_unchanged_identity s cfg henv] at h
  simp only [updateFileHashes_empty] at h
  exact reconcileTargets_touches_only_check_after s s' cfg h


/-! Non-vacuity -/
example : hashJobApplies (7 : Nat) 7 Cause.external = false := by decide
example : hashJobApplies (7 : Nat) 8 Cause.external = true := by decide
example : SameButAfter KState.init KState.init := SameButAfter.refl _
example : KState.init.resetInterrupted = .ok KState.init :=
  resetInterrupted_quiescent_identity _ (by intro n hn hk; simp [KState.init] at hn; subst hn; cases hk)
    (by intro n hn hk; simp [KState.init] at hn; subst hn; cases hk)

end StepupModel.Props.C04
