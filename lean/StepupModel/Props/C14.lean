import StepupModel.K.Workflow
import StepupModel.Lemmas.Watch
import StepupModel.Lemmas.NGlob
import StepupModel.Props.C18
import StepupModel.Props.C17
/-!
# C14  A watch-mode rebuild is equivalent to a restart

The property compares two independent implementations of "react to what changed on disk": the
watcher (`record_change` folds inotify items into two sets, `run_once` re-hashes them with cause
EXTERNAL and feeds them to `process_nglob_changes`) and the restart (`rescan_files` re-hashes every
attached file that is not PLANNED/VOLATILE, `rescan_nglobs` globs afresh).

Proved here (models: `P/Watch.lean`, the kernel model's `updateFileHashes`, C17's `NamedGlob` results,
C18's prefix selection):

* `record_change_fold` (full): after ANY sequence of items, for any answers of the workflow,
  `updated` and `deleted` are disjoint, duplicate free, and contain exactly the paths whose last
  relevant item was an update / a deletion; `record_change_fold_from` is the same from the sets
  left by the items that were queued during the build.  `deleted_parent_expands`: a DELETED_PARENT
  item adds exactly the relevant paths under the directory (attached files in a relevant state and
  recorded glob matches whose label starts with the directory and a slash: C18).
* `watch_files_eq_restart_partial`: the hash results the watcher applies are exactly those a restart
  applies, under two explicit hypotheses: the recorded items are complete for the changed files and
  no attached file is UNCONFIRMED (`unconfirmed_negation`: a restart confirms such a file, the watcher
  has no reason to look at it).  The watcher restricts itself to the files a restart would re-hash
  (attached, not PLANNED/VOLATILE); `relevant_not_rescannable` shows that relevance alone does not
  give that (a path is relevant through a glob while its own node is detached and UNDECLARED) and
  `external_update_rejected` that the kernel rejects an EXTERNAL update of such a file (the finding
  `watch-internal-error:unexpected-hash-update`, repaired in /repo by the restriction).  Both sides
  apply one single-path update per changed file in their own transaction; that their ORDER does not
  matter is decided by the oracle only, and it does matter: known finding
  `watch-differs:external-update-order` (a changed output makes only its producer pending, so a
  tampered output and a removed source of its producer give different graphs in the two orders).
* `pruned_updated_exist`, `nglob_sets_disjoint`: after the pruning of `run_once` (unchanged paths dropped,
  paths that are gone, re-hashed or not, moved from `updated` to `deleted`: the repair of finding
  `watch-update-under-moved-directory`) every path left in `updated` exists, and the two sets
  handed to `process_nglob_changes` stay disjoint.
* `watch_glob_eq_rescan_partial`: `process_nglob_changes(deleted, pruned updated)` records what a fresh
  scan records when the two sets are complete for the paths the pattern accepts
  (`GlobEventsComplete`, which a new directory violates: finding F8, oracle).
* Decided by the oracle only (harness/props/c14.py): the end-to-end statement (same outputs, graph,
  return code) on simulated builds, and the translation of inotify events into items
  (`AsyncInotifyWrapper.change_loop`), which is not modelled.
-/
namespace StepupModel.Props.C14
open StepupModel StepupModel.K StepupModel.P.Watch StepupModel.P.Like StepupModel.Generated

/-! ## Regenerated facts -/

/-- The three arms of `Watcher.record_change` as the model was written from them. -/
theorem record_change_skeleton :
    Report.recordChangeSkeleton =
      ["if change == Change.DELETED and path not in self.deleted",
       "  if self.workflow.change_is_relevant(path, during_build=during_build)",
       "    self.deleted.add(path)", "    self.updated.discard(path)",
       "    for event in self.files_changed_events", "      event.set()",
       "else",
       "  if change == Change.UPDATED and path not in self.updated",
       "    if self.workflow.change_is_relevant(path, during_build=during_build)",
       "      self.deleted.discard(path)", "      self.updated.add(path)",
       "      for event in self.files_changed_events", "        event.set()",
       "  else",
       "    if change == Change.DELETED_PARENT",
       "      for sub_path in self.workflow.relevant_paths_under(path, during_build=during_build)",
       "        if sub_path not in self.deleted",
       "          self.deleted.add(sub_path)", "          self.updated.discard(sub_path)",
       "          for event in self.files_changed_events", "            event.set()"] := by decide

/-- In the watch phase every state but PLANNED and VOLATILE is relevant (exactly the states a restart
re-hashes); during a build only CONFIRMED and MISSING are. -/
theorem relevant_states_tables :
    (∀ st : FileState, Enums.relevantStates.contains st = (st != .planned && st != .volatile)) ∧
    (∀ st : FileState, Enums.relevantStatesDuringBuild.contains st = (st == .confirmed || st == .missing)) := by
  constructor <;> intro st <;> cases st <;> decide

/-! ## The fold of `record_change` -/

variable {α : Type} [DecidableEq α]

/-- From sets that agree with `a` (what is known about each path so far), any further sequence of
items leaves sets that agree with the last relevant item per path. -/
theorem record_change_fold_from (v : View α) (s : Sets α) (a : α → Option Bool) (evs : List (Event α))
    (h : Inv s a) (p : α) :
    (p ∈ (recordAll v s evs).updated ↔ lastRelevantFrom v (a p) evs p = some true) ∧
    (p ∈ (recordAll v s evs).deleted ↔ lastRelevantFrom v (a p) evs p = some false) :=
  inv_recordAll v evs h p

/-- **`record_change_fold`.**  After any sequence of items, starting from empty sets: `updated`
holds exactly the paths whose last relevant item was an update, `deleted` exactly those whose last
relevant item was a deletion (a DELETED_PARENT counts as a deletion of every relevant path under the
directory), the two are disjoint and neither holds a path twice. -/
theorem record_change_fold (v : View α) (evs : List (Event α)) :
    (∀ p, p ∈ (recordAll v {} evs).updated ↔ lastRelevant v evs p = some true) ∧
    (∀ p, p ∈ (recordAll v {} evs).deleted ↔ lastRelevant v evs p = some false) ∧
    (∀ p, ¬ (p ∈ (recordAll v {} evs).updated ∧ p ∈ (recordAll v {} evs).deleted)) ∧
    (recordAll v {} evs).updated.Nodup ∧ (recordAll v {} evs).deleted.Nodup := by
  have h0 : Inv ({} : Sets α) (fun _ => none) := by intro p; simp
  have h := fun p => record_change_fold_from v {} (fun _ => none) evs h0 p
  refine ⟨fun p => (h p).1, fun p => (h p).2, ?_, ?_⟩
  · rintro p ⟨h1, h2⟩
    have a := (h p).1.mp h1
    have b := (h p).2.mp h2
    rw [a] at b
    cases b
  · exact nodup_recordAll v evs {} (by simp) (by simp)

/-- The two loops of `run_once` (items queued during the build with `during_build=True`, then the
items of the watch phase) are one fold over the concatenation. -/
theorem run_once_two_loops (v : View α) (queued live : List (Event α)) :
    recordAll v (recordAll v {} queued) live = recordAll v {} (queued ++ live) := by
  simp [recordAll, List.foldl_append]

/-- Items that cancel each other: whatever came before, "deleted then updated" leaves the path in
`updated` only and "updated then deleted" in `deleted` only (when both are relevant). -/
theorem last_item_wins (v : View α) (evs : List (Event α)) (p : α) (db : Bool) (hr : v.relevant db p = true) :
    (p ∈ (recordAll v {} (evs ++ [⟨.deleted, p, db⟩, ⟨.updated, p, db⟩])).updated) ∧
    (p ∈ (recordAll v {} (evs ++ [⟨.updated, p, db⟩, ⟨.deleted, p, db⟩])).deleted) := by
  constructor
  · rw [(record_change_fold v _).1]
    simp [lastRelevant, lastRelevantFrom, List.foldl_append, touches, hr, override]
  · rw [(record_change_fold v _).2.1]
    simp [lastRelevant, lastRelevantFrom, List.foldl_append, touches, hr, override]

/-- **DELETED_PARENT expands to the relevant paths under the directory.**  With the workflow's
answers computed from its tables: after a DELETED_PARENT item for `dir`, `deleted` has gained exactly
the labels of attached files in a relevant state and the recorded glob matches that start with
`dir` + "/" (byte-exact prefix, C18), and `updated` has lost them. -/
theorem deleted_parent_expands (t : Tables) (s : Sets Str) (dir : Str) (db : Bool) (p : Str) :
    (p ∈ (recordChange t.view s ⟨.deletedParent, dir, db⟩).deleted ↔
      p ∈ s.deleted ∨
        (((∃ f ∈ t.files, f.1 = p ∧ (relevantStatesOf db).contains f.2 = true) ∨ p ∈ t.globMatches) ∧
          ensureSlash dir <+: p)) ∧
    (p ∈ (recordChange t.view s ⟨.deletedParent, dir, db⟩).updated → p ∈ s.updated) := by
  have hm := mem_foldDeleted (t.under db dir) s p
  have hu : p ∈ t.under db dir ↔
      ((∃ f ∈ t.files, f.1 = p ∧ (relevantStatesOf db).contains f.2 = true) ∨ p ∈ t.globMatches) ∧
        ensureSlash dir <+: p := by
    unfold Tables.under
    rw [C18.site_relevant_paths_under]
    simp only [List.mem_map, List.mem_filter]
    constructor
    · rintro ⟨(⟨f, ⟨hf, hs⟩, rfl⟩ | hg), hp⟩
      · exact ⟨Or.inl ⟨f, hf, rfl, hs⟩, hp⟩
      · exact ⟨Or.inr hg, hp⟩
    · rintro ⟨(⟨f, hf, rfl, hs⟩ | hg), hp⟩
      · exact ⟨Or.inl ⟨f, ⟨hf, hs⟩, rfl⟩, hp⟩
      · exact ⟨Or.inr hg, hp⟩
  have hr : recordChange t.view s ⟨.deletedParent, dir, db⟩ = delLoop (t.under db dir) s := rfl
  rw [hr]
  constructor
  · rw [hm.1, hu]
  · intro h
    exact (hm.2.mp h).1

/-! ## Which hash results are applied: watcher versus restart -/

/-- Every file whose content differs from its record and that a restart would look at has a
recorded item. -/
def EventsComplete (paths : List α) (node : α → Option FileRec) (disk : α → Option Nat) (s : Sets α) : Prop :=
  ∀ p ∈ paths, ∀ r, node p = some r → r.attached = true → r.state ≠ .planned → r.state ≠ .volatile →
    disk p ≠ r.hash → p ∈ s.updated ∨ p ∈ s.deleted

/-- The full statement for the file part: both paths apply the same hash results. -/
def WatchFilesEqRestart : Prop :=
  ∀ (paths : List Str) (node : Str → Option FileRec) (disk : Str → Option Nat) (s : Sets Str),
    EventsComplete paths node disk s → (∀ p, p ∈ s.updated ∨ p ∈ s.deleted → p ∈ paths) →
    ∀ x, x ∈ watchApplied node disk s ↔ x ∈ restartApplied paths node disk

omit [DecidableEq α] in
/-- **Watcher and restart apply the same hash results** (each as its own single-path
`update_file_hashes` with the same cause), when the recorded items are complete, no attached
file is still UNCONFIRMED, and there is no detached file in a static state (those are re-hashed by a
restart since the repair of the C01 defect "static input edited while detached", and remain invisible
to the watcher: the known finding `watch-differs:change-while-detached`). -/
theorem watch_files_eq_restart_partial (paths : List α) (node : α → Option FileRec) (disk : α → Option Nat)
    (s : Sets α) (hc : EventsComplete paths node disk s) (hin : ∀ p, p ∈ s.updated ∨ p ∈ s.deleted → p ∈ paths)
    (hconf : ∀ p r, node p = some r → r.attached = true → r.state ≠ .unconfirmed)
    (hdet : ∀ p r, node p = some r → r.attached = false → r.restartScans = false) (x : Applied α) :
    x ∈ watchApplied node disk s ↔ x ∈ restartApplied paths node disk := by
  have hsame : ∀ p r, node p = some r → r.restartScans = r.rescannable := by
    intro p r hn
    cases ha : r.attached
    · have h1 := hdet p r hn ha
      have h2 : r.rescannable = false := by simp [FileRec.rescannable, ha]
      rw [h1, h2]
    · simp [FileRec.restartScans, ha]
  unfold watchApplied restartApplied
  simp only [List.mem_filterMap, List.mem_append]
  constructor
  · rintro ⟨p, hp, hx⟩
    refine ⟨p, hin p hp, ?_⟩
    cases hn : node p with
    | none => simp [hn] at hx
    | some r =>
      simp only [hn, hsame p r hn] at hx ⊢
      by_cases hr : r.rescannable = true
      · have ha : r.attached = true := by
          simp only [FileRec.rescannable, Bool.and_eq_true] at hr; exact hr.1.1
        have hu := hconf p r hn ha
        by_cases hd : disk p ≠ r.hash
        · simpa [hr, hd, hu] using hx
        · simp [hr, hd] at hx
      · simp [hr] at hx
  · rintro ⟨p, hp, hx⟩
    cases hn : node p with
    | none => simp [hn] at hx
    | some r =>
      simp only [hn, hsame p r hn] at hx
      by_cases hr : r.rescannable = true
      · have hparts : r.attached = true ∧ r.state ≠ .planned ∧ r.state ≠ .volatile := by
          simp only [FileRec.rescannable, Bool.and_eq_true, decide_eq_true_eq] at hr
          exact ⟨hr.1.1, hr.1.2, hr.2⟩
        have hu := hconf p r hn hparts.1
        simp only [hr, if_true, hu, if_false] at hx
        by_cases hd : disk p ≠ r.hash
        · have hrec := hc p hp r hn hparts.1 hparts.2.1 hparts.2.2 hd
          refine ⟨p, hrec, ?_⟩
          simp only [hn]
          simpa [hr, hd] using hx
        · simp [hd] at hx
      · simp [hr] at hx

/-- Without the hypothesis on UNCONFIRMED files the statement is false: a restart confirms an
attached UNCONFIRMED file (cause CONFIRMED, applied even when the hash is unchanged), the watcher
has no item about it. -/
theorem unconfirmed_negation : ¬ WatchFilesEqRestart := by
  intro h
  let p : Str := [120]
  let node : Str → Option FileRec := fun q => if q = p then some ⟨true, .unconfirmed, some 7⟩ else none
  let disk : Str → Option Nat := fun q => if q = p then some 7 else none
  let s : Sets Str := {}
  have hc : EventsComplete [p] node disk s := by
    intro q hq r hr _ _ _ hd
    simp only [List.mem_singleton] at hq
    subst hq
    simp only [node, if_true, Option.some.injEq] at hr
    subst hr
    exact absurd rfl hd
  have := (h [p] node disk s hc (by intro q hq; simp [s] at hq) ⟨p, .confirmed, some 7⟩).mpr (by decide)
  revert this
  decide

/-- Without the hypothesis on detached static files the statement is false as well, even with a
recorded item about the file: a restart re-hashes a detached CONFIRMED file that changed on disk (cause
EXTERNAL), the watcher drops the item because the file is not `rescannable` (known finding
`watch-differs:change-while-detached`). -/
theorem detached_static_negation :
    ∃ (paths : List Str) (node : Str → Option FileRec) (disk : Str → Option Nat) (s : Sets Str),
      EventsComplete paths node disk s ∧ (∀ p, p ∈ s.updated ∨ p ∈ s.deleted → p ∈ paths) ∧
      (∀ p r, node p = some r → r.attached = true → r.state ≠ .unconfirmed) ∧
      ¬ (∀ x, x ∈ watchApplied node disk s ↔ x ∈ restartApplied paths node disk) := by
  let p : Str := [120]
  let node : Str → Option FileRec := fun q => if q = p then some ⟨false, .confirmed, some 7⟩ else none
  let disk : Str → Option Nat := fun q => if q = p then some 8 else none
  let s : Sets Str := { updated := [p], deleted := [] }
  refine ⟨[p], node, disk, s, ?_, ?_, ?_, ?_⟩
  · intro q hq r hr ha
    simp only [List.mem_singleton] at hq
    subst hq
    simp only [node, if_true, Option.some.injEq] at hr
    subst hr
    cases ha
  · intro q hq
    rcases hq with hq | hq
    · simpa [s] using hq
    · simp [s] at hq
  · intro q r hr ha
    by_cases hq : q = p
    · subst hq
      simp only [node, if_true, Option.some.injEq] at hr
      subst hr
      cases ha
    · simp [node, hq] at hr
  · intro h
    have := (h ⟨p, .external, some 8⟩).mpr (by decide)
    revert this
    decide

omit [DecidableEq α] in
/-- **What `process_nglob_changes` receives as `updated` exists.**  Every path that stays in `updated`
after the pruning of `run_once` is there: a re-hashed one has a known new hash that differs from its
record, one that was not re-hashed (a glob match without a node) exists on disk.  An update reported
for a path that is not there counts as a deletion. -/
theorem pruned_updated_exist (node : α → Option FileRec) (disk : α → Option Nat) (present : α → Bool) (s : Sets α)
    (p : α) (hp : p ∈ prunedUpdated node disk present s) :
    p ∈ s.updated ∧
      (∀ r, node p = some r → r.rescannable = true → (disk p).isSome = true ∧ disk p ≠ r.hash) ∧
      (rehashed node p = false → present p = true) := by
  unfold prunedUpdated at hp
  obtain ⟨h1, h2⟩ := List.mem_filter.mp hp
  refine ⟨h1, ?_, ?_⟩
  · intro r hn hr
    simp only [hn, hr, if_true, Bool.and_eq_true, decide_eq_true_eq] at h2
    exact ⟨h2.2, h2.1⟩
  · intro hre
    unfold rehashed at hre
    cases hn : node p with
    | none => simpa [hn] using h2
    | some r =>
      simp only [hn] at hre h2
      simpa [hre] using h2

/-- **The two sets handed to `process_nglob_changes` are disjoint** (it raises `ConsistencyError`
otherwise) whenever the watcher's own sets are, every path of `updated` ends in exactly one of them
unless it was re-hashed and found unchanged, and `deleted` gains only paths of `updated`. -/
theorem nglob_sets_disjoint (node : α → Option FileRec) (disk : α → Option Nat) (present : α → Bool) (s : Sets α)
    (hdis : ∀ p, ¬ (p ∈ s.updated ∧ p ∈ s.deleted)) (p : α) :
    ¬ (p ∈ prunedUpdated node disk present s ∧ p ∈ finalDeleted node disk present s) ∧
    (p ∈ finalDeleted node disk present s ↔ p ∈ s.deleted ∨ p ∈ vanishedUpdated node disk present s) ∧
    (p ∈ vanishedUpdated node disk present s → p ∈ s.updated) := by
  have hfd : p ∈ finalDeleted node disk present s ↔ p ∈ s.deleted ∨ p ∈ vanishedUpdated node disk present s := by
    unfold finalDeleted
    rw [List.mem_append, List.mem_filter]
    constructor
    · rintro (h | ⟨h, _⟩)
      · exact Or.inl h
      · exact Or.inr h
    · rintro (h | h)
      · exact Or.inl h
      · by_cases hd : p ∈ s.deleted
        · exact Or.inl hd
        · exact Or.inr ⟨h, by simpa using hd⟩
  refine ⟨?_, hfd, fun h => (List.mem_filter.mp h).1⟩
  rintro ⟨h1, h2⟩
  obtain ⟨hu, hk⟩ := List.mem_filter.mp h1
  rcases hfd.mp h2 with hd | hv
  · exact hdis p ⟨hu, hd⟩
  · have hk2 := (List.mem_filter.mp hv).2
    cases hn : node p with
    | none => simp [hn] at hk hk2; simp [hk] at hk2
    | some r =>
      simp only [hn] at hk hk2
      by_cases hr : r.rescannable = true
      · simp only [hr, if_true, Bool.and_eq_true] at hk hk2
        have a := hk.2
        have b := hk2.2
        cases hdp : disk p <;> simp [hdp] at a b
      · simp only [hr, Bool.false_eq_true, if_false] at hk hk2
        simp [hk] at hk2

/-- Relevance does not imply that a restart would look at the file: with a node that is detached
and UNDECLARED (an input some step lists and nobody declares) and a glob that accepts the path, the
path is recorded, but it is not among the files that are re-hashed. -/
theorem relevant_not_rescannable :
    ∃ (t : Tables) (p : Str) (r : FileRec), t.view.relevant false p = true ∧ r.state = .undeclared ∧
      r.rescannable = false ∧
      watchApplied (fun q => if q = p then some r else none) (fun _ => some 7) { updated := [p], deleted := [] } = [] := by
  refine ⟨{ files := [], globMatches := [], globAccepts := fun _ => true }, [120], ⟨false, .undeclared, none⟩, ?_⟩
  decide

/-- The witness above is the state the real watcher reaches: with one attached registration whose
regex accepts the path and no attached node of that label, `change_is_relevant` is true. -/
theorem glob_relevant_without_attached_node (t : Tables) (p : Str) (db : Bool)
    (hnone : ∀ f ∈ t.files, f.1 ≠ p) (hg : t.globAccepts p = true) : t.view.relevant db p = true := by
  show t.relevant db p = true
  unfold Tables.relevant
  have : t.files.find? (fun f => decide (f.1 = p)) = none := by
    rw [List.find?_eq_none]
    intro f hf
    simpa using hnone f hf
  rw [this]
  exact hg

/-- **The kernel rejects what the watcher then asks for.**  An EXTERNAL hash update of a file that
is UNDECLARED, PLANNED or VOLATILE has no row in `_HASH_TRANSITIONS`: on the kernel model
`update_file_hashes({path: hash}, EXTERNAL)` raises `ConsistencyError` for such a node, whatever the
rest of the state. -/
theorem external_update_rejected (s : KState) (path : String) (h : Option Nat) (n : Node)
    (hn : s.find? (fileKey path) = some n)
    (hst : n.fstate = .undeclared ∨ n.fstate = .planned ∨ n.fstate = .volatile) :
    s.updateFileHashes [(path, h)] .external = .error .consistency := by
  have hl : lookupTransition .external n.fstate h.isSome = none := by
    rcases hst with h1 | h1 | h1 <;> rw [h1] <;> cases h.isSome <;> decide
  unfold KState.updateFileHashes
  simp only [List.isEmpty_cons, Bool.false_eq_true, if_false]
  have hsort : ([(path, h)].mergeSort fun a b => decide (a.1 ≤ b.1)) = [(path, h)] := by
    simp
  simp only [hsort, List.mapM_cons, KState.hashRec, hn, hl, bind, Except.bind, throw, throwThe,
    MonadExceptOf.throw]

/-- The states a restart hashes are exactly those for which an EXTERNAL result has a transition,
except MISSING with an unknown hash, which is never applied (the result equals the record). -/
theorem restart_scope_has_transitions (st : FileState) (known : Bool) :
    (lookupTransition .external st known).isSome =
      ((st != .undeclared && st != .planned && st != .volatile) && !(st == .missing && !known)) := by
  cases st <;> cases known <;> decide

/-! ## The glob part -/

open StepupModel.P.NGlob in
/-- The two sets handed to `process_nglob_changes` are complete and truthful for the paths this
pattern accepts (`m q` is the key under which `q` is recorded, `none` when the regex rejects it). -/
structure GlobEventsComplete (m : List Nat → Option P.NGlob.Key) (oldP newP added deleted : List (List Nat)) : Prop where
  added_exist : ∀ p ∈ added, (m p).isSome → p ∈ newP
  deleted_gone : ∀ p ∈ deleted, (m p).isSome → p ∉ newP
  new_covered : ∀ p ∈ newP, (m p).isSome → p ∈ oldP ∨ p ∈ added
  old_covered : ∀ p ∈ oldP, (m p).isSome → p ∈ newP ∨ p ∈ deleted

open StepupModel.P.NGlob in
/-- **`process_nglob_changes` records what a fresh scan records** (as a dictionary of sets), when
the watcher's sets are complete for the accepted paths.  Unlike C17's `incremental_eq_rescan` the sets
may contain any number of paths the pattern does not accept (files of other patterns, plain static
files), and nothing is required of paths the pattern rejects. -/
theorem watch_glob_eq_rescan_partial (m : List Nat → Option P.NGlob.Key) (old : Results)
    (oldP newP added deleted : List (List Nat))
    (hold : C17.Records m old oldP) (hc : GlobEventsComplete m oldP newP added deleted) :
    eqv (reduce m (extend m old added) deleted) (extend m [] newP) = true := by
  obtain ⟨hw, hg⟩ := hold
  have hcons : Consistent m old := fun k q hq => ((hg k q).mp hq).2
  have h2 := C17.scan_records m newP
  rw [eqv_iff (wf_reduce deleted (wf_extend added hw)) h2.1]
  intro k q
  rw [h2.2, mem_get_reduce (wf_extend added hw) (consistent_extend added hcons), mem_get_extend, hg]
  constructor
  · rintro ⟨(⟨ho, hm⟩ | ⟨ha, hm⟩), hd⟩
    · rcases hc.old_covered q ho (by simp [hm]) with h | h
      · exact ⟨h, hm⟩
      · exact absurd h hd
    · exact ⟨hc.added_exist q ha (by simp [hm]), hm⟩
  · rintro ⟨hn, hm⟩
    refine ⟨?_, fun hd => hc.deleted_gone q hd (by simp [hm]) hn⟩
    rcases hc.new_covered q hn (by simp [hm]) with h | h
    · exact Or.inl ⟨h, hm⟩
    · exact Or.inr ⟨h, hm⟩

open StepupModel.P.NGlob in
/-- A new match that is never reported (a directory created under a watched directory: finding F8)
breaks completeness, and the recorded set then differs from a fresh scan: with nothing recorded, an
empty `added` and one accepted new path, `will_change` sees no change. -/
theorem unreported_new_match_negation :
    ∃ (m : List Nat → Option P.NGlob.Key) (newP : List (List Nat)),
      eqv (reduce m (extend m [] []) []) (extend m [] newP) = false := by
  refine ⟨fun q => if q = [100, 47] then some [] else none, [[100, 47]], ?_⟩
  decide

/-! ## Non-vacuity -/

/-- A view in which everything is relevant and `d` contains `a` and `b`. -/
def exampleView : View Nat := { relevant := fun _ _ => true, under := fun _ d => if d = 9 then [1, 2] else [] }

example : (recordAll exampleView {} [⟨.updated, 1, false⟩, ⟨.deleted, 1, false⟩, ⟨.updated, 1, false⟩,
    ⟨.updated, 2, true⟩, ⟨.deletedParent, 9, false⟩, ⟨.updated, 3, false⟩, ⟨.updated, 2, false⟩]).updated = [3, 2] := by
  decide
example : (recordAll exampleView {} [⟨.updated, 1, false⟩, ⟨.deleted, 1, false⟩, ⟨.updated, 1, false⟩,
    ⟨.updated, 2, true⟩, ⟨.deletedParent, 9, false⟩, ⟨.updated, 3, false⟩, ⟨.updated, 2, false⟩]).deleted = [1] := by
  decide
example : lastRelevant exampleView [⟨.updated, 1, false⟩, ⟨.deletedParent, 9, false⟩] 1 = some false := by decide

end StepupModel.Props.C14
