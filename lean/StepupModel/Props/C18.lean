import StepupModel.Lemmas.Like
import StepupModel.Generated.Sqlite
/-!
# C18  "Under this directory" selects exactly the paths under it

Every theorem is about the model in `P/Like.lean`; the correspondence harness
(`harness/props/c18.py`) ties each modelled call site to the implementation.
`Generated.Sqlite.likeCaseSensitive` is probed on a connection from `connect()` on every run.
-/
namespace StepupModel.Props.C18
open StepupModel.P.Like StepupModel.Generated

/-- Obligation on the regenerated table: LIKE compares case sensitively on StepUp connections. -/
theorem like_is_case_sensitive : Sqlite.likeCaseSensitive = true := by decide

/-- The same on the read-only connections that `stepup clean` and the other tools open. -/
theorem like_is_case_sensitive_read_only : Sqlite.likeCaseSensitiveReadOnly = true := by decide

/-- `prefix_clause`: the escaped pattern followed by `%` is a byte-exact prefix test,
whatever `%`, `_`, `\` or non-ASCII characters the prefix contains. -/
theorem like_prefix_exact (d s : Str) : likePrefix true d s = true ↔ d <+: s := by
  rw [likePrefix_eq_prefixBy, prefixBy_true_iff]

/-- Without `case_sensitive_like` the same clause only tests the prefix up to ASCII case. -/
theorem like_prefix_folded (d s : Str) :
    likePrefix false d s = true ↔ d.map foldc <+: s.map foldc := by
  rw [likePrefix_eq_prefixBy, prefixBy_false_iff]

/-- F3 witness: the case-folding LIKE selects `data/x` under `Data/`. -/
theorem like_case_negation :
    likePrefix false [68, 97, 116, 97, 47] [100, 97, 116, 97, 47, 120] = true ∧
    ¬ ([68, 97, 116, 97, 47] <+: [100, 97, 116, 97, 47, 120]) := by
  rw [likePrefix_eq_prefixBy]; decide

/-- `dir_range_upper` + `label >= dir AND label < upper` is the byte-exact prefix test. -/
theorem range_exact (p s : Str) :
    (dirRangeUpper (p ++ [slash])).map (fun hi => inRange (p ++ [slash]) hi s) = some true ↔
      (p ++ [slash]) <+: s := by
  rw [dirRangeUpper_snoc]; simp only [Option.map_some, Option.some.injEq, inRange]
  exact range_iff_prefix p slash s

/-- `dir_range_upper` is defined exactly for arguments with a trailing slash. -/
theorem range_upper_defined (d : Str) :
    (dirRangeUpper d).isSome ↔ ∃ p, d = p ++ [slash] := by
  constructor
  · intro h
    obtain ⟨hi, hhi⟩ := Option.isSome_iff_exists.mp h
    obtain ⟨p, hp, _⟩ := dirRangeUpper_some hhi
    exact ⟨p, hp⟩
  · rintro ⟨p, rfl⟩; simp [dirRangeUpper_snoc]

/-- The `substr` test of `_find_owning_static_tree` is a prefix test on the path as given (tree
labels end in `/`, so an owned file path is a proper extension of the tree label). -/
theorem substr_owner (trees : List Str) (path t : Str) :
    t ∈ owningTrees trees path ↔ t ∈ trees ∧ t <+: path := by
  simp [owningTrees, substrEq_iff]

/-! ## Call sites (the flag is the regenerated one) -/

theorem site_register_static_tree (path : Str) (labels : List Str) (l : Str) :
    l ∈ underTreeLike Sqlite.likeCaseSensitive path labels ↔ l ∈ labels ∧ addSlash path <+: l := by
  rw [like_is_case_sensitive]; simp [underTreeLike, like_prefix_exact]

theorem site_relevant_paths_under (dir : Str) (files globs : List Str) (l : Str) :
    l ∈ relevantUnder Sqlite.likeCaseSensitive dir files globs ↔
      (l ∈ files ∨ l ∈ globs) ∧ ensureSlash dir <+: l := by
  rw [like_is_case_sensitive]
  simp only [relevantUnder, List.mem_append, List.mem_filter, like_prefix_exact,
    Bool.and_eq_true, Bool.not_eq_true', List.isPrefixOf_iff_prefix]
  constructor
  · rintro (⟨h1, h2⟩ | ⟨h1, h2, _⟩)
    · exact ⟨Or.inl h1, h2⟩
    · exact ⟨Or.inr h1, h2⟩
  · rintro ⟨h1 | h1, h2⟩
    · exact Or.inl ⟨h1, h2⟩
    · by_cases hf : l ∈ files
      · exact Or.inl ⟨hf, h2⟩
      · refine Or.inr ⟨h1, h2, ?_⟩
        simp [List.contains_eq_mem, List.mem_filter, hf]

theorem site_range (dir : Str) (labels : List Str) (l : Str) :
    l ∈ underRange dir labels ↔ l ∈ labels ∧ (∃ p, dir = p ++ [slash]) ∧ dir <+: l := by
  unfold underRange
  cases h : dirRangeUpper dir with
  | none =>
    simp only [List.not_mem_nil, false_iff]
    rintro ⟨_, ⟨p, rfl⟩, _⟩
    simp [dirRangeUpper_snoc] at h
  | some hi =>
    obtain ⟨p, rfl, rfl⟩ := dirRangeUpper_some h
    simp only [List.mem_filter, inRange, range_iff_prefix]
    constructor
    · rintro ⟨h1, h2⟩; exact ⟨h1, ⟨p, rfl⟩, h2⟩
    · rintro ⟨h1, _, h2⟩; exact ⟨h1, h2⟩

/-- **Directory targets** (`has_regular_output_under`, `RECONCILE_TARGET_DIRS`, the directory arm of
`UPDATE_CHECK_AFTER`): a label is selected for the target `dir` iff `dir` is the project root (`./`: every
label of the project lies under it; labels are root-relative and carry no `./` prefix), or `dir` ends with a
slash and is a prefix of the label. -/
theorem site_target_dir (dir : Str) (labels : List Str) (l : Str) :
    l ∈ underTarget dir labels ↔
      l ∈ labels ∧ (dir = rootDir ∨ ((∃ p, dir = p ++ [slash]) ∧ dir <+: l)) := by
  unfold underTarget
  by_cases h : dir = rootDir
  · simp [h]
  · simp only [h, if_false, false_or]
    exact site_range dir labels l

/-- The root target selects everything, whatever the labels look like. -/
theorem root_target_selects_all (labels : List Str) : underTarget rootDir labels = labels := by
  simp [underTarget]

/-- ... while its prefix range alone (the code before the repair) selects only labels spelled with `./`,
which the director never records: a concrete project. -/
example : underRange rootDir [[111, 117, 116, 47, 97], [98]] = [] ∧
    underTarget rootDir [[111, 117, 116, 47, 97], [98]] = [[111, 117, 116, 47, 97], [98]] := by decide

theorem site_clean_matching (arg : Str) (labels : List Str) (l : Str) :
    l ∈ cleanMatching Sqlite.likeCaseSensitiveReadOnly arg labels ↔
      l ∈ labels ∧ (l = arg ∨ addSlash arg <+: l) := by
  rw [like_is_case_sensitive_read_only]; simp [cleanMatching, like_prefix_exact]

theorem site_inside_tree (trees : List Str) (path : Str) :
    insideTree trees path = true ↔ ∃ t ∈ trees, t <+: path := by
  simp [insideTree, List.isPrefixOf_iff_prefix]

theorem site_contains_tree (trees : List Str) (path : Str) :
    containsTree trees path = true ↔ ∃ t ∈ trees, path <+: t := by
  simp [containsTree, List.isPrefixOf_iff_prefix]

/-! ## What "under" excludes -/

/-- A sibling that merely shares a name prefix is never under the directory. -/
theorem sibling_excluded (d rest : Str) (c : Nat) (hc : c ≠ slash) :
    ¬ (d ++ [slash]) <+: (d ++ c :: rest) := by
  intro h
  rw [List.prefix_append_right_inj] at h
  simp [List.cons_prefix_cons] at h
  exact hc h.symm

/-- A selected file label is a *proper* extension: file labels never end in `/`. -/
theorem selected_is_proper (d l : Str) (hl : l.getLast? ≠ some slash) (h : (d ++ [slash]) <+: l) :
    l ≠ d ++ [slash] ∧ d.length + 1 < l.length := by
  obtain ⟨t, rfl⟩ := h
  cases t with
  | nil => simp at hl
  | cons x xs => constructor <;> simp <;> omega

/-- F12 (fixed): the file path `d` is not owned by the tree `d/`. -/
theorem substr_owner_file_not_under_own_name : owningTrees [[100, 47]] [100] = [] := by decide

/-! Non-vacuity: a concrete selection with every kind of troublesome neighbour. -/
example :
    underTreeLike true [97, 95]  -- "a_"
      [[97, 95, 47, 120], [97, 120, 47, 120], [65, 95, 47, 120], [97, 95, 48], [97, 95, 47]]
      = [[97, 95, 47, 120], [97, 95, 47]] := by
  simp only [underTreeLike, likePrefix_eq_prefixBy]; decide
example : underRange [97, 47] [[97, 47, 120], [97, 48], [97, 46, 120], [97, 47, 233]] =
    [[97, 47, 120], [97, 47, 233]] := by decide

end StepupModel.Props.C18
