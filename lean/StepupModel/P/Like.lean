/-!
# Layer P: prefix selection idioms (C18)

Strings are lists of Unicode code points (`Nat`).  SQLite compares TEXT with the BINARY
collation, i.e. by the bytes of the UTF-8 encoding, which is the code point order; LIKE works on
code points and folds ASCII letters only unless `PRAGMA case_sensitive_like` is on.

Modelled code: `sqlite3.prefix_clause`, `path.dir_range_upper`, `Path(p) / ""`, the
`label = substr(?, 1, length(label))` test of `Workflow._find_owning_static_tree`, Python
`str.startswith`, and the way each call site combines them.
-/
namespace StepupModel.P.Like

abbrev Str := List Nat

def slash : Nat := 47
def pct : Nat := 37
def under : Nat := 95
def bslash : Nat := 92

/-- SQLite's `sqlite3Tolower` restricted to what LIKE uses: ASCII letters only. -/
def foldc (c : Nat) : Nat := if 65 ≤ c ∧ c ≤ 90 then c + 32 else c

/-- Character equality of LIKE: exact when `cs` (case_sensitive_like), ASCII-folded otherwise. -/
def ceq (cs : Bool) (a b : Nat) : Bool := if cs then a == b else foldc a == foldc b

/-- `x LIKE pat ESCAPE esc` (pattern first).  `%` any sequence, `_` one character, the escape
character makes the next pattern character literal; an escape at the end never matches. -/
def like (cs : Bool) (esc : Nat) : Str → Str → Bool
  | [], s => s.isEmpty
  | p :: ps, s =>
    if p = pct then
      like cs esc ps s ||
        (match s with
         | [] => false
         | _ :: t => like cs esc (p :: ps) t)
    else if p = under then
      (match s with
       | [] => false
       | _ :: t => like cs esc ps t)
    else if p = esc then
      (match ps with
       | [] => false
       | q :: qs =>
         match s with
         | [] => false
         | c :: t => ceq cs q c && like cs esc qs t)
    else
      (match s with
       | [] => false
       | c :: t => ceq cs p c && like cs esc ps t)
termination_by p s => p.length + s.length

/-- `prefix.replace("\\", "\\\\").replace("%", "\\%").replace("_", "\\_")` -/
def escape : Str → Str
  | [] => []
  | c :: cs =>
    if c = bslash ∨ c = pct ∨ c = under then bslash :: c :: escape cs else c :: escape cs

/-- The pattern argument built by `prefix_clause`. -/
def prefixPattern (d : Str) : Str := escape d ++ [pct]

/-- The predicate `column LIKE ? ESCAPE '\'` with the argument of `prefix_clause(column, d)`. -/
def likePrefix (cs : Bool) (d s : Str) : Bool := like cs bslash (prefixPattern d) s

/-- Prefix test up to the character equality `ceq cs`. -/
def prefixBy (cs : Bool) : Str → Str → Bool
  | [], _ => true
  | _ :: _, [] => false
  | a :: as, b :: bs => ceq cs a b && prefixBy cs as bs

/-- BINARY collation `<` on code point lists. -/
def ltB : Str → Str → Bool
  | [], [] => false
  | [], _ :: _ => true
  | _ :: _, [] => false
  | a :: as, b :: bs => if a < b then true else if b < a then false else ltB as bs

def leB (a b : Str) : Bool := !ltB b a

/-- `dir_range_upper`: defined only for arguments that end in `/`. -/
def dirRangeUpper (parent : Str) : Option Str :=
  match parent.getLast? with
  | some c => if c = slash then some (parent.dropLast ++ [slash + 1]) else none
  | none => none

/-- `label >= lo AND label < hi` -/
def inRange (lo hi s : Str) : Bool := leB lo s && ltB s hi

/-- `Path(p) / ""`: one trailing slash unless the path is empty or already ends in one.
(`path.Path("") / ""` is the empty path.) -/
def addSlash (p : Str) : Str :=
  match p.getLast? with
  | none => []
  | some c => if c = slash then p else p ++ [slash]

/-- `if not directory.endswith("/"): directory += "/"` (also applied to the empty string). -/
def ensureSlash (p : Str) : Str :=
  match p.getLast? with
  | none => [slash]
  | some c => if c = slash then p else p ++ [slash]

/-- `label = substr(arg, 1, length(label))` -/
def substrEq (label arg : Str) : Bool := label == arg.take label.length

/-! ## Call sites -/

/-- `Workflow._find_owning_static_tree(path)`: labels of attached trees that own `path`. -/
def owningTrees (trees : List Str) (path : Str) : List Str :=
  trees.filter fun t => substrEq t path

/-- `register_static_tree`: the three LIKE scans share one pattern built from `Path(path) / ""`. -/
def underTreeLike (cs : Bool) (path : Str) (labels : List Str) : List Str :=
  labels.filter fun l => likePrefix cs (addSlash path) l

/-- `relevant_paths_under(directory)`: file labels (LIKE) and recorded glob matches (startswith). -/
def relevantUnder (cs : Bool) (dir : Str) (fileLabels globMatches : List Str) : List Str :=
  let d := ensureSlash dir
  (fileLabels.filter fun l => likePrefix cs d l) ++
    (globMatches.filter fun l => d.isPrefixOf l && !(fileLabels.filter fun l => likePrefix cs d l).contains l)

/-- Range sites: `has_regular_output_under`, `RECONCILE_TARGET_DIRS`, the directory arm of
`UPDATE_CHECK_AFTER`, the static-file arm of `_is_justified_without_node`. -/
def underRange (dir : Str) (labels : List Str) : List Str :=
  match dirRangeUpper dir with
  | some hi => labels.filter fun l => inRange dir hi l
  | none => []

/-- The spelling of the project root as a directory target (`tui._normalize_targets`: `Path(".") / ""`). -/
def rootDir : Str := [46, slash]

/-- Directory-target sites (`has_regular_output_under`, the `target_dir` rows behind `RECONCILE_TARGET_DIRS`
and `UPDATE_CHECK_AFTER`): the project root contains every label (no range: lower bound `""`, no upper
bound); any other directory is its prefix range. -/
def underTarget (dir : Str) (labels : List Str) : List Str :=
  if dir = rootDir then labels else underRange dir labels

/-- `clean.search_matching_paths` for one argument other than `"."`. -/
def cleanMatching (cs : Bool) (arg : Str) (labels : List Str) : List Str :=
  labels.filter fun l => l == arg || likePrefix cs (addSlash arg) l

/-- `_is_justified_without_node` arm A: the match is inside (or is) a static tree. -/
def insideTree (trees : List Str) (path : Str) : Bool :=
  trees.any fun t => t.isPrefixOf path

/-- arm B (directory matches only): the match contains a static tree. -/
def containsTree (trees : List Str) (path : Str) : Bool :=
  trees.any fun t => path.isPrefixOf t

end StepupModel.P.Like
