/-!
# Layer P: path translation between a step and the director (C20)

Strings are lists of Unicode code points (`Nat`); `/` is 47, `.` is 46.

Platform semantics modelled (CPython 3.12 `posixpath`, package `path` 17): `str.split("/")`,
`"/".join`, `posixpath.isabs / join / splitroot / normpath / abspath / relpath / dirname`,
`path.Path.__truediv__` (= `posixpath.join`), `path.Path.relpath` (= `Path.relpathto`, which is
*not* `os.path.relpath`: it returns the absolute destination when the two roots `/` and `//`
differ).  Everything is lexical; the current directory is an explicit parameter `cwd`.

Modelled code of `stepup/core/path.py`: `get_affixes`, `apply_affixes`, `parent_dir`,
`get_stepup_root`, `translate`, `translate_back`; of `stepup/core/api.py`: `_keep_affixes`;
of `stepup/core/executor.py`: the values of `ROOT` and `HERE` set by `_run_command`.

Every string-level function is defined through the component-level ones (`splitSlash`,
`normComps`, `relSegs`, `joinSlash`), so theorems about component lists transfer.
-/
namespace StepupModel.P.Path

abbrev Str := List Nat

def slash : Nat := 47
def dotc : Nat := 46
/-- `"."` -/
def dot : Str := [46]
/-- `".."` -/
def dotdot : Str := [46, 46]
/-- `"./"` -/
def dotSlash : Str := [46, 47]

/-! ## Strings and component lists -/

/-- `s.split("/")`: never empty; `"".split("/") = [""]`. -/
def splitSlash : Str → List Str
  | [] => [[]]
  | c :: cs =>
    if c = slash then [] :: splitSlash cs
    else
      match splitSlash cs with
      | [] => [[c]]
      | h :: t => (c :: h) :: t

/-- `"/".join(comps)` -/
def joinSlash : List Str → Str
  | [] => []
  | [c] => c
  | c :: d :: cs => c ++ slash :: joinSlash (d :: cs)

/-- `posixpath.isabs`: `s.startswith("/")` -/
def isabs (s : Str) : Bool :=
  match s with
  | c :: _ => c == slash
  | [] => false

/-- `s.endswith("/")` -/
def endsSlash (s : Str) : Bool :=
  match s.getLast? with
  | some c => c == slash
  | none => false

/-- `posixpath.join(a, b)`, which is also `Path(a) / b`. -/
def join (a b : Str) : Str :=
  if isabs b then b
  else if a = [] ∨ endsSlash a then a ++ b
  else a ++ slash :: b

/-- `posixpath.splitroot`: number of slashes of the root (0 relative, 1, or 2 for exactly two
leading slashes) and the tail. -/
def splitroot : Str → Nat × Str
  | [] => (0, [])
  | a :: r1 =>
    if a ≠ slash then (0, a :: r1)
    else
      match r1 with
      | [] => (1, [])
      | b :: r2 =>
        if b ≠ slash then (1, b :: r2)
        else
          match r2 with
          | [] => (2, [])
          | c :: r3 => if c = slash then (1, b :: c :: r3) else (2, c :: r3)

/-- Number of slashes of the root of a path (0 for a relative path). -/
def rootK (s : Str) : Nat := (splitroot s).1

def nonEmpty (l : List Str) : List Str := l.filter (· ≠ [])

/-- The non-empty components after the root; for a normalized absolute path these are
`Path(s).splitall()[1:]`. -/
def comps (s : Str) : List Str := nonEmpty (splitSlash (splitroot s).2)

/-! ## `normpath` -/

/-- One iteration of the loop of `posixpath.normpath`.  The stack `new_comps` is kept reversed
(top first); `ab` says whether the path has initial slashes. -/
def normStep (ab : Bool) (st : List Str) (c : Str) : List Str :=
  if c = [] ∨ c = dot then st
  else if c ≠ dotdot then c :: st
  else
    match st with
    | [] => if ab then [] else [dotdot]
    | t :: r => if t = dotdot then dotdot :: t :: r else r

/-- The component loop of `normpath` on a whole component list. -/
def normComps (ab : Bool) (comps : List Str) : List Str :=
  (comps.foldl (normStep ab) []).reverse

def slashes (k : Nat) : Str := List.replicate k slash

/-- `initial_slashes + "/".join(comps) or "."` -/
def render (k : Nat) (comps : List Str) : Str :=
  if slashes k ++ joinSlash comps = [] then dot else slashes k ++ joinSlash comps

/-- Root marker and normalized components of a path string. -/
def parseNorm (s : Str) : Nat × List Str :=
  ((splitroot s).1, normComps ((splitroot s).1 != 0) (splitSlash (splitroot s).2))

/-- `posixpath.normpath` -/
def normpath (s : Str) : Str := render (parseNorm s).1 (parseNorm s).2

/-- `posixpath.abspath` with the current directory `cwd`. -/
def abspath (cwd s : Str) : Str :=
  normpath (if isabs s then s else join cwd s)

/-! ## Relative paths -/

/-- Segments of the relative path from the directory with components `o` to `d`:
drop the common prefix, one `..` for each remaining component of `o`. -/
def relSegs : List Str → List Str → List Str
  | o :: os, d :: ds =>
    if o = d then relSegs os ds else List.replicate (os.length + 1) dotdot ++ d :: ds
  | os, ds => List.replicate os.length dotdot ++ ds

/-- `"/".join(segments)` or `"."` when there are none. -/
def renderRel (segs : List Str) : Str := if segs = [] then dot else joinSlash segs

/-- `Path(origin).relpathto(dest)`; `Path(p).relpath(start)` is `relpathTo cwd start p`.
When the roots (`/` against `//`) differ, the absolute destination is returned. -/
def relpathTo (cwd origin dest : Str) : Str :=
  let o := abspath cwd origin
  let d := abspath cwd dest
  if rootK o ≠ rootK d then d else renderRel (relSegs (comps o) (comps d))

/-- `os.path.relpath(p, start)`: `none` is the `ValueError` for an empty path. -/
def osRelpath (cwd p start : Str) : Option Str :=
  if p = [] then none
  else some (renderRel (relSegs (nonEmpty (splitSlash (abspath cwd start)))
    (nonEmpty (splitSlash (abspath cwd p)))))

/-- `posixpath.dirname` -/
def dirname (s : Str) : Str :=
  let head := (s.reverse.dropWhile (· ≠ slash)).reverse
  if head.all (· == slash) then head else (head.reverse.dropWhile (· == slash)).reverse

/-- `path.parent_dir`: `str(Path(p).parent) or "."` -/
def parentDir (s : Str) : Str := if dirname s = [] then dot else dirname s

/-! ## `stepup.core.path` -/

/-- `get_affixes`: the leading `./` (after removing one trailing slash) and the trailing `/`. -/
def getAffixes (s : Str) : Str × Str :=
  let body := if endsSlash s then s.dropLast else s
  (if dotSlash.isPrefixOf body then dotSlash else [], if endsSlash s then [slash] else [])

/-- `apply_affixes`; the error value is the number of the `raise PathError` statement (1..4). -/
def applyAffixes (p lead trail : Str) : Except Nat Str :=
  if lead ≠ [] ∧ lead ≠ dotSlash then .error 1
  else if lead ≠ [] ∧ (isabs p ∨ dotSlash.isPrefixOf p) then .error 2
  else
    let p1 := if lead ≠ [] then lead ++ p else p
    if trail ≠ [] ∧ trail ≠ [slash] then .error 3
    else if trail ≠ [] ∧ endsSlash p1 then .error 4
    else .ok (if trail ≠ [] then p1 ++ trail else p1)

/-- `api._keep_affixes(path, transform)` -/
def keepAffixes (f : Str → Str) (p : Str) : Except Nat Str :=
  applyAffixes (f p) (getAffixes p).1 (getAffixes p).2

/-- `api._translate_glob_path(path)`: the transform, with only the trailing `/` of the argument restored
(patterns and matches of `glob()` / `static()` on their way to the director). -/
def globPath (f : Str → Str) (p : Str) : Except Nat Str :=
  applyAffixes (f p) [] (getAffixes p).2

/-- `get_stepup_root`: `Path(os.getenv("STEPUP_ROOT", os.getcwd())).absolute()` -/
def getRoot (cwd : Str) (envRoot : Option Str) : Str := abspath cwd (envRoot.getD cwd)

/-- `Path(os.getenv("HERE", Path(".").relpath(root)))` -/
def getHere (cwd root : Str) (envHere : Option Str) : Str :=
  envHere.getD (relpathTo cwd root dot)

/-- `translate(path, workdir)` with `root = get_stepup_root()` and `here` the value of `HERE`. -/
def translate (cwd root here p wd : Str) : Str :=
  if isabs (normpath p) then normpath p
  else if isabs (normpath wd) then normpath (join (normpath wd) (normpath p))
  else relpathTo cwd root (normpath (join (join root here) (join (normpath wd) (normpath p))))

/-- `translate_back(path, workdir)` -/
def translateBack (cwd root here p wd : Str) : Str :=
  if isabs (normpath p) then
    if isabs (normpath wd) ∧ (normpath wd).isPrefixOf (normpath p) then
      relpathTo cwd (normpath wd) (normpath p)
    else normpath p
  else relpathTo cwd (join (join root here) (normpath wd)) (join root (normpath p))

/-- `translate` as a step calls it: root and `HERE` taken from the environment. -/
def translateEnv (cwd : Str) (envRoot envHere : Option Str) (p wd : Str) : Str :=
  translate cwd (getRoot cwd envRoot) (getHere cwd (getRoot cwd envRoot) envHere) p wd

def translateBackEnv (cwd : Str) (envRoot envHere : Option Str) (p wd : Str) : Str :=
  translateBack cwd (getRoot cwd envRoot) (getHere cwd (getRoot cwd envRoot) envHere) p wd

/-! ## `executor._run_command` (the director runs in the root, `cwd` is the root) -/

/-- `env["ROOT"] = Path.cwd().relpath(workdir)` -/
def envRootVar (cwd workdir : Str) : Str := relpathTo cwd workdir cwd

/-- `env["HERE"] = Path(workdir).relpath()` -/
def envHereVar (cwd workdir : Str) : Str := relpathTo cwd dot workdir

/-! ## Lexical resolution (the meaning of a path) -/

/-- The normalized component list of the location that `p` designates when it is interpreted in
the directory `base`: the components of `normpath(join(base, p))`.  The distinction between the
roots `/` and `//` is dropped (they are the same directory on Linux). -/
def resolve (base p : Str) : List Str := (parseNorm (join base p)).2

end StepupModel.P.Path
