import StepupModel.Generated.Rpc
/-!
# Layer P: the RPC wire format, the server connection and the client pending table (C16)

Modelled code (`stepup/core/rpc.py`, `stepup/core/asyncio.py`):

* `_encode_message`, `_decode_header`, `_recv_stream_message` on top of `StreamReader.readexactly`
  (`encodeMessage`, `parseOne`, `pump`, `feed`);
* `RPCServerConnection.serve/_recv_loop/_send_loop/_queue_reply/stop`, `iter_until_stopped`,
  `_decode_request`, `_call_and_capture_failure` (`Conn`, `step`);
* `is_rpc_allowed` / `_call_procedure` (`callDecision`);
* `SocketAsyncRPCClient.__call__/_recv_loop` with the `_pending` table (`Client`, `cstep`);
* `RemoteFailure.from_exception/to_exception`, `_raise_remote_error` (`clientClass`).

Bytes are `Nat`s.  asyncio is modelled at the granularity the harness drives it: one external
event at a time, each processed until the event loop is quiescent.  The constants and the method
table come from `Generated/Rpc.lean`, which is rewritten from the live code on every run.
-/
namespace StepupModel.P.Rpc
open StepupModel.Generated.Rpc

abbrev Bytes := List Nat

/-! ## Wire format -/

/-- `int.to_bytes(k, "big")` (the implementation raises `OverflowError` from `256^k` on). -/
def be : Nat → Nat → Bytes
  | 0, _ => []
  | k + 1, n => be k (n / 256) ++ [n % 256]

/-- `int.from_bytes(bs, "big")` -/
def fromBE (bs : Bytes) : Nat := bs.foldl (fun a b => a * 256 + b) 0

/-- A message: the call id and the body, `none` being the sentinel (empty body). -/
structure Msg where
  id : Nat
  body : Option Bytes
  deriving DecidableEq, Repr

/-- `_encode_message(call_id, body)` -/
def encodeMessage (m : Msg) : Bytes :=
  be fieldSize m.id ++ (be fieldSize (m.body.getD []).length ++ m.body.getD [])

/-- What the peer reads back: an empty `bytes` body is framed as the sentinel. -/
def Msg.norm (m : Msg) : Msg := ⟨m.id, if m.body = some [] then none else m.body⟩

/-- The encodable messages: the id fits the field and the body is within the size limit. -/
def Msg.WF (m : Msg) : Prop := m.id < 256 ^ fieldSize ∧ (m.body.getD []).length ≤ maxBodySize

inductive Parse where
  | need                          -- `readexactly` has to wait for more bytes
  | bad                           -- `_decode_header` raises `RPCError`
  | msg (m : Msg) (rest : Bytes)
  deriving DecidableEq, Repr

/-- One `_recv_stream_message` on the bytes received since the last message boundary:
`readexactly(HEADER_SIZE)`, `_decode_header`, `readexactly(size)`. -/
def parseOne (buf : Bytes) : Parse :=
  if buf.length < headerSize then .need
  else
    let size := fromBE ((buf.drop fieldSize).take fieldSize)
    if maxBodySize < size then .bad
    else if buf.length < headerSize + size then .need
    else .msg ⟨fromBE (buf.take fieldSize), if size = 0 then none else some ((buf.drop headerSize).take size)⟩
      (buf.drop (headerSize + size))

/-- State of the stream between two chunks: the unconsumed bytes, or dead after a bad header. -/
inductive Dec where
  | buf (b : Bytes)
  | bad
  deriving DecidableEq, Repr

theorem parseOne_msg_shrinks {buf : Bytes} {m : Msg} {rest : Bytes} (h : parseOne buf = .msg m rest) :
    rest.length < buf.length := by
  unfold parseOne at h
  have hH : 0 < headerSize := by decide
  split at h
  · cases h
  · simp only at h
    split at h
    · cases h
    · split at h
      · cases h
      · cases h
        simp only [List.length_drop]
        omega

/-- Read messages for as long as complete ones are available. -/
def pump (buf : Bytes) : List Msg × Dec :=
  match _h : parseOne buf with
  | .need => ([], .buf buf)
  | .bad => ([], .bad)
  | .msg m rest =>
    let r := pump rest
    (m :: r.1, r.2)
termination_by buf.length
decreasing_by exact parseOne_msg_shrinks ‹_›

/-- A chunk of bytes arrives. -/
def feed (d : Dec) (chunk : Bytes) : List Msg × Dec :=
  match d with
  | .bad => ([], .bad)
  | .buf b => pump (b ++ chunk)

/-- The whole stream, chunk by chunk. -/
def runChunks : Dec → List Bytes → List Msg × Dec
  | d, [] => ([], d)
  | d, c :: cs =>
    let r := feed d c
    let r' := runChunks r.2 cs
    (r.1 ++ r'.1, r'.2)

inductive StreamEnd where
  | peerGone    -- `IncompleteReadError`: `_recv_stream_message` returns `None`
  | error       -- `RPCError` from `_decode_header`
  deriving DecidableEq, Repr

/-- How reading ends when the peer closes its side after the given chunks. -/
def streamEnd : Dec → StreamEnd
  | .bad => .error
  | .buf _ => .peerGone

/-! ## Which procedure may be called (`_call_procedure`) -/

abbrev Name := List Nat

inductive Decision where
  | invoke
  | unknown       -- `getattr` raises `AttributeError`
  | notAllowed    -- the attribute exists but carries no `_allow_rpc`
  | badArgs       -- `inspect.signature(...).bind` raises `TypeError`
  deriving DecidableEq, Repr

/-- `table`: the attribute names of the handler with their `is_rpc_allowed` flag. -/
def callDecision (table : List (Name × Bool)) (name : Name) (bindOk : Bool) : Decision :=
  match table.lookup name with
  | none => .unknown
  | some false => .notAllowed
  | some true => if bindOk then .invoke else .badArgs

/-- `name.startswith("__") and name.endswith("__")` -/
def isDunder (n : Name) : Bool :=
  n.take 2 == [95, 95] && (n.reverse.take 2 == [95, 95])

/-! ## The server connection -/

/-- What a request body is, after `pickle.loads` (not modelled: given by the harness). -/
inductive Req where
  | call (name : Name) (bindOk : Bool)
  | notCall                          -- `_decode_request` raises `RPCError`
  deriving DecidableEq, Repr

structure Cfg where
  table : List (Name × Bool)         -- attributes of the handler
  bodies : List (Bytes × Req)        -- what each body unpickles to; anything else is `notCall`

def Cfg.interp (cfg : Cfg) (body : Bytes) : Req := (cfg.bodies.lookup body).getD .notCall

/-- How a handler task ends (`cls` indexes an exception class chosen by the harness). -/
inductive Outcome where
  | result
  | bigResult                        -- a result whose encoding fills the transport buffer: the writer pauses
  | cancelledInside                  -- the handler raises `CancelledError` although nobody cancelled its task
  | usage (cls : Nat)
  | internal (cls : Nat)
  | unpicklable                      -- `_encode_body` of the result raises
  | rejected (d : Decision)          -- `_call_procedure` raised `RPCError` before any call
  deriving DecidableEq, Repr

/-- What is written for a completed call. -/
inductive RKind where
  | value
  | failure (usage : Bool) (cls : Option Nat)   -- `RemoteFailure`; `none`: the `RPCError` of a rejection
  | cancelFailure                               -- the `RemoteFailure` of an `asyncio.CancelledError` (not usage)
  | sentinel                                    -- empty body: no reply is coming
  deriving DecidableEq, Repr

def Outcome.kind : Outcome → RKind
  | .result => .value
  | .bigResult => .value
  | .cancelledInside => .cancelFailure
  | .usage c => .failure true (some c)
  | .internal c => .failure false (some c)
  | .unpicklable => .sentinel
  | .rejected _ => .failure false none

/-- One received call: its arrival number on this connection and the id it came with. -/
structure Call where
  seq : Nat
  id : Nat
  deriving DecidableEq, Repr

structure Done where
  call : Call
  out : Outcome
  deriving DecidableEq, Repr

structure Reply where
  call : Call
  kind : RKind
  deriving DecidableEq, Repr

inductive Failure where
  | badHeader | notCall | unpicklable
  deriving DecidableEq, Repr

structure Conn where
  dec : Dec := .buf []
  recvd : List Call := []            -- every decoded call, in arrival order
  invoked : List (Call × Name) := [] -- procedures actually called
  inflight : List Call := []         -- `_tasks`
  queue : List Done := []            -- `_completed`
  sent : List Reply := []            -- written to the writer, in order
  dropped : List Call := []          -- calls whose reply will never be written
  cancelled : List Call := []        -- handlers cancelled by a failing connection (all are dropped)
  stopped : Bool := false            -- `_stop_event`
  recvAlive : Bool := true
  sendAlive : Bool := true
  sendBlocked : Bool := false        -- the send loop waits in `writer.drain()`
  failAfterDrain : Bool := false     -- ... with the exception of an unpicklable result pending
  paused : Bool := false             -- the transport asked the protocol to pause writing
  lost : Bool := false               -- the transport lost the connection
  failed : Option Failure := none    -- `serve` raises an `ExceptionGroup`
  deriving DecidableEq, Repr

/-- One of the loops raises: the `TaskGroup` cancels the other one and `_recv_loop` cancels the
handlers; nothing more is written. -/
def failConn (c : Conn) (f : Failure) : Conn :=
  { c with failed := some f, stopped := true, recvAlive := false, sendAlive := false, sendBlocked := false,
           failAfterDrain := false, cancelled := c.cancelled ++ c.inflight,
           dropped := c.dropped ++ (c.inflight ++ c.queue.map (·.call)), inflight := [], queue := [] }

/-- The send loop ends on a `ConnectionError` and sets the stop event: what is queued is never sent.
The receive loop notices the event when it next has to wait for bytes (`iter_until_stopped` still
yields the messages that are already available), see `settleRecv`. -/
def endSend (c : Conn) : Conn :=
  { c with stopped := true, sendAlive := false, sendBlocked := false,
           dropped := c.dropped ++ c.queue.map (·.call), queue := [] }

/-- `_send_loop` running until it has to wait (`fuel` bounds the number of replies). -/
def sendLoop : Nat → Conn → Conn
  | 0, c => c
  | n + 1, c =>
    if !c.sendAlive || c.sendBlocked then c
    else match c.queue with
      | [] => if c.stopped then { c with sendAlive := false } else c
      | d :: q =>
        if c.lost then
          match d.out with
          | .unpicklable => failConn { c with queue := q, dropped := c.dropped ++ [d.call] } .unpicklable
          | _ => endSend { c with queue := q, dropped := c.dropped ++ [d.call] }
        else
          let c' := { c with queue := q, sent := c.sent ++ [⟨d.call, d.out.kind⟩] }
          match d.out with
          | .unpicklable =>
            if c.paused then { c' with sendBlocked := true, failAfterDrain := true }
            else failConn c' .unpicklable
          | o =>
            -- a big reply does not fit the transport buffer: the protocol is told to pause writing
            if c.paused || o == .bigResult then { c' with sendBlocked := true, paused := true }
            else sendLoop n c'

def runSend (c : Conn) : Conn := sendLoop (c.queue.length + 1) c

/-- `_stop_event.set()`: the receive loop ends at once (it waits for bytes), the send loop after
the replies that are already queued. -/
def stopNow (c : Conn) : Conn := runSend { c with stopped := true, recvAlive := false }

/-- A handler task completes: `_queue_reply`. -/
def complete (c : Conn) (call : Call) (o : Outcome) : Conn :=
  if c.sendAlive then runSend { c with queue := c.queue ++ [⟨call, o⟩] }
  else { c with dropped := c.dropped ++ [call] }

inductive Frame where
  | call (id : Nat) (name : Name) (bindOk : Bool)
  | notCall (id : Nat)
  | close (id : Nat)
  deriving DecidableEq, Repr

def Cfg.frameOf (cfg : Cfg) (m : Msg) : Frame :=
  match m.body with
  | none => .close m.id
  | some b => match cfg.interp b with
    | .call name bindOk => .call m.id name bindOk
    | .notCall => .notCall m.id

/-- One iteration of the body of `_recv_loop`. -/
def stepFrame (cfg : Cfg) (c : Conn) (f : Frame) : Conn :=
  if !c.recvAlive then c
  else match f with
    | .close _ => stopNow c
    | .notCall _ => failConn c .notCall
    | .call id name bindOk =>
      let call : Call := ⟨c.recvd.length, id⟩
      let c := { c with recvd := c.recvd ++ [call] }
      match callDecision cfg.table name bindOk with
      | .invoke => { c with inflight := c.inflight ++ [call], invoked := c.invoked ++ [(call, name)] }
      | d => complete c call (.rejected d)

/-- The `ConnectionError` subclass the lost transport reports, and where it surfaces. -/
inductive LossClass where
  | reset | brokenPipe | aborted      -- `ConnectionResetError`, `BrokenPipeError`, `ConnectionAbortedError`
  deriving DecidableEq, Repr

inductive LossSite where
  | write | drain                     -- raised by `writer.write` or by `await writer.drain()`
  deriving DecidableEq, Repr

inductive Ev where
  | bytes (b : Bytes)
  | frame (f : Frame)                 -- a whole message at once (what `bytes` expands to)
  | badHeader
  | eof                               -- EOF or a reset on the reading side
  | stop                              -- `RPCServerConnection.stop()`
  | complete (k : Nat) (o : Outcome)   -- the handler of the `k`-th invoked call ends
  | pause | resume
  | lose (cls : LossClass) (site : LossSite)
  | tick                              -- any amount of time passes (no wait of the connection is bounded)
  deriving DecidableEq, Repr

/-- The receive loop, waiting for the next message, notices the stop event. -/
def settleRecv (c : Conn) : Conn := if c.stopped then { c with recvAlive := false } else c

def stepCore (cfg : Cfg) (c : Conn) : Ev → Conn
  | .frame f => stepFrame cfg c f
  | .badHeader => if c.recvAlive then failConn c .badHeader else c
  | .bytes b =>
    if !c.recvAlive then c
    else
      let r := feed c.dec b
      let c := (r.1.map cfg.frameOf).foldl (stepFrame cfg) { c with dec := r.2 }
      if r.2 = .bad ∧ c.recvAlive then failConn c .badHeader else c
  | .eof => if c.recvAlive then stopNow c else c
  | .stop => if c.stopped then c else stopNow c
  | .complete k o =>
    match c.invoked[k]? with
    | none => c
    | some (call, _) =>
      if call ∈ c.inflight then complete { c with inflight := c.inflight.erase call } call o else c
  | .tick => c
  | .pause => { c with paused := true }
  | .resume =>
    let c := { c with paused := false }
    if c.sendBlocked then
      if c.failAfterDrain then failConn c .unpicklable
      else runSend { c with sendBlocked := false }
    else c
  | .lose _ _ =>
    -- `_send_loop` and `serve` treat every `ConnectionError` alike, wherever it is raised
    let c := { c with lost := true }
    if c.sendBlocked then
      if c.failAfterDrain then failConn c .unpicklable else endSend c
    else c

/-- One external event, processed until the event loop is quiescent. -/
def step (cfg : Cfg) (c : Conn) (e : Ev) : Conn := settleRecv (stepCore cfg c e)

def run (cfg : Cfg) (c : Conn) (evs : List Ev) : Conn := evs.foldl (step cfg) c

/-- `serve()` has returned or raised. -/
def Conn.finished (c : Conn) : Bool := !c.recvAlive && !c.sendAlive && c.inflight.isEmpty

/-! ## The client: `SocketAsyncRPCClient._pending` -/

inductive CResult where
  | body (b : Option Bytes)     -- `future.set_result(response)`
  | connectionLost              -- `ConnectionResetError`
  | loopError                   -- the `RPCError` that ended the receive loop, re-raised by a later call
  deriving DecidableEq, Repr

structure Client where
  dec : Dec := .buf []
  counter : Nat := 0
  pending : List (Nat × Nat) := []       -- call id ↦ caller
  resolved : List (Nat × CResult) := []  -- caller ↦ what its future received
  alive : Bool := true                   -- the receive loop runs
  recvError : Bool := false              -- it ended on `RPCError` (unknown call id, bad header)
  deriving DecidableEq, Repr

inductive CEv where
  | call (caller : Nat)                  -- `__call__`: next id, entry in `_pending`, request sent
  | reply (id : Nat) (body : Option Bytes)
  | badHeader
  | eof
  | bytes (b : Bytes)                    -- expands to replies and possibly `badHeader`
  deriving DecidableEq, Repr

/-- The `finally` of `_recv_loop`: every pending call fails. -/
def Client.failAll (c : Client) (err : Bool) : Client :=
  { c with alive := false, recvError := c.recvError || err, pending := [],
           resolved := c.resolved ++ c.pending.reverse.map fun p => (p.2, .connectionLost) }

def cstep (c : Client) : CEv → Client
  | .call caller =>
    if c.alive then { c with counter := c.counter + 1, pending := c.pending ++ [(c.counter + 1, caller)] }
    else { c with resolved := c.resolved ++ [(caller, if c.recvError then .loopError else .connectionLost)] }
  | .reply id body =>
    if !c.alive then c
    else match c.pending.lookup id with
      | some caller =>
        { c with pending := c.pending.filter (fun p => p.1 != id),
                 resolved := c.resolved ++ [(caller, .body body)] }
      | none => c.failAll true
  | .badHeader => if c.alive then c.failAll true else c
  | .eof => if c.alive then c.failAll false else c
  | .bytes _ => c

def cstepB (c : Client) : CEv → Client
  | .bytes b =>
    if !c.alive then c
    else
      let r := feed c.dec b
      let c := r.1.foldl (fun c m => cstep c (.reply m.id m.body)) { c with dec := r.2 }
      if r.2 = .bad then cstep c .badHeader else c
  | e => cstep c e

def crun (c : Client) (evs : List CEv) : Client := evs.foldl cstepB c

/-! ## The class of the exception the caller sees -/

/-- The exception raised on the server, as far as `RemoteFailure` sees it. -/
structure Exc where
  name : Name
  usage : Bool          -- `isinstance(exc, UsageError)`
  importable : Bool     -- `getattr(import_module(module), qualname)` finds the class again
  ctorOk : Bool         -- `cls(message)` does not raise `TypeError`
  deriving DecidableEq, Repr

/-- `_raise_remote_error` / `RemoteFailure.to_exception`: the class raised in the client. -/
def clientClass (e : Exc) (debug : Bool) : Name :=
  if e.usage && !debug && e.importable && e.ctorOk then e.name else rpcErrorName

def excOfTable (name : Name) : Option Exc :=
  (excTable.lookup name).map fun (u, i, k) => ⟨name, u, i, k⟩

end StepupModel.P.Rpc
