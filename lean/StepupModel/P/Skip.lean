import StepupModel.K.Types
/-!
# Decision logic of the executor's hash checks (`executor.py`)

`Executor.try_skip_job`, `Executor.validate_dynamic_job` and the guard of
`Executor._run_hash_job`, reduced to what decides which database writes are made.  Digests are
opaque values (hex strings at the driver boundary); `none` stands for a computation that did not
deliver a digest (`_new_run` returned `None`: inputs changed unexpectedly or the hash worker was
cancelled; `_compute_out_step_hash` returned `None`: cancelled).

The writes themselves are kernel requests (`K/Workflow.lean`); this file only says which ones
are issued.  Tie: `harness/skipcorr.py` records, for every call of the three real coroutines during
simulated builds, the digests they computed and the `Step` / `Workflow` methods they invoked, and
compares with `trySkip` / `validateDynamic` / `hashJobApplies`.
-/
namespace StepupModel.P.Skip

/-- The stored `StepHash` as far as the decision reads it. -/
structure Digests (δ : Type) where
  inp : δ
  out : δ
  deriving DecidableEq, Repr

/-- What `try_skip_job` does to the step. -/
inductive SkipResult (δ : Type)
  /-- `_new_run` failed: `mark_completed(None, False)` (the step ends FAILED). -/
  | failedEarly
  /-- input digest differs: `_reset_step_to_pending` (reset_for_rerun, delete_hash, PENDING). -/
  | resetInputs
  /-- the output hash computation was cancelled: `_finalize_failed_run`. -/
  | cancelled
  /-- output digest differs: `_reset_step_to_pending`; the new output hashes are not stored. -/
  | resetOutputs
  /-- both digests equal: `update_file_hashes(new_out_hashes, SUCCEEDED)`,
  `mark_completed(new_hash, False)`: the step is recorded SUCCEEDED without running. -/
  | skipped (recorded : Digests δ)
  deriving DecidableEq, Repr

/-- `Executor.try_skip_job`: `newInp` is the input digest of `_new_run`'s step hash, `newOut`
the output digest of `_compute_out_step_hash` (only computed when the input digests agree). -/
def trySkip {δ : Type} [DecidableEq δ] (stored : Digests δ) (newInp newOut : Option δ) : SkipResult δ :=
  match newInp with
  | none => .failedEarly
  | some i =>
    if stored.inp ≠ i then .resetInputs
    else match newOut with
      | none => .cancelled
      | some o => if stored.out ≠ o then .resetOutputs else .skipped ⟨i, o⟩

/-- The `Step` / `Workflow` methods the real coroutine invokes for each result, in order. -/
def SkipResult.ops {δ : Type} : SkipResult δ → List String
  | .failedEarly => ["mark_completed:none"]
  | .resetInputs => ["reset_for_rerun", "delete_hash", "set_state:PENDING"]
  | .cancelled => ["mark_completed:none"]
  | .resetOutputs => ["reset_for_rerun", "delete_hash", "set_state:PENDING"]
  | .skipped _ => ["update_file_hashes:SUCCEEDED", "mark_completed:hash"]

/-- What `validate_dynamic_job` does to the step. -/
inductive ValidateResult
  | failedEarly     -- `_new_run` failed
  | reset           -- input digest differs: dynamic info discarded, `_reset_step_to_pending`
  | keepWaiting     -- unchanged: back to PENDING (hash and dynamic info kept)
  deriving DecidableEq, Repr

/-- `Executor.validate_dynamic_job` -/
def validateDynamic {δ : Type} [DecidableEq δ] (storedInp : δ) (newInp : Option δ) : ValidateResult :=
  match newInp with
  | none => .failedEarly
  | some i => if storedInp ≠ i then .reset else .keepWaiting

def ValidateResult.ops : ValidateResult → List String
  | .failedEarly => ["mark_completed:none"]
  | .reset => ["reset_for_rerun", "delete_hash", "set_state:PENDING"]
  | .keepWaiting => ["set_state:PENDING"]

/-- The guard of `Executor._run_hash_job` (`cause` is the `HashUpdateCause`): the result `new` of `FileHash.refreshed(old, path)`
is passed to `Workflow.update_file_hashes` iff it differs from the recorded hash or the cause is
CONFIRMED (which must flip UNCONFIRMED to CONFIRMED / MISSING even when nothing changed). -/
def hashJobApplies {η : Type} [DecidableEq η] (old new : η) (cause : K.Cause) : Bool :=
  new ≠ old || cause = .confirmed

end StepupModel.P.Skip
