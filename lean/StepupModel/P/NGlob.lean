import StepupModel.Generated.NGlob
/-!
# Layer P: named glob patterns (C17)

Strings are lists of Unicode code points (`Nat`).  Modelled code, all in `stepup/core/nglob.py`:
the tokeniser `RE_ANY_WILD.split`, `convert_nglob_to_regex`, `convert_nglob_to_glob`,
`NamedGlob._match_values / extend / reduce / glob / will_change / files`, `glob_base_dir`,
`has_any_wildcards`, `has_anonymous_wildcards`, `has_trailing_recursive_wildcard`,
`iter_wildcard_names`.

Platform semantics modelled by hand (validated by the correspondence harness only):

* the fragment of Python `re` that the compiler emits, as an AST (`CSet`, `Atom`, `Item`) with a
  backtracking `fullmatch` that returns the group bindings; whether `.` matches a newline is the
  regenerated `Generated.NGlob.dotAll` (`NGLOB_REGEX_FLAGS & re.DOTALL`);
* `fnmatch` on one path component and CPython's `glob.iglob(recursive=True,
  include_hidden=True)` on a finite directory tree.

Character classes are copied verbatim from the pattern into the regular expression, where Python
`re` reads them with its own syntax, while `fnmatch` reads them with another.  The model gives
them the meaning both agree on for *simple* bodies (`simpleBody`): literal characters and
ascending ranges.  Everything else is flagged by `simplePattern` and not compared.
-/
namespace StepupModel.P.NGlob

abbrev Str := List Nat

/-! ## Tokeniser: `RE_ANY_WILD.split(pattern)` without the empty strings -/

inductive Tok where
  | lit (s : Str)          -- text between wildcards, never empty
  | star                   -- `*`
  | qm                     -- `?`
  | dstar                  -- `**` as the whole string or as the last component
  | dstarSlash             -- `**/` leading or after a `/`
  | cls (body : Str)       -- `[body]`
  | named (name : Str)     -- `${*name}`
  deriving DecidableEq, Repr, Inhabited

/-- `[a-zA-Z0-9_]` -/
def isNameChar (c : Nat) : Bool :=
  (97 ≤ c && c ≤ 122) || (65 ≤ c && c ≤ 90) || (48 ≤ c && c ≤ 57) || c == 95

/-- `$` of Python `re` without MULTILINE: the end of the string, or just before a final newline. -/
def atDollar (s : Str) : Bool := s == [] || s == [10]

/-- `.*?]` after an opening bracket: the shortest run of non-newline characters up to `]`. -/
def classBody : Str → Option (Str × Str)
  | [] => none
  | c :: t =>
    if c = 93 then some ([], t)
    else if c = 10 then none
    else match classBody t with
      | some (b, r) => some (c :: b, r)
      | none => none

/-- `[a-zA-Z0-9_]*?}` after `${*`. -/
def nameBody : Str → Option (Str × Str)
  | [] => none
  | c :: t =>
    if c = 125 then some ([], t)
    else if isNameChar c then
      match nameBody t with
      | some (b, r) => some (c :: b, r)
      | none => none
    else none

/-- Emit the pending literal text (kept reversed) in front of the remaining tokens. -/
def flush (acc : Str) (rest : List Tok) : List Tok :=
  if acc = [] then rest else Tok.lit acc.reverse :: rest

/-- One scan of the alternation of `RE_ANY_WILD` from left to right.  `prev` is the character
before the current position (`none` at position 0: that is where `^` matches, and `some 47`
where the look-behind `(?<=/)` matches); `acc` is the reversed pending text.  The first argument
is fuel (the remaining length plus one suffices). -/
def tokAux : Nat → Option Nat → Str → Str → List Tok
  | 0, _, acc, _ => flush acc []
  | _ + 1, _, acc, [] => flush acc []
  | f + 1, prev, acc, c :: t =>
    let boundary := prev == none || prev == some 47
    let literal := tokAux f (some c) (c :: acc) t
    if c = 42 then
      let single := flush acc (Tok.star :: tokAux f (some 42) [] t)
      match t with
      | 42 :: t2 =>
        if boundary && atDollar t2 then flush acc (Tok.dstar :: tokAux f (some 42) [] t2)
        else match t2 with
          | 47 :: t3 =>
            if boundary then flush acc (Tok.dstarSlash :: tokAux f (some 47) [] t3) else single
          | _ => single
      | _ => single
    else if c = 91 then
      match classBody t with
      | some (b, r) => flush acc (Tok.cls b :: tokAux f (some 93) [] r)
      | none => literal
    else if c = 63 then flush acc (Tok.qm :: tokAux f (some 63) [] t)
    else if c = 36 then
      match t with
      | 123 :: 42 :: t3 =>
        match nameBody t3 with
        | some (n, r) => flush acc (Tok.named n :: tokAux f (some 125) [] r)
        | none => literal
      | _ => literal
    else literal

def tokenize (s : Str) : List Tok := tokAux (s.length + 1) none [] s

/-- The text of a token (`"".join` of the split list gives the pattern back). -/
def Tok.text : Tok → Str
  | .lit s => s
  | .star => [42]
  | .qm => [63]
  | .dstar => [42, 42]
  | .dstarSlash => [42, 42, 47]
  | .cls b => 91 :: b ++ [93]
  | .named n => [36, 123, 42] ++ n ++ [125]

def Tok.isLit : Tok → Bool
  | .lit _ => true
  | _ => false

def Tok.isNamed : Tok → Bool
  | .named _ => true
  | _ => false

/-- `has_any_wildcards` -/
def hasAnyWildcards (s : Str) : Bool := (tokenize s).any fun t => !t.isLit

/-- `has_anonymous_wildcards` -/
def hasAnonymousWildcards (s : Str) : Bool := (tokenize s).any fun t => !t.isLit && !t.isNamed

/-- `has_trailing_recursive_wildcard`: `RE_TRAILING_RECURSIVE_WILD.search`. -/
def hasTrailingRecursive (s : Str) : Bool :=
  let core := if s.getLast? == some 10 then s.dropLast else s
  let r := core.reverse
  r == [42, 42] || r.take 3 == [42, 42, 47]

/-- `iter_wildcard_names` as a list; `none` when a name is empty (`ValueError`). -/
def wildcardNames (toks : List Tok) : Option (List Str) :=
  toks.foldr (fun t acc =>
    match t with
    | .named n => if n = [] then none else acc.map (n :: ·)
    | _ => acc) (some [])

/-- Code point order of Python `str`. -/
def ltS : Str → Str → Bool
  | [], [] => false
  | [], _ :: _ => true
  | _ :: _, [] => false
  | a :: as, b :: bs => if a < b then true else if b < a then false else ltS as bs

def insertSorted (x : Str) : List Str → List Str
  | [] => [x]
  | y :: ys => if ltS x y then x :: y :: ys else if x = y then y :: ys else y :: insertSorted x ys

/-- `sorted(set(xs))` -/
def sortDedup (xs : List Str) : List Str := xs.foldr insertSorted []

/-- `NamedGlob._used_names` -/
def usedNames (toks : List Tok) : List Str :=
  sortDedup (toks.filterMap fun t => match t with | .named n => some n | _ => none)

/-! ## The regular-expression fragment -/

/-- A set of characters as the compiler writes it. -/
inductive CSet where
  | notSlash                          -- `[^/]`
  | dot                               -- `.` (every character under DOTALL, else all but newline)
  | cls (neg : Bool) (body : Str)     -- `[body]` / `[^body]`, body copied from the pattern
  deriving DecidableEq, Repr

inductive Atom where
  | lit (s : Str)          -- `re.escape(s)`
  | one (cs : CSet)
  | star (cs : CSet)       -- greedy `*`
  | plus (cs : CSet)       -- greedy `+`
  | dirs                   -- `(?:.*/|)`
  | optSlash               -- `/?`
  deriving DecidableEq, Repr

inductive Item where
  | atom (a : Atom)
  | group (n : Str) (body : List Atom)    -- `(?P<n>body)`
  | bref (n : Str)                        -- `(?P=n)`
  deriving DecidableEq, Repr

/-- Membership in a simple class body: literal characters and ranges `a-b`. -/
def clsMem : Str → Nat → Bool
  | a :: 45 :: b :: rest, c => (a ≤ c && c ≤ b) || clsMem rest c
  | a :: rest, c => a == c || clsMem rest c
  | [], _ => false

def CSet.mem : CSet → Nat → Bool
  | .notSlash, c => c != 47
  | .dot, c => Generated.NGlob.dotAll || c != 10
  | .cls neg body, c => neg != clsMem body c

/-- Characters escaped by `re.escape`. -/
def isSpecial (c : Nat) : Bool :=
  [40, 41, 91, 93, 123, 125, 63, 42, 43, 45, 124, 94, 36, 92, 46, 38, 126, 35, 32, 9, 10, 13, 11, 12].contains c

def escape : Str → Str
  | [] => []
  | c :: t => if isSpecial c then 92 :: c :: escape t else c :: escape t

def CSet.render : CSet → Str
  | .notSlash => [91, 94, 47, 93]
  | .dot => [46]
  | .cls neg body => 91 :: (if neg then [94] else []) ++ body ++ [93]

def Atom.render : Atom → Str
  | .lit s => escape s
  | .one cs => cs.render
  | .star cs => cs.render ++ [42]
  | .plus cs => cs.render ++ [43]
  | .dirs => [40, 63, 58, 46, 42, 47, 124, 41]
  | .optSlash => [47, 63]

def renderAtoms (as : List Atom) : Str := as.flatMap Atom.render

def Item.render : Item → Str
  | .atom a => a.render
  | .group n body => [40, 63, 80, 60] ++ n ++ [62] ++ renderAtoms body ++ [41]
  | .bref n => [40, 63, 80, 61] ++ n ++ [41]

/-- The string `convert_nglob_to_regex` returns. -/
def renderRegex (re : List Item) : Str := re.flatMap Item.render

/-! ### Matching (backtracking order of `re`, continuation-passing) -/

/-- Greedy `cs*` followed by the continuation `k`: longest run first, then shorter ones. -/
def starK {α : Type} (cs : CSet) (k : Str → Option α) : Str → Option α
  | [] => k []
  | c :: t =>
    if cs.mem c then
      match starK cs k t with
      | some e => some e
      | none => k (c :: t)
    else k (c :: t)

/-- A sequence of atoms followed by the continuation `k`. -/
def matchAtoms {α : Type} : List Atom → (Str → Option α) → Str → Option α
  | [], k, inp => k inp
  | .lit s :: as, k, inp =>
    if s.isPrefixOf inp then matchAtoms as k (inp.drop s.length) else none
  | .one cs :: as, k, inp =>
    match inp with
    | c :: t => if cs.mem c then matchAtoms as k t else none
    | [] => none
  | .star cs :: as, k, inp => starK cs (matchAtoms as k) inp
  | .plus cs :: as, k, inp =>
    match inp with
    | c :: t => if cs.mem c then starK cs (matchAtoms as k) t else none
    | [] => none
  | .dirs :: as, k, inp =>
    match starK .dot (fun r => match r with | 47 :: t => matchAtoms as k t | _ => none) inp with
    | some e => some e
    | none => matchAtoms as k inp
  | .optSlash :: as, k, inp =>
    match inp with
    | 47 :: t =>
      match matchAtoms as k t with
      | some e => some e
      | none => matchAtoms as k (47 :: t)
    | _ => matchAtoms as k inp

/-- Group bindings, most recent first. -/
abbrev Env := List (Str × Str)

def Env.get (e : Env) (n : Str) : Option Str :=
  match e with
  | [] => none
  | (m, v) :: rest => if m = n then some v else Env.get rest n

def matchItems : List Item → Env → Str → Option Env
  | [], env, inp => if inp = [] then some env else none
  | .atom a :: rest, env, inp => matchAtoms [a] (matchItems rest env) inp
  | .group n body :: rest, env, inp =>
    matchAtoms body (fun r => matchItems rest ((n, inp.take (inp.length - r.length)) :: env) r) inp
  | .bref n :: rest, env, inp =>
    match env.get n with
    | some v => if v.isPrefixOf inp then matchItems rest env (inp.drop v.length) else none
    | none => none

/-- `re.compile(regex).fullmatch(s)`, returning the bindings of a successful match. -/
def fullmatch (re : List Item) (s : Str) : Option Env := matchItems re [] s

def accepts (re : List Item) (s : Str) : Bool := (fullmatch re s).isSome

/-- `NamedGlob._match_values` -/
def matchValues (re : List Item) (names : List Str) (s : Str) : Option (List Str) :=
  match fullmatch re s with
  | some env => some (names.map fun n => (env.get n).getD [])
  | none => none

/-! ## `convert_nglob_to_regex` -/

inductive Err where
  | value      -- `ValueError` raised by the converters
  | regex      -- `re.error` raised by `re.compile` in `NamedGlob.__init__`
  deriving DecidableEq, Repr

/-- `[!body]` becomes `[^body]`, everything else is copied. -/
def mkCls (b : Str) : CSet :=
  match b with
  | 33 :: rest => .cls true rest
  | _ => .cls false b

/-- Replace the last part (`parts[-1] = regex`) or append. -/
def putPart {α : Type} (replace : Bool) (parts : List α) (x : α) : List α :=
  if replace then parts.dropLast ++ [x] else parts ++ [x]

/-- The loop of `convert_nglob_to_regex(sub, {}, allow_names=False)`. -/
def compileSubLoop : List Tok → List Atom → Option Tok → Except Err (List Atom)
  | [], parts, _ => .ok parts
  | tok :: rest, parts, last =>
    match tok with
    | .lit s => compileSubLoop rest (parts ++ [.lit s]) (some tok)
    | .qm => compileSubLoop rest (parts ++ [.one .notSlash]) (some tok)
    | .star =>
      if last = some .star || last = some .dstar then compileSubLoop rest parts (some tok)
      else compileSubLoop rest (parts ++ [.star .notSlash]) (some tok)
    | .dstar =>
      if last = some .dstar then compileSubLoop rest parts (some tok)
      else compileSubLoop rest (putPart (last = some .star) parts (.star .dot)) (some tok)
    | .dstarSlash =>
      if last = some .dstarSlash then compileSubLoop rest parts (some tok)
      else compileSubLoop rest
        (putPart (last = some .star || last = some .dstar) parts .dirs) (some tok)
    | .cls b => compileSubLoop rest (parts ++ [.one (mkCls b)]) (some tok)
    | .named _ => .error .value

/-- A substitution pattern converted with `allow_names=False`; an empty one is rejected. -/
def compileSub (sub : Str) : Except Err (List Atom) :=
  if sub = [] then .error .value else compileSubLoop (tokenize sub) [] none

abbrev Subs := List (Str × Str)

/-- `subs.get(name, "*")` -/
def Subs.getD (subs : Subs) (n : Str) : Str :=
  match subs with
  | [] => [42]
  | (m, v) :: rest => if m = n then v else Subs.getD rest n

/-- The loop state of `convert_nglob_to_regex`: `parts`, `last`, `encountered`. -/
structure CState where
  parts : List Item
  last : Option Tok
  enc : List Str
  deriving DecidableEq, Repr

/-- One iteration of the main loop of `convert_nglob_to_regex` (the wildcard branches; a text
fragment is escaped and appended).  Every fragment is non-empty, so `last` becomes the fragment. -/
def compileStep (subs : Subs) (st : CState) (tok : Tok) : Except Err CState :=
  match tok with
  | .lit s => .ok { st with parts := st.parts ++ [.atom (.lit s)], last := some tok }
  | .qm => .ok { st with parts := st.parts ++ [.atom (.one .notSlash)], last := some tok }
  | .star =>
    if st.last = some .star || st.last = some .dstar then .ok { st with last := some tok }
    else .ok { st with parts := st.parts ++ [.atom (.star .notSlash)], last := some tok }
  | .dstar =>
    if st.last = some .dstar then .ok { st with last := some tok }
    else .ok { st with parts := putPart (st.last = some .star) st.parts (.atom (.star .dot)), last := some tok }
  | .dstarSlash =>
    if st.last = some .dstarSlash then .ok { st with last := some tok }
    else .ok { st with
      parts := putPart (st.last = some .star || st.last = some .dstar) st.parts (.atom .dirs), last := some tok }
  | .cls b => .ok { st with parts := st.parts ++ [.atom (.one (mkCls b))], last := some tok }
  | .named n =>
    if n = [] then .error .value
    else if st.enc.contains n then .ok { st with parts := st.parts ++ [.bref n], last := some tok }
    else
      match compileSub (subs.getD n) with
      | .error e => .error e
      | .ok body => .ok { parts := st.parts ++ [.group n body], last := some tok, enc := n :: st.enc }

/-- The main loop of `convert_nglob_to_regex`. -/
def compileLoop (subs : Subs) : List Tok → CState → Except Err CState
  | [], st => .ok st
  | tok :: rest, st =>
    match compileStep subs st tok with
    | .error e => .error e
    | .ok st' => compileLoop subs rest st'

def endsSlash : Item → Bool
  | .atom (.lit s) => s.getLast? == some 47
  | _ => false

def startsSlash : Item → Bool
  | .atom (.lit s) => s.head? == some 47
  | _ => false

/-- What the "enclosed" rule does to a part that sits between two separators. -/
def enclosedFix : Item → Item
  | .group n body => if body = [.star .notSlash] then .group n [.plus .notSlash] else .group n body
  | .atom (.star cs) => .atom (.plus cs)
  | x => x

/-- The enclosed pass: `prevSlash` says whether the previous part ends with `/`
(false at index 0). -/
def enclosedPass : Bool → List Item → List Item
  | _, [] => []
  | _, [x] => [x]
  | prevSlash, x :: y :: rest =>
    (if prevSlash && startsSlash y then enclosedFix x else x) :: enclosedPass (endsSlash x) (y :: rest)

/-- The body the trailing rule chooses for the last wildcard: non-empty when the part before it
(the head of the reversed list) ends with a separator. -/
def trailBody (revPrevs : List Item) : Atom :=
  if (revPrevs.head?.map endsSlash).getD false then .plus .notSlash else .star .notSlash

/-- The trailing rule: a single-component wildcard at the very end also accepts a trailing
separator, which stays outside a named group. -/
def trailingPass (parts : List Item) : List Item :=
  match parts.reverse with
  | [] => parts
  | last :: prevs =>
    match last with
    | .group n b =>
      if b = [.star .notSlash] then prevs.reverse ++ [.group n [trailBody prevs], .atom .optSlash] else parts
    | .atom (.star .notSlash) => prevs.reverse ++ [.atom (trailBody prevs), .atom .optSlash]
    | _ => parts

/-- `convert_nglob_to_regex(pattern, subs)` on the token list. -/
def compileToks (toks : List Tok) (subs : Subs) : Except Err (List Item) :=
  match compileLoop subs toks ⟨[], none, []⟩ with
  | .error e => .error e
  | .ok st => .ok (trailingPass (enclosedPass false st.parts))

def compileRegex (pattern : Str) (subs : Subs) : Except Err (List Item) :=
  if pattern = [] then .error .value else compileToks (tokenize pattern) subs

/-! ### What `re.compile` rejects, and what the model does not cover -/

/-- A class body that both `re` and `fnmatch` read as literal characters and ascending ranges:
no `\ [ ] & ~ |`, not empty. -/
def plainBody (b : Str) : Bool :=
  b != [] && b.all fun c => !([92, 91, 93, 38, 126, 124].contains c)

/-- No descending range (`re.error: bad character range`). -/
def rangesAscend : Str → Bool
  | a :: 45 :: b :: rest => a ≤ b && rangesAscend rest
  | _ :: rest => rangesAscend rest
  | [] => true

def simpleBody (b : Str) : Bool :=
  match b with
  | 33 :: rest => plainBody rest
  | 94 :: _ => false
  | _ => plainBody b

def bodyAscends (b : Str) : Bool :=
  match b with
  | 33 :: rest => rangesAscend rest
  | _ => rangesAscend b

def simpleToks (toks : List Tok) : Bool :=
  toks.all fun t => match t with | .cls b => simpleBody b | _ => true

/-- A bracket that the tokeniser left as text (no `]` before the next newline) while a `]`
occurs somewhere: `fnmatch` may pair them up differently. -/
def strayBrackets (toks : List Tok) : Bool :=
  (toks.any fun t => match t with | .lit s => s.contains 91 | _ => false) &&
    (toks.any fun t => t.text.contains 93)

/-- The pattern and the substitutions it uses stay inside the modelled class syntax. -/
def simplePattern (pattern : Str) (subs : Subs) : Bool :=
  let toks := tokenize pattern
  let all := toks ++ (usedNames toks).flatMap fun n => tokenize (subs.getD n)
  simpleToks all && !strayBrackets all

/-- `str.isidentifier` on `[a-zA-Z0-9_]+`: must not start with a digit. -/
def validGroupName (n : Str) : Bool :=
  match n with
  | c :: _ => !(48 ≤ c && c ≤ 57)
  | [] => false

def CSet.valid : CSet → Bool
  | .cls _ body => rangesAscend body
  | _ => true

def Atom.valid : Atom → Bool
  | .one cs | .star cs | .plus cs => cs.valid
  | _ => true

/-- `re.compile` accepts the rendered expression (for simple patterns). -/
def regexValid (re : List Item) : Bool :=
  re.all fun it =>
    match it with
    | .atom a => a.valid
    | .group n body => validGroupName n && body.all Atom.valid
    | .bref _ => true

/-! ## `convert_nglob_to_glob` -/

/-- The merging loop over the non-empty parts; `texts` is kept reversed. -/
def globMerge : List Tok → List Tok → List Tok
  | [], texts => texts.reverse
  | part :: rest, [] => globMerge rest [part]
  | part :: rest, top :: below =>
    match part with
    | .qm => globMerge rest (part :: top :: below)
    | .star =>
      if top = .star || top = .dstar then globMerge rest (top :: below)
      else globMerge rest (.star :: top :: below)
    | .dstar =>
      if top = .star then globMerge rest (.dstar :: below)
      else if top = .dstar then globMerge rest (top :: below)
      else globMerge rest (.dstar :: top :: below)
    | .dstarSlash =>
      if top = .star || top = .dstar then globMerge rest (.dstarSlash :: below)
      else if top = .dstarSlash then globMerge rest (top :: below)
      else globMerge rest (.dstarSlash :: top :: below)
    | _ => globMerge rest (part :: top :: below)

/-- Named wildcards replaced by the tokens of their substitution. -/
def globParts (subs : Subs) : List Tok → Except Err (List Tok)
  | [] => .ok []
  | .named n :: rest =>
    if n = [] then .error .value
    else match globParts subs rest with
      | .error e => .error e
      | .ok r => .ok (tokenize (subs.getD n) ++ r)
  | t :: rest =>
    match globParts subs rest with
    | .error e => .error e
    | .ok r => .ok (t :: r)

def globToks (toks : List Tok) (subs : Subs) : Except Err (List Tok) :=
  match globParts subs toks with
  | .error e => .error e
  | .ok parts => .ok (globMerge parts [])

def renderToks (toks : List Tok) : Str := toks.flatMap Tok.text

/-- `convert_nglob_to_glob(pattern, subs)` -/
def compileGlob (pattern : Str) (subs : Subs) : Except Err Str :=
  match globToks (tokenize pattern) subs with
  | .error e => .error e
  | .ok toks => .ok (renderToks toks)

/-! ## `fnmatch` on one path component -/

inductive FnElem where
  | chr (c : Nat)
  | any                 -- `?`
  | star                -- `*`
  | cls (stuff : Str)   -- `[stuff]`, `stuff` may start with `!`
  deriving DecidableEq, Repr

def spanToRb : Str → Option (Str × Str)
  | [] => none
  | c :: t =>
    if c = 93 then some ([], t)
    else match spanToRb t with
      | some (b, r) => some (c :: b, r)
      | none => none

/-- The bracket scan of `fnmatch.translate`: an optional `!`, then an optional `]`, then up to
the next `]`; `none` when the bracket is never closed (it is then a literal). -/
def fnClassEnd (s : Str) : Option (Str × Str) :=
  let (p1, s1) := match s with
    | 33 :: t => ([33], t)
    | _ => ([], s)
  let (p2, s2) := match s1 with
    | 93 :: t => ([93], t)
    | _ => ([], s1)
  match spanToRb s2 with
  | some (b, r) => some (p1 ++ p2 ++ b, r)
  | none => none

def fnParse : Nat → Str → List FnElem
  | 0, _ => []
  | _ + 1, [] => []
  | f + 1, c :: t =>
    if c = 42 then .star :: fnParse f t
    else if c = 63 then .any :: fnParse f t
    else if c = 91 then
      match fnClassEnd t with
      | some (stuff, r) => .cls stuff :: fnParse f r
      | none => .chr c :: fnParse f t
    else .chr c :: fnParse f t

def fnClsMem (stuff : Str) (c : Nat) : Bool :=
  match stuff with
  | 33 :: rest => !clsMem rest c
  | _ => clsMem stuff c

/-- `f` holds for some suffix of the string. -/
def anySuffix (f : Str → Bool) : Str → Bool
  | [] => f []
  | c :: t => f (c :: t) || anySuffix f t

def fnMatch : List FnElem → Str → Bool
  | [], s => s.isEmpty
  | .chr c :: ps, s =>
    match s with
    | x :: t => x == c && fnMatch ps t
    | [] => false
  | .any :: ps, s =>
    match s with
    | _ :: t => fnMatch ps t
    | [] => false
  | .cls stuff :: ps, s =>
    match s with
    | x :: t => fnClsMem stuff x && fnMatch ps t
    | [] => false
  | .star :: ps, s => anySuffix (fnMatch ps) s

/-- `fnmatch.fnmatchcase(name, pat)` (DOTALL: `*` and `?` match a newline). -/
def fnmatchC (pat name : Str) : Bool := fnMatch (fnParse pat.length pat) name

/-! ## A finite directory tree and `glob.iglob(recursive=True, include_hidden=True)` -/

/-- Entries as (components, is-directory).  Well-formed trees list every ancestor directory. -/
abbrev Path := List Str
abbrev Tree := List (Path × Bool)

/-- A well-formed tree: no duplicate paths, components are non-empty names without a separator
other than `.` and `..`, and every ancestor directory is listed. -/
def closedTree (t : Tree) : Bool :=
  (t.all fun (p, _) =>
    p != [] && (p.all fun c => c != [] && !c.contains 47 && c != [46] && c != [46, 46]) &&
      (p.length ≤ 1 || t.contains (p.dropLast, true))) &&
  (t.map Prod.fst).eraseDups.length == t.length

/-- `os.path.isdir` of a relative path; the empty path is not a directory (`isdir("")`). -/
def isDirQ (t : Tree) (p : Path) : Bool := p != [] && t.contains (p, true)

/-- `os.path.lexists` -/
def existsQ (t : Tree) (p : Path) : Bool := p != [] && (t.contains (p, true) || t.contains (p, false))

/-- `_listdir(d, dironly)`: names of the entries directly inside `d` (any order). -/
def listdir (t : Tree) (d : Path) (dironly : Bool) : List Str :=
  t.filterMap fun (p, isd) =>
    if (!dironly || isd) && p.length = d.length + 1 && d.isPrefixOf p then p.getLast? else none

/-- `_rlistdir(d, dironly)`: everything strictly below `d`, as full paths. -/
def rlist (t : Tree) (d : Path) (dironly : Bool) : List Path :=
  t.filterMap fun (p, isd) =>
    if (!dironly || isd) && d.length < p.length && d.isPrefixOf p then some p else none

def hasMagic (s : Str) : Bool := s.any fun c => c == 42 || c == 63 || c == 91

/-- A yielded path: components plus "the string ends with a separator". -/
abbrev GPath := Path × Bool

/-- `glob_in_dir(d, base, dironly)` joined with `d`: `_glob2` for `**`, `_glob1` for a magic
component, `_glob0` otherwise.  `_glob2` yields its base without any existence check, and
`_glob0` ignores `dironly`. -/
def globIn (t : Tree) (d : Path) (base : Str) (dironly : Bool) : List GPath :=
  if base = [42, 42] then (d, true) :: (rlist t d dironly).map fun p => (p, false)
  else if hasMagic base then
    ((listdir t d dironly).filter (fnmatchC base)).map fun n => (d ++ [n], false)
  else if base = [] then (if isDirQ t d then [(d, true)] else [])
  else if existsQ t (d ++ [base]) then [(d ++ [base], false)] else []

/-- `_iglob` on the reversed component list (last component first). -/
def iglobR (t : Tree) : List Str → Bool → List GPath
  | [], _ => []
  | base :: revDir, dironly =>
    let dirs : List Path :=
      match revDir with
      | [] => [[]]
      | _ :: _ =>
        if revDir.any hasMagic then (iglobR t revDir true).map (·.1) else [revDir.reverse]
    dirs.flatMap fun d => globIn t d base dironly

/-- The directories in which the last component is expanded (`dirs` of `_iglob`). -/
def dirsOf (t : Tree) (revDir : List Str) : List Path :=
  match revDir with
  | [] => [[]]
  | _ :: _ => if revDir.any hasMagic then (iglobR t revDir true).map (·.1) else [revDir.reverse]

def splitSlashAux : Str → Str → List Str
  | [], acc => [acc.reverse]
  | c :: t, acc => if c = 47 then acc.reverse :: splitSlashAux t [] else splitSlashAux t (c :: acc)

/-- `s.split("/")` -/
def splitSlash (s : Str) : List Str := splitSlashAux s []

def joinSlash : List Str → Str
  | [] => []
  | [x] => x
  | x :: y :: rest => x ++ 47 :: joinSlash (y :: rest)

/-- The string of a yielded path. -/
def render (g : GPath) : Str :=
  if g.1 = [] then [] else if g.2 then joinSlash g.1 ++ [47] else joinSlash g.1

/-- `glob.iglob(g, recursive=True, include_hidden=True)`: a leading empty result is skipped
when the pattern starts with `**`. -/
def iglob (t : Tree) (g : Str) : List GPath :=
  let r := iglobR t (splitSlash g).reverse false
  if g.take 2 = [42, 42] then
    match r with
    | x :: xs => if render x = [] then xs else r
    | [] => []
  else r

/-- The existing paths, directories with a trailing separator. -/
def treePaths (t : Tree) : List Str := t.map render

/-! ## `NamedGlob` results -/

abbrev Key := List Str
abbrev Results := List (Key × List Str)

def Results.get (r : Results) (k : Key) : List Str :=
  match r with
  | [] => []
  | (k', ps) :: rest => if k' = k then ps else Results.get rest k

/-- `results.setdefault(k, set()).add(p)` -/
def insertPath (k : Key) (p : Str) : Results → Results
  | [] => [(k, [p])]
  | (k', ps) :: rest =>
    if k' = k then (k', if ps.contains p then ps else ps ++ [p]) :: rest
    else (k', ps) :: insertPath k p rest

/-- `discard` and delete the group when it became empty. -/
def removePath (k : Key) (p : Str) : Results → Results
  | [] => []
  | (k', ps) :: rest =>
    if k' = k then
      let ps' := ps.filter (· != p)
      if ps' = [] then rest else (k', ps') :: rest
    else (k', ps) :: removePath k p rest

/-- `NamedGlob.extend` for a matcher `m = _match_values`. -/
def extend (m : Str → Option Key) (r : Results) (paths : List Str) : Results :=
  paths.foldl (fun r p => match m p with | some k => insertPath k p r | none => r) r

/-- `NamedGlob.reduce` -/
def reduce (m : Str → Option Key) (r : Results) (paths : List Str) : Results :=
  paths.foldl (fun r p => match m p with | some k => removePath k p r | none => r) r

def subResults (a b : Results) : Bool :=
  a.all fun (k, ps) => ps.all fun p => (b.get k).contains p

def keysIn (a b : Results) : Bool := a.all fun (k, _) => b.any fun (k', _) => k' == k

/-- `dict.__eq__` on dictionaries of sets. -/
def eqv (a b : Results) : Bool := subResults a b && subResults b a && keysIn a b && keysIn b a

/-- `NamedGlob.will_change(deleted, added)`: the evolved results, or `none`. -/
def willChange (m : Str → Option Key) (r : Results) (deleted added : List Str) : Option Results :=
  let evolved := reduce m (extend m r added) deleted
  if eqv evolved r then none else some evolved

/-- `NamedGlob.files()`: sorted, without duplicates. -/
def files (r : Results) : List Str := sortDedup (r.flatMap (·.2))

/-- A named glob ready to match: what `NamedGlob.__init__` derives. -/
structure NG where
  regex : List Item
  names : List Str
  glob : Str
  deriving DecidableEq, Repr

def NG.matcher (ng : NG) : Str → Option Key := matchValues ng.regex ng.names

/-- `NamedGlob(pattern, subs)`; `re.error` when `re.compile` rejects the expression. -/
def mkNG (pattern : Str) (subs : Subs) : Except Err NG :=
  match compileGlob pattern subs with
  | .error e => .error e
  | .ok g =>
    match compileRegex pattern subs with
    | .error e => .error e
    | .ok re =>
      if regexValid re then .ok { regex := re, names := usedNames (tokenize pattern), glob := g }
      else .error .regex

/-- What `NamedGlob.glob` does with one yielded path: `Path(p) / ""` when it is a directory on
disk, else it is kept only if `os.path.lexists` of the yielded string holds (a yielded string
with a trailing separator that is not a directory does not exist). -/
def recordPath (t : Tree) (g : GPath) : Option Str :=
  if isDirQ t g.1 then some (render (g.1, true))
  else if !g.2 && existsQ t g.1 then some (render g)
  else none

/-- The paths `NamedGlob.glob` hands to `extend`. -/
def globPaths (t : Tree) (g : Str) : List Str := (iglob t g).filterMap (recordPath t)

/-- `NamedGlob(pattern, subs).glob()` on the tree: the recorded results. -/
def NG.scan (ng : NG) (t : Tree) : Results := extend ng.matcher [] (globPaths t ng.glob)

/-- `glob_base_dir` -/
def globBaseDir (pattern : Str) : Str :=
  let comps := (splitSlash pattern).dropLast.takeWhile fun c => !hasAnyWildcards c
  if comps = [] then [46] else joinSlash comps

end StepupModel.P.NGlob
