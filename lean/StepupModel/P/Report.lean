import StepupModel.K.Types
import StepupModel.Generated.Report
/-!
# Model of the end-of-build report: `finalize.report_unbuilt` and `director.serve`'s exit status

`report_unbuilt` looks at the leftover graph through five numbers and one flag:
the attached FAILED steps (`Workflow.steps(FAILED)`), `Scheduler.draining`, `analyze_pending().ntotal`
(attached PENDING steps whose `_implied_need` exceeds `need_threshold`), the exact and directory
targets that are no regular output, and the glob violations split into warnings and errors.
The model computes the first two counts from the step rows itself; the other three arrive as
numbers (they are computed by `_report_missing_targets` / `find_glob_violations`).
The return code is a record of the four `ReturnCode` flags a build phase can set; `Flags.toNat`
encodes it with the bit values regenerated from `enums.ReturnCode`.
-/
namespace StepupModel.P.Report
open StepupModel.K StepupModel.Generated.Report

/-- The columns of one `step` row (joined with its `node` row) that the report reads. -/
structure StepRow where
  state : StepState
  impliedNeed : Need
  detached : Bool
  deriving DecidableEq, Repr, Inhabited

/-- The flags of `ReturnCode` that `report_unbuilt` can set. -/
structure Flags where
  failed : Bool := false
  warning : Bool := false
  pending : Bool := false
  drained : Bool := false
  deriving DecidableEq, Repr, Inhabited

def Flags.toNat (f : Flags) : Nat :=
  (if f.failed then rcFailed else 0) + (if f.warning then rcWarning else 0) +
    (if f.pending then rcPending else 0) + (if f.drained then rcDrained else 0)

def Flags.isZero (f : Flags) : Bool := !f.failed && !f.warning && !f.pending && !f.drained

def Flags.or (a b : Flags) : Flags :=
  { failed := a.failed || b.failed, warning := a.warning || b.warning,
    pending := a.pending || b.pending, drained := a.drained || b.drained }

structure Input where
  steps : List StepRow
  /-- `Workflow.need_threshold`: DEFAULT when the build is restricted to targets, else OPTIONAL. -/
  threshold : Need
  draining : Bool
  /-- exact targets that are not a regular output of an attached step and not invalid -/
  missingTargets : Nat
  /-- exact targets that are attached static files or volatile outputs at the end of the phase
  (`TARGET_FORBIDDEN_STATES`; normally rejected earlier, see `_report_missing_targets`) -/
  invalidTargets : Nat := 0
  /-- directory targets without a regular output under them -/
  missingDirs : Nat
  /-- glob matches without a node that nothing justifies -/
  globWarnings : Nat
  /-- glob matches that are attached OUTPUT/VOLATILE-role files -/
  globErrors : Nat
  deriving Repr, Inhabited

/-- `Workflow.steps(StepState.FAILED)`: attached FAILED steps. -/
def isFailedRow (r : StepRow) : Bool := r.state = .failed && !r.detached

/-- The universe of `analyze_pending` (`_SELECT_NTOTAL`). -/
def isPendingRow (thr : Need) (r : StepRow) : Bool :=
  r.state = .pending && decide (thr.rank < r.impliedNeed.rank) && !r.detached

def nfailed (i : Input) : Nat := (i.steps.filter isFailedRow).length
def ntotal (i : Input) : Nat := (i.steps.filter (isPendingRow i.threshold)).length

/-- The messages `report_unbuilt` and its helpers send to the reporter, in order. -/
inductive Msg
  | failed (n : Nat) | draining | pending (n : Nat) | invalidTargets (n : Nat) | missingTargets (n : Nat)
  | missingDirs (n : Nat) | globWarnings (n : Nat) | globErrors (n : Nat)
  deriving DecidableEq, Repr

def Msg.str : Msg → String
  | .failed n => s!"failed:{n}" | .draining => "draining" | .pending n => s!"pending:{n}"
  | .invalidTargets n => s!"invalid:{n}"
  | .missingTargets n => s!"targets:{n}" | .missingDirs n => s!"dirs:{n}"
  | .globWarnings n => s!"globwarn:{n}" | .globErrors n => s!"globerr:{n}"

/-- `_report_glob_violations` -/
def reportGlobs (i : Input) : Flags × List Msg :=
  ({ warning := decide (0 < i.globWarnings), failed := decide (0 < i.globErrors) },
   (if 0 < i.globWarnings then [Msg.globWarnings i.globWarnings] else []) ++
   (if 0 < i.globErrors then [Msg.globErrors i.globErrors] else []))

/-- `finalize.report_unbuilt` -/
def reportUnbuilt (i : Input) : Flags × List Msg :=
  let f1 : Flags := { failed := decide (0 < nfailed i) }
  let m1 : List Msg := if 0 < nfailed i then [.failed (nfailed i)] else []
  if i.draining then
    ({ f1 with drained := true }, m1 ++ [.draining])
  else
    let f2 : Flags := { f1 with pending := decide (0 < ntotal i) }
    let m2 := m1 ++ (if 0 < ntotal i then [Msg.pending (ntotal i)] else [])
    let f3 : Flags := { f2 with failed := f2.failed || decide (0 < i.invalidTargets),
                                warning := decide (0 < i.missingTargets) || decide (0 < i.missingDirs) }
    let m3 := m2 ++ (if 0 < i.invalidTargets then [Msg.invalidTargets i.invalidTargets] else []) ++
      (if 0 < i.missingTargets then [Msg.missingTargets i.missingTargets] else []) ++
      (if 0 < i.missingDirs then [Msg.missingDirs i.missingDirs] else [])
    if f3.isZero then
      let (g, mg) := reportGlobs i
      (f3.or g, m3 ++ mg)
    else (f3, m3)

def returnCode (i : Input) : Flags := (reportUnbuilt i).1

/-- `director.serve`: a target rejected by `reconcile_targets` ends the run with FAILED before any
build phase; otherwise the exit status is that of the last build phase. -/
def serveReturnCode (invalidTarget : Bool) (phase : Flags) : Flags :=
  if invalidTarget then { failed := true } else phase

/-- `Builder.finalize`'s guard: the cleanup pass (revert optional steps, delete detached nodes,
remove files) runs only without targets, with nothing but WARNING set, and unless `--no-clean`. -/
def cleanupRuns (hasTargets : Bool) (rc : Flags) (doClean : Bool) : Bool :=
  !hasTargets && !(rc.failed || rc.pending || rc.drained) && doClean

end StepupModel.P.Report
