import StepupModel.P.Like
/-!
# Layer P: the byte streams behind `StepHash` digests, and `FileHash.refreshed` (C13)

Modelled code (`stepup/core/hash.py`): `HashWords.update`, `_update_file_hashes`,
`StepHash.from_inp`, `StepHash.with_out_hashes`, `FileHash.refreshed`, `FileHash.__eq__`.
Bytes are `Nat`s (every theorem holds for any width); strings are their UTF-8 bytes, so sorting
by bytes is Python's sorting of `str` by code points.  SHA-256 is not modelled: the theorems are
about the byte string fed to it, and the correspondence compares `sha256(model stream)` with the
digest the implementation produces.
-/
namespace StepupModel.P.Hash
open StepupModel.P.Like (ltB leB)

abbrev Bytes := List Nat

/-- `HashWords.update(bytes)`, `update(str)`, `update(None)` -/
def wBytes (b : Bytes) : Bytes := 0 :: 0 :: b
def wStr (s : Bytes) : Bytes := 0 :: 1 :: s
def wNone : Bytes := [0, 2]

/-- `int.to_bytes(8)` (big endian); the implementation raises OverflowError from 2^64 on. -/
def be8 (n : Nat) : Bytes :=
  [n / 72057594037927936 % 256, n / 281474976710656 % 256, n / 1099511627776 % 256,
   n / 4294967296 % 256, n / 16777216 % 256, n / 65536 % 256, n / 256 % 256, n % 256]

structure FileE where
  path : Bytes
  mode : Nat
  size : Nat
  digest : Bytes
  deriving DecidableEq, Repr

/-- `FileHash.unknown().digest == b"u"` -/
def unknownDigest : Bytes := [117]

/-- `hw.update(None if file_hash.is_unknown else file_hash.digest)` -/
def digestWord (d : Bytes) : Bytes := if d = unknownDigest then wNone else wBytes d

def encFile (f : FileE) : Bytes :=
  wStr f.path ++ (wBytes (be8 f.mode) ++ (wBytes (be8 f.size) ++ digestWord f.digest))

def encFiles : List FileE → Bytes
  | [] => []
  | f :: fs => encFile f ++ encFiles fs

/-- One tracked variable: `update(name); update(value)` -/
def encEnv (e : Bytes × Option Bytes) : Bytes :=
  wStr e.1 ++ (match e.2 with | some v => wStr v | none => wNone)

def encEnvs : List (Bytes × Option Bytes) → Bytes
  | [] => []
  | e :: es => encEnv e ++ encEnvs es

def encOvr (e : Bytes × Bytes) : Bytes := wStr e.1 ++ wStr e.2

def encOvrs : List (Bytes × Bytes) → Bytes
  | [] => []
  | e :: es => encOvr e ++ encOvrs es

/-- `"__shell__"`, `"__inp_paths__"`, `"__env_vars__"`, `"__env_overrides__"` as UTF-8 -/
def kwShell : Bytes := [95, 95, 115, 104, 101, 108, 108, 95, 95]
def kwInp : Bytes := [95, 95, 105, 110, 112, 95, 112, 97, 116, 104, 115, 95, 95]
def kwEnv : Bytes := [95, 95, 101, 110, 118, 95, 118, 97, 114, 115, 95, 95]
def kwOvr : Bytes := [95, 95, 101, 110, 118, 95, 111, 118, 101, 114, 114, 105, 100, 101, 115, 95, 95]

structure InpCfg where
  label : Bytes
  shell : Bool
  files : List FileE
  envs : List (Bytes × Option Bytes)
  ovr : List (Bytes × Bytes)
  deriving DecidableEq, Repr

/-- The words of `StepHash.from_inp`, for ingredient lists already in the order they are fed. -/
def inpStreamOrdered (c : InpCfg) : Bytes :=
  wStr c.label ++ (wStr kwShell ++ (wBytes [if c.shell then 1 else 0] ++ (wStr kwInp ++
    (encFiles c.files ++ (wStr kwEnv ++ (encEnvs c.envs ++ (wStr kwOvr ++ encOvrs c.ovr)))))))

def sortFiles (fs : List FileE) : List FileE := fs.mergeSort fun a b => leB a.path b.path
def sortEnvs (es : List (Bytes × Option Bytes)) := es.mergeSort fun a b => leB a.1 b.1
def sortOvrs (es : List (Bytes × Bytes)) := es.mergeSort fun a b => leB a.1 b.1

/-- `sorted(...)` applied to each of the three maps. -/
def canon (c : InpCfg) : InpCfg :=
  { c with files := sortFiles c.files, envs := sortEnvs c.envs, ovr := sortOvrs c.ovr }

/-- The byte string whose SHA-256 is `StepHash.from_inp(...).inp_digest`. -/
def inpStream (c : InpCfg) : Bytes := inpStreamOrdered (canon c)

/-- The byte string whose SHA-256 is `with_out_hashes(...).out_digest`. -/
def outStream (fs : List FileE) : Bytes := encFiles (sortFiles fs)

/-! ## `FileHash` equality and `refreshed` -/

structure FileHash where
  digest : Bytes
  mode : Nat
  mtime : Nat   -- any totally ordered stand-in for the float; only equality is used
  size : Nat
  inode : Nat
  deriving DecidableEq, Repr

def FileHash.unknown : FileHash := ⟨unknownDigest, 0, 0, 0, 0⟩
def FileHash.isUnknown (h : FileHash) : Bool := h.digest == unknownDigest

/-- `FileHash.__eq__`: `mtime` and `inode` carry `eq=False`. -/
def FileHash.same (a b : FileHash) : Bool := a.digest == b.digest && a.mode == b.mode && a.size == b.size

structure Stat where
  mode : Nat
  mtime : Nat
  size : Nat
  inode : Nat
  deriving DecidableEq, Repr

/-- `FileHash.refreshed(path)`: `st = none` when `os.stat` fails; `content` is the SHA-256 of the
current content (only consulted when one of the four stat fields differs from the record). -/
def FileHash.refreshed (self : FileHash) (st : Option Stat) (content : Bytes) : FileHash :=
  match st with
  | none => if self.isUnknown then self else FileHash.unknown
  | some st =>
    if self.mode = st.mode ∧ self.mtime = st.mtime ∧ self.size = st.size ∧ self.inode = st.inode
    then self
    else ⟨content, st.mode, st.mtime, st.size, st.inode⟩

end StepupModel.P.Hash
