/-!
# Layer P: `DBSession` as a state machine (C15)

Modelled code (`stepup/core/sqlite3.py`): the non-reentrant asyncio lock, `__aenter__`
(`BEGIN IMMEDIATE`), `__aexit__` (commit on a normal exit, rollback on an exception) and the rule
that `execute` is only available to the task that holds the transaction.  `σ` is the database
content; a statement is a function on it.
-/
namespace StepupModel.P.Session

inductive Op (σ : Type)
  | enter (task : Nat)                 -- `async with db:` acquires the lock and begins
  | exec (task : Nat) (f : σ → σ)      -- `db.execute(...)`
  | exitOk (task : Nat)                -- leaving the block normally: commit
  | exitErr (task : Nat)               -- leaving the block with an exception: rollback

structure State (σ : Type) where
  committed : σ
  working : σ
  holder : Option Nat := none

inductive Outcome | done | waits | refused
  deriving DecidableEq, Repr

/-- One scheduling step.  `waits`: the task cannot proceed now (lock taken) and nothing changes;
`refused`: `RuntimeError("No open transaction")`, nothing changes. -/
def step {σ : Type} (s : State σ) : Op σ → State σ × Outcome
  | .enter t =>
    match s.holder with
    | none => ({ s with holder := some t, working := s.committed }, .done)
    | some u => (s, if u = t then .refused else .waits)  -- nested request of the holder: RuntimeError
  | .exec t f =>
    if s.holder = some t then ({ s with working := f s.working }, .done) else (s, .refused)
  | .exitOk t =>
    if s.holder = some t then ({ s with committed := s.working, holder := none }, .done) else (s, .refused)
  | .exitErr t =>
    if s.holder = some t then ({ s with working := s.committed, holder := none }, .done) else (s, .refused)

def run {σ : Type} (s : State σ) (ops : List (Op σ)) : State σ := ops.foldl (fun s o => (step s o).1) s

/-- The specification: apply, in commit order, the statement lists of the transactions that were
left normally.  It is computed from the same schedule by tracking only the current holder's
statements. -/
structure Spec (σ : Type) where
  result : σ
  holder : Option Nat := none
  pending : List (σ → σ) := []

def specStep {σ : Type} (p : Spec σ) : Op σ → Spec σ
  | .enter t => match p.holder with
    | none => { p with holder := some t, pending := [] }
    | some _ => p
  | .exec t f => if p.holder = some t then { p with pending := p.pending ++ [f] } else p
  | .exitOk t =>
    if p.holder = some t then { result := p.pending.foldl (fun x f => f x) p.result, holder := none, pending := [] }
    else p
  | .exitErr t => if p.holder = some t then { p with holder := none, pending := [] } else p

def specRun {σ : Type} (p : Spec σ) (ops : List (Op σ)) : Spec σ := ops.foldl specStep p

end StepupModel.P.Session
