import StepupModel.K.Types
import StepupModel.P.Like
import StepupModel.Generated.Enums
import StepupModel.Generated.Sqlite
import StepupModel.Generated.Report
/-!
# Model of the watch phase (`watcher.py`): `Watcher.record_change` and what `run_once` does with the
two sets, next to what a restart (`startup.rescan_files`) looks at

`record_change` is modelled for an arbitrary path type and an arbitrary answer of the workflow
(`View`: `change_is_relevant` and `relevant_paths_under`, both with the `during_build` flag), so that
the fold theorem holds whatever the workflow says; `Tables.view` is the concrete answer computed
from the attached file rows and the glob records (the prefix selection is C18's `relevantUnder`,
the relevant states are the regenerated `_RELEVANT_STATES(_DURING_BUILD)`).
-/
namespace StepupModel.P.Watch
open StepupModel.K StepupModel.P.Like

inductive Change | updated | deleted | deletedParent
  deriving DecidableEq, Repr, Inhabited

/-- One item of the watcher's `change_queue`, with the flag `run_once` passes along. -/
structure Event (α : Type) where
  change : Change
  path : α
  duringBuild : Bool
  deriving Repr

/-- What `record_change` asks the workflow. -/
structure View (α : Type) where
  relevant : Bool → α → Bool
  under : Bool → α → List α

/-- `Watcher.updated` / `Watcher.deleted` -/
structure Sets (α : Type) where
  updated : List α := []
  deleted : List α := []
  deriving Repr

variable {α : Type} [DecidableEq α]

/-- `set.add` -/
def add (x : α) (l : List α) : List α := if x ∈ l then l else l ++ [x]
/-- `set.discard` -/
def discard (x : α) (l : List α) : List α := l.filter (· ≠ x)

/-- The body of the DELETED arm (also the loop body of the DELETED_PARENT arm). -/
def markDeleted (s : Sets α) (p : α) : Sets α :=
  { deleted := add p s.deleted, updated := discard p s.updated }

def markUpdated (s : Sets α) (p : α) : Sets α :=
  { deleted := discard p s.deleted, updated := add p s.updated }

/-- The loop of the DELETED_PARENT arm over the paths the workflow lists. -/
def delLoop (L : List α) (s : Sets α) : Sets α :=
  L.foldl (fun s sub => if sub ∉ s.deleted then markDeleted s sub else s) s

/-- `Watcher.record_change` -/
def recordChange (v : View α) (s : Sets α) (e : Event α) : Sets α :=
  match e.change with
  | .deleted =>
    if e.path ∉ s.deleted then (if v.relevant e.duringBuild e.path then markDeleted s e.path else s) else s
  | .updated =>
    if e.path ∉ s.updated then (if v.relevant e.duringBuild e.path then markUpdated s e.path else s) else s
  | .deletedParent =>
    delLoop (v.under e.duringBuild e.path) s

/-- The two loops of `run_once` that consume the queue. -/
def recordAll (v : View α) (s : Sets α) (evs : List (Event α)) : Sets α := evs.foldl (recordChange v) s

/-- What one event says about path `p`: `some true` a relevant update, `some false` a relevant
deletion, `none` nothing. -/
def touches (v : View α) (e : Event α) (p : α) : Option Bool :=
  match e.change with
  | .updated => if e.path = p ∧ v.relevant e.duringBuild p = true then some true else none
  | .deleted => if e.path = p ∧ v.relevant e.duringBuild p = true then some false else none
  | .deletedParent => if p ∈ v.under e.duringBuild e.path then some false else none

/-- A later statement about a path replaces an earlier one. -/
def override (t acc : Option Bool) : Option Bool :=
  match t with
  | some b => some b
  | none => acc

/-- The last relevant event about `p`, starting from what was known before (`acc`). -/
def lastRelevantFrom (v : View α) (acc : Option Bool) (evs : List (Event α)) (p : α) : Option Bool :=
  evs.foldl (fun acc e => override (touches v e p) acc) acc

def lastRelevant (v : View α) (evs : List (Event α)) (p : α) : Option Bool := lastRelevantFrom v none evs p

/-! ## The workflow's answers from its tables -/

/-- The rows the two queries read: attached file nodes with their state, the recorded matches of
the attached glob registrations, and whether some attached registration's regex accepts a path. -/
structure Tables where
  files : List (Str × FileState)
  globMatches : List Str
  globAccepts : Str → Bool

def relevantStatesOf (duringBuild : Bool) : List FileState :=
  if duringBuild then Generated.Enums.relevantStatesDuringBuild else Generated.Enums.relevantStates

/-- `Workflow.change_is_relevant` -/
def Tables.relevant (t : Tables) (duringBuild : Bool) (p : Str) : Bool :=
  match t.files.find? (·.1 = p) with
  | some f => (relevantStatesOf duringBuild).contains f.2
  | none => t.globAccepts p

/-- `Workflow.relevant_paths_under` -/
def Tables.under (t : Tables) (duringBuild : Bool) (dir : Str) : List Str :=
  relevantUnder Generated.Sqlite.likeCaseSensitive dir
    ((t.files.filter fun f => (relevantStatesOf duringBuild).contains f.2).map (·.1)) t.globMatches

def Tables.view (t : Tables) : View Str := { relevant := t.relevant, under := t.under }

/-! ## After the fold: which files are hashed and which results are applied -/

/-- A file node as both paths see it: attached?, state, recorded hash (`none` = unknown). -/
structure FileRec where
  attached : Bool
  state : FileState
  hash : Option Nat
  deriving DecidableEq, Repr, Inhabited

/-- One applied hash result: `update_file_hashes({path: new}, cause)`. -/
structure Applied (α : Type) where
  path : α
  cause : Cause
  newHash : Option Nat
  deriving DecidableEq, Repr

/-- What both paths re-hash: attached files that are not PLANNED or VOLATILE
(`get_file_hashes(..., rescannable=True)` and the query of `startup.rescan_files`). -/
def FileRec.rescannable (r : FileRec) : Bool :=
  r.attached && decide (r.state ≠ .planned) && decide (r.state ≠ .volatile)

/-- `Watcher.run_once` after the fold: `get_file_hashes(updated | deleted, rescannable=True)` returns
the recorded paths that a restart would re-hash; every one is re-hashed with cause EXTERNAL;
`run_hash_job` applies a result only when it differs from the recorded hash. -/
def watchApplied (node : α → Option FileRec) (disk : α → Option Nat) (s : Sets α) : List (Applied α) :=
  (s.updated ++ s.deleted).filterMap fun p =>
    match node p with
    | some r =>
      if r.rescannable ∧ disk p ≠ r.hash then some { path := p, cause := .external, newHash := disk p } else none
    | none => none

/-- Whether `run_once` re-hashes the path: it has a node that a restart would re-hash too. -/
def rehashed (node : α → Option FileRec) (p : α) : Bool :=
  match node p with
  | some r => r.rescannable
  | none => false

/-- `updated` as handed to `process_nglob_changes`.  Of the re-hashed paths the unchanged ones are
dropped and so are the ones whose new hash is unknown; a path that was not re-hashed (a glob match has
no node of its own) stays only if it exists on disk (`present` = `os.path.lexists`). -/
def prunedUpdated (node : α → Option FileRec) (disk : α → Option Nat) (present : α → Bool) (s : Sets α) : List α :=
  s.updated.filter fun p => match node p with
    | some r => if r.rescannable then decide (disk p ≠ r.hash) && (disk p).isSome else present p
    | none => present p

/-- The paths of `updated` that turn out not to be there: re-hashed with an unknown new hash although
the recorded one is known, or not re-hashed and absent.  The last item about them was an update (a
write reported through the watch of a directory that was renamed meanwhile arrives under the old
path); they count as deletions. -/
def vanishedUpdated (node : α → Option FileRec) (disk : α → Option Nat) (present : α → Bool) (s : Sets α) : List α :=
  s.updated.filter fun p => match node p with
    | some r => if r.rescannable then decide (disk p ≠ r.hash) && (disk p).isNone else !present p
    | none => !present p

/-- `deleted` as handed to `process_nglob_changes`. -/
def finalDeleted (node : α → Option FileRec) (disk : α → Option Nat) (present : α → Bool) (s : Sets α) : List α :=
  s.deleted ++ (vanishedUpdated node disk present s).filter (· ∉ s.deleted)

/-- What `startup.rescan_files` looks at: the attached files that are not PLANNED or VOLATILE, and
the detached files in a static state (CONFIRMED, MISSING, UNCONFIRMED): a later build that defines
their creator again attaches them again with their recorded hash. -/
def FileRec.restartScans (r : FileRec) : Bool :=
  r.rescannable ||
    (!r.attached && (decide (r.state = .confirmed) || decide (r.state = .missing) || decide (r.state = .unconfirmed)))

/-- `startup.rescan_files`: every file it looks at (`restartScans`) is re-hashed, with
cause CONFIRMED when it is UNCONFIRMED, else EXTERNAL; a result is applied when it differs or when the
cause is CONFIRMED. -/
def restartApplied (paths : List α) (node : α → Option FileRec) (disk : α → Option Nat) : List (Applied α) :=
  paths.filterMap fun p =>
    match node p with
    | some r =>
      if r.restartScans then
        if r.state = .unconfirmed then some { path := p, cause := .confirmed, newHash := disk p }
        else if disk p ≠ r.hash then some { path := p, cause := .external, newHash := disk p } else none
      else none
    | none => none

end StepupModel.P.Watch
