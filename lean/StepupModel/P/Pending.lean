import StepupModel.Generated.Report
/-!
# Model of the attribution part of `pending.py` (`_analyze_pending`)

`_analyze_pending` first fills scratch tables that are plain selections of the graph
(`pend_step`, `pend_file_block`, `pend_dead_file`, `pend_unsafe_anc`, `pend_resource`); these are
the *base relations* of this model (`Base`).  Everything after that is modelled statement by
statement:

* `stepBlock`   : `_INSERT_PEND_STEP_BLOCK` (a `UNION`, hence without duplicates),
* `cands`       : the `UNION ALL` of candidate blockers inside `_INSERT_PEND_BLOCKER`,
* `pendBlocker` : `ROW_NUMBER() OVER (PARTITION BY dst_step ORDER BY kind, src_label, src) = 1`
                  followed by `_INSERT_PEND_BLOCKER_RUNNABLE`,
* `walk`        : the recursive CTE of `_INSERT_PEND_ATTRIBUTED` (a `UNION ALL`: it produces its
                  rows level by level until a level is empty; `none` = it never gets there),
* `bucket`, `cyclicBucket`, `totals`, `exactCount`, `rankDisplay` : the numbers of `PendingSummary`.

Node ids are the integers of the database (they only serve as identities and as the last
tie-break of the `ORDER BY`); labels are compared as SQLite compares TEXT (BINARY collation =
code point order = `String` order).
-/
namespace StepupModel.P.Pending
open StepupModel.Generated.Report

/-- `pend_step` -/
structure PStep where
  i : Nat
  label : String
  unsafe_ : Bool
  deferred : Bool
  deriving DecidableEq, Repr, Inhabited

/-- One row of the candidate `UNION ALL` in `_INSERT_PEND_BLOCKER`. -/
structure Cand where
  dst : Nat
  kind : Nat
  src : Nat
  label : String
  deriving DecidableEq, Repr, Inhabited

/-- `pend_blocker` -/
structure Blk where
  dst : Nat
  kind : Nat
  src : Nat
  deriving DecidableEq, Repr, Inhabited

/-- `pend_attributed` -/
structure WRow where
  i : Nat
  rk : Nat
  rid : Nat
  deriving DecidableEq, Repr, Inhabited

/-- A producer edge `step -> file` of a blocking file: (file, producer, producer label, producer FAILED). -/
structure Producer where
  file : Nat
  step : Nat
  label : String
  failed : Bool
  deriving DecidableEq, Repr, Inhabited

/-- `pend_unsafe_anc` joined with the ancestor's label and state. -/
structure UnsafeAnc where
  dst : Nat
  anc : Nat
  label : String
  failed : Bool
  deriving DecidableEq, Repr, Inhabited

/-- A requirement of a step in U on a resource of `pend_resource` that is undefined or too small:
(step, `pend_resource.id`, name). -/
structure ResBlock where
  step : Nat
  rid : Nat
  name : String
  deriving DecidableEq, Repr, Inhabited

structure Base where
  steps : List PStep
  fileBlock : List (Nat × Nat)        -- (src_file, dst_step)
  dead : List (Nat × String)          -- pend_dead_file (i, label)
  producers : List Producer
  unsafeAnc : List UnsafeAnc
  resBlock : List ResBlock
  deriving Repr, Inhabited

def Base.ids (b : Base) : List Nat := b.steps.map (·.i)
def Base.inU (b : Base) (i : Nat) : Bool := b.ids.contains i

/-- Duplicate elimination that keeps the last occurrence (the order never matters). -/
def dedup {α} [DecidableEq α] (l : List α) : List α :=
  l.foldr (fun x acc => if x ∈ acc then acc else x :: acc) []

/-- `_INSERT_PEND_STEP_BLOCK`: (src_step, dst_step). -/
def stepBlock (b : Base) : List (Nat × Nat) :=
  dedup ((b.fileBlock.flatMap fun (f, d) =>
            (b.producers.filter fun p => p.file = f && b.inU p.step).map fun p => (p.step, d)) ++
         (b.unsafeAnc.filter fun u => b.inU u.anc).map fun u => (u.anc, u.dst))

def labelOf (b : Base) (i : Nat) : String :=
  match b.steps.find? (·.i = i) with
  | some s => s.label
  | none => ""

/-- The candidate rows, arm by arm. -/
def cands (b : Base) : List Cand :=
  -- FILE: blocked by a dead-end input file
  (b.fileBlock.flatMap fun (f, d) =>
     (b.dead.filter fun df => df.1 = f).map fun df => { dst := d, kind := rootFile, src := df.1, label := df.2 }) ++
  -- RESOURCE
  (b.resBlock.map fun r => { dst := r.step, kind := rootResource, src := r.rid, label := r.name }) ++
  -- FAILED: an input whose producer FAILED
  (b.fileBlock.flatMap fun (f, d) =>
     (b.producers.filter fun p => p.file = f && p.failed).map fun p =>
       { dst := d, kind := rootFailed, src := p.step, label := p.label }) ++
  -- FAILED: the nearest chain-broken creator ancestor FAILED
  ((b.unsafeAnc.filter (·.failed)).map fun u => { dst := u.dst, kind := rootFailed, src := u.anc, label := u.label }) ++
  -- DEFERRED: deferred without a blocking input
  ((b.steps.filter fun s => s.deferred && !(b.fileBlock.any fun fb => fb.2 = s.i)).map fun s =>
     { dst := s.i, kind := rootDeferred, src := s.i, label := "" }) ++
  -- OTHER: the ancestor is outside U and not FAILED
  ((b.unsafeAnc.filter fun u => !b.inU u.anc && !u.failed).map fun u =>
     { dst := u.dst, kind := rootOther, src := u.anc, label := "" }) ++
  -- BLOCK_STEP
  ((stepBlock b).map fun (s, d) => { dst := d, kind := blockStep, src := s, label := labelOf b s })

/-- `ORDER BY kind, src_label, src` -/
def Cand.before (a c : Cand) : Bool :=
  a.kind < c.kind || (a.kind = c.kind && (a.label < c.label || (a.label = c.label && a.src < c.src)))

/-- The first row of the window (`rn = 1`). -/
def pick : List Cand → Option Cand
  | [] => none
  | c :: cs =>
    match pick cs with
    | none => some c
    | some a => if c.before a then some c else some a

/-- The distinct `dst_step` values of the candidates (the partitions of the window). -/
def dsts (cs : List Cand) : List Nat := dedup (cs.map (·.dst))

/-- `_INSERT_PEND_BLOCKER` -/
def primary (cs : List Cand) : List Blk :=
  (dsts cs).filterMap fun d => (pick (cs.filter (·.dst = d))).map fun c => { dst := d, kind := c.kind, src := c.src }

/-- `_INSERT_PEND_BLOCKER_RUNNABLE` -/
def runnable (ids : List Nat) (prim : List Blk) : List Blk :=
  (ids.filter fun i => !(prim.any (·.dst = i))).map fun i => { dst := i, kind := rootRunnable, src := i }

/-- The table `pend_blocker` after both inserts. -/
def pendBlocker (ids : List Nat) (cs : List Cand) : List Blk :=
  primary cs ++ runnable ids (primary cs)

/-! ## The attribution walk (`_INSERT_PEND_ATTRIBUTED`) -/

/-- The non-recursive term: every row whose blocker is a root. -/
def seeds (B : List Blk) : List WRow :=
  (B.filter (·.kind ≠ blockStep)).map fun b => { i := b.dst, rk := b.kind, rid := b.src }

/-- The join of the recursive term for one row of the previous level. -/
def children (B : List Blk) (w : WRow) : List WRow :=
  (B.filter fun b => b.kind = blockStep ∧ b.src = w.i).map fun b => { i := b.dst, rk := w.rk, rid := w.rid }

def next (B : List Blk) (lvl : List WRow) : List WRow := lvl.flatMap (children B)

def level (B : List Blk) : Nat → List WRow
  | 0 => seeds B
  | n + 1 => next B (level B n)

/-- SQLite's evaluation of a `UNION ALL` recursive CTE: the queue is processed level by level and
the query ends when a level is empty.  `none`: the fuel ran out, the model of a query that does
not terminate. -/
def walkFrom (B : List Blk) : Nat → List WRow → Option (List WRow)
  | _, [] => some []
  | 0, _ :: _ => none
  | fuel + 1, w :: ws => (walkFrom B fuel (next B (w :: ws))).map ((w :: ws) ++ ·)

def walk (B : List Blk) : Option (List WRow) := walkFrom B (B.length + 1) (seeds B)

/-- Steps of U that the walk does not reach (`_cyclic_bucket`). -/
def cyclicRows (B : List Blk) (rows : List WRow) : List Blk :=
  B.filter fun b => !(rows.any (·.i = b.dst))

/-- `SELECT root_kind, COUNT(*) FROM pend_attributed GROUP BY root_kind` for one kind. -/
def total (rows : List WRow) (k : Nat) : Nat := (rows.filter (·.rk = k)).length

def minLabel : List String → Option String
  | [] => none
  | x :: xs => match minLabel xs with
    | none => some x
    | some m => if x < m then some x else some m

/-- `_bucket`: count and lowest label of the steps attributed to roots of one kind. -/
def bucket (b : Base) (rows : List WRow) (k : Nat) : Nat × Option String :=
  let sel := rows.filter (·.rk = k)
  (sel.length, minLabel (sel.map fun w => labelOf b w.i))

/-- `_cyclic_bucket` -/
def cyclicBucket (b : Base) (rows : List WRow) : Nat × Option String :=
  let sel := b.steps.filter fun s => !(rows.any (·.i = s.i))
  (sel.length, minLabel (sel.map (·.label)))

/-! ## Exact counts and the ranking of the two tables -/

/-- `pend_seed` restricted to one root: the steps directly blocked by it. -/
def seedOf (b : Base) (kind root : Nat) : List Nat :=
  if kind = rootFile then dedup ((b.fileBlock.filter fun fb => fb.1 = root && b.dead.any (·.1 = root)).map (·.2))
  else dedup ((b.resBlock.filter (·.rid = root)).map (·.step))

/-- `_exact_counts`: the closure over `pend_step_block` (`UNION`: no duplicates, always terminates). -/
def reach (edges : List (Nat × Nat)) : Nat → List Nat → List Nat
  | 0, acc => acc
  | fuel + 1, acc =>
    let new := dedup ((edges.filter fun e => acc.contains e.1 && !acc.contains e.2).map (·.2))
    if new.isEmpty then acc else reach edges fuel (acc ++ new)

def exactCount (b : Base) (kind root : Nat) : Nat :=
  (reach (stepBlock b) (b.steps.length + 1) (seedOf b kind root)).length

/-- Insertion sort by a strict "comes before" relation (stable). -/
def insertBy {α} (lt : α → α → Bool) (x : α) : List α → List α
  | [] => [x]
  | y :: ys => if lt y x || !(lt x y) then y :: insertBy lt x ys else x :: y :: ys

def sortBy {α} (lt : α → α → Bool) (l : List α) : List α := l.foldr (fun x acc => insertBy lt x acc) []

/-- Result of `_rank_display`: (displayed root ids with exact count, nhidden, nhidden_blocked). -/
structure Display where
  shown : List (Nat × Nat)
  nhidden : Nat
  nhiddenBlocked : Nat
  /-- the attributed counts behind the numbers (not part of `PendingSummary`) -/
  totalAttributed : Nat
  shownAttributed : Nat
  deriving Repr, Inhabited

/-- `ORDER BY n DESC, root_id ASC` on (root id, count) pairs. -/
def rankLt (a c : Nat × Nat) : Bool := c.2 < a.2 || (a.2 = c.2 && a.1 < c.1)

/-- The attributed step count of every root of one kind (`_SELECT_RANK_*` before the ordering). -/
def counted (rows : List WRow) (kind : Nat) (roots : List Nat) : List (Nat × Nat) :=
  roots.map fun r => (r, (rows.filter fun w => w.rk = kind ∧ w.rid = r).length)

def ranked (rows : List WRow) (kind : Nat) (roots : List Nat) : List (Nat × Nat) :=
  sortBy rankLt (counted rows kind roots)

/-- The displayed roots with their exact counts: the best `maxRows` of the pool by exact count. -/
def shownOf (b : Base) (kind : Nat) (rk : List (Nat × Nat)) : List (Nat × Nat) :=
  (sortBy rankLt (((rk.take rankPool).map (·.1)).map fun r => (r, exactCount b kind r))).take maxRows

/-- `displayed_attributed` -/
def shownAttr (rk shown : List (Nat × Nat)) : Nat :=
  ((rk.filter fun rn => shown.any (·.1 = rn.1)).map (·.2)).sum

/-- `_rank_display` for the roots `roots` (ids in table order) of kind `kind`. -/
def rankDisplay (b : Base) (rows : List WRow) (kind : Nat) (roots : List Nat) : Display :=
  let rk := ranked rows kind roots
  let shown := shownOf b kind rk
  let total := (rk.map (·.2)).sum
  { shown := shown, nhidden := rk.length - shown.length, nhiddenBlocked := total - shownAttr rk shown,
    totalAttributed := total, shownAttributed := shownAttr rk shown }

end StepupModel.P.Pending
