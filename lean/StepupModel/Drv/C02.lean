import StepupModel.Proto
import StepupModel.K.Workflow
/-! Driver requests of C02 (`c02 <op> ...`): the normalisation of path lists.

* `c02 norm <paths>` → `normPaths` of the list (`sorted(set(paths))`). -/
open StepupModel StepupModel.Proto StepupModel.K

namespace StepupModel.Drv.C02

def handle : List String → Option String
  | ["norm", paths] => do
    let ps ← unhexList paths
    pure (hexList (normPaths ps))
  | _ => none

end StepupModel.Drv.C02
