import StepupModel.Proto
/-! Driver requests of C02 (`c02 <op> ...`). -/
open StepupModel StepupModel.Proto

namespace StepupModel.Drv.C02

def handle : List String → Option String
  | _ => none

end StepupModel.Drv.C02
