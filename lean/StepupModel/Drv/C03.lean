import StepupModel.Proto
/-! Driver requests of C03 (`c03 <op> ...`). -/
open StepupModel StepupModel.Proto

namespace StepupModel.Drv.C03

def handle : List String → Option String
  | _ => none

end StepupModel.Drv.C03
