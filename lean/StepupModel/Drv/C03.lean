import StepupModel.Proto
import StepupModel.B.Windows
import StepupModel.B.Exec
/-! Driver requests of C03 (`c03 <op> ...`).

* `c03 win <events>`: events `s:<id>:<t>` (record_run_started), `e:<id>:<ok>:<t>` (record_run_stopped),
  `x` (end of phase), comma separated; `<n>` = number of step ids.  Answer: for every event, after
  it, `starts|stops|matrix` with the two tables sorted by id (`id=t` joined by `+`) and the matrix of
  `ran_concurrently(p, c)` for p, c in 1..n as a 0/1 string; events joined by `;`.
* `c03 exec ...`: one scenario of `Executor.execute_job`; answer: the fields of the completion.
* `c03 carry <unavailable> <unfresh> <checked>`: the amend handler's decision.
-/
open StepupModel StepupModel.Proto

namespace StepupModel.Drv.C03
open StepupModel.B

def parseEv (tok : String) : Option Windows.Ev :=
  match tok.splitOn ":" with
  | ["s", i, t] => do pure (.start (← i.toNat?) (← t.toNat?))
  | ["e", i, ok, t] => do pure (.stop (← i.toNat?) (ok = "1") (← t.toNat?))
  | ["x"] => some .phaseEnd
  | _ => none

def insertSorted (e : Nat × Nat) : List (Nat × Nat) → List (Nat × Nat)
  | [] => [e]
  | a :: as => if e.1 ≤ a.1 then e :: a :: as else a :: insertSorted e as

def tableStr (t : Windows.Table) : String :=
  let sorted := t.foldl (fun acc e => insertSorted e acc) []
  if sorted.isEmpty then "." else "+".intercalate (sorted.map fun e => s!"{e.1}={e.2}")

def matrixStr (s : Windows.Sched) (n : Nat) : String :=
  String.ofList ((List.range n).flatMap fun p => (List.range n).map fun c =>
    if Windows.ranConcurrently s (p + 1) (c + 1) then '1' else '0')

def parseHashes (tok : String) : Option (List (String × Nat)) :=
  if tok = "." then some [] else (tok.splitOn ",").mapM fun e =>
    match e.splitOn "=" with
    | [p, h] => do pure (← unhex p, ← h.toNat?)
    | _ => none

def optStr : Option Nat → String
  | some h => toString h
  | none => "~"

def parseChecked (tok : String) : Option (List (String × Exec.CheckedState)) :=
  if tok = "." then some [] else (tok.splitOn ",").mapM fun e =>
    match e.splitOn "=" with
    | [p, "c"] => do pure (← unhex p, .confirmed)
    | [p, "b"] => do pure (← unhex p, .built)
    | [p, "o"] => do pure (← unhex p, .other)
    | _ => none

def handle : List String → Option String
  | ["win", n, evs] => do
    let n ← n.toNat?
    let evs ← if evs = "." then some [] else (evs.splitOn ",").mapM parseEv
    let (_, outs) := evs.foldl (fun (acc : Windows.Sched × List String) e =>
      let s := Windows.step acc.1 e
      (s, acc.2 ++ [s!"{tableStr s.starts}|{tableStr s.stops}|{matrixStr s n}"])) ({}, [])
    pure (if outs.isEmpty then "." else ";".intercalate outs)
  | ["exec", dispatch, diskPre, cancelPre, rc, deferred, unav, unfresh, completion, outputs, diskPost, cancelPost, hash,
      interrupted, keepGoing, notRec] => do
    let sc : Exec.Scenario :=
      { dispatchInputs := ← parseHashes dispatch, diskPre := ← parseHashes diskPre, cancelledPre := cancelPre = "1",
        rc := ← rc.toNat?, deferCalled := deferred = "1", amendUnavailable := ← unhexList unav, amendUnfresh := ← unhexList unfresh,
        completionInputs := ← parseHashes completion, outputs := ← unhexList outputs,
        diskPost := ← parseHashes diskPost, cancelledPost := cancelPost = "1", stepHash := ← hash.toNat?,
        notRecordable := ← unhexList notRec }
    let c := Exec.executeJob sc
    let oc := match c.outCause with | some true => "S" | some false => "F" | none => "-"
    pure s!"{boolStr c.ranCommand} {optStr c.hash} {boolStr c.wantsDefer} {hexList c.failedInputs} {oc} {boolStr c.drainUnexpected} {Exec.tag c (interrupted = "1")} {boolStr (Exec.drains c (interrupted = "1") (keepGoing = "1"))}"
  | ["carry", unav, unfresh, checked] => do
    let (ok, u, f) := Exec.amendCarryOn (← unhexList unav) (← unhexList unfresh) (← parseChecked checked)
    pure s!"{boolStr ok} {hexList u} {hexList f}"
  | _ => none

end StepupModel.Drv.C03
