import StepupModel.Proto
/-! Driver requests of C01 (`c01 <op> ...`). -/
open StepupModel StepupModel.Proto

namespace StepupModel.Drv.C01

def handle : List String → Option String
  | _ => none

end StepupModel.Drv.C01
