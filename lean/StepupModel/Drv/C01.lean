import StepupModel.Proto
import StepupModel.P.Skip
/-! Driver requests of C01 (`c01 <op> ...`): the executor's skip decision.

* `c01 skip <storedInp> <storedOut> <newInp|~> <newOut|~>` → `<result> <ops>`
* `c01 validate <storedInp> <newInp|~>` → `<result> <ops>`

Digests are opaque tokens (hex text), `~` is a computation that delivered nothing. -/
open StepupModel StepupModel.Proto StepupModel.P.Skip

namespace StepupModel.Drv.C01

def optTok (t : String) : Option String := if t = "~" then none else some t

def opsTok (l : List String) : String := if l.isEmpty then "." else ",".intercalate l

def skipName : SkipResult String → String
  | .failedEarly => "failed-early"
  | .resetInputs => "reset-inputs"
  | .cancelled => "cancelled"
  | .resetOutputs => "reset-outputs"
  | .skipped d => "skipped:" ++ d.inp ++ ":" ++ d.out

def validateName : ValidateResult → String
  | .failedEarly => "failed-early"
  | .reset => "reset"
  | .keepWaiting => "keep-waiting"

def handle : List String → Option String
  | ["skip", si, so, ni, no] =>
    let r := trySkip (δ := String) ⟨si, so⟩ (optTok ni) (optTok no)
    some (skipName r ++ " " ++ opsTok r.ops)
  | ["validate", si, ni] =>
    let r := validateDynamic (δ := String) si (optTok ni)
    some (validateName r ++ " " ++ opsTok r.ops)
  | _ => none

end StepupModel.Drv.C01
