import StepupModel.Proto
import StepupModel.P.NGlob
/-! Driver requests of C17 (`c17 <op> ...`).

Encodings: a pattern or path is one hex token; substitutions are a hex list
`name,value,name,value,...`; a tree is a hex list of path strings, directories with a trailing
slash; results are `key:key=path,path;...` with groups and paths sorted as text. -/
open StepupModel StepupModel.Proto

namespace StepupModel.Drv.C17
open StepupModel.P.NGlob

def pairUp : List String → Option Subs
  | [] => some []
  | [_] => none
  | n :: v :: rest => do
    let r ← pairUp rest
    pure ((cps n, cps v) :: r)

def parseSubs (tok : String) : Option Subs := do pairUp (← unhexList tok)

def hx (s : Str) : String := hex (ofCps s)

def insertStr (x : String) : List String → List String
  | [] => [x]
  | y :: ys => if x < y then x :: y :: ys else if x = y then y :: ys else y :: insertStr x ys

def sortStrs (l : List String) : List String := l.foldr insertStr []

def joinOr (empty sep : String) (l : List String) : String :=
  if l.isEmpty then empty else sep.intercalate l

def showResults (r : Results) : String :=
  joinOr "." ";" (sortStrs (r.map fun (k, ps) =>
    ":".intercalate (k.map hx) ++ "=" ++ ",".intercalate (sortStrs (ps.map hx))))

def showStrs (l : List Str) : String := joinOr "." "," (l.map hx)

def showSet (l : List Str) : String := joinOr "." "," (sortStrs (l.map hx))

def showErr : Err → String
  | .value => "err value"
  | .regex => "err regex"

/-- A path string of the tree list: trailing slash marks a directory. -/
def parseEntry (s : Str) : Path × Bool :=
  if s.getLast? == some 47 then (splitSlash s.dropLast, true) else (splitSlash s, false)

def parseTree (tok : String) : Option Tree := do
  pure ((← unhexList tok).map fun s => parseEntry (cps s))

def showTok (t : Tok) : String := (if t.isLit then "L" else "W") ++ hx t.text

def handle : List String → Option String
  | ["tok", p] => do
    pure (joinOr "." "," ((tokenize (cps (← unhex p))).map showTok))
  | ["regex", p, subs] => do
    pure (match compileRegex (cps (← unhex p)) (← parseSubs subs) with
      | .ok re => "ok " ++ hx (renderRegex re)
      | .error e => showErr e)
  | ["glob", p, subs] => do
    pure (match compileGlob (cps (← unhex p)) (← parseSubs subs) with
      | .ok g => "ok " ++ hx g
      | .error e => showErr e)
  | ["ng", p, subs] => do
    let p := cps (← unhex p); let subs ← parseSubs subs
    let simple := boolStr (simplePattern p subs)
    pure (match mkNG p subs with
      | .ok ng => simple ++ " ok " ++ showStrs ng.names
      | .error e => simple ++ " " ++ showErr e)
  | ["has", p] => do
    let p := cps (← unhex p)
    pure (boolStr (hasAnyWildcards p) ++ boolStr (hasAnonymousWildcards p) ++
      boolStr (hasTrailingRecursive p) ++ " " ++ hx (globBaseDir p))
  | ["match", p, subs, paths] => do
    let ng ← (mkNG (cps (← unhex p)) (← parseSubs subs)).toOption
    pure (joinOr "." ";" ((← unhexList paths).map fun s =>
      match ng.matcher (cps s) with
      | some vals => "M" ++ ":".intercalate (vals.map hx)
      | none => "N"))
  | ["fnmatch", pat, names] => do
    let pat := cps (← unhex pat)
    pure (String.join ((← unhexList names).map fun n => boolStr (fnmatchC pat (cps n))))
  | ["iglob", g, tree] => do
    pure (showSet ((iglob (← parseTree tree) (cps (← unhex g))).map render))
  | ["scan", p, subs, tree] => do
    let ng ← (mkNG (cps (← unhex p)) (← parseSubs subs)).toOption
    let t ← parseTree tree
    let r := ng.scan t
    pure (showResults r ++ " " ++ showStrs (files r))
  | ["evolve", p, subs, old, added, deleted] => do
    let ng ← (mkNG (cps (← unhex p)) (← parseSubs subs)).toOption
    let strs (tok : String) : Option (List Str) := do pure ((← unhexList tok).map cps)
    let r0 := extend ng.matcher [] (← strs old)
    let added ← strs added; let deleted ← strs deleted
    let ext := extend ng.matcher r0 added
    let red := reduce ng.matcher ext deleted
    let wc := match willChange ng.matcher r0 deleted added with
      | some e => "some " ++ showResults e
      | none => "none"
    pure (showResults r0 ++ " " ++ showResults ext ++ " " ++ showResults red ++ " " ++ wc ++ " " ++
      showStrs (files red))
  | _ => none

end StepupModel.Drv.C17
