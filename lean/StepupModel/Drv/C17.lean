import StepupModel.Proto
/-! Driver requests of C17 (`c17 <op> ...`). -/
open StepupModel StepupModel.Proto

namespace StepupModel.Drv.C17

def handle : List String → Option String
  | _ => none

end StepupModel.Drv.C17
