import StepupModel.Proto
/-! Driver requests of C06 (`c06 <op> ...`). -/
open StepupModel StepupModel.Proto

namespace StepupModel.Drv.C06

def handle : List String → Option String
  | _ => none

end StepupModel.Drv.C06
