import StepupModel.Proto
import StepupModel.B.Cleanup
/-! Driver requests of C06 (`c06 <op> ...`): the guard chain of `Builder.finalize`, the model of
`remove_deletable_files`, and the model of `stepup clean` on an encoded database and file system.

Encodings (all one token): queue `hexpath=tok,...` (`~` no hash, `.` empty); file system
`hexpath=d` / `hexpath=f<tok>` (`.` empty); nodes `kind:hexlabel:creator:det:STATE:fhash:shash;...`
with creator `kind.hexlabel` or `~`, `fhash`/`shash` a number or `~`; dependencies
`kind.hexlabel>kind.hexlabel;...` (`.` empty). -/
open StepupModel StepupModel.Proto StepupModel.K StepupModel.B

namespace StepupModel.Drv.C06

def parseOptNat (tok : String) : Option (Option Nat) :=
  if tok = "~" then some none else tok.toNat?.map some

def parseQueue (tok : String) : Option (List (String × Option Nat)) :=
  if tok = "." then some [] else (tok.splitOn ",").mapM fun e =>
    match e.splitOn "=" with
    | [a, b] => do pure (← unhex a, ← parseOptNat b)
    | _ => none

def parseEntry (tok : String) : Option Entry :=
  if tok = "d" then some .dir
  else if tok.startsWith "f" then ((tok.drop 1).toString.toNat?).map Entry.file
  else none

def parseFS (tok : String) : Option FS :=
  if tok = "." then some [] else (tok.splitOn ",").mapM fun e =>
    match e.splitOn "=" with
    | [a, b] => do pure (← unhex a, ← parseEntry b)
    | _ => none

def parseKind : String → Option Kind
  | "root" => some .root | "file" => some .file | "step" => some .step | "st" => some .st
  | _ => none

def parseKeyDot (tok : String) : Option Key :=
  match tok.splitOn "." with
  | [k, l] => do pure ⟨← parseKind k, ← unhex l⟩
  | _ => none

def parseFileState : String → Option FileState
  | "UNDECLARED" => some .undeclared | "UNCONFIRMED" => some .unconfirmed | "MISSING" => some .missing
  | "CONFIRMED" => some .confirmed | "PLANNED" => some .planned | "BUILT" => some .built
  | "OUTDATED" => some .outdated | "VOLATILE" => some .volatile | "-" => some .undeclared
  | _ => none

def parseNode (tok : String) : Option Node :=
  match tok.splitOn ":" with
  | [k, l, c, d, st, fh, sh] => do
    let creator ← if c = "~" then some none else (parseKeyDot c).map some
    pure { key := ⟨← parseKind k, ← unhex l⟩, creator := creator, detached := d = "1",
           fstate := ← parseFileState st, fhash := ← parseOptNat fh, shash := ← parseOptNat sh }
  | _ => none

def parseNodes (tok : String) : Option (List Node) :=
  if tok = "." then some [] else (tok.splitOn ";").mapM parseNode

def parseDep (tok : String) : Option Dep :=
  match tok.splitOn ">" with
  | [a, b] => do pure { src := ← parseKeyDot a, snk := ← parseKeyDot b }
  | _ => none

def parseDeps (tok : String) : Option (List Dep) :=
  if tok = "." then some [] else (tok.splitOn ";").mapM parseDep

def parseState (nodes deps : String) : Option KState := do
  pure { nodes := ← parseNodes nodes, deps := ← parseDeps deps }

def encEntry : Entry → String
  | .dir => "d"
  | .file c => "f" ++ toString c

def encFS (fs : FS) : String :=
  let items := (fs.map fun e => hex e.1 ++ "=" ++ encEntry e.2).mergeSort fun a b => decide (a ≤ b)
  if items.isEmpty then "." else ",".intercalate items

def optNatStr : Option Nat → String
  | some n => toString n
  | none => "~"

def handle : List String → Option String
  | ["guard", nt, nd, rc, clean] => do
    pure (boolStr (cleanupRuns (← nt.toNat?) (← nd.toNat?) (← rc.toNat?) (clean = "1")))
  | ["rm", queue, fs] => do
    let r := removeDeletable (← parseQueue queue) (← parseFS fs)
    pure (hexList r.2 ++ " " ++ encFS r.1)
  | ["select", nodes, deps, paths, all] => do
    let s ← parseState nodes deps
    let rows := cleanSelect s (← unhexList paths) (all ≠ "1")
    let items := rows.map fun r => s!"{hex r.label}:{r.state.name}:{boolStr r.detached}:{optNatStr r.hash}"
    pure (if items.isEmpty then "." else ",".intercalate items)
  | ["clean", nodes, deps, fs, paths, all, unsafe_, commit] => do
    let s ← parseState nodes deps
    let r := cleanRun s (← unhexList paths) (all = "1") (unsafe_ = "1") (commit = "1") (← parseFS fs)
    pure (hexList r.2.1 ++ " " ++ encFS r.1 ++ " " ++ boolStr r.2.2)
  | _ => none

end StepupModel.Drv.C06
