import StepupModel.Proto
import StepupModel.P.Like
import StepupModel.Generated.Sqlite
/-! Driver requests of C18 (`c18 <op> ...`). -/
open StepupModel StepupModel.Proto

namespace StepupModel.Drv.C18
open StepupModel.P.Like

def strs (l : List String) : List Str := l.map cps
def out (l : List Str) : String := hexList (l.map ofCps)

def handle : List String → Option String
  | ["like", cs, esc, pat, s] => do
    let pat ← unhex pat; let s ← unhex s; let esc ← unhex esc
    let e := match cps esc with | [c] => c | _ => 0
    pure (boolStr (like (cs = "1") e (cps pat) (cps s)))
  | ["pattern", d] => do pure (hex (ofCps (prefixPattern (cps (← unhex d)))))
  | ["upper", d] => do
    pure (match dirRangeUpper (cps (← unhex d)) with | some u => "some " ++ hex (ofCps u) | none => "none")
  | ["addslash", d] => do pure (hex (ofCps (addSlash (cps (← unhex d)))))
  | ["owning", path, trees] => do
    pure (out (owningTrees (strs (← unhexList trees)) (cps (← unhex path))))
  | ["undertree", path, labels] => do
    pure (out (underTreeLike Generated.Sqlite.likeCaseSensitive (cps (← unhex path)) (strs (← unhexList labels))))
  | ["relevant", dir, files, globs] => do
    pure (out (relevantUnder Generated.Sqlite.likeCaseSensitive (cps (← unhex dir))
      (strs (← unhexList files)) (strs (← unhexList globs))))
  | ["range", dir, labels] => do
    pure (out (underRange (cps (← unhex dir)) (strs (← unhexList labels))))
  | ["target", dir, labels] => do
    pure (out (underTarget (cps (← unhex dir)) (strs (← unhexList labels))))
  | ["clean", arg, labels] => do
    pure (out (cleanMatching Generated.Sqlite.likeCaseSensitiveReadOnly (cps (← unhex arg)) (strs (← unhexList labels))))
  | ["inside", path, trees] => do
    pure (boolStr (insideTree (strs (← unhexList trees)) (cps (← unhex path))))
  | ["contains", path, trees] => do
    pure (boolStr (containsTree (strs (← unhexList trees)) (cps (← unhex path))))
  | _ => none
end StepupModel.Drv.C18
