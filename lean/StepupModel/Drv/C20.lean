import StepupModel.Proto
import StepupModel.P.Path
/-! Driver requests of C20 (`c20 <op> ...`).  Strings travel as hex, `~` is an unset variable. -/
open StepupModel StepupModel.Proto

namespace StepupModel.Drv.C20
open StepupModel.P.Path

def str (tok : String) : Option Str := (unhex tok).map cps
def out (s : Str) : String := hex (ofCps s)

def optStr (tok : String) : Option (Option Str) :=
  if tok = "~" then some none else (str tok).map some

def exc : Except Nat Str → String
  | .ok s => "ok " ++ out s
  | .error n => s!"err {n}"

def handle : List String → Option String
  | ["normpath", s] => do pure (out (normpath (← str s)))
  | ["join", a, b] => do pure (out (join (← str a) (← str b)))
  | ["isabs", s] => do pure (boolStr (isabs (← str s)))
  | ["split", s] => do pure (hexList ((splitSlash (← str s)).map ofCps))
  | ["abspath", cwd, s] => do pure (out (abspath (← str cwd) (← str s)))
  | ["osrelpath", cwd, p, start] => do
    pure (match osRelpath (← str cwd) (← str p) (← str start) with
      | some r => "ok " ++ out r
      | none => "err")
  | ["relpath", cwd, p, start] => do pure (out (relpathTo (← str cwd) (← str start) (← str p)))
  | ["dirname", s] => do pure (out (dirname (← str s)))
  | ["parent", s] => do pure (out (parentDir (← str s)))
  | ["affixes", s] => do
    let a := getAffixes (← str s)
    pure (out a.1 ++ " " ++ out a.2)
  | ["apply", p, l, t] => do pure (exc (applyAffixes (← str p) (← str l) (← str t)))
  | ["keepnorm", p] => do pure (exc (keepAffixes normpath (← str p)))
  | ["root", cwd, er] => do pure (out (getRoot (← str cwd) (← optStr er)))
  | ["translate", cwd, er, eh, p, wd] => do
    pure (out (translateEnv (← str cwd) (← optStr er) (← optStr eh) (← str p) (← str wd)))
  | ["back", cwd, er, eh, p, wd] => do
    pure (out (translateBackEnv (← str cwd) (← optStr er) (← optStr eh) (← str p) (← str wd)))
  | ["keeptr", cwd, er, eh, p] => do
    let cwd ← str cwd; let er ← optStr er; let eh ← optStr eh
    pure (exc (keepAffixes (fun x => translateEnv cwd er eh x dot) (← str p)))
  | ["globtr", cwd, er, eh, p] => do
    let cwd ← str cwd; let er ← optStr er; let eh ← optStr eh
    pure (exc (globPath (fun x => translateEnv cwd er eh x dot) (← str p)))
  | ["keepback", cwd, er, eh, p] => do
    let cwd ← str cwd; let er ← optStr er; let eh ← optStr eh
    pure (exc (keepAffixes (fun x => translateBackEnv cwd er eh x dot) (← str p)))
  | ["exetr", cwd, er, eh, exe, wd] => do
    -- `script()` / `call()`: `_keep_affixes(executable, Path.normpath)`, then `translate(exe, workdir)`
    let cwd ← str cwd; let er ← optStr er; let eh ← optStr eh; let exe ← str exe; let wd ← str wd
    pure (match keepAffixes normpath exe with
      | .ok e => "ok " ++ out (translateEnv cwd er eh e wd)
      | .error n => s!"err {n}")
  | ["envvars", cwd, wd] => do
    let cwd ← str cwd; let wd ← str wd
    pure (out (envRootVar cwd wd) ++ " " ++ out (envHereVar cwd wd))
  | ["resolve", base, p] => do pure (hexList ((resolve (← str base) (← str p)).map ofCps))
  | _ => none
end StepupModel.Drv.C20
