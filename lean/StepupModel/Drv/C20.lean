import StepupModel.Proto
/-! Driver requests of C20 (`c20 <op> ...`). -/
open StepupModel StepupModel.Proto

namespace StepupModel.Drv.C20

def handle : List String → Option String
  | _ => none

end StepupModel.Drv.C20
