import StepupModel.Proto
import StepupModel.P.Watch
/-! Driver requests of C14 (`c14 <op> ...`).

* `c14 fold <files> <globMatches> <globAccepted> <events>`: `Watcher.record_change` folded over the
  events on a workflow with the attached file rows `hexlabel:STATE,...`, the recorded glob matches and
  the paths some attached regex accepts; events `U|D|P:hexpath:duringBuild,...`.  Answer: the two
  sets after every event, `u=<sorted hex list>|d=<sorted hex list>` joined by `;`.
* `c14 applied <nodes> <disk> <updated> <deleted> <paths> <present>`: the hash results the watcher applies, the
  pruned `updated` set, and the results a restart applies (`hexpath:attached:STATE:hash` nodes,
  `hexpath:hash` disk, `~` = unknown / absent).
-/
open StepupModel StepupModel.Proto StepupModel.K

namespace StepupModel.Drv.C14
open StepupModel.P.Watch StepupModel.P.Like

def parseFileState : String → Option FileState
  | "UNDECLARED" => some .undeclared | "UNCONFIRMED" => some .unconfirmed | "MISSING" => some .missing
  | "CONFIRMED" => some .confirmed | "PLANNED" => some .planned | "BUILT" => some .built
  | "OUTDATED" => some .outdated | "VOLATILE" => some .volatile | _ => none

def parseBool : String → Option Bool
  | "0" => some false | "1" => some true | _ => none

def items (tok : String) : List String := if tok = "." then [] else tok.splitOn ","

def parseFile (tok : String) : Option (Str × FileState) :=
  match tok.splitOn ":" with
  | [l, s] => do pure (cps (← unhex l), ← parseFileState s)
  | _ => none

def parseEvent (tok : String) : Option (Event Str) :=
  match tok.splitOn ":" with
  | [c, p, d] => do
    let ch ← match c with
      | "U" => some Change.updated | "D" => some Change.deleted | "P" => some Change.deletedParent | _ => none
    pure { change := ch, path := cps (← unhex p), duringBuild := ← parseBool d }
  | _ => none

def sortStrs (l : List Str) : List Str := (l.toArray.qsort (fun a b => ltB a b)).toList

def setsStr (s : Sets Str) : String :=
  s!"u={hexList ((sortStrs s.updated).map ofCps)}|d={hexList ((sortStrs s.deleted).map ofCps)}"

def parseHash (tok : String) : Option (Option Nat) :=
  if tok = "~" then some none else tok.toNat?.map some

def parseNode (tok : String) : Option (Str × FileRec) :=
  match tok.splitOn ":" with
  | [p, a, s, h] => do
    pure (cps (← unhex p), { attached := ← parseBool a, state := ← parseFileState s, hash := ← parseHash h })
  | _ => none

def parseDisk (tok : String) : Option (Str × Option Nat) :=
  match tok.splitOn ":" with
  | [p, h] => do pure (cps (← unhex p), ← parseHash h)
  | _ => none

def causeStr : Cause → String
  | .external => "EXTERNAL" | .confirmed => "CONFIRMED" | .succeeded => "SUCCEEDED" | .failed => "FAILED"

def appliedStr (l : List (Applied Str)) : String :=
  let l := (l.toArray.qsort (fun a b => ltB a.path b.path)).toList
  if l.isEmpty then "." else
    ",".intercalate (l.map fun x => s!"{hex (ofCps x.path)}:{causeStr x.cause}:{match x.newHash with | some h => toString h | none => "~"}")

def handle : List String → Option String
  | ["fold", files, gm, ga, evs] => do
    let files ← (items files).mapM parseFile
    let gm := (← unhexList gm).map cps
    let ga := (← unhexList ga).map cps
    let t : Tables := { files := files, globMatches := gm, globAccepts := fun p => ga.contains p }
    let evs ← (items evs).mapM parseEvent
    let (_, outs) := evs.foldl (fun (acc : Sets Str × List String) e =>
      let s := recordChange t.view acc.1 e
      (s, acc.2 ++ [setsStr s])) ({}, [])
    pure (if outs.isEmpty then "-" else ";".intercalate outs)
  | ["applied", nodes, disk, upd, del, paths, pres] => do
    let pres := (← unhexList pres).map cps
    let presentF : Str → Bool := fun p => pres.contains p
    let nodes ← (items nodes).mapM parseNode
    let disk ← (items disk).mapM parseDisk
    let nodeF : Str → Option FileRec := fun p => (nodes.find? (·.1 = p)).map (·.2)
    let diskF : Str → Option Nat := fun p => ((disk.find? (·.1 = p)).map (·.2)).join
    let s : Sets Str := { updated := (← unhexList upd).map cps, deleted := (← unhexList del).map cps }
    let paths := (← unhexList paths).map cps
    pure s!"watch={appliedStr (watchApplied nodeF diskF s)} pruned={hexList ((sortStrs (prunedUpdated nodeF diskF presentF s)).map ofCps)} deleted={hexList ((sortStrs (finalDeleted nodeF diskF presentF s)).map ofCps)} restart={appliedStr (restartApplied paths nodeF diskF)}"
  | _ => none

end StepupModel.Drv.C14
