import StepupModel.Proto
/-! Driver requests of C14 (`c14 <op> ...`). -/
open StepupModel StepupModel.Proto

namespace StepupModel.Drv.C14

def handle : List String → Option String
  | _ => none

end StepupModel.Drv.C14
