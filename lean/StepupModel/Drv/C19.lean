import StepupModel.Proto
import StepupModel.P.Report
import StepupModel.P.Pending
/-! Driver requests of C19 (`c19 <op> ...`).

* `c19 rc <threshold> <draining> <missingTargets> <missingDirs> <globWarnings> <globErrors> [<invalidTargets>] <steps>`
  with steps `STATE:NEED:detached,...`: `finalize.report_unbuilt` -> `<number> <messages>`.
* `c19 serve <invalid> <number-free flags f w p d>`: `director.serve`'s exit status.
* `c19 pend <steps> <fileBlock> <dead> <producers> <unsafeAnc> <resBlock> <fileRoots> <resRoots>`:
  the attribution of `_analyze_pending` from its base relations.
-/
open StepupModel StepupModel.Proto StepupModel.K

namespace StepupModel.Drv.C19
open StepupModel.P.Report StepupModel.P.Pending StepupModel.Generated.Report

def parseState : String → Option StepState
  | "PENDING" => some .pending | "RUNNING" => some .running | "SUCCEEDED" => some .succeeded
  | "FAILED" => some .failed | "CHECKING" => some .checking | _ => none

def parseNeed : String → Option Need
  | "OPTIONAL" => some .optional | "DEFAULT" => some .default | "TARGET" => some .target
  | "PLAN" => some .plan | _ => none

def parseBool : String → Option Bool
  | "0" => some false | "1" => some true | _ => none

def items (tok : String) : List String := if tok = "." then [] else tok.splitOn ","

def parseRow (tok : String) : Option StepRow :=
  match tok.splitOn ":" with
  | [s, n, d] => do pure { state := ← parseState s, impliedNeed := ← parseNeed n, detached := ← parseBool d }
  | _ => none

def parsePStep (tok : String) : Option PStep :=
  match tok.splitOn ":" with
  | [i, l, u, d] => do pure { i := ← i.toNat?, label := ← unhex l, unsafe_ := ← parseBool u, deferred := ← parseBool d }
  | _ => none

def parsePair (tok : String) : Option (Nat × Nat) :=
  match tok.splitOn ":" with
  | [a, b] => do pure (← a.toNat?, ← b.toNat?)
  | _ => none

def parseDead (tok : String) : Option (Nat × String) :=
  match tok.splitOn ":" with
  | [a, b] => do pure (← a.toNat?, ← unhex b)
  | _ => none

def parseProducer (tok : String) : Option Producer :=
  match tok.splitOn ":" with
  | [f, s, l, x] => do pure { file := ← f.toNat?, step := ← s.toNat?, label := ← unhex l, failed := ← parseBool x }
  | _ => none

def parseAnc (tok : String) : Option UnsafeAnc :=
  match tok.splitOn ":" with
  | [d, a, l, x] => do pure { dst := ← d.toNat?, anc := ← a.toNat?, label := ← unhex l, failed := ← parseBool x }
  | _ => none

def parseRes (tok : String) : Option ResBlock :=
  match tok.splitOn ":" with
  | [s, r, n] => do pure { step := ← s.toNat?, rid := ← r.toNat?, name := ← unhex n }
  | _ => none

def natLt (a c : Nat) : Bool := a < c

def optHex : Option String → String
  | none => "~"
  | some s => hex s

def bucketStr (name : String) (bk : Nat × Option String) : String :=
  s!"{name}:{bk.1}:{optHex bk.2}"

def displayStr (d : Display) : String :=
  let shown := sortBy (fun a c => natLt a.1 c.1) d.shown
  (if shown.isEmpty then "." else ",".intercalate (shown.map fun p => s!"{p.1}:{p.2}")) ++
    s!";{d.nhidden};{d.nhiddenBlocked}"

def pendAnswer (b : Base) (fileRoots resRoots : List Nat) : String :=
  let B := pendBlocker b.ids (cands b)
  let blk := sortBy (fun a c => natLt a.dst c.dst) B
  let blkStr := if blk.isEmpty then "." else ",".intercalate (blk.map fun x => s!"{x.dst}:{x.kind}:{x.src}")
  match walk B with
  | none => s!"blk={blkStr} att=HANG"
  | some rows =>
    let att := sortBy (fun a c => natLt a.i c.i) rows
    let attStr := if att.isEmpty then "." else ",".intercalate (att.map fun w => s!"{w.i}:{w.rk}:{w.rid}")
    let kinds := [rootFile, rootResource, rootFailed, rootDeferred, rootOther, rootRunnable]
    let tot := ",".intercalate ((kinds.filter fun k => total rows k ≠ 0).map fun k => s!"{k}:{total rows k}")
    let buckets := ";".intercalate
      [bucketStr "failed" (bucket b rows rootFailed), bucketStr "cyclic" (cyclicBucket b rows),
       bucketStr "deferred" (bucket b rows rootDeferred), bucketStr "other" (bucket b rows rootOther),
       bucketStr "runnable" (bucket b rows rootRunnable)]
    s!"blk={blkStr} att={attStr} tot={if tot.isEmpty then "." else tot} {buckets} " ++
      s!"inputs={displayStr (rankDisplay b rows rootFile fileRoots)} " ++
      s!"res={displayStr (rankDisplay b rows rootResource resRoots)}"

def handleRc (thr dr mt md gw ge it steps : String) : Option String := do
  let rows ← (items steps).mapM parseRow
  let inp : Input := { steps := rows, threshold := ← parseNeed thr, draining := ← parseBool dr,
                       missingTargets := ← mt.toNat?, missingDirs := ← md.toNat?,
                       globWarnings := ← gw.toNat?, globErrors := ← ge.toNat?, invalidTargets := ← it.toNat? }
  let (f, msgs) := reportUnbuilt inp
  pure s!"{f.toNat} {if msgs.isEmpty then "-" else ",".intercalate (msgs.map Msg.str)}"

def handle : List String → Option String
  | ["rc", thr, dr, mt, md, gw, ge, steps] => handleRc thr dr mt md gw ge "0" steps
  | ["rc", thr, dr, mt, md, gw, ge, it, steps] => handleRc thr dr mt md gw ge it steps
  | ["serve", inv, f, w, p, d] => do
    let fl : Flags := { failed := ← parseBool f, warning := ← parseBool w, pending := ← parseBool p,
                        drained := ← parseBool d }
    pure s!"{(serveReturnCode (← parseBool inv) fl).toNat}"
  | ["cleanup", t, f, w, p, d, c] => do
    let fl : Flags := { failed := ← parseBool f, warning := ← parseBool w, pending := ← parseBool p,
                        drained := ← parseBool d }
    pure (boolStr (cleanupRuns (← parseBool t) fl (← parseBool c)))
  | ["pend", steps, fb, dead, prods, ancs, res, froots, rroots] => do
    let b : Base := { steps := ← (items steps).mapM parsePStep, fileBlock := ← (items fb).mapM parsePair,
                      dead := ← (items dead).mapM parseDead, producers := ← (items prods).mapM parseProducer,
                      unsafeAnc := ← (items ancs).mapM parseAnc, resBlock := ← (items res).mapM parseRes }
    let fr ← (items froots).mapM String.toNat?
    let rr ← (items rroots).mapM String.toNat?
    pure (pendAnswer b fr rr)
  | _ => none

end StepupModel.Drv.C19
