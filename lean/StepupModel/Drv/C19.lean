import StepupModel.Proto
/-! Driver requests of C19 (`c19 <op> ...`). -/
open StepupModel StepupModel.Proto

namespace StepupModel.Drv.C19

def handle : List String → Option String
  | _ => none

end StepupModel.Drv.C19
