import StepupModel.Proto
/-! Driver requests of C07 (`c07 <op> ...`). -/
open StepupModel StepupModel.Proto

namespace StepupModel.Drv.C07

def handle : List String → Option String
  | _ => none

end StepupModel.Drv.C07
