import StepupModel.Proto
import StepupModel.Drv.C06
/-! Driver requests of C07 (`c07 <op> ...`): `Workflow.delete_detached` and
`revert_optional_steps` + `delete_detached` of the kernel model on an encoded database state (see
`Drv/C06.lean` for the encoding).  Answer: the surviving keys with the presence of a step hash,
and the queue, or `err <kind>`. -/
open StepupModel StepupModel.Proto StepupModel.K StepupModel.B

namespace StepupModel.Drv.C07

def encKey (k : Key) : String := k.kind.name ++ "." ++ hex k.label

def encResult (s : KState) : String :=
  let keys := (s.nodes.map fun n => encKey n.key ++ (if n.key.kind = .step then (if n.shash.isSome then "+" else "-") else
      if n.key.kind = .file then ":" ++ n.fstate.name else "")).mergeSort fun a b => decide (a ≤ b)
  let queue := (s.toBeDeleted.map fun e => hex e.1 ++ "=" ++ Drv.C06.optNatStr e.2).mergeSort fun a b => decide (a ≤ b)
  (if keys.isEmpty then "." else ";".intercalate keys) ++ " " ++ (if queue.isEmpty then "." else ",".intercalate queue)

def parseNeedTok : String → Option Need
  | "OPTIONAL" => some .optional | "DEFAULT" => some .default | "TARGET" => some .target | "PLAN" => some .plan
  | _ => none

/-- `optional` lists the keys of the attached steps whose `_implied_need` is OPTIONAL, `notPending`
those whose state is not PENDING. -/
def markSteps (s : KState) (optional notPending : List Key) : KState :=
  { s with nodes := s.nodes.map fun n =>
      if n.key.kind = .step then
        { n with impliedNeed := if optional.contains n.key then .optional else .default,
                 sstate := if notPending.contains n.key then .succeeded else .pending }
      else n }

def parseKeys (tok : String) : Option (List Key) :=
  if tok = "." then some [] else (tok.splitOn ";").mapM Drv.C06.parseKeyDot

def handle : List String → Option String
  | ["dd", nodes, deps] => do
    let s ← Drv.C06.parseState nodes deps
    pure (match s.deleteDetached with
      | .ok s' => "ok " ++ encResult s'
      | .error e => "err " ++ e.name)
  | ["cleanup", nodes, deps, optional, notPending] => do
    let s ← Drv.C06.parseState nodes deps
    let s := markSteps s (← parseKeys optional) (← parseKeys notPending)
    pure (match s.revertOptional >>= fun s1 => s1.deleteDetached with
      | .ok s' => "ok " ++ encResult s'
      | .error e => "err " ++ e.name)
  | _ => none

end StepupModel.Drv.C07
