import StepupModel.Proto
/-! Driver requests of C05 (`c05 <op> ...`). -/
open StepupModel StepupModel.Proto

namespace StepupModel.Drv.C05

def handle : List String → Option String
  | _ => none

end StepupModel.Drv.C05
