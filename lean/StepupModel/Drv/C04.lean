import StepupModel.Proto
/-! Driver requests of C04 (`c04 <op> ...`). -/
open StepupModel StepupModel.Proto

namespace StepupModel.Drv.C04

def handle : List String → Option String
  | _ => none

end StepupModel.Drv.C04
