import StepupModel.Proto
import StepupModel.P.Skip
/-! Driver requests of C04 (`c04 <op> ...`): the guard of `Executor._run_hash_job`.

* `c04 hashjob <old> <new> <cause>` → `1` when the result is applied to the workflow, else `0`
  (hash tokens are opaque: equality of tokens is equality of `FileHash` objects). -/
open StepupModel StepupModel.Proto StepupModel.P.Skip

namespace StepupModel.Drv.C04

def parseCause : String → Option K.Cause
  | "EXTERNAL" => some .external | "SUCCEEDED" => some .succeeded | "FAILED" => some .failed
  | "CONFIRMED" => some .confirmed
  | _ => none

def handle : List String → Option String
  | ["hashjob", old, new, cause] => do
    let c ← parseCause cause
    pure (boolStr (hashJobApplies old new c))
  | _ => none

end StepupModel.Drv.C04
