import StepupModel.K.Request
import StepupModel.Lemmas.MetaAfterW
import StepupModel.Lemmas.MetaSafe
/-! Driver requests of the kernel model (`k <op> ...`); the only stateful part of the driver. -/
open StepupModel StepupModel.Proto StepupModel.K

namespace StepupModel.Drv.K

structure Session where
  st : KState := KState.init
  cfg : KConfig := {}
  lastErr : String := ""

def parseKey (tok : String) : Option Key :=
  match tok.splitOn ":" with
  | [k, l] => do
    let label ← unhex l
    match k with
    | "root" => some ⟨.root, label⟩
    | "file" => some ⟨.file, label⟩
    | "step" => some ⟨.step, label⟩
    | "st" => some ⟨.st, label⟩
    | _ => none
  | _ => none

def parseKeys (tok : String) : Option (List Key) :=
  if tok = "." then some [] else (tok.splitOn ",").mapM parseKey

def parsePairs (tok : String) : Option (List (String × String)) :=
  if tok = "." then some [] else (tok.splitOn ",").mapM fun e =>
    match e.splitOn "=" with
    | [a, b] => do pure (← unhex a, ← unhex b)
    | _ => none

def parseUnits (tok : String) : Option (List (String × Nat)) :=
  if tok = "." then some [] else (tok.splitOn ",").mapM fun e =>
    match e.splitOn "=" with
    | [a, b] => do pure (← unhex a, ← b.toNat?)
    | _ => none

def parseHashes (tok : String) : Option (List (String × Option Nat)) :=
  if tok = "." then some [] else (tok.splitOn ",").mapM fun e =>
    match e.splitOn "=" with
    | [a, b] => do
      let p ← unhex a
      if b = "~" then pure (p, none) else pure (p, some (← b.toNat?))
    | _ => none

def parsePatterns (tok : String) : Option (List (String × List String)) :=
  if tok = "." then some [] else (tok.splitOn ";").mapM fun e =>
    match e.splitOn ":" with
    | [p, ms] => do pure (← unhex p, ← unhexList ms)
    | _ => none

def parseNeed : String → Option Need
  | "OPTIONAL" => some .optional | "DEFAULT" => some .default | "TARGET" => some .target | "PLAN" => some .plan
  | _ => none

def parseCause : String → Option Cause
  | "EXTERNAL" => some .external | "SUCCEEDED" => some .succeeded | "FAILED" => some .failed
  | "CONFIRMED" => some .confirmed
  | _ => none

/-- Run a request body: on an error the state is unchanged (rollback). -/
def finish (sess : Session) (r : M (KState × String)) : Session × String :=
  match r with
  | .ok (st, out) => ({ sess with st := st }, s!"ok {out} {st.digest}")
  | .error e => ({ sess with lastErr := (match e with | .graph m => m | _ => e.name) },
      s!"err {e.name} {sess.st.digest}")

/-- Parse one `k <op> ...` line into a kernel request. -/
def parseReq : List String → Option Req
  | ["define", creator, cmd, wd, inp, env, out, vol, need, shell, safe, res, ovr] => do
    let d : StepDecl := { cmd := ← unhex cmd, workdir := ← unhex wd, inp := ← unhexList inp, env := ← unhexList env,
                          out := ← unhexList out, vol := ← unhexList vol, need := ← parseNeed need,
                          shell := shell = "1", safe := safe = "1", resources := ← parseUnits res,
                          overrides := ← parsePairs ovr }
    pure (.define (← parseKey creator) d)
  | ["amend", step, inp, env, out, vol, conc] => do
    pure (.amend (← parseKey step) (← unhexList inp) (← unhexList env) (← unhexList out) (← unhexList vol)
      (← parseKeys conc))
  | ["static", creator, paths] => do pure (.static (← parseKey creator) (← unhexList paths))
  | ["tree", creator, path] => do pure (.tree (← parseKey creator) (← unhex path))
  | ["declstatic", creator, trees, files, patterns] => do
    pure (.declStatic (← parseKey creator) (← unhexList trees) (← unhexList files) (← parsePatterns patterns))
  | ["nglob", step, pattern, found] => do pure (.nglob (← parseKey step) (← unhex pattern) (← unhexList found))
  | ["hashes", cause, upd] => do
    let c ← parseCause cause
    pure (.hashes (← parseHashes upd) c)
  | ["pop", choice] => do
    pure (.pop (← if choice = "~" then some none else (parseKey choice).map some))
  | ["update_meta"] => some .updateMeta
  | ["reset_rerun", step] => do pure (.resetRerun (← parseKey step))
  | ["completed", step, h, defer] => do
    let k ← parseKey step
    pure (.completed k (← if h = "~" then some none else h.toNat?.map some) (defer = "1"))
  | ["set_state", step, state] => do
    let k ← parseKey step
    let stt ← match state with
      | "PENDING" => some StepState.pending | "RUNNING" => some .running | "SUCCEEDED" => some .succeeded
      | "FAILED" => some .failed | "CHECKING" => some .checking | _ => none
    pure (.setState k stt)
  | ["delete_hash", step] => do pure (.deleteHash (← parseKey step))
  | ["mark_pending", step] => do pure (.markPending (← parseKey step))
  | ["hold", step] => do pure (.hold (← parseKey step))
  | ["release", step] => do pure (.release (← parseKey step))
  | ["detach", key] => do pure (.detach (← parseKey key))
  | ["revert_optional"] => some .revertOptional
  | ["delete_detached"] => some .deleteDetached
  | ["clear_queue"] => some .clearQueue
  | ["reset_interrupted"] => some .resetInterrupted
  | ["rescan_env"] => some .rescanEnv
  | ["reconcile"] => some .reconcile
  | ["check_consistency"] => some .checkConsistency
  | _ => none

def handle (sess : Session) : List String → Option (Session × String)
  | ["reset", cap, targets, dirs, avail, env] => do
    let cfg : KConfig := { deferCap := ← cap.toNat?, targets := ← unhexList targets, targetDirs := ← unhexList dirs,
                           available := ← parseUnits avail, env := ← parsePairs env }
    let sess : Session := { st := KState.init, cfg := cfg }
    pure (sess, s!"ok - {sess.st.digest}")
  | ["setenv", env] => do
    pure ({ sess with cfg := { sess.cfg with env := ← parsePairs env } }, s!"ok - {sess.st.digest}")
  | ["retarget", targets, dirs] => do
    pure ({ sess with cfg := { sess.cfg with targets := ← unhexList targets, targetDirs := ← unhexList dirs } },
      s!"ok - {sess.st.digest}")
  | ["cacheinv"] =>
    -- the hypothesis of the worklist theorems (`MetaAfter.CacheInvAfterW`, the flag discipline),
    -- evaluated on the model state; second digit: the strict form `CacheInvAfter`
    -- third digit: the discipline of `_update_meta_safe` (`MetaSafe.CacheInvSafeW`)
    pure (sess, (if StepupModel.K.MetaAfter.cacheInvAfterWB sess.st sess.cfg then "1" else "0") ++
                (if StepupModel.K.MetaAfter.cacheInvAfterB sess.st sess.cfg then "1" else "0") ++
                (if StepupModel.K.MetaSafe.cacheInvSafeWB sess.st then "1" else "0"))
  | ["dump"] => pure (sess, "|".intercalate sess.st.dumpLines)
  | ["lasterr"] => pure (sess, sess.lastErr)
  | toks => do
    let req ← parseReq toks
    pure (finish sess (sess.st.exec sess.cfg req))

end StepupModel.Drv.K
