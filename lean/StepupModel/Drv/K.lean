import StepupModel.K.Dump
/-! Driver requests of the kernel model (`k <op> ...`); the only stateful part of the driver. -/
open StepupModel StepupModel.Proto StepupModel.K

namespace StepupModel.Drv.K

structure Session where
  st : KState := KState.init
  cfg : KConfig := {}
  lastErr : String := ""

def parseKey (tok : String) : Option Key :=
  match tok.splitOn ":" with
  | [k, l] => do
    let label ← unhex l
    match k with
    | "root" => some ⟨.root, label⟩
    | "file" => some ⟨.file, label⟩
    | "step" => some ⟨.step, label⟩
    | "st" => some ⟨.st, label⟩
    | _ => none
  | _ => none

def parseKeys (tok : String) : Option (List Key) :=
  if tok = "." then some [] else (tok.splitOn ",").mapM parseKey

def parsePairs (tok : String) : Option (List (String × String)) :=
  if tok = "." then some [] else (tok.splitOn ",").mapM fun e =>
    match e.splitOn "=" with
    | [a, b] => do pure (← unhex a, ← unhex b)
    | _ => none

def parseUnits (tok : String) : Option (List (String × Nat)) :=
  if tok = "." then some [] else (tok.splitOn ",").mapM fun e =>
    match e.splitOn "=" with
    | [a, b] => do pure (← unhex a, ← b.toNat?)
    | _ => none

def parseHashes (tok : String) : Option (List (String × Option Nat)) :=
  if tok = "." then some [] else (tok.splitOn ",").mapM fun e =>
    match e.splitOn "=" with
    | [a, b] => do
      let p ← unhex a
      if b = "~" then pure (p, none) else pure (p, some (← b.toNat?))
    | _ => none

def parsePatterns (tok : String) : Option (List (String × List String)) :=
  if tok = "." then some [] else (tok.splitOn ";").mapM fun e =>
    match e.splitOn ":" with
    | [p, ms] => do pure (← unhex p, ← unhexList ms)
    | _ => none

def parseNeed : String → Option Need
  | "OPTIONAL" => some .optional | "DEFAULT" => some .default | "TARGET" => some .target | "PLAN" => some .plan
  | _ => none

def parseCause : String → Option Cause
  | "EXTERNAL" => some .external | "SUCCEEDED" => some .succeeded | "FAILED" => some .failed
  | "CONFIRMED" => some .confirmed
  | _ => none

/-- Run a request body: on an error the state is unchanged (rollback). -/
def finish (sess : Session) (r : M (KState × String)) : Session × String :=
  match r with
  | .ok (st, out) => ({ sess with st := st }, s!"ok {out} {st.digest}")
  | .error e => ({ sess with lastErr := (match e with | .graph m => m | _ => e.name) },
      s!"err {e.name} {sess.st.digest}")

def unit (r : M KState) : M (KState × String) := do pure (← r, "-")

def handle (sess : Session) : List String → Option (Session × String)
  | ["reset", cap, targets, dirs, avail, env] => do
    let cfg : KConfig := { deferCap := ← cap.toNat?, targets := ← unhexList targets, targetDirs := ← unhexList dirs,
                           available := ← parseUnits avail, env := ← parsePairs env }
    let sess : Session := { st := KState.init, cfg := cfg }
    pure (sess, s!"ok - {sess.st.digest}")
  | ["setenv", env] => do
    pure ({ sess with cfg := { sess.cfg with env := ← parsePairs env } }, s!"ok - {sess.st.digest}")
  | ["define", creator, cmd, wd, inp, env, out, vol, need, shell, safe, res, ovr] => do
    let d : StepDecl := { cmd := ← unhex cmd, workdir := ← unhex wd, inp := ← unhexList inp, env := ← unhexList env,
                          out := ← unhexList out, vol := ← unhexList vol, need := ← parseNeed need,
                          shell := shell = "1", safe := safe = "1", resources := ← parseUnits res,
                          overrides := ← parsePairs ovr }
    let c ← parseKey creator
    pure <| finish sess do
      let (st, chk) ← sess.st.defineStep sess.cfg c d
      pure (st, hexList chk)
  | ["amend", step, inp, env, out, vol, conc] => do
    let k ← parseKey step
    let inp ← unhexList inp; let env ← unhexList env; let out ← unhexList out; let vol ← unhexList vol
    let conc ← parseKeys conc
    pure <| finish sess do
      let (st, r) ← sess.st.amendStep sess.cfg k inp env out vol conc
      pure (st, s!"{hexList r.unavailable}|{hexList r.unfresh}|{hexList r.toCheck}")
  | ["static", creator, paths] => do
    let c ← parseKey creator
    let ps ← unhexList paths
    pure <| finish sess do
      let (st, chk) ← sess.st.declareStaticFiles sess.cfg c ps
      pure (st, hexList (sortedStrs chk))
  | ["tree", creator, path] => do
    let c ← parseKey creator
    let p ← unhex path
    pure <| finish sess do
      let (st, chk) ← sess.st.registerStaticTree sess.cfg c p
      pure (st, hexList (sortedStrs chk))
  | ["declstatic", creator, trees, files, patterns] => do
    let c ← parseKey creator
    let ts ← unhexList trees
    let fs ← unhexList files
    let ps ← parsePatterns patterns
    pure <| finish sess do
      let (st, chk) ← sess.st.declareStaticRequest sess.cfg c ts fs ps
      pure (st, hexList (sortedStrs (dedupSorted (sortedStrs chk))))
  | ["nglob", step, pattern, found] => do
    let k ← parseKey step
    let p ← unhex pattern
    let ms ← unhexList found
    pure <| finish sess (unit (sess.st.registerNglob k p ms))
  | ["hashes", cause, upd] => do
    let c ← parseCause cause
    let u ← parseHashes upd
    pure <| finish sess (unit (sess.st.updateFileHashes u c))
  | ["pop", choice] => do
    let c ← if choice = "~" then some none else (parseKey choice).map some
    pure <| finish sess do
      let (st, d) ← sess.st.popNext sess.cfg c
      pure (st, match d with
        | .none => "none"
        | .job k chk run => s!"{k.enc}:{if chk then "check" else "run"}:{if run then "runjob" else "validate"}")
  | ["update_meta"] => pure <| finish sess (unit (sess.st.updateMeta sess.cfg))
  | ["reset_rerun", step] => do
    let k ← parseKey step
    pure <| finish sess (unit (sess.st.resetForRerun k))
  | ["completed", step, h, defer] => do
    let k ← parseKey step
    let h ← if h = "~" then some none else h.toNat?.map some
    pure <| finish sess do
      let (st, intr) ← sess.st.markCompleted sess.cfg k h (defer = "1")
      pure (st, b01 intr)
  | ["set_state", step, state] => do
    let k ← parseKey step
    let stt ← match state with
      | "PENDING" => some StepState.pending | "RUNNING" => some .running | "SUCCEEDED" => some .succeeded
      | "FAILED" => some .failed | "CHECKING" => some .checking | _ => none
    pure <| finish sess (unit (sess.st.setStepState k stt))
  | ["delete_hash", step] => do
    let k ← parseKey step
    pure <| finish sess (unit (pure (sess.st.deleteHash k)))
  | ["mark_pending", step] => do
    let k ← parseKey step
    pure <| finish sess (unit (sess.st.markStepPending k))
  | ["hold", step] => do
    let k ← parseKey step
    pure <| finish sess (unit (sess.st.hold k))
  | ["release", step] => do
    let k ← parseKey step
    pure <| finish sess (unit (sess.st.release k))
  | ["detach", key] => do
    let k ← parseKey key
    pure <| finish sess (unit (sess.st.detach k))
  | ["revert_optional"] => pure <| finish sess (unit sess.st.revertOptional)
  | ["delete_detached"] => pure <| finish sess (unit sess.st.deleteDetached)
  | ["clear_queue"] => pure <| finish sess (unit (pure { sess.st with toBeDeleted := [] }))
  | ["reset_interrupted"] => pure <| finish sess (unit sess.st.resetInterrupted)
  | ["rescan_env"] => pure <| finish sess (unit (sess.st.rescanEnvVars sess.cfg))
  | ["reconcile"] => pure <| finish sess (unit (sess.st.reconcileTargets sess.cfg))
  | ["dump"] => pure (sess, "|".intercalate sess.st.dumpLines)
  | ["lasterr"] => pure (sess, sess.lastErr)
  | _ => none

end StepupModel.Drv.K
