import StepupModel.Proto
import StepupModel.P.Rpc
/-! Driver requests of C16 (`c16 <op> ...`).

* `enc <id> <body|~>`: hex of `encodeMessage`.
* `dec <chunk,chunk,...|.>`: the messages read from the chunked stream and how it ends at EOF.
* `allowed <name> <bind>`: decision over the generated `DirectorHandler` table.
* `exc <name> <usage> <importable> <ctorOk> <debug>` / `exct <name> <debug>`: class seen by the caller.
* `conn <table> <bodies> <events>`: the server connection on an event script; one answer token per
  event: `invoked/writes/cancelled/status`.
* `client <events>`: the pending table of the asynchronous client.
-/
open StepupModel StepupModel.Proto

namespace StepupModel.Drv.C16
open StepupModel.P.Rpc

def hexGo : List Char → List Nat → Option (List Nat)
  | [], acc => some acc.reverse
  | [_], _ => none
  | a :: b :: rest, acc =>
    match hexVal a, hexVal b with
    | some x, some y => hexGo rest ((16 * x + y) :: acc)
    | _, _ => none

/-- Hex token to bytes (`-` is empty), tail recursive. -/
def bytesOf (tok : String) : Option Bytes := if tok = "-" then some [] else hexGo tok.toList []

def hexOf (b : Bytes) : String :=
  if b.isEmpty then "-"
  else String.ofList (b.foldr (fun x acc => hexDigit (x / 16 % 16) :: hexDigit (x % 16) :: acc) [])

def bodyOf (tok : String) : Option (Option Bytes) :=
  if tok = "~" then some none else (bytesOf tok).map some

def bodyStr : Option Bytes → String
  | none => "~"
  | some b => hexOf b

def listOf {α : Type} (sep : String) (tok : String) (f : String → Option α) : Option (List α) :=
  if tok = "." then some [] else (tok.splitOn sep).mapM f

def joinOr (sep : String) (l : List String) : String := if l.isEmpty then "." else sep.intercalate l

def msgStr (m : Msg) : String := s!"{m.id}:{bodyStr m.body}"

def decisionStr : Decision → String
  | .invoke => "invoke" | .unknown => "unknown" | .notAllowed => "notAllowed" | .badArgs => "badArgs"

def parseTableEntry (tok : String) : Option (Name × Bool) :=
  match tok.splitOn ":" with
  | [n, f] => do pure (← bytesOf n, f = "1")
  | _ => none

def parseBodyEntry (tok : String) : Option (Bytes × Req) :=
  match tok.splitOn ":" with
  | [b, "c", n, bind] => do pure (← bytesOf b, .call (← bytesOf n) (bind = "1"))
  | [b, "n"] => do pure (← bytesOf b, .notCall)
  | _ => none

def parseOutcome (tok : String) : Option Outcome :=
  match tok.toList with
  | ['r'] => some .result
  | ['n'] => some .unpicklable
  | ['R'] => some .bigResult
  | ['k'] => some .cancelledInside
  | 'u' :: rest => (String.ofList rest).toNat?.map .usage
  | 'i' :: rest => (String.ofList rest).toNat?.map .internal
  | _ => none

def parseEv (tok : String) : Option Ev :=
  match tok.splitOn ":" with
  | ["b", h] => (bytesOf h).map .bytes
  | ["e"] => some .eof
  | ["s"] => some .stop
  | ["t"] => some .tick
  | ["p"] => some .pause
  | ["d"] => some .resume
  | ["l", cls, site] => do
    let k ← (match cls with | "reset" => some LossClass.reset | "pipe" => some .brokenPipe
                            | "abort" => some .aborted | _ => none)
    let st ← (match site with | "w" => some LossSite.write | "d" => some .drain | _ => none)
    pure (.lose k st)
  | ["c", seq, o] => do pure (.complete (← seq.toNat?) (← parseOutcome o))
  | _ => none

def kindStr : RKind → String
  | .value => "v"
  | .failure true (some c) => s!"fu{c}"
  | .failure false (some c) => s!"fi{c}"
  | .failure _ none => "fr"
  | .sentinel => "s"
  | .cancelFailure => "fc"

def failStr : Failure → String
  | .badHeader => "badHeader" | .notCall => "notCall" | .unpicklable => "unpicklable"

def statusStr (c : Conn) : String :=
  match c.failed with
  | some f => "fail:" ++ failStr f
  | none => if c.finished then "done" else "open"

/-- The observable difference made by one event. -/
def evOut (old new : Conn) : String :=
  let inv := (new.invoked.drop old.invoked.length).map fun p => toString p.1.id
  let wr := (new.sent.drop old.sent.length).map fun r => s!"{r.call.id}:{kindStr r.kind}"
  let cancelled := (new.cancelled.drop old.cancelled.length).map fun call =>
    toString (new.invoked.findIdx (·.1 == call))
  s!"{joinOr "+" inv}/{joinOr "+" wr}/{joinOr "+" cancelled}/{statusStr new}"

def runOut (cfg : Cfg) : Conn → List Ev → List String → List String
  | _, [], acc => acc.reverse
  | c, e :: es, acc =>
    let c' := step cfg c e
    runOut cfg c' es (evOut c c' :: acc)

def parseCEv (tok : String) : Option CEv :=
  match tok.splitOn ":" with
  | ["c", caller] => caller.toNat?.map .call
  | ["r", id, body] => do pure (.reply (← id.toNat?) (← bodyOf body))
  | ["b", h] => (bytesOf h).map .bytes
  | ["g"] => some .badHeader
  | ["e"] => some .eof
  | _ => none

def cresStr : CResult → String
  | .body b => "body=" ++ bodyStr b
  | .connectionLost => "lost"
  | .loopError => "looperr"

def b01 (tok : String) : Bool := tok = "1"

def handle : List String → Option String
  | ["enc", id, body] => do
    pure (hexOf (encodeMessage ⟨← id.toNat?, ← bodyOf body⟩))
  | ["dec", chunks] => do
    let cs ← listOf "," chunks bytesOf
    let r := runChunks (.buf []) cs
    let e := match streamEnd r.2 with | .peerGone => "gone" | .error => "error"
    pure (joinOr "," (r.1.map msgStr) ++ " " ++ e)
  | ["allowed", name, bind] => do
    pure (decisionStr (callDecision Generated.Rpc.handlerAttrs (← bytesOf name) (b01 bind)))
  | ["exc", name, usage, importable, ctor, debug] => do
    pure (hexOf (clientClass ⟨← bytesOf name, b01 usage, b01 importable, b01 ctor⟩ (b01 debug)))
  | ["exct", name, debug] => do
    pure (match excOfTable (← bytesOf name) with
      | some e => hexOf (clientClass e (b01 debug))
      | none => "none")
  | ["conn", table, bodies, events] => do
    let cfg : Cfg := ⟨← listOf "," table parseTableEntry, ← listOf "," bodies parseBodyEntry⟩
    let evs ← listOf "," events parseEv
    pure (joinOr ";" (runOut cfg {} evs []))
  | ["client", events] => do
    let evs ← listOf "," events parseCEv
    let c := crun {} evs
    let res := c.resolved.map fun p => s!"{p.1}:{cresStr p.2}"
    let pend := c.pending.map fun p => s!"{p.1}:{p.2}"
    pure (s!"{joinOr "," res} {joinOr "," pend} {boolStr c.alive} {boolStr c.recvError}")
  | _ => none

end StepupModel.Drv.C16
