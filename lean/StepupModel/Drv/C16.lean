import StepupModel.Proto
/-! Driver requests of C16 (`c16 <op> ...`). -/
open StepupModel StepupModel.Proto

namespace StepupModel.Drv.C16

def handle : List String → Option String
  | _ => none

end StepupModel.Drv.C16
