import StepupModel.Proto
import StepupModel.P.Hash
/-! Driver requests of C13 (`c13 <op> ...`). -/
open StepupModel StepupModel.Proto

namespace StepupModel.Drv.C13
open StepupModel.P.Hash

def bytesOf (tok : String) : Option Bytes := (unhexBytes tok).map (·.map UInt8.toNat)
def hexOf (b : Bytes) : String := hexOfBytes (b.map UInt8.ofNat)

def parseList {α : Type} (tok : String) (f : List String → Option α) : Option (List α) :=
  if tok = "." then some [] else (tok.splitOn ",").mapM fun e => f (e.splitOn "/")

def parseFile : List String → Option FileE
  | [p, m, s, d] => do pure ⟨← bytesOf p, ← m.toNat?, ← s.toNat?, ← bytesOf d⟩
  | _ => none

def parseEnv : List String → Option (Bytes × Option Bytes)
  | [n, v] => do
    let n ← bytesOf n
    if v = "~" then pure (n, none) else pure (n, some (← bytesOf v))
  | _ => none

def parseOvr : List String → Option (Bytes × Bytes)
  | [n, v] => do pure (← bytesOf n, ← bytesOf v)
  | _ => none

def fhStr (h : FileHash) : String :=
  s!"{hexOf h.digest} {h.mode} {h.mtime} {h.size} {h.inode}"

def handle : List String → Option String
  | ["inp", label, shell, files, envs, ovr] => do
    let c : InpCfg := ⟨← bytesOf label, shell = "1", ← parseList files parseFile,
      ← parseList envs parseEnv, ← parseList ovr parseOvr⟩
    pure (hexOf (inpStream c))
  | ["out", files] => do pure (hexOf (outStream (← parseList files parseFile)))
  | ["refreshed", d, m, t, s, i, st, content] => do
    let h : FileHash := ⟨← bytesOf d, ← m.toNat?, ← t.toNat?, ← s.toNat?, ← i.toNat?⟩
    let st ← (if st = "none" then some none else
      match st.splitOn "/" with
      | [a, b, c, e] => do pure (some (⟨← a.toNat?, ← b.toNat?, ← c.toNat?, ← e.toNat?⟩ : Stat))
      | _ => none)
    let r := h.refreshed st (← bytesOf content)
    pure (fhStr r ++ " " ++ boolStr (r.same h))
  | _ => none
end StepupModel.Drv.C13
