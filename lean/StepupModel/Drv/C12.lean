import StepupModel.Proto
import StepupModel.B.JobLoop
/-! Driver requests of C12 (`c12 <op> ...`).

* `c12 jobloop <njob> <events>`: events comma separated: `S` (enter `job_loop`), `o<s>` (the scheduler
  has a job for step s), `h<p>` (`HashQueue.submit` for path p), `P<p>` (promoted hash job for p),
  `fs<i>`/`fh<i>` (step / hash job i ends), `xs<i>` (step job i raises).  Answer: for every event, the
  state after the loop has parked again:
  `running|done|status|polls|wake|draining|promoted|queue|inflight|started|retired`, joined by `;`. -/
open StepupModel StepupModel.Proto

namespace StepupModel.Drv.C12
open StepupModel.B.JobLoop

def parseJob (t : String) : Option Job :=
  match t.toList with
  | 's' :: r => (String.ofList r).toNat?.map Job.step
  | 'h' :: r => (String.ofList r).toNat?.map Job.hash
  | _ => none

def parseEv (t : String) : Option Ev :=
  match t.toList with
  | ['S'] => some .start
  | 'o' :: r => (String.ofList r).toNat?.map Ev.offer
  | 'h' :: r => (String.ofList r).toNat?.map Ev.submit
  | 'P' :: r => (String.ofList r).toNat?.map Ev.promote
  | 'f' :: r => (parseJob (String.ofList r)).map Ev.fin
  | 'x' :: r => (parseJob (String.ofList r)).map Ev.fail
  | _ => none

def jobStr : Job → String
  | .step i => s!"s{i}"
  | .hash i => s!"h{i}"

def listStr (l : List String) : String := if l.isEmpty then "." else "+".intercalate l

def statusStr : Status → String
  | .idle => "I" | .waiting => "W" | .returned => "R" | .raised => "X"

def stateStr (s : JL) : String :=
  "|".intercalate [listStr (s.running.map jobStr), toString s.done.length, statusStr s.status,
    toString s.polls, boolStr s.wake, boolStr s.draining, listStr (s.promoted.map toString),
    toString s.queue.length, listStr (s.inflight.map fun e => s!"{e.1}:{e.2}"),
    listStr (s.started.map jobStr), listStr (s.retired.map toString)]

def handle : List String → Option String
  | ["jobloop", njob, evs] => do
    let n ← njob.toNat?
    let es ← if evs = "." then some [] else (evs.splitOn ",").mapM parseEv
    pure (";".intercalate ((trace n es).map stateStr))
  | _ => none

end StepupModel.Drv.C12
