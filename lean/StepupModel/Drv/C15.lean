import StepupModel.Proto
import StepupModel.P.Session
/-! Driver requests of C15 (`c15 session <ops>`): run a schedule of `DBSession` operations on the
session model; the database content is the list of written values. -/
open StepupModel StepupModel.Proto StepupModel.P.Session

namespace StepupModel.Drv.C15

def parseOp (tok : String) : Option (Op (List Nat)) :=
  match tok.splitOn ":" with
  | ["e", t] => do pure (.enter (← t.toNat?))
  | ["x", t, v] => do
    let v ← v.toNat?
    pure (.exec (← t.toNat?) (· ++ [v]))
  | ["c", t] => do pure (.exitOk (← t.toNat?))
  | ["r", t] => do pure (.exitErr (← t.toNat?))
  | _ => none

def handle : List String → Option String
  | ["session", ops] => do
    let ops ← if ops = "." then some [] else (ops.splitOn ",").mapM parseOp
    let (s, outs) := ops.foldl (fun (acc : State (List Nat) × List String) o =>
      let (s', out) := step acc.1 o
      (s', acc.2 ++ [match out with | .done => "d" | .waits => "w" | .refused => "f"])) ({ committed := [], working := [] }, [])
    pure (",".intercalate outs ++ " " ++ ",".intercalate (s.committed.map toString))
  | _ => none

end StepupModel.Drv.C15
