import StepupModel.K.Types
/-!
# Layer K: primitive writes, each with the trigger effects of the schema

One function per kind of SQL write that occurs in the code; the triggers of `STEP_SCHEMA`,
`FILE_SCHEMA` and `WORKFLOW_SCHEMA` that the write fires are applied here, so that methods
composed from these primitives cannot forget them.
-/
namespace StepupModel.K

def KState.find? (s : KState) (k : Key) : Option Node := s.nodes.find? (·.key = k)

def KState.has (s : KState) (k : Key) : Bool := (s.find? k).isSome

/-- Apply `f` to the row with key `k` (no-op when absent). -/
def KState.modify (s : KState) (k : Key) (f : Node → Node) : KState :=
  { s with nodes := s.nodes.map fun n => if n.key = k then f n else n }

def KState.modifyWhere (s : KState) (p : Node → Bool) (f : Node → Node) : KState :=
  { s with nodes := s.nodes.map fun n => if p n then f n else n }

def KState.isDetached (s : KState) (k : Key) : Bool :=
  match s.find? k with | some n => n.detached | none => true

def KState.products (s : KState) (k : Key) : List Node :=
  s.nodes.filter fun n => n.creator = some k ∧ n.key ≠ k

def KState.sinksOf (s : KState) (k : Key) : List Key := (s.deps.filter (·.src = k)).map (·.snk)
def KState.sourcesOf (s : KState) (k : Key) : List Key := (s.deps.filter (·.snk = k)).map (·.src)

def KState.hasDep (s : KState) (src snk : Key) : Bool := s.deps.any fun d => d.src = src ∧ d.snk = snk

def dedupKeys : List Key → List Key
  | [] => []
  | k :: ks => if ks.contains k then dedupKeys ks else k :: dedupKeys ks

/-- Flag `_check_ready` on every step that is a sink of `k` (attached or not). -/
def KState.flagReadySinks (s : KState) (k : Key) : KState :=
  let sinks := s.sinksOf k
  s.modifyWhere (fun n => n.key.kind = .step ∧ sinks.contains n.key) fun n => { n with checkReady := true }

/-! ## node table -/

/-- Creator kinds accepted by `node_check_creator_kind_ins/upd`. -/
def creatorKindOk (child creator : Kind) : Bool :=
  match child, creator with
  | .file, .step | .file, .st | .file, .root => true
  | .step, .step | .step, .root => true
  | .st, .step => true
  | _, _ => false

/-- `UPDATE node SET detached = ?` on one row: `step_node_check_ready_detached` fires on a flip. -/
def KState.setDetachedRow (s : KState) (k : Key) (d : Bool) : KState :=
  match s.find? k with
  | none => s
  | some n =>
    let s := s.modify k fun n => { n with detached := d }
    if n.detached ≠ d then s.flagReadySinks k else s

/-- The creator-kind triggers and the CHECKs of the `node` table: `creator IS NOT NULL OR detached`,
`creator != i` for every node but the root, and for the root `creator IS i` and `NOT detached`
(the root row can never be re-parented or detached). -/
def KState.creatorAllowed (s : KState) (k : Key) (c : Option Key) (d : Bool) : Bool :=
  if k.kind = .root then c = some k && !d
  else match c with
  | some ck =>
    (match s.find? ck with
     | some cn => creatorKindOk k.kind cn.key.kind
     | none => false) && ck ≠ k
  | none => d

/-- `UPDATE node SET creator = ?, detached = ?` on one row. -/
def KState.setCreator (s : KState) (k : Key) (c : Option Key) (d : Bool) : M KState :=
  if s.creatorAllowed k c d then pure ((s.modify k fun n => { n with creator := c }).setDetachedRow k d)
  else throw .integrity

/-- All recursive products of `k` (`UNION` recursion: terminates on cycles). -/
def KState.descendants (s : KState) (k : Key) : List Key :=
  let step (acc : List Key) : List Key :=
    s.nodes.foldl (fun acc n =>
      match n.creator with
      | some c => if (c = k ∨ acc.contains c) ∧ n.key ≠ c ∧ !acc.contains n.key then acc ++ [n.key] else acc
      | none => acc) acc
  (List.range s.nodes.length).foldl (fun acc _ => step acc) []

/-- `RECURSIVELY_SET_DETACHED` -/
def KState.setDetachedRec (s : KState) (k : Key) (d : Bool) : KState :=
  (s.descendants k).foldl (fun s x => s.setDetachedRow x d) s

/-! ## file table -/

/-- `file_clear_hash` -/
def clearsHash (old new : FileState) : Bool :=
  match new with
  | .missing | .planned | .volatile => true
  | .unconfirmed => old = .built ∨ old = .outdated
  | _ => false

/-- Row-level effect of `UPDATE file SET state = ?[, hash = ?]`: the CHECK (a hash is needed for
CONFIRMED/BUILT/OUTDATED), `file_clear_hash`, `file_check_undeclared_detached_upd`. -/
def pickHash (newHash : Option (Option Nat)) (old : Option Nat) : Option Nat :=
  match newHash with | some h => h | none => old

def pickDeferred (deferred : Option Bool) (old : Bool) : Bool :=
  match deferred with | some d => d | none => old

def fileRowWrite (n : Node) (new : FileState) (newHash : Option (Option Nat)) : M Node :=
  let h := pickHash newHash n.fhash
  if (new = .confirmed ∨ new = .built ∨ new = .outdated) ∧ h.isNone then throw .integrity
  else if new = .undeclared ∧ !n.detached then throw .integrity
  else pure { n with fstate := new, fhash := if clearsHash n.fstate new then none else h }

/-- `UPDATE file SET state = ?[, hash = ?]` on the row of `k`, plus `step_file_check_ready_upd`. -/
def KState.writeFile (s : KState) (k : Key) (new : FileState) (newHash : Option (Option Nat)) : M KState := do
  match s.find? k with
  | none => pure s
  | some n =>
    let n' ← fileRowWrite n new newHash
    let s := s.modify k fun _ => n'
    pure (if n.fstate ≠ new then s.flagReadySinks k else s)

def KState.setFileState (s : KState) (k : Key) (new : FileState) : M KState := s.writeFile k new none

/-! ## step table -/

/-- Row-level effect of `UPDATE step SET state = ?` (and `deferred = ?` when given): the CHECK
on `deferred`, then `step_flag_check_safe`, `step_reset_holding`, `step_clear_deferred`,
`step_reset_defer_count`. -/
def stepRowWrite (n : Node) (new : StepState) (deferred : Option Bool) : M Node :=
  let d : Bool := pickDeferred deferred n.deferred
  if d = true ∧ new ≠ .pending then throw .integrity
  else pure
    { n with
      sstate := new
      deferred := if new = .succeeded ∨ new = .failed then false else d
      checkSafe := true
      holding := if new ≠ .running then 0 else n.holding
      deferCount := if new = .succeeded then 0 else n.deferCount }

def KState.writeStepState (s : KState) (k : Key) (new : StepState) (deferred : Option Bool) : M KState := do
  match s.find? k with
  | none => pure s
  | some n =>
    let n' ← stepRowWrite n new deferred
    pure (s.modify k fun _ => n')

/-- `Step.set_state(state, deferred=False)` -/
def KState.setStepState (s : KState) (k : Key) (new : StepState) (deferred : Bool := false) : M KState :=
  s.writeStepState k new (some deferred)

/-- `INSERT OR REPLACE INTO step_hash` / `DELETE FROM step_hash` with `step_hash_ins/del`. -/
def KState.setHash (s : KState) (k : Key) (h : Nat) : KState :=
  s.modify k fun n => { n with shash := some h, hasHash := true }

def KState.deleteHash (s : KState) (k : Key) : KState :=
  s.modify k fun n => if n.shash.isSome then { n with shash := none, hasHash := false } else n

/-! ## dependency table -/

def depKindOk (src snk : Kind) : Bool :=
  match src, snk with
  | .file, .step | .step, .file | .st, .file => true
  | _, _ => false

def KState.flagDepEndpoints (s : KState) (src snk : Key) : KState :=
  s.modifyWhere (fun n => n.key.kind = .step ∧ (n.key = src ∨ n.key = snk)) fun n =>
    { n with checkAfter := true, checkReady := n.checkReady || n.key = snk }

/-- `INSERT INTO dependency(source, sink)`: UNIQUE, `dependency_check_kinds_ins`,
`step_dependency_check_after_ins`.  A duplicate is `GraphError("Relation already exists")`. -/
def KState.insertDep (s : KState) (src snk : Key) : M KState := do
  if s.hasDep src snk then throw (.graph "Relation already exists")
  if !depKindOk src.kind snk.kind then throw .integrity
  let s : KState := { s with deps := s.deps ++ [({ src := src, snk := snk } : Dep)] }
  pure (s.flagDepEndpoints src snk)

/-- `DELETE FROM dependency WHERE ...` for the rows selected by `p`; `dynamic_dep` rows cascade. -/
def KState.deleteDeps (s : KState) (p : Dep → Bool) : KState :=
  let gone := s.deps.filter p
  let s : KState := { s with deps := s.deps.filter fun d => !p d }
  gone.foldl (fun s d => s.flagDepEndpoints d.src d.snk) s

/-- `INSERT INTO dynamic_dep` / `DELETE FROM dynamic_dep` with `dynamic_dep_check_ready_*`. -/
def KState.setDynamic (s : KState) (src snk : Key) (dyn : Bool) : KState :=
  let s : KState := { s with deps := s.deps.map fun (d : Dep) => if d.src = src ∧ d.snk = snk then { d with dyn := dyn } else d }
  s.modify snk fun n => if n.key.kind = .step then { n with checkReady := true } else n

/-! ## recursive flagging (Python-invoked SQL) -/

/-- The step `k` and its recursive product *steps*, following step products only
(`RECURSIVE_CHECK_WITH_PRODUCTS`, `RECURSIVE_CHECK_AFTER_SOURCES`, `FILL_SAFE_UPDATE` all walk this
relation with `UNION ALL`): `none` when the walk meets a cycle, i.e. the SQL never terminates. -/
def KState.stepSubtree (s : KState) (k : Key) : Option (List Key) :=
  let isStepChild (n : Node) (c : Key) : Bool := n.key.kind = .step ∧ n.creator = some c ∧ n.key ≠ c
  let expand (frontier : List Key) : List Key :=
    s.nodes.filterMap fun n => if frontier.any (isStepChild n) then some n.key else none
  let rec go (fuel : Nat) (frontier acc : List Key) : Option (List Key) :=
    match fuel with
    | 0 => if frontier.isEmpty then some acc else none
    | fuel + 1 =>
      if frontier.isEmpty then some acc
      else
        let next := expand frontier
        go fuel next (acc ++ next)
  match s.find? k with
  | some n => if n.key.kind = .step then go (s.nodes.length + 1) [k] [k] else some []
  | none => some []

/-- `Step._flag_checks_with_products` -/
def KState.flagChecksWithProducts (s : KState) (k : Key) : M KState :=
  match s.stepSubtree k with
  | none => throw .hang
  | some ks => pure <| s.modifyWhere (fun n => ks.contains n.key) fun n => { n with checkSafe := true, checkAfter := true }

/-- `RECURSIVE_CHECK_AFTER_SOURCES`: attached source steps two dependency hops upstream of every
step of the subtree. -/
def KState.flagCheckAfterSources (s : KState) (k : Key) : M KState :=
  match s.stepSubtree k with
  | none => throw .hang
  | some ks =>
    let files := ks.flatMap s.sourcesOf
    let srcSteps := files.flatMap s.sourcesOf
    pure <| s.modifyWhere (fun n => n.key.kind = .step ∧ !n.detached ∧ srcSteps.contains n.key) fun n =>
      { n with checkAfter := true }

end StepupModel.K
