import StepupModel.K.Workflow
import StepupModel.Generated.Predicates
/-!
# Layer K: scheduler metadata and dispatch (`scheduler.py`), target reconciliation

The cached columns `_safe`, `_safe_ignoring_hold`, `_implied_need`, `_tail_time`, `_ready` are
recomputed exactly the way the SQL does it (flag driven, with the same early stops), so that a
stale cache in the implementation shows up as a disagreement.  The *specifications* of these
columns are in `K/Spec.lean`.
-/
namespace StepupModel.K
open StepupModel.Generated

def StepState.active (st : StepState) : Bool := st = .running ∨ st = .succeeded

structure SafeRow where
  key : Key
  safe : Bool
  chain : Bool
  safeNH : Bool
  chainNH : Bool
  depth : Nat := 0

/-- `FILL_SAFE_UPDATE` (duplicates resolved by the deepest derivation) + `APPLY_SAFE_UPDATE` +
clearing the flags (`_update_meta_safe`).
The recursion is `UNION ALL` over step products: it does not terminate on a creator cycle. -/
def KState.updateMetaSafe (s : KState) : M KState := do
  let flagged := s.nodes.filter fun n => n.key.kind = .step ∧ n.checkSafe
  if flagged.isEmpty then return s
  let seed (n : Node) : SafeRow :=
    let cs : Option Node := match n.creator with
      | some c => if c.kind = Kind.step then s.find? c else none
      | none => none
    let safe := match cs with
      | some c => c.safe && c.sstate.active && c.holding == 0
      | none => true
    let safeNH := match cs with
      | some c => c.safeNH && c.sstate.active
      | none => true
    { key := n.key, safe := safe, chain := safe && n.sstate.active && n.holding == 0,
      safeNH := safeNH, chainNH := safeNH && n.sstate.active }
  let expand (rows : List SafeRow) : List SafeRow :=
    rows.flatMap fun r =>
      (s.nodes.filter fun p => p.key.kind = .step ∧ p.creator = some r.key ∧ p.key ≠ r.key).map fun p =>
        { key := p.key, safe := r.chain, chain := r.chain && p.sstate.active && p.holding == 0,
          safeNH := r.chainNH, chainNH := r.chainNH && p.sstate.active, depth := r.depth + 1 }
  let rec go (fuel : Nat) (frontier acc : List SafeRow) : Option (List SafeRow) :=
    match fuel with
    | 0 => if frontier.isEmpty then some acc else none
    | fuel + 1 =>
      if frontier.isEmpty then some acc
      else
        let next := expand frontier
        go fuel next (acc ++ next)
  let seeds := flagged.map seed
  match go (s.nodes.length + 1) seeds seeds with
  | none => throw .hang
  | some rows =>
    -- duplicates: keep the row derived through the longest chain (`MAX(depth)`)
    let s := s.modifyWhere (fun n => rows.any (·.key = n.key)) fun n =>
      let mine := rows.filter (·.key = n.key)
      match mine.foldl (fun best r => match best with
          | none => some r
          | some b => if b.depth < r.depth then some r else some b) none with
      | some r => { n with safe := r.safe, safeNH := r.safeNH }
      | none => n
    pure (s.modifyWhere (fun n => n.key.kind = .step) fun n => { n with checkSafe := false })

def KConfig.threshold (cfg : KConfig) : Need :=
  if cfg.targets.isEmpty ∧ cfg.targetDirs.isEmpty then .optional else .default

def lookupRegularOutput (st : FileState) (detached : Bool) : Bool :=
  ((regularOutputTable.find? fun e => e.1 = (st, detached)).map (·.2)).getD false

/-- Label in `[dir, dir_range_upper(dir))` (proved equal to the prefix test in `Props/C18`). -/
def underDir (dir label : String) : Bool := dir == "./" || label.startsWith dir

/-- Attached non-volatile sink files of a step (`REGULAR_OUTPUT_WHERE` over its sinks). -/
def KState.regularOutputs (s : KState) (step : Key) : List String :=
  (s.sinksOf step).filterMap fun k =>
    match s.find? k with
    | some n => if n.key.kind = .file ∧ lookupRegularOutput n.fstate n.detached then some k.label else none
    | none => none

/-- Attached steps two dependency hops downstream of `k` (the file in between is not filtered). -/
def KState.consumerSteps (s : KState) (k : Key) : List Node :=
  ((s.sinksOf k).flatMap s.sinksOf).filterMap fun c =>
    match s.find? c with
    | some m => if m.key.kind = .step ∧ !m.detached then some m else none
    | none => none

/-- The new `(_implied_need, _tail_time)` of one step as `UPDATE_CHECK_AFTER` computes it. -/
def KState.afterValues (s : KState) (cfg : KConfig) (n : Node) : Need × Nat :=
  let outs := s.regularOutputs n.key
  let targetTerm : Need :=
    if outs.any cfg.targets.contains then .target
    else if n.need = .default ∧ outs.any (fun o => cfg.targetDirs.any fun d => underDir d o) then .target
    else .optional
  let sinkSteps := s.consumerSteps n.key
  let need := sinkSteps.foldl (fun acc m => acc.max m.impliedNeed) (n.need.max targetTerm)
  let tail := 1 + sinkSteps.foldl (fun acc m => Nat.max acc m.tail) 0
  (need, tail)

/-- One round of `UPDATE_CHECK_AFTER` on the work set: the rows that are written (all of them in
the first round, later only those whose value changes), computed from the state before the round. -/
def KState.afterUpdates (s : KState) (cfg : KConfig) (work : List Key) (first : Bool) : List (Key × Need × Nat) :=
  work.filterMap fun k =>
    match s.find? k with
    | some n =>
      let (need, tail) := s.afterValues cfg n
      if first ∨ need ≠ n.impliedNeed ∨ tail ≠ n.tail then some (k, need, tail) else none
    | none => none

def KState.applyAfterUpdates (s : KState) (updates : List (Key × Need × Nat)) : KState :=
  s.modifyWhere (fun n => updates.any (·.1 = n.key)) fun n =>
    match updates.find? (·.1 = n.key) with
    | some (_, need, tail) => { n with impliedNeed := need, tail := tail }
    | none => n

/-- `PROPAGATE_CHECK_AFTER`: attached steps two hops upstream of the changed steps. -/
def KState.propagateAfter (s : KState) (changed : List Key) : List Key :=
  let files := dedupKeys (changed.flatMap s.sourcesOf)
  let ups := dedupKeys (files.flatMap s.sourcesOf)
  ups.filter fun k =>
    match s.find? k with
    | some n => n.key.kind = .step ∧ !n.detached
    | none => false

/-- The loop of `_update_meta_after`; `none` when the fuel runs out (never on an acyclic graph). -/
def KState.afterLoop (cfg : KConfig) : Nat → KState → List Key → Bool → Option KState
  | 0, s, work, _ => if work.isEmpty then some s else none
  | fuel + 1, s, work, first =>
    if work.isEmpty then some s
    else
      let updates := s.afterUpdates cfg work first
      let s' := s.applyAfterUpdates updates
      KState.afterLoop cfg fuel s' (s'.propagateAfter (updates.map (·.1))) false

/-- `_update_meta_after`: worklist with early stop; the dependency graph is acyclic, so
`#nodes + 2` rounds suffice (exhaustion is reported as `hang`). -/
def KState.updateMetaAfter (s : KState) (cfg : KConfig) : M KState :=
  if !(s.nodes.any fun n => n.key.kind = .step ∧ n.checkAfter) then pure s
  else
    let work := (s.nodes.filter fun n => n.key.kind = .step ∧ !n.detached ∧ n.checkAfter).map (·.key)
    match KState.afterLoop cfg (s.nodes.length + 2) s work true with
    | some st => pure (st.modifyWhere (fun n => n.key.kind = .step) fun n => { n with checkAfter := false })
    | none => throw .hang

def lookupUnavailable (st : FileState) (dyn detached : Bool) : Bool :=
  ((unavailableInputTable.find? fun e => e.1 = (st, dyn, detached)).map (·.2)).getD true

/-- One dependency edge blocks its sink: `UNAVAILABLE_INPUT_WHERE` on the source file. -/
def KState.inputBlocks (s : KState) (d : Dep) : Bool :=
  match s.find? d.src with
  | some n => n.key.kind = .file && lookupUnavailable n.fstate d.dyn n.detached
  | none => false

/-- `RECOMPUTE_READY` for one step, from the current graph. -/
def KState.computeReady (s : KState) (step : Key) : Bool :=
  !(s.deps.any fun d => d.snk = step && s.inputBlocks d)

/-- `_update_meta_ready` -/
def KState.updateMetaReady (s : KState) : KState :=
  s.modifyWhere (fun n => n.key.kind = .step ∧ n.checkReady) fun n =>
    { n with ready := s.computeReady n.key, checkReady := false }

def KState.updateMeta (s : KState) (cfg : KConfig) : M KState := do
  let s ← s.updateMetaSafe
  let s ← s.updateMetaAfter cfg
  pure s.updateMetaReady

/-- `RESOURCE_UNAVAILABLE`: some required resource is undefined or over-committed by the RUNNING
steps (attached or not). -/
def KState.resourceUnavailable (s : KState) (cfg : KConfig) (n : Node) : Bool :=
  n.resources.any fun (name, units) =>
    match cfg.available.find? (·.1 = name) with
    | none => true
    | some (_, avail) =>
      let used := (s.nodes.filter fun m => m.key.kind = .step ∧ m.sstate = .running).foldl
        (fun acc m => acc + ((m.resources.filter (·.1 = name)).foldl (fun a r => a + r.2) 0)) 0
      decide (avail < used + units)

/-- The WHERE clause of `SELECT_NEXT_STEP` on the cached columns. -/
def KState.eligible (s : KState) (cfg : KConfig) (n : Node) : Bool :=
  n.key.kind = .step &&
  dispatchRows.contains (n.sstate, n.safe, n.hasHash, n.safeNH, n.deferred, n.impliedNeed, n.ready) &&
  decide (cfg.threshold.rank < n.impliedNeed.rank) && !n.detached &&
  (n.hasHash || !s.resourceUnavailable cfg n)

/-- `Scheduler._derive_job`: `true` = RunJob, `false` = ValidateDynamicJob. -/
def KState.deriveJob (s : KState) (step : Key) : M Bool := do
  let mut dynReady := true
  for d in s.deps.filter (·.snk = step) do
    match s.find? d.src with
    | some f =>
      if f.key.kind ≠ .file then continue
      if f.fstate = .volatile then throw .consistency
      if !f.detached ∧ (f.fstate = .built ∨ f.fstate = .confirmed) then continue
      if d.dyn then
        if !f.detached ∧ (f.fstate = .planned ∨ f.fstate = .outdated) then throw .consistency
      else throw .consistency
      dynReady := false
    | none => pure ()
  let hasHash := ((s.find? step).map (·.shash.isSome)).getD false
  pure (dynReady || !hasHash)

inductive Dispatch
  | none
  | job (step : Key) (checking : Bool) (run : Bool)

/-- `Scheduler.pop_next_job` with the implementation's choice supplied: the model checks that the
choice is in the eligible set (and respects the two leading ORDER BY terms) and applies it.
`Except.error .value` with nothing applied stands for "the model would not have chosen this". -/
def KState.popNext (s : KState) (cfg : KConfig) (choice : Option Key) : M (KState × Dispatch) := do
  let s ← s.updateMeta cfg
  let elig := s.nodes.filter (s.eligible cfg)
  match choice with
  | none => if elig.isEmpty then pure (s, .none) else throw .value
  | some k =>
    match elig.find? (·.key = k) with
    | none => throw .value
    | some n =>
      if !n.hasHash ∧ elig.any (·.hasHash) then throw .value
      if n.impliedNeed ≠ .plan ∧ elig.any (fun m => m.hasHash = n.hasHash ∧ m.impliedNeed = .plan) then throw .value
      let run ← s.deriveJob k
      let s ← s.setStepState k (if n.hasHash then .checking else .running)
      pure (s, .job k n.hasHash run)

/-- `Workflow._creator_chain_pending` -/
def KState.creatorChainPending (s : KState) (k : Key) : Bool :=
  let rec go (fuel : Nat) (k : Key) : Bool :=
    match fuel with
    | 0 => false
    | fuel + 1 =>
      match (s.find? k).bind (·.creator) with
      | none => false
      | some c =>
        if c.kind = .root then false
        else match s.find? c with
          | none => false
          | some cn => if cn.key.kind = .step ∧ cn.sstate = .pending then true else go fuel c
  go (s.nodes.length + 1) k

/-- One exact target of `reconcile_targets`. -/
def KState.reconcileTarget (s : KState) (t : String) : M KState :=
  match s.find? (fileKey t) with
  | some f =>
    if f.detached then pure s
    else if Enums.targetForbiddenStates.contains f.fstate then
      if !s.creatorChainPending f.key then graphErr "forbidden target" else pure s
    else match s.creatorStep f.key with
      | some c => pure (s.modify c fun n => { n with checkAfter := true })
      | none => pure s
  | none => pure s

/-- `RECONCILE_TARGET_DIRS` -/
def KState.reconcileTargetDirs (s : KState) (cfg : KConfig) : KState :=
  let producers := s.deps.filterMap fun d =>
    match s.find? d.snk with
    | some f =>
      if f.key.kind = .file ∧ lookupRegularOutput f.fstate f.detached ∧ cfg.targetDirs.any (fun dir => underDir dir f.key.label)
      then some d.src else none
    | none => none
  s.modifyWhere (fun n => n.key.kind = .step ∧ producers.contains n.key) fun n => { n with checkAfter := true }

/-- `Workflow.reconcile_targets` -/
def KState.reconcileTargets (s : KState) (cfg : KConfig) : M KState := do
  let s0 := s.modifyWhere (fun n => n.key.kind = .step ∧ n.impliedNeed = .target) fun n => { n with checkAfter := true }
  let s1 ← (sortStrs cfg.targets).foldlM (fun st t => st.reconcileTarget t) s0
  pure (s1.reconcileTargetDirs cfg)

end StepupModel.K
