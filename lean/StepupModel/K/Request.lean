import StepupModel.K.Dump
/-! The requests of the kernel model as a datatype: one constructor per operation the
correspondence harness drives on the real `Workflow`/`Scheduler` (DESIGN.md 4.2).  `KState.exec` is
what the driver runs for a `k <op>` line, and what the global invariant theorems quantify over. -/
open StepupModel StepupModel.Proto

namespace StepupModel.K

inductive Req
  | define (creator : Key) (d : StepDecl)
  | amend (step : Key) (inp env out vol : List String) (concurrent : List Key)
  | static (creator : Key) (paths : List String)
  | tree (creator : Key) (path : String)
  | declStatic (creator : Key) (trees files : List String) (patterns : List (String × List String))
  | nglob (step : Key) (pattern : String) (found : List String)
  | hashes (updates : List (String × Option Nat)) (cause : Cause)
  | pop (choice : Option Key)
  | updateMeta
  | resetRerun (step : Key)
  | completed (step : Key) (newHash : Option Nat) (wantsDefer : Bool)
  | setState (step : Key) (st : StepState)
  | deleteHash (step : Key)
  | markPending (step : Key)
  | hold (step : Key)
  | release (step : Key)
  | detach (k : Key)
  | revertOptional
  | deleteDetached
  | clearQueue
  | resetInterrupted
  | rescanEnv
  | reconcile
  | checkConsistency

def unitOut (r : M KState) : M (KState × String) := do pure (← r, "-")

def dispatchOut : Dispatch → String
  | .none => "none"
  | .job k chk run => s!"{k.enc}:{if chk then "check" else "run"}:{if run then "runjob" else "validate"}"

/-- Run one request: the new state and the (canonical) answer the harness compares. -/
def KState.exec (s : KState) (cfg : KConfig) : Req → M (KState × String)
  | .define c d => do
    let (st, chk) ← s.defineStep cfg c d
    pure (st, hexList chk)
  | .amend k inp env out vol conc => do
    let (st, r) ← s.amendStep cfg k inp env out vol conc
    pure (st, s!"{hexList r.unavailable}|{hexList r.unfresh}|{hexList r.toCheck}")
  | .static c ps => do
    let (st, chk) ← s.declareStaticFiles cfg c ps
    pure (st, hexList (sortedStrs chk))
  | .tree c p => do
    let (st, chk) ← s.registerStaticTree cfg c p
    pure (st, hexList (sortedStrs chk))
  | .declStatic c ts fs ps => do
    let (st, chk) ← s.declareStaticRequest cfg c ts fs ps
    pure (st, hexList (sortedStrs (dedupSorted (sortedStrs chk))))
  | .nglob k p ms => unitOut (s.registerNglob k p ms)
  | .hashes u c => unitOut (s.updateFileHashes u c)
  | .pop c => do
    let (st, d) ← s.popNext cfg c
    pure (st, dispatchOut d)
  | .updateMeta => unitOut (s.updateMeta cfg)
  | .resetRerun k => unitOut (s.resetForRerun k)
  | .completed k h defer => do
    let (st, intr) ← s.markCompleted cfg k h defer
    pure (st, b01 intr)
  | .setState k stt => unitOut (s.setStepState k stt)
  | .deleteHash k => unitOut (pure (s.deleteHash k))
  | .markPending k => unitOut (s.markStepPending k)
  | .hold k => unitOut (s.hold k)
  | .release k => unitOut (s.release k)
  | .detach k => unitOut (s.detach k)
  | .revertOptional => unitOut s.revertOptional
  | .deleteDetached => unitOut s.deleteDetached
  | .clearQueue => unitOut (pure { s with toBeDeleted := [] })
  | .resetInterrupted => unitOut s.resetInterrupted
  | .rescanEnv => unitOut (s.rescanEnvVars cfg)
  | .reconcile => unitOut (s.reconcileTargets cfg)
  | .checkConsistency => unitOut s.checkConsistency

/-- One request as a transaction: a rejected request leaves the state unchanged (rollback). -/
def KState.step (s : KState) (cfg : KConfig) (r : Req) : KState :=
  match s.exec cfg r with
  | .ok (s', _) => s'
  | .error _ => s

/-- A history: every request runs under the configuration of its moment (targets, environment). -/
def KState.run (s : KState) (h : List (KConfig × Req)) : KState :=
  h.foldl (fun st cr => st.step cr.1 cr.2) s

end StepupModel.K
