import StepupModel.K.Scheduler
import StepupModel.Proto
/-! Canonical text dump of a kernel state and its FNV-1a digest (same format as
`harness/kdump.py`, which dumps the real database). -/
namespace StepupModel.K
open StepupModel.Proto

def Key.enc (k : Key) : String := k.kind.name ++ ":" ++ hex k.label

def optKey : Option Key → String
  | some k => k.enc
  | none => "~"

def optNat : Option Nat → String
  | some n => toString n
  | none => "~"

def b01 (b : Bool) : String := if b then "1" else "0"

def sortedStrs (l : List String) : List String := l.mergeSort fun a b => decide (a ≤ b)

def Node.dump (n : Node) : String :=
  let head := s!"N {n.key.enc} creator={optKey n.creator} det={b01 n.detached}"
  match n.key.kind with
  | .file => head ++ s!" st={n.fstate.name} h={optNat n.fhash}"
  | .step =>
    let envs := sortedStrs (n.envs.map fun (name, v, d) =>
      hex name ++ "=" ++ (match v with | some v => hex v | none => "~") ++ ":" ++ b01 d)
    let res := sortedStrs (n.resources.map fun (name, u) => hex name ++ "=" ++ toString u)
    let ovr := sortedStrs (n.overrides.map fun (name, v) => hex name ++ "=" ++ hex v)
    let ng := sortedStrs (n.nglobs.map fun (p, ms) => hex p ++ ":" ++ hexList (sortedStrs ms))
    head ++ s!" st={n.sstate.name} need={n.need.name} def={b01 n.deferred} dc={n.deferCount} hold={n.holding}" ++
      s!" sh={b01 n.shell} safe={b01 n.safe} csafe={b01 n.checkSafe} snh={b01 n.safeNH} ineed={n.impliedNeed.name}" ++
      s!" tail={n.tail} cafter={b01 n.checkAfter} hh={b01 n.hasHash} ready={b01 n.ready} cready={b01 n.checkReady}" ++
      s!" hash={optNat n.shash} env=[{",".intercalate envs}] res=[{",".intercalate res}]" ++
      s!" ovr=[{",".intercalate ovr}] ng=[{";".intercalate ng}]"
  | _ => head

def KState.dumpLines (s : KState) : List String :=
  sortedStrs (s.nodes.map Node.dump) ++
  sortedStrs (s.deps.map fun d => s!"D {d.src.enc} {d.snk.enc} dyn={b01 d.dyn}") ++
  sortedStrs (s.toBeDeleted.map fun (p, h) => s!"T {hex p} {optNat h}")

def fnv1a (s : String) : UInt64 :=
  s.toUTF8.foldl (fun h b => (h ^^^ b.toUInt64) * 1099511628211) 14695981039346656037

def KState.digest (s : KState) : String :=
  toString (fnv1a ("\n".intercalate s.dumpLines)).toNat

end StepupModel.K
