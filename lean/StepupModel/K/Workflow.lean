import StepupModel.K.Trellis
import StepupModel.Generated.HashTransitions
import StepupModel.Generated.Enums
/-!
# Layer K: `Workflow` requests (`workflow.py`)

Declarations (`declare_static_files`, `register_static_tree`, `define_step`, `amend_step`,
`register_nglob`), hash updates and their propagation, and the step-side completion methods.
Error *kinds* are modelled exactly (and the order in which checks are made, since it decides
which kind is raised); message texts only where DESIGN needs them.
-/
namespace StepupModel.K
open StepupModel.Generated

def sortStrs (l : List String) : List String := l.mergeSort fun a b => decide (a ≤ b)

def dedupSorted : List String → List String
  | [] => []
  | [a] => [a]
  | a :: b :: rest => if a = b then dedupSorted (b :: rest) else a :: dedupSorted (b :: rest)

/-- `sorted(set(paths))` -/
def normPaths (l : List String) : List String := dedupSorted (sortStrs l)

def graphErr {α : Type} (msg : String := "") : M α := throw (.graph msg)

def fileKey (p : String) : Key := ⟨.file, p⟩
def stepKey (l : String) : Key := ⟨.step, l⟩
def treeKey (l : String) : Key := ⟨.st, l⟩

def stepupDir : String := ".stepup"

/-- `Path(p) / ""` -/
def addSlash (p : String) : String := if p = "" ∨ p.endsWith "/" then p else p ++ "/"

/-- A restricted glob language for the kernel model: literals and `*`, compiled the way
`convert_nglob_to_regex` does for that fragment: `[^/]*` in general, `[^/]+` when the star is a
whole component (separator on both sides, or trailing after a separator), and an optional
trailing `/` after a trailing star. -/
inductive GItem
  | lit (c : Char)
  | star (nonEmpty : Bool)
  | optSlash
  deriving Repr

/-- Split into literal runs and stars (adjacent stars merge into one). -/
def globParts : List Char → List (Option (List Char))
  | [] => []
  | c :: cs =>
    if c = '*' then
      match globParts cs with
      | none :: rest => none :: rest
      | rest => none :: rest
    else
      match globParts cs with
      | some l :: rest => some (c :: l) :: rest
      | rest => some [c] :: rest

def compileGlob (pattern : List Char) : List GItem :=
  let parts := globParts pattern
  let n := parts.length
  let endsSlash (o : Option (Option (List Char))) : Bool :=
    match o with | some (some l) => l.getLast? = some '/' | _ => false
  let startsSlash (o : Option (Option (List Char))) : Bool :=
    match o with | some (some l) => l.head? = some '/' | _ => false
  (List.range n).flatMap fun i =>
    match parts[i]? with
    | some (some l) => l.map GItem.lit
    | some none =>
      let prev := if i = 0 then none else parts[i - 1]?
      let next := parts[i + 1]?
      if i + 1 = n then
        [GItem.star (n ≥ 2 && endsSlash prev), GItem.optSlash]
      else
        [GItem.star (i > 0 && endsSlash prev && startsSlash next)]
    | none => []

def gmatch : List GItem → List Char → Bool
  | [], s => s.isEmpty
  | GItem.lit c :: ps, s =>
    (match s with
     | [] => false
     | x :: t => x = c && gmatch ps t)
  | GItem.optSlash :: ps, s =>
    gmatch ps s || (match s with
      | x :: t => x = '/' && gmatch ps t
      | [] => false)
  | GItem.star ne :: ps, s =>
    (!ne && gmatch ps s) ||
      (match s with
       | [] => false
       | x :: t => x ≠ '/' && (gmatch ps t || gmatch (GItem.star false :: ps) t))
termination_by p s => 2 * p.length + 2 * s.length
decreasing_by all_goals simp_wf; all_goals omega

def globAccepts (pattern path : String) : Bool := gmatch (compileGlob pattern.toList) path.toList

/-- `Workflow._find_owning_static_tree` -/
def KState.owningTree (s : KState) (path : String) : M (Option Key) :=
  let trees := s.nodes.filter fun n => n.key.kind = .st ∧ !n.detached ∧ path.startsWith n.key.label
  match trees with
  | [] => pure none
  | [t] => pure (some t.key)
  | _ => graphErr "Multiple static trees match"

/-- `Workflow._existing_claim`: role and creator of the attached file node with this label. -/
def KState.existingClaim (s : KState) (path : String) : Option (FileRole × Key) :=
  match s.find? (fileKey path) with
  | some n =>
    if n.detached then none else
    match n.creator, n.fstate.role? with
    | some c, some r => if s.has c then some (r, c) else none
    | _, _ => none
  | none => none

/-- `Workflow._check_declaration`; `creator = none` stands for a phrase (a node not yet created). -/
def KState.checkDeclaration (s : KState) (creator : Option Key) (path : String) (role : FileRole) : M Bool :=
  match s.existingClaim path with
  | none => pure true
  | some (r, c) =>
    match creator with
    | some k =>
      if r = role ∧ c = k then pure false
      -- `_creator_phrase` has no phrase for a static tree: the collision message cannot be
      -- composed and a `ConsistencyError` comes out instead of the `GraphError`
      else if k.kind = .st then throw .consistency
      else if c.kind = .st ∧ role = .static then throw .consistency
      else graphErr "claim collision"
    | none => if c.kind = .st ∧ role = .static then throw .consistency else graphErr "claim collision"

def KConfig.forbiddenTarget (cfg : KConfig) (path : String) (st : FileState) : Bool :=
  cfg.targets.contains path && Enums.targetForbiddenStates.contains st

/-- The guards of `Workflow._declare_file`, in the order the code applies them. -/
def KState.declareFileChecks (s : KState) (cfg : KConfig) (creator : Key) (path : String) (st : FileState) : M Unit := do
  if st = .volatile ∧ path.endsWith "/" then graphErr "volatile directory"
  if creator.kind ≠ .st then
    if (← s.owningTree path).isSome then graphErr "static tree owns path"
  if cfg.forbiddenTarget path st then graphErr "forbidden target"
  if path.startsWith (stepupDir ++ "/") then graphErr "under .stepup"
  if !fileLabelOk path then throw .path

def KState.declareFileGuard (s : KState) (cfg : KConfig) (creator : Key) (path : String) (st : FileState) : M Unit :=
  if Enums.declarableStates.contains st then s.declareFileChecks cfg creator path st else throw .consistency

/-- A volatile output may not be an input of an attached step. -/
def KState.volatileSinkCheck (s : KState) (path : String) (st : FileState) : M KState :=
  if st = .volatile ∧ ((s.sinksOf (fileKey path)).any fun k => !(s.isDetached k)) then graphErr "volatile input"
  else pure s

/-- `Workflow._declare_file` -/
def KState.declareFile (s : KState) (cfg : KConfig) (creator : Key) (path : String) (st : FileState) : M KState := do
  s.declareFileGuard cfg creator path st
  let s1 ← s.create (fileKey path) (some creator) (.file st)
  s1.volatileSinkCheck path st

/-- Who declares `path` static for `creator`: the owning tree when there is one (which must then
belong to `creator`), else `creator`; `none` when the declaration already exists (no-op). -/
def KState.staticDeclarer (s : KState) (creator : Key) (path : String) : M (Option Key) := do
  let declarer ← if creator.kind ≠ .st then
      (do match ← s.owningTree path with
          | some t =>
            if (s.find? t).bind (·.creator) ≠ some creator then graphErr "static tree file" else pure t
          | none => pure creator)
    else pure creator
  if ← s.checkDeclaration (some declarer) path .static then pure (some declarer) else pure none

/-- The declarations `declare_static_files` still has to make, decided on the state before any
of them is made. -/
def KState.staticTodo (s : KState) (creator : Key) (paths : List String) : M (List (Key × String)) := do
  let ds ← (normPaths paths).mapM fun p => do pure (p, ← s.staticDeclarer creator p)
  pure (ds.filterMap fun (p, d) => d.map fun k => (k, p))

def KState.declareAll (s : KState) (cfg : KConfig) (todo : List (Key × String)) (st : FileState) : M KState :=
  todo.foldlM (fun acc dp => acc.declareFile cfg dp.1 dp.2 st) s

/-- `Workflow.declare_static_files`; returns the paths whose hashes must be checked. -/
def KState.declareStaticFiles (s : KState) (cfg : KConfig) (creator : Key) (paths : List String) :
    M (KState × List String) := do
  let todo ← s.staticTodo creator paths
  let st ← s.declareAll cfg todo .unconfirmed
  pure (st, todo.map (·.2))

def hasWildcards (p : String) : Bool := p.any fun c => c = '*' ∨ c = '?' ∨ c = '['

/-- The guards of `register_static_tree` up to the creation of the tree node: `none` = no-op
(the creator's own tree already covers the path), `some handover` = the attached files under the
path that the tree takes over. -/
def KState.treeGuard (s : KState) (creator : Key) (path : String) : M (Option (List Key)) := do
  match ← s.owningTree path with
  | some t =>
    if (s.find? t).bind (·.creator) = some creator then return none
    if t.label = path then graphErr "duplicate tree"
    graphErr "subdirectory of tree"
  | none => pure ()
  if s.nodes.any fun n => n.key.kind = .st ∧ !n.detached ∧ n.key.label.startsWith path then
    graphErr "parent of tree"
  let under := (s.nodes.filter fun n => n.key.kind = .file ∧ !n.detached ∧ n.key.label.startsWith path)
  let under := under.mergeSort fun a b => decide (a.key.label ≤ b.key.label)
  let hs ← under.mapM fun n =>
    if n.fstate.role? ≠ some .static then graphErr "tree contains product"
    else if n.creator ≠ some creator then graphErr "tree contains file of other creator"
    else pure n.key
  pure (some hs)

/-- plain `UPDATE node SET creator = ?` for the files handed over to the tree -/
def KState.handOver (s : KState) (tk : Key) (hs : List Key) : KState :=
  hs.foldl (fun st k => st.modify k fun n => { n with creator := some tk }) s

def KState.detachedFilesUnder (s : KState) (path : String) : List String :=
  (s.nodes.filter fun n => n.key.kind = .file ∧ n.detached ∧ n.key.label.startsWith path).map (·.key.label)

/-- The path checks of `register_static_tree` (on the path as given). -/
def treePathGuard (path : String) : M Unit := do
  if hasWildcards path ∨ (path.splitOn "${*").length > 1 then throw .consistency
  if path = stepupDir ∨ path.startsWith (stepupDir ++ "/") then graphErr "tree under .stepup"
  let path := addSlash path
  if path = "./" ∨ path = "" then graphErr "root tree"
  if path = "/" then graphErr "fs root tree"

/-- `register_static_tree` after its guards: create the tree, hand over, declare detached files. -/
def KState.registerTreeBody (s : KState) (cfg : KConfig) (creator : Key) (path : String) :
    Option (List Key) → M (KState × List String)
  | none => pure (s, [])
  | some hs => do
    let s1 ← s.create (treeKey path) (some creator) .tree
    let s2 := s1.handOver (treeKey path) hs
    s2.declareStaticFiles cfg (treeKey path) (s2.detachedFilesUnder path)

/-- `Workflow.register_static_tree` -/
def KState.registerStaticTree (s : KState) (cfg : KConfig) (creator : Key) (path : String) :
    M (KState × List String) := do
  treePathGuard path
  let g ← s.treeGuard creator (addSlash path)
  s.registerTreeBody cfg creator (addSlash path) g

/-! ## Supplying inputs -/

inductive Avail | available | unconfirmed | unavailable
  deriving DecidableEq, Repr

structure Supply where
  file : Key
  state : FileState
  detached : Bool
  newRel : Bool

def Supply.avail (i : Supply) : Avail :=
  if i.detached then .unavailable
  else if i.state = .unconfirmed then .unconfirmed
  else if i.state = .built ∨ i.state = .confirmed then .available
  else .unavailable

/-- The owning tree `_resolve_supply_file` looks up: only for a missing or detached node. -/
def KState.resolveTree (s : KState) (path : String) : Option Node → M (Option Key)
  | some n => if n.detached then s.owningTree path else pure none
  | none => s.owningTree path

def adoptGuard (cfg : KConfig) (path : String) : M Unit := do
  if cfg.forbiddenTarget path .unconfirmed then graphErr "forbidden target"
  if !fileLabelOk path then throw .path

/-- An owning static tree adopts the file as UNCONFIRMED. -/
def KState.adoptByTree (s : KState) (cfg : KConfig) (path : String) (t : Key) : M (KState × FileState × Bool) := do
  adoptGuard cfg path
  let s1 ← s.create (fileKey path) (some t) (.file .unconfirmed)
  pure (s1, FileState.unconfirmed, false)

/-- A missing (or orphaned) file becomes an UNDECLARED detached placeholder. -/
def KState.placeholder (s : KState) (path : String) : M (KState × FileState × Bool) := do
  let s1 ← s.create (fileKey path) none (.file .undeclared)
  pure (s1, FileState.undeclared, true)

def useGuard (cfg : KConfig) (path : String) (n : Node) : M Unit := do
  if n.fstate = .volatile then graphErr "input is volatile"
  if cfg.forbiddenTarget path n.fstate then graphErr "forbidden target"

def KState.resolveWith (s : KState) (cfg : KConfig) (path : String) :
    Option Key → Option Node → M (KState × FileState × Bool)
  | some t, _ => s.adoptByTree cfg path t
  | none, none => do
    if !fileLabelOk path then throw .path
    s.placeholder path
  | none, some n =>
    if n.creator.isNone then s.placeholder path
    else do
      useGuard cfg path n
      pure (s, n.fstate, n.detached)

/-- The node part of `Workflow._resolve_supply_file`: find or create the file node; returns the
state the code goes on with and whether it treats the node as detached. -/
def KState.resolveNode (s : KState) (cfg : KConfig) (path : String) : M (KState × FileState × Bool) := do
  let tree ← s.resolveTree path (s.find? (fileKey path))
  s.resolveWith cfg path tree (s.find? (fileKey path))

/-- `Workflow._resolve_supply_file` -/
def KState.resolveSupply (s : KState) (cfg : KConfig) (step : Key) (path : String) (requireNew : Bool) :
    M (KState × Supply) := do
  let (s1, state, detached) ← s.resolveNode cfg path
  let newRel := !s1.hasDep (fileKey path) step
  if !newRel ∧ requireNew then graphErr "supplying file already exists"
  pure (s1, { file := fileKey path, state := state, detached := detached, newRel := newRel })

/-- Recursive sinks of `k`, `k` included (`RECURSE_SINKS`, a `UNION` recursion). -/
def KState.sinkClosure (s : KState) (k : Key) : List Key :=
  let step (acc : List Key) : List Key :=
    s.deps.foldl (fun acc d => if acc.contains d.src ∧ !acc.contains d.snk then acc ++ [d.snk] else acc) acc
  (List.range (s.deps.length + 1)).foldl (fun acc _ => step acc) [k]

/-- Resolve all supplied paths in order, threading the state. -/
def KState.resolveAll (s : KState) (cfg : KConfig) (step : Key) (paths : List String) (requireNew : Bool) :
    M (KState × List Supply) :=
  paths.foldlM (fun (acc : KState × List Supply) p => do
    let (s', i) ← acc.1.resolveSupply cfg step p requireNew
    pure (s', acc.2 ++ [i])) (s, [])

def KState.insertNewEdges (s : KState) (step : Key) (infos : List Supply) : M KState :=
  (infos.filter (·.newRel)).foldlM (fun st i => st.insertDep i.file step) s

/-- `Workflow._supply_files` -/
def KState.supplyFiles (s : KState) (cfg : KConfig) (step : Key) (paths : List String) (requireNew : Bool) :
    M (KState × List Supply) := do
  let (s1, infos) ← s.resolveAll cfg step paths requireNew
  let newFiles := (infos.filter (·.newRel)).map (·.file)
  if !newFiles.isEmpty ∧ newFiles.any (s1.sinkClosure step).contains then throw .cyclic
  let s2 ← s1.insertNewEdges step infos
  pure (s2, infos)

/-- `Node.add_source(source)` with the cycle check: `file.add_source(step)`. -/
def KState.addSourceChecked (s : KState) (snk src : Key) : M KState := do
  if (s.sinkClosure snk).contains src then throw .cyclic
  s.insertDep src snk

/-! ## `define_step` -/

structure StepDecl where
  cmd : String
  workdir : String := "."
  inp : List String := []
  env : List String := []
  out : List String := []
  vol : List String := []
  need : Need := .default
  shell : Bool := false
  safe : Bool := false
  resources : List (String × Nat) := []
  overrides : List (String × String) := []

/-- Attached nglob registrations in row order (node order, then registration order). -/
def KState.attachedGlobs (s : KState) : List (Key × String) :=
  s.nodes.flatMap fun n => if n.key.kind = .step ∧ !n.detached then n.nglobs.map fun g => (n.key, g.1) else []

/-- `Workflow._raise_if_glob_match` -/
def KState.raiseIfGlobMatch (s : KState) (products : List String) : M Unit := do
  for (_, pat) in s.attachedGlobs do
    for p in sortStrs products do
      if globAccepts pat p then graphErr "glob matches product"

/-- The initial (non-dynamic) paths of a detached step by role, as `Step.can_recycle` reads them. -/
def KState.initialPaths (s : KState) (step : Key) : List String × List String × List String :=
  let stepDetached := s.isDetached step
  let keep (k : Key) : Bool := k.kind = .file ∧ (stepDetached ∨ !(s.isDetached k))
  let inp := (s.deps.filter fun d => d.snk = step ∧ !d.dyn ∧ keep d.src).map (·.src.label)
  let sinks := (s.deps.filter fun d => d.src = step ∧ !d.dyn ∧ keep d.snk).map (·.snk)
  let role (k : Key) := (s.find? k).bind (·.fstate.role?)
  let out := (sinks.filter fun k => role k = some .output).map (·.label)
  let vol := (sinks.filter fun k => role k = some .volatile).map (·.label)
  (sortStrs inp, sortStrs out, sortStrs vol)

def envValue (cfg : KConfig) (name : String) : Option String := (cfg.env.find? (·.1 = name)).map (·.2)

/-- `Step.can_recycle` -/
def KState.canRecycle (s : KState) (step : Key) (d : StepDecl) : Bool :=
  match s.find? step with
  | none => false
  | some n =>
    let (inp, out, vol) := s.initialPaths step
    let envs := sortStrs ((n.envs.filter fun e => !e.2.2).map (·.1))
    inp = sortStrs d.inp ∧ envs = sortStrs d.env ∧ out = sortStrs d.out ∧ vol = sortStrs d.vol

/-- `UNCONFIRMED_INPUTS`: unconfirmed inputs of the step created by a static tree. -/
def KState.unconfirmedTreeInputs (s : KState) (step : Key) : List String :=
  sortStrs <| (s.sourcesOf step).filterMap fun k =>
    match s.find? k with
    | some n =>
      let byTree : Bool := match n.creator with
        | some c => c.kind = .st && s.has c
        | none => false
      if n.key.kind = .file ∧ n.fstate = .unconfirmed ∧ byTree then some k.label else none
    | none => none

/-- `Step.add_env_deps`: `INSERT OR REPLACE` (a replaced row moves to the end of the table order;
the dump sorts them). -/
def addEnvDeps (cfg : KConfig) (n : Node) (names : List String) : Node :=
  names.foldl (fun n name =>
    { n with envs := (n.envs.filter (·.1 ≠ name)) ++ [(name, envValue cfg name, false)] }) n

/-- Declare one product of a step and connect it: `_declare_file` + `file.add_source(step)`. -/
def KState.declareProduct (s : KState) (cfg : KConfig) (step : Key) (path : String) (st : FileState) : M KState := do
  let s1 ← s.declareFile cfg step path st
  s1.addSourceChecked (fileKey path) step

def KState.declareProducts (s : KState) (cfg : KConfig) (step : Key) (paths : List String) (st : FileState) : M KState :=
  paths.foldlM (fun acc p => acc.declareProduct cfg step p st) s

/-- The checks of `define_step` that come before `try_recycle`; returns the step key. -/
def KState.defineGuard (s : KState) (cfg : KConfig) (creator : Key) (d : StepDecl) : M Key := do
  if creator = rootKey ∧ (s.products rootKey).any (·.key.kind = .step) then graphErr "boot step already defined"
  if d.vol.any fun v => cfg.forbiddenTarget v .volatile then graphErr "forbidden target"
  if d.inp.any (·.endsWith "/") then graphErr "directory input"
  if d.env.any fun e => d.overrides.any (·.1 = e) then graphErr "env and override overlap"
  if d.overrides.any fun o => Enums.reservedEnvVars.contains o.1 then graphErr "reserved override"
  let label ← match stepLabel d.cmd d.workdir with
    | some l => pure l
    | none => throw .value
  s.raiseIfGlobMatch (d.out ++ d.vol)
  pure (stepKey label)

/-- `Step.after_recycle`: new mandatory/shell flags, holding reset; a FAILED step, or one whose shell
flag or environment overrides (ingredients of the step hash) differ from the previous definition,
goes back to PENDING. -/
def KState.afterRecycle (s : KState) (sk : Key) (d : StepDecl) (n : Node) : M KState :=
  if n.sstate = .failed ∨ n.shell ≠ d.shell ∨ n.overrides ≠ d.overrides then
    (s.modify sk fun n => { n with need := d.need, shell := d.shell }).markStepPending sk
  else pure (s.modify sk fun n => { n with need := d.need, shell := d.shell })

def KState.setStepExtras (s : KState) (sk : Key) (d : StepDecl) : KState :=
  s.modify sk fun n => { n with resources := d.resources, overrides := d.overrides }

/-- `Trellis.try_recycle` for a step + `Step.after_recycle`. -/
def KState.recycleStep (s : KState) (sk creator : Key) (d : StepDecl) (n : Node) : M KState := do
  let s1 ← s.reattach sk creator
  let s3 ← s1.afterRecycle sk d n
  pure (s3.setStepExtras sk d)

/-- The checks of `define_step` between the recycle short-circuit and the creation of the step. -/
def KState.newStepGuard (s : KState) (sk : Key) (d : StepDecl) : M Unit := do
  match s.find? sk with
  | some n =>
    let hasCreator : Bool := match n.creator with
      | some c => s.has c
      | none => false
    if !n.detached ∧ hasCreator then graphErr "duplicate step"
  | none => pure ()
  for o in d.out do
    let _ ← s.checkDeclaration none o .output
  for v in d.vol do
    let _ ← s.checkDeclaration none v .volatile
  if d.out.any d.vol.contains then graphErr "output and volatile overlap"

/-- The creation branch of `define_step`. -/
def KState.createStep (s : KState) (cfg : KConfig) (sk creator : Key) (d : StepDecl) : M (KState × List String) := do
  let s1 ← s.create sk (some creator) (.step { need := d.need, shell := d.shell, safe := d.safe })
  let (s3, infos) ← (s1.setStepExtras sk d).supplyFiles cfg sk d.inp true
  let unconfirmed := (infos.filter fun i => i.avail = .unconfirmed).map (·.file.label)
  let s4 := s3.modify sk fun n => addEnvDeps cfg n d.env
  let s5 ← s4.declareProducts cfg sk d.out .planned
  let s6 ← s5.declareProducts cfg sk d.vol .volatile
  pure (s6, sortStrs unconfirmed)

/-- `Workflow.define_step`; returns the paths to check. -/
def KState.defineStep (s : KState) (cfg : KConfig) (creator : Key) (d : StepDecl) : M (KState × List String) := do
  let d := { d with inp := normPaths d.inp, env := normPaths d.env, out := normPaths d.out, vol := normPaths d.vol }
  let sk ← s.defineGuard cfg creator d
  match s.find? sk with
  | some n =>
    if n.detached ∧ s.canRecycle sk d then do
      let s1 ← s.recycleStep sk creator d n
      pure (s1, s1.unconfirmedTreeInputs sk)
    else do
      s.newStepGuard sk d
      s.createStep cfg sk creator d
  | none => do
    s.newStepGuard sk d
    s.createStep cfg sk creator d

/-! ## `amend_step` -/

structure AmendResult where
  unavailable : List String
  unfresh : List String
  toCheck : List String

/-- Classification of the supplied inputs of `amend_step`. -/
def KState.amendClassify (s : KState) (infos : List Supply) (concurrent : List Key) : AmendResult :=
  let unavailable := (infos.filter fun i => i.avail = .unavailable).map (·.file.label)
  let unconfirmed := (infos.filter fun i => i.avail = .unconfirmed).map (·.file.label)
  let unfresh := (infos.filter fun i => decide (i.avail = .available) && decide (i.state = .built) &&
    (match (s.find? i.file).bind (·.creator) with
     | some p => p.kind = .step && s.has p && concurrent.contains p
     | none => false)).map (·.file.label)
  { unavailable := sortStrs unavailable, unfresh := sortStrs unfresh, toCheck := sortStrs unconfirmed }

/-- `Step.amend_env_deps`: INSERT OR IGNORE, dynamic = 1, names in env_overrides skipped. -/
def KState.amendEnv (s : KState) (cfg : KConfig) (step : Key) (env : List String) : KState :=
  s.modify step fun n =>
    env.foldl (fun n name =>
      if n.overrides.any (·.1 = name) ∨ n.envs.any (·.1 = name) then n
      else { n with envs := n.envs ++ [(name, envValue cfg name, true)] }) n

/-- The amended products that are not yet declared by this step in that role (collisions raise). -/
def KState.newProducts (s : KState) (step : Key) (paths : List String) (role : FileRole) : M (List String) :=
  paths.filterMapM fun p => do
    if ← s.checkDeclaration (some step) p role then pure (some p) else pure none

def KState.markDynamic (s : KState) (edges : List (Key × Key)) : KState :=
  edges.foldl (fun st e => st.setDynamic e.1 e.2 true) s

def dirInputGuard (inp : List String) : M Unit :=
  if inp.any (·.endsWith "/") then graphErr "directory input" else pure ()

def overlapGuard (out vol : List String) : M Unit :=
  if out.any vol.contains then graphErr "output and volatile overlap" else pure ()

/-- `amend_step` after the inputs are supplied: env vars, new outputs and volatiles, dynamic marks. -/
def KState.amendProducts (s1 : KState) (cfg : KConfig) (step : Key) (infos : List Supply) (env out vol : List String)
    (concurrent : List Key) : M (KState × AmendResult) := do
  let out' ← (s1.amendEnv cfg step env).newProducts step (normPaths out) .output
  let vol' ← (s1.amendEnv cfg step env).newProducts step (normPaths vol) .volatile
  overlapGuard out' vol'
  (s1.amendEnv cfg step env).raiseIfGlobMatch (out' ++ vol')
  let s3 ← (s1.amendEnv cfg step env).declareProducts cfg step out' .planned
  let s4 ← s3.declareProducts cfg step vol' .volatile
  let dynEdges := ((infos.filter (·.newRel)).map fun i => (i.file, step)) ++
    (out'.map fun o => (step, fileKey o)) ++ (vol'.map fun v => (step, fileKey v))
  pure (s4.markDynamic dynEdges, s1.amendClassify infos concurrent)

/-- `Workflow.amend_step`; `concurrent` lists the producers for which `ran_concurrently` holds. -/
def KState.amendStep (s : KState) (cfg : KConfig) (step : Key) (inp env out vol : List String)
    (concurrent : List Key) : M (KState × AmendResult) := do
  dirInputGuard (normPaths inp)
  let (s1, infos) ← s.supplyFiles cfg step (normPaths inp) false
  s1.amendProducts cfg step infos env out vol concurrent

/-- The guards of `register_nglob` on the normalised matches. -/
def KState.nglobGuard (s : KState) (found : List String) : M Unit := do
  for p in found do
    match s.find? (fileKey p) with
    | some n =>
      if !n.detached ∧ (n.fstate.role? = some .output ∨ n.fstate.role? = some .volatile) then
        graphErr "glob matches product"
    | none => pure ()
  if found.any (·.startsWith (stepupDir ++ "/")) then graphErr "glob under .stepup"

/-- `Workflow.register_nglob` -/
def KState.registerNglob (s : KState) (step : Key) (pattern : String) (found : List String) : M KState := do
  s.nglobGuard (normPaths found)
  pure <| s.modify step fun n => { n with nglobs := n.nglobs ++ [(pattern, normPaths found)] }

def KState.registerTrees (s : KState) (cfg : KConfig) (creator : Key) (trees : List String) :
    M (KState × List String) :=
  trees.foldlM (fun (acc : KState × List String) t => do
    let (s', chk) ← acc.1.registerStaticTree cfg creator t
    pure (s', acc.2 ++ chk)) (s, [])

def KState.registerNglobs (s : KState) (creator : Key) (patterns : List (String × List String)) : M KState :=
  patterns.foldlM (fun st pm => st.registerNglob creator pm.1 pm.2) s

/-- The body of `DirectorHandler.declare_static`: trees, then files, then patterns, all in one
transaction (an error anywhere rejects the whole request). -/
def KState.declareStaticRequest (s : KState) (cfg : KConfig) (creator : Key) (trees files : List String)
    (patterns : List (String × List String)) : M (KState × List String) := do
  let (s1, chk1) ← s.registerTrees cfg creator trees
  let (s2, chk2) ← s1.declareStaticFiles cfg creator files
  let s3 ← s2.registerNglobs creator patterns
  pure (s3, chk1 ++ chk2)

/-! ## Hash updates -/

def lookupTransition (c : Cause) (st : FileState) (known : Bool) : Option (FileState × Option Action) :=
  (hashTransitions.find? fun e => e.1 = (c, st, known)).map (·.2)

def KState.creatorStep (s : KState) (f : Key) : Option Key :=
  match (s.find? f).bind (·.creator) with
  | some c => if c.kind = .step ∧ s.has c then some c else none
  | none => none

/-- Mark the creating step of a file pending, when its creator is a step. -/
def KState.pendCreator (s : KState) (f : Key) : M KState :=
  match s.creatorStep f with
  | some c => s.markStepPending c
  | none => pure s

def KState.fileState? (s : KState) (f : Key) : Option FileState := (s.find? f).map (·.fstate)

/-- `Workflow.handle_updated_file` -/
def KState.handleUpdated (s : KState) (f : Key) : M KState :=
  if s.fileState? f = some .confirmed then s.markConsumersPending f
  else if s.fileState? f = some .planned ∨ s.fileState? f = some .outdated then s.pendCreator f
  else pure s

/-- `Workflow.handle_deleted_file` -/
def KState.handleDeleted (s : KState) (f : Key) : M KState := do
  let s ← if s.fileState? f = some .planned then s.pendCreator f else pure s
  s.markConsumersPending f

structure HashRec where
  key : Key
  newState : FileState
  newHash : Option Nat
  action : Option Action

/-- The transition of one requested path (`ConsistencyError` when the path has no node or the
combination is not in the table). -/
def KState.hashRec (s : KState) (cause : Cause) (u : String × Option Nat) : M HashRec :=
  match s.find? (fileKey u.1) with
  | none => throw .consistency
  | some n =>
    match lookupTransition cause n.fstate u.2.isSome with
    | none => throw .consistency
    | some (new, act) => pure { key := fileKey u.1, newState := new, newHash := u.2, action := act }

/-- `Workflow.update_file_hashes`; `none` stands for the unknown hash.  All rows are written
first (`executemany`), then the follow-up actions run in the order updated, deleted, completed. -/
def KState.updateFileHashes (s : KState) (updates : List (String × Option Nat)) (cause : Cause) : M KState := do
  if updates.isEmpty then return s
  let updates := updates.mergeSort fun a b => decide (a.1 ≤ b.1)
  let recs ← updates.mapM (s.hashRec cause)
  let st ← recs.foldlM (fun st r => st.writeFile r.key r.newState (some r.newHash)) s
  let st ← (recs.filter fun r => r.action = some .updated).foldlM (fun st r => st.handleUpdated r.key) st
  let st ← (recs.filter fun r => r.action = some .deleted).foldlM (fun st r => st.handleDeleted r.key) st
  (recs.filter fun r => r.action = some .completed).foldlM (fun st r => st.markConsumersPending r.key) st

/-! ## Step completion (`step.py`) -/

/-- `Step._detach_created_steps` -/
def KState.detachCreatedSteps (s : KState) (step : Key) : M KState :=
  ((s.products step).filter (·.key.kind = .step)).foldlM (fun s p => s.detach p.key) s

/-- Detach every product of `step` selected by `p` (the product list is read first, as the
code's queries are). -/
def KState.detachProductsWhere (s : KState) (step : Key) (p : Node → Bool) : M KState :=
  ((s.products step).filter p).foldlM (fun s n => s.detach n.key) s

/-- The steps producing a dynamic input of `step` are flagged `_check_after`: they are about to
lose a sink that the propagation of `_update_meta_after` could not reach any more. -/
def KState.flagDynamicSuppliers (s : KState) (step : Key) : KState :=
  s.modifyWhere (fun n => n.key.kind = .step ∧
      s.deps.any fun d => d.src = n.key ∧ s.deps.any fun e => e.snk = step ∧ e.dyn ∧ e.src = d.snk)
    fun n => { n with checkAfter := true }

/-- Drop the dynamic input edges, the dynamic environment variables and the glob registrations. -/
def KState.dropDynamicInputs (s : KState) (step : Key) : KState :=
  ((s.flagDynamicSuppliers step).deleteDeps fun d => d.snk = step ∧ d.dyn).modify step fun n =>
    { n with envs := n.envs.filter fun e => !e.2.2, nglobs := [] }

def KState.dynamicSinks (s : KState) (step : Key) : List Key :=
  (s.deps.filter fun d => d.src = step ∧ d.dyn).map (·.snk)

/-- One amended output: delete the edge and detach the file. -/
def KState.dropDynamicSink (s : KState) (step k : Key) : M KState :=
  (s.deleteDeps fun d => d.src = step ∧ d.snk = k).detach k

def isStaticFileNode (n : Node) : Bool := n.key.kind = .file ∧ n.fstate.role? = some .static
def isTreeNode (n : Node) : Bool := n.key.kind = .st

/-- BUILT products of the step become OUTDATED (with propagation). -/
def KState.outdateBuilt (s : KState) (step : Key) : M KState :=
  ((s.products step).filter fun n => n.key.kind = .file ∧ n.fstate = .built).foldlM
    (fun st n => st.markFileOutdated n.key) s

/-- `Step.reset_for_rerun` -/
def KState.resetForRerun (s : KState) (step : Key) : M KState := do
  let s1 := s.dropDynamicInputs step
  let s2 ← (s1.dynamicSinks step).foldlM (fun st k => st.dropDynamicSink step k) s1
  let s3 ← s2.detachCreatedSteps step
  let s4 ← s3.detachProductsWhere step isStaticFileNode
  let s5 ← s4.detachProductsWhere step isTreeNode
  s5.outdateBuilt step

/-- `Step.has_unavailable_dynamic_input` -/
def KState.hasUnavailableDynamicInput (s : KState) (step : Key) : Bool :=
  s.deps.any fun d => d.snk = step && d.dyn &&
    (match s.find? d.src with
     | some n => n.key.kind = .file && n.fstate ≠ .confirmed && n.fstate ≠ .built
     | none => false)

/-- The decision of `Step.mark_completed` for an unsuccessful run that asks for a deferral, from
the defer count *before* the increment: PENDING while the incremented count stays within the
cap, FAILED afterwards. -/
def deferOutcome (cap deferCount : Nat) : StepState :=
  if deferCount + 1 ≤ cap then .pending else .failed

def KState.fileProducts (s : KState) (step : Key) : List Node :=
  ((s.products step).filter (·.key.kind = .file)).mergeSort fun a b => decide (a.key.label ≤ b.key.label)

/-- Failure branch of `mark_completed`: BUILT products become OUTDATED (plain `set_state`). -/
def KState.outdateBuiltProducts (s : KState) (step : Key) : M KState :=
  ((s.fileProducts step).filter (·.fstate = .built)).foldlM (fun st f => st.setFileState f.key .outdated) s

/-- Success branch of `mark_completed`: OUTDATED products become BUILT and their consumers pending. -/
def KState.rebuildOutdatedProducts (s : KState) (step : Key) : M KState :=
  (s.fileProducts step).foldlM (fun st f =>
    if (st.find? f.key).map (·.fstate) = some .outdated then do
      let st ← st.setFileState f.key .built
      st.markConsumersPending f.key
    else pure st) s

/-- Whether an unsuccessful completion that asks for a deferral is granted it. -/
def KState.deferGranted (s : KState) (cfg : KConfig) (step : Key) (wantsDefer : Bool) : Bool :=
  wantsDefer && deferOutcome cfg.deferCap (((s.find? step).map (·.deferCount)).getD 0) = .pending

def KState.bumpDeferCount (s : KState) (step : Key) (wantsDefer : Bool) : KState :=
  if wantsDefer then s.modify step fun n => { n with deferCount := n.deferCount + 1 } else s

/-- The state written for an unsuccessful completion: PENDING (deferred) or FAILED. -/
def KState.writeFailureState (s : KState) (step : Key) (granted : Bool) : M KState :=
  if granted then s.setStepState step .pending (s.hasUnavailableDynamicInput step)
  else s.setStepState step .failed

def KState.detachCreatedIfFailed (s : KState) (step : Key) : M KState :=
  if (s.find? step).map (·.sstate) = some .failed then s.detachCreatedSteps step else pure s

/-- `mark_completed(None, wants_defer)` -/
def KState.completeFailure (s : KState) (cfg : KConfig) (step : Key) (wantsDefer : Bool) : M KState := do
  let s1 ← s.outdateBuiltProducts step
  let s2 ← (s1.bumpDeferCount step wantsDefer).writeFailureState step (s1.deferGranted cfg step wantsDefer)
  let s3 ← s2.detachCreatedIfFailed step
  pure (s3.deleteHash step)

/-- The stored values of the tracked environment variables become those of the director's
environment (the step hash just stored was computed with them). -/
def KState.refreshEnvValues (s : KState) (cfg : KConfig) (step : Key) : KState :=
  s.modify step fun n => { n with envs := n.envs.map fun e => (e.1, envValue cfg e.1, e.2.2) }

/-- `mark_completed(new_hash, False)` -/
def KState.completeSuccess (s : KState) (cfg : KConfig) (step : Key) (h : Nat) : M KState := do
  let s1 ← s.setStepState step .succeeded
  let s2 ← s1.rebuildOutdatedProducts step
  pure ((s2.setHash step h).refreshEnvValues cfg step)

/-- `Step.mark_completed(new_hash, wants_defer)`; returns `interrupted_defer`. -/
def KState.markCompleted (s : KState) (cfg : KConfig) (step : Key) (newHash : Option Nat) (wantsDefer : Bool) :
    M (KState × Bool) :=
  match newHash with
  | none => do
    let st ← s.completeFailure cfg step wantsDefer
    pure (st, wantsDefer && !s.deferGranted cfg step wantsDefer)
  | some h => do
    let st ← s.completeSuccess cfg step h
    pure (st, false)

/-- `Step.hold` / `Step.release` -/
def KState.hold (s : KState) (step : Key) : M KState := do
  let s := s.modify step fun n => { n with holding := n.holding + 1 }
  if (s.find? step).map (·.holding) = some 1 then s.flagChecksWithProducts step else pure s

def KState.release (s : KState) (step : Key) : M KState := do
  match s.find? step with
  | some n =>
    if n.holding = 0 then graphErr "release without hold"
    let s := s.modify step fun n => { n with holding := n.holding - 1 }
    if n.holding = 1 then s.flagChecksWithProducts step else pure s
  | none => graphErr "release without hold"

/-! ## Cleanup and startup -/

/-- `Workflow.delete_detached`: unused static-tree files first, then `Trellis.delete_detached`. -/
def KState.deleteDetached (s : KState) : M KState := do
  let mut st := s
  for t in s.nodes.filter fun n => n.key.kind = .st ∧ !n.detached do
    let files := (st.products t.key).mergeSort fun a b => decide (b.key.label ≤ a.key.label)
    for f in files do
      if !((st.sinksOf f.key).any fun k => !(st.isDetached k)) then st ← st.detach f.key
  st.deleteDetachedBase

/-- One output of a reverted optional step: queue it (with its directory) and reset it. -/
def KState.revertOutput (s : KState) (f : Key) : M KState :=
  match s.find? f with
  | some fn =>
    if fn.key.kind = .file ∧ (fn.fstate = .volatile ∨ fn.fstate = .built ∨ fn.fstate = .outdated) then
      let s := s.queueDelete f.label (if fn.fstate = .volatile then none else fn.fhash)
      let s := s.markDirToBeDeleted (parentDir f.label)
      if fn.fstate ≠ .volatile then s.writeFile f .planned (some none) else pure s
    else pure s
  | none => pure s

def KState.pendIfNot (s : KState) (n : Node) : M KState :=
  if n.sstate ≠ .pending then s.writeStepState n.key .pending none else pure s

/-- One unneeded step: back to PENDING (raw update of the state), its outputs queued and reset. -/
def KState.revertStep (s : KState) (n : Node) : M KState := do
  let st ← s.pendIfNot n
  (st.sinksOf n.key).foldlM (fun st f => st.revertOutput f) st

/-- `finalize.revert_optional_steps` -/
def KState.revertOptional (s : KState) : M KState :=
  (s.nodes.filter fun n => n.key.kind = .step ∧ !n.detached ∧ n.impliedNeed = .optional).foldlM
    (fun st n => st.revertStep n) s

/-- `startup.reset_interrupted_steps` (both transactions). -/
def KState.resetInterrupted (s : KState) : M KState := do
  let st ← (s.nodes.filter fun n => n.key.kind = .step ∧ n.sstate = .running).foldlM
    (fun st n => st.writeStepState n.key .failed none) s
  let st ← (s.nodes.filter fun n => n.key.kind = .step ∧ n.sstate = .checking).foldlM
    (fun st n => st.writeStepState n.key .pending none) st
  -- detached FAILED steps too: they come back with their state when their creator is recycled
  (st.nodes.filter fun n => n.key.kind = .step ∧ n.sstate = .failed).foldlM
    (fun st n => st.markStepPending n.key) st

/-- An attached output of `step` that is neither BUILT nor VOLATILE. -/
def KState.hasUnbuiltOutput (s : KState) (step : Key) : Bool :=
  s.deps.any fun d => d.src = step &&
    (match s.find? d.snk with
     | some f => f.key.kind = .file && !f.detached && f.fstate ≠ .built && f.fstate ≠ .volatile
     | none => false)

/-- The repairing part of `Workflow._check_consistency` (run by `initialize()` on an existing
database, not in strict mode): a SUCCEEDED step with such an output has to run again. -/
def KState.checkConsistency (s : KState) : M KState :=
  (s.nodes.filter fun n => n.key.kind = .step ∧ n.sstate = .succeeded ∧ s.hasUnbuiltOutput n.key).foldlM
    (fun st n => st.markStepPending n.key) s

/-- `startup.rescan_env_vars` against the director's current environment. -/
def KState.rescanEnvVars (s : KState) (cfg : KConfig) : M KState := do
  let changed := s.nodes.filter fun n =>
    n.key.kind = .step ∧ n.envs.any fun e => envValue cfg e.1 ≠ e.2.1  -- detached steps too
  changed.foldlM (fun s n => s.markStepPending n.key) s

end StepupModel.K
