import StepupModel.K.Trellis
import StepupModel.Generated.HashTransitions
import StepupModel.Generated.Enums
/-!
# Layer K: `Workflow` requests (`workflow.py`)

Declarations (`declare_static_files`, `register_static_tree`, `define_step`, `amend_step`,
`register_nglob`), hash updates and their propagation, and the step-side completion methods.
Error *kinds* are modelled exactly (and the order in which checks are made, since it decides
which kind is raised); message texts only where DESIGN needs them.
-/
namespace StepupModel.K
open StepupModel.Generated

def sortStrs (l : List String) : List String := l.mergeSort fun a b => decide (a ≤ b)

def dedupSorted : List String → List String
  | [] => []
  | [a] => [a]
  | a :: b :: rest => if a = b then dedupSorted (b :: rest) else a :: dedupSorted (b :: rest)

/-- `sorted(set(paths))` -/
def normPaths (l : List String) : List String := dedupSorted (sortStrs l)

def graphErr {α : Type} (msg : String := "") : M α := throw (.graph msg)

def fileKey (p : String) : Key := ⟨.file, p⟩
def stepKey (l : String) : Key := ⟨.step, l⟩
def treeKey (l : String) : Key := ⟨.st, l⟩

def stepupDir : String := ".stepup"

/-- `Path(p) / ""` -/
def addSlash (p : String) : String := if p = "" ∨ p.endsWith "/" then p else p ++ "/"

/-- A restricted glob language for the kernel model: literals and `*`, compiled the way
`convert_nglob_to_regex` does for that fragment: `[^/]*` in general, `[^/]+` when the star is a
whole component (separator on both sides, or trailing after a separator), and an optional
trailing `/` after a trailing star. -/
inductive GItem
  | lit (c : Char)
  | star (nonEmpty : Bool)
  | optSlash
  deriving Repr

/-- Split into literal runs and stars (adjacent stars merge into one). -/
def globParts : List Char → List (Option (List Char))
  | [] => []
  | c :: cs =>
    if c = '*' then
      match globParts cs with
      | none :: rest => none :: rest
      | rest => none :: rest
    else
      match globParts cs with
      | some l :: rest => some (c :: l) :: rest
      | rest => some [c] :: rest

def compileGlob (pattern : List Char) : List GItem :=
  let parts := globParts pattern
  let n := parts.length
  let endsSlash (o : Option (Option (List Char))) : Bool :=
    match o with | some (some l) => l.getLast? = some '/' | _ => false
  let startsSlash (o : Option (Option (List Char))) : Bool :=
    match o with | some (some l) => l.head? = some '/' | _ => false
  (List.range n).flatMap fun i =>
    match parts[i]? with
    | some (some l) => l.map GItem.lit
    | some none =>
      let prev := if i = 0 then none else parts[i - 1]?
      let next := parts[i + 1]?
      if i + 1 = n then
        [GItem.star (n ≥ 2 && endsSlash prev), GItem.optSlash]
      else
        [GItem.star (i > 0 && endsSlash prev && startsSlash next)]
    | none => []

def gmatch : List GItem → List Char → Bool
  | [], s => s.isEmpty
  | GItem.lit c :: ps, s =>
    (match s with
     | [] => false
     | x :: t => x = c && gmatch ps t)
  | GItem.optSlash :: ps, s =>
    gmatch ps s || (match s with
      | x :: t => x = '/' && gmatch ps t
      | [] => false)
  | GItem.star ne :: ps, s =>
    (!ne && gmatch ps s) ||
      (match s with
       | [] => false
       | x :: t => x ≠ '/' && (gmatch ps t || gmatch (GItem.star false :: ps) t))
termination_by p s => 2 * p.length + 2 * s.length
decreasing_by all_goals simp_wf; all_goals omega

def globAccepts (pattern path : String) : Bool := gmatch (compileGlob pattern.toList) path.toList

/-- `Workflow._find_owning_static_tree` -/
def KState.owningTree (s : KState) (path : String) : M (Option Key) :=
  let trees := s.nodes.filter fun n => n.key.kind = .st ∧ !n.detached ∧ path.startsWith n.key.label
  match trees with
  | [] => pure none
  | [t] => pure (some t.key)
  | _ => graphErr "Multiple static trees match"

/-- `Workflow._existing_claim`: role and creator of the attached file node with this label. -/
def KState.existingClaim (s : KState) (path : String) : Option (FileRole × Key) :=
  match s.find? (fileKey path) with
  | some n =>
    if n.detached then none else
    match n.creator, n.fstate.role? with
    | some c, some r => if s.has c then some (r, c) else none
    | _, _ => none
  | none => none

/-- `Workflow._check_declaration`; `creator = none` stands for a phrase (a node not yet created). -/
def KState.checkDeclaration (s : KState) (creator : Option Key) (path : String) (role : FileRole) : M Bool :=
  match s.existingClaim path with
  | none => pure true
  | some (r, c) =>
    match creator with
    | some k => if r = role ∧ c = k then pure false else graphErr "claim collision"
    | none => graphErr "claim collision"

def KConfig.forbiddenTarget (cfg : KConfig) (path : String) (st : FileState) : Bool :=
  cfg.targets.contains path && Enums.targetForbiddenStates.contains st

/-- `Workflow._declare_file` -/
def KState.declareFile (s : KState) (cfg : KConfig) (creator : Key) (path : String) (st : FileState) : M KState := do
  if !Enums.declarableStates.contains st then throw .consistency
  if st = .volatile ∧ path.endsWith "/" then graphErr "volatile directory"
  if creator.kind ≠ .st then
    if (← s.owningTree path).isSome then graphErr "static tree owns path"
  if cfg.forbiddenTarget path st then graphErr "forbidden target"
  if path.startsWith (stepupDir ++ "/") then graphErr "under .stepup"
  if !fileLabelOk path then throw .path
  let s ← s.create (fileKey path) (some creator) (.file st)
  if st = .volatile then
    if (s.sinksOf (fileKey path)).any fun k => !(s.isDetached k) then graphErr "volatile input"
  pure s

/-- `Workflow.declare_static_files`; returns the paths whose hashes must be checked. -/
def KState.declareStaticFiles (s : KState) (cfg : KConfig) (creator : Key) (paths : List String) :
    M (KState × List String) := do
  let paths := normPaths paths
  let mut toDeclare : List (Key × String) := []
  for path in paths do
    let mut declarer := creator
    if creator.kind ≠ .st then
      match ← s.owningTree path with
      | some t =>
        let tc := (s.find? t).bind (·.creator)
        if tc ≠ some creator then graphErr "static tree file"
        declarer := t
      | none => pure ()
    if ← s.checkDeclaration (some declarer) path .static then
      toDeclare := toDeclare ++ [(declarer, path)]
  let mut st := s
  for (d, p) in toDeclare do
    st ← st.declareFile cfg d p .unconfirmed
  pure (st, toDeclare.map (·.2))

def hasWildcards (p : String) : Bool := p.any fun c => c = '*' ∨ c = '?' ∨ c = '['

/-- `Workflow.register_static_tree` -/
def KState.registerStaticTree (s : KState) (cfg : KConfig) (creator : Key) (path : String) :
    M (KState × List String) := do
  if hasWildcards path ∨ (path.splitOn "${*").length > 1 then throw .consistency
  if path = stepupDir ∨ path.startsWith (stepupDir ++ "/") then graphErr "tree under .stepup"
  let path := addSlash path
  if path = "./" ∨ path = "" then graphErr "root tree"
  if path = "/" then graphErr "fs root tree"
  match ← s.owningTree path with
  | some t =>
    let tc := (s.find? t).bind (·.creator)
    if tc = some creator then return (s, [])
    if t.label = path then graphErr "duplicate tree"
    graphErr "subdirectory of tree"
  | none => pure ()
  if s.nodes.any fun n => n.key.kind = .st ∧ !n.detached ∧ n.key.label.startsWith path then
    graphErr "parent of tree"
  let under := (s.nodes.filter fun n => n.key.kind = .file ∧ !n.detached ∧ n.key.label.startsWith path)
  let under := under.mergeSort fun a b => decide (a.key.label ≤ b.key.label)
  let mut handover : List Key := []
  for n in under do
    if n.fstate.role? ≠ some .static then graphErr "tree contains product"
    if n.creator ≠ some creator then graphErr "tree contains file of other creator"
    handover := handover ++ [n.key]
  let tk := treeKey path
  let mut st ← s.create tk (some creator) .tree
  for k in handover do
    -- plain `UPDATE node SET creator = ?`: creator-kind trigger only
    st := st.modify k fun n => { n with creator := some tk }
  let adopt := (st.nodes.filter fun n => n.key.kind = .file ∧ n.detached ∧ n.key.label.startsWith path).map (·.key.label)
  st.declareStaticFiles cfg tk adopt

/-! ## Supplying inputs -/

inductive Avail | available | unconfirmed | unavailable
  deriving DecidableEq, Repr

structure Supply where
  file : Key
  state : FileState
  detached : Bool
  newRel : Bool

def Supply.avail (i : Supply) : Avail :=
  if i.detached then .unavailable
  else if i.state = .unconfirmed then .unconfirmed
  else if i.state = .built ∨ i.state = .confirmed then .available
  else .unavailable

/-- `Workflow._resolve_supply_file` -/
def KState.resolveSupply (s : KState) (cfg : KConfig) (step : Key) (path : String) (requireNew : Bool) :
    M (KState × Supply) := do
  let fk := fileKey path
  let node := s.find? fk
  let tree ← match node with
    | some n => if n.detached then s.owningTree path else pure none
    | none => s.owningTree path
  let (s, state, detached) ← match tree, node with
    | some t, _ => do
      if cfg.forbiddenTarget path .unconfirmed then graphErr "forbidden target"
      if !fileLabelOk path then throw .path
      let s ← s.create fk (some t) (.file .unconfirmed)
      pure (s, FileState.unconfirmed, false)
    | none, none => do
      if !fileLabelOk path then throw .path
      let s ← s.create fk none (.file .undeclared)
      pure (s, FileState.undeclared, true)
    | none, some n =>
      if n.creator.isNone then do
        let s ← s.create fk none (.file .undeclared)
        pure (s, FileState.undeclared, true)
      else do
        if n.fstate = .volatile then graphErr "input is volatile"
        if cfg.forbiddenTarget path n.fstate then graphErr "forbidden target"
        pure (s, n.fstate, n.detached)
  let newRel := !s.hasDep fk step
  if !newRel ∧ requireNew then graphErr "supplying file already exists"
  pure (s, { file := fk, state := state, detached := detached, newRel := newRel })

/-- Recursive sinks of `k`, `k` included (`RECURSE_SINKS`, a `UNION` recursion). -/
def KState.sinkClosure (s : KState) (k : Key) : List Key :=
  let step (acc : List Key) : List Key :=
    s.deps.foldl (fun acc d => if acc.contains d.src ∧ !acc.contains d.snk then acc ++ [d.snk] else acc) acc
  (List.range (s.deps.length + 1)).foldl (fun acc _ => step acc) [k]

/-- `Workflow._supply_files` -/
def KState.supplyFiles (s : KState) (cfg : KConfig) (step : Key) (paths : List String) (requireNew : Bool) :
    M (KState × List Supply) := do
  let mut st := s
  let mut infos : List Supply := []
  for p in paths do
    let (s', i) ← st.resolveSupply cfg step p requireNew
    st := s'
    infos := infos ++ [i]
  let newFiles := (infos.filter (·.newRel)).map (·.file)
  if !newFiles.isEmpty then
    let closure := st.sinkClosure step
    if newFiles.any closure.contains then throw .cyclic
  for i in infos do
    if i.newRel then st ← st.insertDep i.file step
  pure (st, infos)

/-- `Node.add_source(source)` with the cycle check: `file.add_source(step)`. -/
def KState.addSourceChecked (s : KState) (snk src : Key) : M KState := do
  if (s.sinkClosure snk).contains src then throw .cyclic
  s.insertDep src snk

/-! ## `define_step` -/

structure StepDecl where
  cmd : String
  workdir : String := "."
  inp : List String := []
  env : List String := []
  out : List String := []
  vol : List String := []
  need : Need := .default
  shell : Bool := false
  safe : Bool := false
  resources : List (String × Nat) := []
  overrides : List (String × String) := []

/-- Attached nglob registrations in row order (node order, then registration order). -/
def KState.attachedGlobs (s : KState) : List (Key × String) :=
  s.nodes.flatMap fun n => if n.key.kind = .step ∧ !n.detached then n.nglobs.map fun g => (n.key, g.1) else []

/-- `Workflow._raise_if_glob_match` -/
def KState.raiseIfGlobMatch (s : KState) (products : List String) : M Unit := do
  for (_, pat) in s.attachedGlobs do
    for p in sortStrs products do
      if globAccepts pat p then graphErr "glob matches product"

/-- The initial (non-dynamic) paths of a detached step by role, as `Step.can_recycle` reads them. -/
def KState.initialPaths (s : KState) (step : Key) : List String × List String × List String :=
  let stepDetached := s.isDetached step
  let keep (k : Key) : Bool := k.kind = .file ∧ (stepDetached ∨ !(s.isDetached k))
  let inp := (s.deps.filter fun d => d.snk = step ∧ !d.dyn ∧ keep d.src).map (·.src.label)
  let sinks := (s.deps.filter fun d => d.src = step ∧ !d.dyn ∧ keep d.snk).map (·.snk)
  let role (k : Key) := (s.find? k).bind (·.fstate.role?)
  let out := (sinks.filter fun k => role k = some .output).map (·.label)
  let vol := (sinks.filter fun k => role k = some .volatile).map (·.label)
  (sortStrs inp, sortStrs out, sortStrs vol)

def envValue (cfg : KConfig) (name : String) : Option String := (cfg.env.find? (·.1 = name)).map (·.2)

/-- `Step.can_recycle` -/
def KState.canRecycle (s : KState) (step : Key) (d : StepDecl) : Bool :=
  match s.find? step with
  | none => false
  | some n =>
    let (inp, out, vol) := s.initialPaths step
    let envs := sortStrs ((n.envs.filter fun e => !e.2.2).map (·.1))
    inp = sortStrs d.inp ∧ envs = sortStrs d.env ∧ out = sortStrs d.out ∧ vol = sortStrs d.vol

/-- `UNCONFIRMED_INPUTS`: unconfirmed inputs of the step created by a static tree. -/
def KState.unconfirmedTreeInputs (s : KState) (step : Key) : List String :=
  sortStrs <| (s.sourcesOf step).filterMap fun k =>
    match s.find? k with
    | some n =>
      let byTree : Bool := match n.creator with
        | some c => c.kind = .st && s.has c
        | none => false
      if n.key.kind = .file ∧ n.fstate = .unconfirmed ∧ byTree then some k.label else none
    | none => none

/-- `Step.add_env_deps`: `INSERT OR REPLACE` (a replaced row moves to the end of the table order;
the dump sorts them). -/
def addEnvDeps (cfg : KConfig) (n : Node) (names : List String) : Node :=
  names.foldl (fun n name =>
    { n with envs := (n.envs.filter (·.1 ≠ name)) ++ [(name, envValue cfg name, false)] }) n

/-- `Workflow.define_step`; returns the paths to check. -/
def KState.defineStep (s : KState) (cfg : KConfig) (creator : Key) (d : StepDecl) : M (KState × List String) := do
  if creator = rootKey ∧ (s.products rootKey).any (·.key.kind = .step) then graphErr "boot step already defined"
  let d := { d with inp := normPaths d.inp, env := normPaths d.env, out := normPaths d.out, vol := normPaths d.vol }
  for v in d.vol do
    if cfg.forbiddenTarget v .volatile then graphErr "forbidden target"
  if d.inp.any (·.endsWith "/") then graphErr "directory input"
  if d.env.any fun e => d.overrides.any (·.1 = e) then graphErr "env and override overlap"
  if d.overrides.any fun o => Enums.reservedEnvVars.contains o.1 then graphErr "reserved override"
  let label ← match stepLabel d.cmd d.workdir with
    | some l => pure l
    | none => throw .value
  let sk := stepKey label
  s.raiseIfGlobMatch (d.out ++ d.vol)
  -- try_recycle
  match s.find? sk with
  | some n =>
    if n.detached ∧ s.canRecycle sk d then
      let s ← s.reattach sk creator
      -- after_recycle
      let s := s.modify sk fun n => { n with need := d.need, shell := d.shell, holding := 0 }
      let s ← if n.sstate = .failed then s.markStepPending sk else pure s
      let s := s.modify sk fun n => { n with resources := d.resources, overrides := d.overrides }
      return (s, s.unconfirmedTreeInputs sk)
  | none => pure ()
  -- _raise_if_step_exists
  match s.find? sk with
  | some n =>
    let hasCreator : Bool := match n.creator with
      | some c => s.has c
      | none => false
    if !n.detached ∧ hasCreator then graphErr "duplicate step"
  | none => pure ()
  for o in d.out do
    let _ ← s.checkDeclaration none o .output
  for v in d.vol do
    let _ ← s.checkDeclaration none v .volatile
  if d.out.any d.vol.contains then graphErr "output and volatile overlap"
  let s ← s.create sk (some creator) (.step { need := d.need, shell := d.shell, safe := d.safe })
  let s := s.modify sk fun n => { n with resources := d.resources, overrides := d.overrides }
  let (s, infos) ← s.supplyFiles cfg sk d.inp true
  let unconfirmed := (infos.filter fun i => i.avail = .unconfirmed).map (·.file.label)
  let s := s.modify sk fun n => addEnvDeps cfg n d.env
  let mut st := s
  for o in d.out do
    st ← st.declareFile cfg sk o .planned
    st ← st.addSourceChecked (fileKey o) sk
  for v in d.vol do
    st ← st.declareFile cfg sk v .volatile
    st ← st.addSourceChecked (fileKey v) sk
  pure (st, sortStrs unconfirmed)

/-! ## `amend_step` -/

structure AmendResult where
  unavailable : List String
  unfresh : List String
  toCheck : List String

/-- `Workflow.amend_step`; `concurrent` lists the producers for which `ran_concurrently` holds. -/
def KState.amendStep (s : KState) (cfg : KConfig) (step : Key) (inp env out vol : List String)
    (concurrent : List Key) : M (KState × AmendResult) := do
  let inp := normPaths inp
  let out := normPaths out
  let vol := normPaths vol
  if inp.any (·.endsWith "/") then graphErr "directory input"
  let (s, infos) ← s.supplyFiles cfg step inp false
  let mut unavailable : List String := []
  let mut unfresh : List String := []
  let mut unconfirmed : List String := []
  let mut dynEdges : List (Key × Key) := []
  for i in infos do
    match i.avail with
    | .unavailable => unavailable := unavailable ++ [i.file.label]
    | .unconfirmed => unconfirmed := unconfirmed ++ [i.file.label]
    | .available =>
      if i.state = .built then
        match (s.find? i.file).bind (·.creator) with
        | some p => if p.kind = .step ∧ s.has p ∧ concurrent.contains p then unfresh := unfresh ++ [i.file.label]
        | none => pure ()
    if i.newRel then dynEdges := dynEdges ++ [(i.file, step)]
  -- amend_env_deps: INSERT OR IGNORE, dynamic = 1, names in env_overrides skipped
  let s := s.modify step fun n =>
    env.foldl (fun n name =>
      if n.overrides.any (·.1 = name) ∨ n.envs.any (·.1 = name) then n
      else { n with envs := n.envs ++ [(name, envValue cfg name, true)] }) n
  let mut out' : List String := []
  for o in out do
    if ← s.checkDeclaration (some step) o .output then out' := out' ++ [o]
  let mut vol' : List String := []
  for v in vol do
    if ← s.checkDeclaration (some step) v .volatile then vol' := vol' ++ [v]
  if out'.any vol'.contains then graphErr "output and volatile overlap"
  s.raiseIfGlobMatch (out' ++ vol')
  let mut st := s
  for o in out' do
    st ← st.declareFile cfg step o .planned
    st ← st.addSourceChecked (fileKey o) step
    dynEdges := dynEdges ++ [(step, fileKey o)]
  for v in vol' do
    st ← st.declareFile cfg step v .volatile
    st ← st.addSourceChecked (fileKey v) step
    dynEdges := dynEdges ++ [(step, fileKey v)]
  for (a, b) in dynEdges do
    st := st.setDynamic a b true
  pure (st, { unavailable := sortStrs unavailable, unfresh := sortStrs unfresh, toCheck := sortStrs unconfirmed })

/-- `Workflow.register_nglob` -/
def KState.registerNglob (s : KState) (step : Key) (pattern : String) (found : List String) : M KState := do
  let found := normPaths found
  for p in found do
    match s.find? (fileKey p) with
    | some n =>
      if !n.detached ∧ (n.fstate.role? = some .output ∨ n.fstate.role? = some .volatile) then
        graphErr "glob matches product"
    | none => pure ()
  if found.any (·.startsWith (stepupDir ++ "/")) then graphErr "glob under .stepup"
  pure <| s.modify step fun n => { n with nglobs := n.nglobs ++ [(pattern, found)] }

/-- The body of `DirectorHandler.declare_static`: trees, then files, then patterns, all in one
transaction (an error anywhere rejects the whole request). -/
def KState.declareStaticRequest (s : KState) (cfg : KConfig) (creator : Key) (trees files : List String)
    (patterns : List (String × List String)) : M (KState × List String) := do
  let mut st := s
  let mut toCheck : List String := []
  for t in trees do
    let (s', chk) ← st.registerStaticTree cfg creator t
    st := s'
    toCheck := toCheck ++ chk
  let (s', chk) ← st.declareStaticFiles cfg creator files
  st := s'
  toCheck := toCheck ++ chk
  for (p, ms) in patterns do
    st ← st.registerNglob creator p ms
  pure (st, toCheck)

/-! ## Hash updates -/

def lookupTransition (c : Cause) (st : FileState) (known : Bool) : Option (FileState × Option Action) :=
  (hashTransitions.find? fun e => e.1 = (c, st, known)).map (·.2)

def KState.creatorStep (s : KState) (f : Key) : Option Key :=
  match (s.find? f).bind (·.creator) with
  | some c => if c.kind = .step ∧ s.has c then some c else none
  | none => none

/-- `Workflow.handle_updated_file` -/
def KState.handleUpdated (s : KState) (f : Key) : M KState :=
  match (s.find? f).map (·.fstate) with
  | some FileState.confirmed => s.markConsumersPending f
  | some FileState.planned | some FileState.outdated =>
    match s.creatorStep f with
    | some c => s.markStepPending c
    | none => pure s
  | _ => pure s

/-- `Workflow.handle_deleted_file` -/
def KState.handleDeleted (s : KState) (f : Key) : M KState := do
  let s ← if (s.find? f).map (·.fstate) = some .planned then
      match s.creatorStep f with
      | some c => s.markStepPending c
      | none => pure s
    else pure s
  s.markConsumersPending f

/-- `Workflow.update_file_hashes`; `none` stands for the unknown hash. -/
def KState.updateFileHashes (s : KState) (updates : List (String × Option Nat)) (cause : Cause) : M KState := do
  if updates.isEmpty then return s
  let updates := updates.mergeSort fun a b => decide (a.1 ≤ b.1)
  let mut recs : List (Key × FileState × Option Nat × Option Action) := []
  for (p, h) in updates do
    match s.find? (fileKey p) with
    | none => throw .consistency
    | some n =>
      match lookupTransition cause n.fstate h.isSome with
      | none => throw .consistency
      | some (new, act) => recs := recs ++ [(fileKey p, new, h, act)]
  let mut st := s
  for (k, new, h, _) in recs do
    st ← st.writeFile k new (some h)
  for (k, _, _, act) in recs do
    if act = some .updated then st ← st.handleUpdated k
  for (k, _, _, act) in recs do
    if act = some .deleted then st ← st.handleDeleted k
  for (k, _, _, act) in recs do
    if act = some .completed then st ← st.markConsumersPending k
  pure st

/-! ## Step completion (`step.py`) -/

/-- `Step._detach_created_steps` -/
def KState.detachCreatedSteps (s : KState) (step : Key) : M KState :=
  ((s.products step).filter (·.key.kind = .step)).foldlM (fun s p => s.detach p.key) s

/-- `Step.reset_for_rerun` -/
def KState.resetForRerun (s : KState) (step : Key) : M KState := do
  -- dynamic sources: delete dynamic_dep rows, then the edges
  let s := s.deleteDeps fun d => d.snk = step ∧ d.dyn
  -- dynamic env vars, nglobs
  let s := s.modify step fun n => { n with envs := n.envs.filter fun e => !e.2.2, nglobs := [] }
  -- dynamic sinks: delete edge, detach the sink
  let dynSinks := (s.deps.filter fun d => d.src = step ∧ d.dyn).map (·.snk)
  let mut st := s
  for k in dynSinks do
    st := st.deleteDeps fun d => d.src = step ∧ d.snk = k
    st ← st.detach k
  st ← st.detachCreatedSteps step
  -- static file definitions of this step
  for n in st.products step do
    if n.key.kind = .file ∧ n.fstate.role? = some .static then st ← st.detach n.key
  for n in st.products step do
    if n.key.kind = .st then st ← st.detach n.key
  for n in st.products step do
    if n.key.kind = .file ∧ n.fstate = .built then st ← st.markFileOutdated n.key
  pure st

/-- `Step.has_unavailable_dynamic_input` -/
def KState.hasUnavailableDynamicInput (s : KState) (step : Key) : Bool :=
  s.deps.any fun d => d.snk = step && d.dyn &&
    (match s.find? d.src with
     | some n => n.key.kind = .file && n.fstate ≠ .confirmed && n.fstate ≠ .built
     | none => false)

/-- The decision of `Step.mark_completed` for an unsuccessful run that asks for a deferral, from
the defer count *before* the increment: PENDING while the incremented count stays within the
cap, FAILED afterwards. -/
def deferOutcome (cap deferCount : Nat) : StepState :=
  if deferCount + 1 ≤ cap then .pending else .failed

/-- `Step.mark_completed(new_hash, wants_defer)`; returns `interrupted_defer`. -/
def KState.markCompleted (s : KState) (cfg : KConfig) (step : Key) (newHash : Option Nat) (wantsDefer : Bool) :
    M (KState × Bool) := do
  let files := ((s.products step).filter (·.key.kind = .file)).mergeSort fun a b => decide (a.key.label ≤ b.key.label)
  match newHash with
  | none =>
    let mut st := s
    for f in files do
      if f.fstate = .built then st ← st.setFileState f.key .outdated
    let mut interrupted := false
    if wantsDefer then
      let before := ((st.find? step).map (·.deferCount)).getD 0
      st := st.modify step fun n => { n with deferCount := n.deferCount + 1 }
      if deferOutcome cfg.deferCap before = .pending then
        st ← st.setStepState step .pending (st.hasUnavailableDynamicInput step)
      else
        st ← st.setStepState step .failed
        interrupted := true
    else
      st ← st.setStepState step .failed
    if (st.find? step).map (·.sstate) = some .failed then st ← st.detachCreatedSteps step
    pure (st.deleteHash step, interrupted)
  | some h =>
    let mut st ← s.setStepState step .succeeded
    for f in files do
      if (st.find? f.key).map (·.fstate) = some .outdated then
        st ← st.setFileState f.key .built
        st ← st.markConsumersPending f.key
    pure (st.setHash step h, false)

/-- `Step.hold` / `Step.release` -/
def KState.hold (s : KState) (step : Key) : M KState := do
  let s := s.modify step fun n => { n with holding := n.holding + 1 }
  if (s.find? step).map (·.holding) = some 1 then s.flagChecksWithProducts step else pure s

def KState.release (s : KState) (step : Key) : M KState := do
  match s.find? step with
  | some n =>
    if n.holding = 0 then graphErr "release without hold"
    let s := s.modify step fun n => { n with holding := n.holding - 1 }
    if n.holding = 1 then s.flagChecksWithProducts step else pure s
  | none => graphErr "release without hold"

/-! ## Cleanup and startup -/

/-- `Workflow.delete_detached`: unused static-tree files first, then `Trellis.delete_detached`. -/
def KState.deleteDetached (s : KState) : M KState := do
  let mut st := s
  for t in s.nodes.filter fun n => n.key.kind = .st ∧ !n.detached do
    let files := (st.products t.key).mergeSort fun a b => decide (b.key.label ≤ a.key.label)
    for f in files do
      if !((st.sinksOf f.key).any fun k => !(st.isDetached k)) then st ← st.detach f.key
  st.deleteDetachedBase

/-- `finalize.revert_optional_steps` -/
def KState.revertOptional (s : KState) : M KState := do
  let steps := s.nodes.filter fun n => n.key.kind = .step ∧ !n.detached ∧ n.impliedNeed = .optional
  let mut st := s
  for n in steps do
    if n.sstate ≠ .pending then st ← st.writeStepState n.key .pending none
    for f in st.sinksOf n.key do
      match st.find? f with
      | some fn =>
        if fn.key.kind = .file ∧ (fn.fstate = .volatile ∨ fn.fstate = .built ∨ fn.fstate = .outdated) then
          st := st.queueDelete f.label (if fn.fstate = .volatile then none else fn.fhash)
          st := st.markDirToBeDeleted (parentDir f.label)
          if fn.fstate ≠ .volatile then st ← st.writeFile f .planned (some none)
      | none => pure ()
  pure st

/-- `startup.reset_interrupted_steps` (both transactions). -/
def KState.resetInterrupted (s : KState) : M KState := do
  let mut st := s
  for n in s.nodes do
    if n.key.kind = .step ∧ n.sstate = .running then st ← st.writeStepState n.key .failed none
  for n in s.nodes do
    if n.key.kind = .step ∧ n.sstate = .checking then st ← st.writeStepState n.key .pending none
  let failed := st.nodes.filter fun n => n.key.kind = .step ∧ !n.detached ∧ n.sstate = .failed
  for n in failed do
    st ← st.markStepPending n.key
  pure st

/-- `startup.rescan_env_vars` against the director's current environment. -/
def KState.rescanEnvVars (s : KState) (cfg : KConfig) : M KState := do
  let changed := s.nodes.filter fun n =>
    n.key.kind = .step ∧ !n.detached ∧ n.envs.any fun e => envValue cfg e.1 ≠ e.2.1
  changed.foldlM (fun s n => s.markStepPending n.key) s

end StepupModel.K
