import StepupModel.K.Prim
/-!
# Layer K: `Trellis` / `Node` methods (`trellis.py`, with the overrides of `file.py`, `step.py`,
`static_tree.py`) and the state propagation of `workflow.py`.
-/
namespace StepupModel.K

/-! ## State propagation (`mark_step_pending`, `mark_file_outdated`, ...) -/

/-- `Workflow.mark_step_pending` / `mark_file_outdated` / `mark_consuming_steps_pending`,
mutually recursive in the code; every `mark_file_outdated` turns one BUILT file OUTDATED, so
`fuel = 2 * #nodes + 2` is never exhausted (exhaustion is reported as `hang`). -/
def markStepPending : Nat → KState → Key → M KState
  | 0, _, _ => throw .hang
  | fuel + 1, s, k => do
    match s.find? k with
    | none => pure s
    | some n =>
      if n.sstate = .running ∨ n.sstate = .checking then return s
      let s ← s.setStepState k .pending
      if n.sstate = .succeeded ∨ n.sstate = .failed then
        -- BUILT sink files, detached included
        (s.sinksOf k).foldlM (fun s f =>
          match s.find? f with
          | some fn =>
            if fn.key.kind = .file ∧ fn.fstate = .built then do
              -- mark_file_outdated
              let s ← s.setFileState f .outdated
              -- mark_consuming_steps_pending (step sinks, detached included)
              ((s.sinksOf f).filter (·.kind = .step)).foldlM (fun s t => markStepPending fuel s t) s
            else pure s
          | none => pure s) s
      else pure s

def KState.fuel (s : KState) : Nat := 2 * s.nodes.length + 2

def KState.markStepPending (s : KState) (k : Key) : M KState := StepupModel.K.markStepPending s.fuel s k

def KState.markConsumersPending (s : KState) (f : Key) : M KState :=
  ((s.sinksOf f).filter (·.kind = .step)).foldlM (fun s t => s.markStepPending t) s

/-- `Workflow.mark_file_outdated` -/
def KState.markFileOutdated (s : KState) (f : Key) : M KState := do
  match s.find? f with
  | none => pure s
  | some n =>
    if n.fstate = .built then
      let s ← s.setFileState f .outdated
      s.markConsumersPending f
    else if n.fstate = .outdated then pure s
    else throw .consistency

/-! ## `Node.detach`, `Node.reattach` -/

/-- `Node.after_lost_product` per node class. -/
def KState.afterLostProduct (s : KState) (k : Key) : M KState :=
  match k.kind with
  | .step => pure (s.deleteHash k)
  | .st => pure s
  | .file | .root => throw .assert

/-- `Node.detach`: cut the creator link and propagate the flag to the recursive products. -/
def KState.detachCore (s : KState) (k : Key) (n : Node) : M KState :=
  if n.creator.isSome then do
    let s ← s.setCreator k none true
    pure (if !n.detached then s.setDetachedRec k true else s)
  else pure s

/-- The extra work of `Step.detach`: flag the subtree and the upstream source steps. -/
def KState.detachFlags (s : KState) (k : Key) : M KState :=
  if k.kind = .step then do
    let s ← s.flagChecksWithProducts k
    s.flagCheckAfterSources k
  else pure s

/-- `Node.detach` (+ `Step.detach`). -/
def KState.detach (s : KState) (k : Key) : M KState :=
  match s.find? k with
  | none => throw .value
  | some n => do
    let s ← s.detachCore k n
    s.detachFlags k

/-- Walking up the creator links from `c` (root excluded) meets `k`: `c` is `k` or one of its
(recursive) products.  The walk is the loop of `Trellis.raise_if_created_by`. -/
def KState.createdBy (s : KState) (k c : Key) : Bool :=
  let rec go (fuel : Nat) (cur : Key) : Bool :=
    match fuel with
    | 0 => false
    | fuel + 1 =>
      if cur.kind = .root then false
      else if cur = k then true
      else match (s.find? cur).bind (·.creator) with
        | some p => go fuel p
        | none => false
  go (s.nodes.length + 1) c

/-- The old creator of a node that gets a new one: it must be detached, and it loses a product. -/
def KState.lostProduct (s : KState) (old : Option Key) : M KState :=
  match old with
  | some oc => if !(s.isDetached oc) then throw .consistency else s.afterLostProduct oc
  | none => pure s

def KState.flagIfStep (s : KState) (k : Key) : M KState :=
  if k.kind = .step then s.flagChecksWithProducts k else pure s

/-- The writes of `Node.reattach` once its guards have passed. -/
def KState.reattachCore (s : KState) (k c : Key) (n : Node) : M KState := do
  let d := s.isDetached c
  let s1 ← s.setCreator k (some c) d
  let s2 ← s1.lostProduct n.creator
  (s2.setDetachedRec k d).flagIfStep k

/-- `Node.reattach` (+ `Step.reattach`). -/
def KState.reattach (s : KState) (k c : Key) : M KState :=
  match s.find? k with
  | none => throw .value
  | some n =>
    if !n.detached then throw .value
    else if s.createdBy k c then throw (.graph "recreated by itself or by one of its own products")
    else s.reattachCore k c n

/-! ## `Trellis.create` -/

def endsWith (s suffix : String) : Bool := s.endsWith suffix

/-- `File.adjust_label` -/
def fileLabelOk (l : String) : Bool :=
  !(l = "" ∨ l = "." ∨ l = ".." ∨ endsWith l "/" ∨ endsWith l "/." ∨ endsWith l "/..")

/-- `Step.adjust_label(command, workdir)`; `none` is the `ValueError`. -/
def stepLabel (cmd workdir : String) : Option String :=
  if (cmd.splitOn "  # wd=").length > 1 then none
  else some (if workdir = "." then cmd else cmd ++ "  # wd=" ++ workdir)

structure StepInit where
  need : Need := .default
  shell : Bool := false
  safe : Bool := false

inductive Init
  | root
  | file (state : FileState)
  | step (i : StepInit)
  | tree

/-- `File.initialize_row`: a recycled row that was BUILT or OUTDATED keeps that state when the
requested one is UNDECLARED or PLANNED. -/
def KState.keptState (s : KState) (k : Key) (state : FileState) (existed : Bool) : FileState :=
  match (s.find? k).map (·.fstate) with
  | some o =>
    if existed ∧ (state = .undeclared ∨ state = .planned) ∧ (o = .built ∨ o = .outdated) then o else state
  | none => state

/-- The upsert of `File.initialize_row`: UPDATE arm for a recycled row, fresh INSERT otherwise
(`file_check_undeclared_detached_ins`, `step_file_check_ready_ins`). -/
def KState.writeInitialFile (s : KState) (k : Key) (state : FileState) (existed : Bool) : M KState :=
  if existed then s.setFileState k state
  else if state = .undeclared ∧ !(s.isDetached k) then throw .integrity
  else pure ((s.modify k fun n => { n with fstate := state, fhash := none }).flagReadySinks k)

/-- `File.initialize_row` (the upsert and its triggers); `existed`: the row was there before. -/
def KState.initFileRow (s : KState) (k : Key) (state : FileState) (existed : Bool) : M KState := do
  let s1 ← s.writeInitialFile k (s.keptState k state existed) existed
  if s.keptState k state existed = .built then s1.markFileOutdated k else pure s1

/-- `Step.initialize_row`: DELETE + INSERT of the step row and DELETE of its `env_var` rows; the
other satellites (hash, resources, nglobs) survive. -/
def KState.initStepRow (s : KState) (k : Key) (i : StepInit) : KState :=
  s.modify k fun n =>
    { n with
      sstate := .pending, need := i.need, deferred := false, deferCount := 0, holding := 0,
      shell := i.shell, safe := i.safe, checkSafe := !i.safe, safeNH := i.safe, impliedNeed := i.need,
      tail := 1, checkAfter := true, hasHash := n.shash.isSome, ready := false, checkReady := true,
      overrides := [], envs := [] }

def KState.initRow (s : KState) (k : Key) (init : Init) (existed : Bool) : M KState :=
  match init with
  | .root | .tree => pure s
  | .file st => s.initFileRow k st existed
  | .step i => pure (s.initStepRow k i)

def KState.creatorDetached (s : KState) (creator : Option Key) : Bool :=
  match creator with | some c => s.isDetached c | none => true

/-- Detach every product of `k` (ordered by kind, label in the code; the result does not depend on it). -/
def KState.detachProducts (s : KState) (k : Key) : M KState :=
  (s.products k).foldlM (fun s p => s.detach p.key) s

/-- The recycle branch of `Trellis.create`, once its guards have passed. -/
def KState.recycleCore (s : KState) (k : Key) (n : Node) (creator : Option Key) (init : Init) : M KState := do
  let s1 ← s.setCreator k creator (s.creatorDetached creator)
  let s2 ← s1.lostProduct n.creator
  let s3 ← (s2.deleteDeps fun dp => dp.snk = k).detachProducts k
  s3.initRow k init true

def KState.insertAllowed (s : KState) (k : Key) (creator : Option Key) : Bool :=
  match creator with
  | some c =>
    (match s.find? c with
     | some cn => creatorKindOk k.kind cn.key.kind
     | none => false)
  | none => true

def KState.appendNode (s : KState) (k : Key) (creator : Option Key) : KState :=
  { s with nodes := s.nodes ++ [({ key := k, creator := creator, detached := s.creatorDetached creator } : Node)] }

/-- `Trellis.create` (label already adjusted). -/
def KState.create (s : KState) (k : Key) (creator : Option Key) (init : Init) : M KState :=
  match s.find? k with
  | some n =>
    if !n.detached then throw .consistency
    else if creator = some k then throw (.graph "recreated by itself")
    else s.recycleCore k n creator init
  | none =>
    if s.insertAllowed k creator then (s.appendNode k creator).initRow k init false
    else throw .integrity

/-! ## `Trellis.delete_detached` -/

def parentDir (p : String) : String :=
  match (p.splitOn "/").reverse with
  | [] => ""
  | _ :: rest => "/".intercalate rest.reverse

def KState.queueDelete (s : KState) (path : String) (h : Option Nat) : KState :=
  { s with toBeDeleted := (s.toBeDeleted.filter (·.1 ≠ path)) ++ [(path, h)] }

/-- `posixpath.normpath` for the relative, already normalised labels that reach
`mark_dir_to_be_deleted` (only the empty path and `.` need care). -/
def KState.markDirToBeDeleted (s : KState) (dir : String) : KState :=
  if dir = "" ∨ dir = "." then s else s.queueDelete (dir ++ "/") none

/-- `File.before_delete` / `Step.before_delete` -/
def KState.beforeDelete (s : KState) (n : Node) : M KState :=
  match n.key.kind with
  | .file =>
    let s := match n.fstate with
      | .volatile => s.queueDelete n.key.label none
      | .built | .outdated => match n.fhash with
        | some h => s.queueDelete n.key.label (some h)
        | none => s
      | _ => s
    pure (s.markDirToBeDeleted (parentDir n.key.label))
  | .step =>
    let wd := match n.key.label.splitOn "  # wd=" with
      | [_, w] => w
      | _ => "."
    pure (s.markDirToBeDeleted (if wd.endsWith "/" ∧ wd.length > 1 then (wd.dropEnd 1).toString else wd))
  | .st => pure s
  | .root => throw .assert

/-- One pass of the loop of `Trellis.delete_detached`: the candidates are selected first (one
query), then deleted one by one. Returns the new state, the creators of deleted nodes and
whether anything was deleted. -/
def KState.deletePass (s : KState) : M (KState × List Key × Bool) := do
  let cands := s.nodes.filter fun n =>
    n.detached ∧ (s.products n.key).isEmpty ∧ !(s.deps.any fun d => d.src = n.key)
  let mut st := s
  let mut creators : List Key := []
  for n in cands do
    st := st.deleteDeps fun d => d.snk = n.key
    st ← st.beforeDelete n
    st := { st with nodes := st.nodes.filter (·.key ≠ n.key) }
    creators := creators.filter (· ≠ n.key)
    match n.creator with
    | some c => creators := (creators.filter (· ≠ c)) ++ [c]
    | none => pure ()
  pure (st, creators, !cands.isEmpty)

/-- `Trellis.delete_detached`; every productive pass deletes a node, so `#nodes + 1` passes
suffice. -/
def KState.deleteDetachedBase (s : KState) : M KState := do
  let mut st := s
  let mut creators : List Key := []
  for _ in List.range (s.nodes.length + 1) do
    let (st', cs, some_) ← st.deletePass
    st := st'
    -- merge creator sets: discard deleted nodes, add new creators
    creators := (creators.filter fun c => st.has c ∨ cs.contains c)
    creators := creators.filter (fun c => !cs.contains c) ++ cs
    if !some_ then break
  for c in creators do
    if st.has c then st ← st.afterLostProduct c
  pure st

end StepupModel.K
