/-!
# Layer K: the database kernel, types

The whole persistent state of StepUp is the SQLite database; this model keeps the same
information keyed by `(kind, label)` instead of integer ids.  Row order of the two lists is the
id order of the tables (new rows are appended, a recycled row keeps its position), which is all
the implementation's `ORDER BY`-free iteration depends on.
-/
namespace StepupModel.K

inductive Kind | root | file | step | st
  deriving DecidableEq, Repr, Inhabited

def Kind.name : Kind → String
  | .root => "root" | .file => "file" | .step => "step" | .st => "st"

structure Key where
  kind : Kind
  label : String
  deriving DecidableEq, Repr, Inhabited

def Key.str (k : Key) : String := k.kind.name ++ ":" ++ k.label

inductive FileState
  | undeclared | unconfirmed | missing | confirmed | planned | built | outdated | volatile
  deriving DecidableEq, Repr, Inhabited

def FileState.name : FileState → String
  | .undeclared => "UNDECLARED" | .unconfirmed => "UNCONFIRMED" | .missing => "MISSING"
  | .confirmed => "CONFIRMED" | .planned => "PLANNED" | .built => "BUILT"
  | .outdated => "OUTDATED" | .volatile => "VOLATILE"

inductive FileRole | static | output | volatile
  deriving DecidableEq, Repr, Inhabited

/-- `FILE_ROLE_BY_STATE` (UNDECLARED has no role). -/
def FileState.role? : FileState → Option FileRole
  | .undeclared => none
  | .unconfirmed | .missing | .confirmed => some .static
  | .planned | .built | .outdated => some .output
  | .volatile => some .volatile

inductive StepState | pending | running | succeeded | failed | checking
  deriving DecidableEq, Repr, Inhabited

def StepState.name : StepState → String
  | .pending => "PENDING" | .running => "RUNNING" | .succeeded => "SUCCEEDED"
  | .failed => "FAILED" | .checking => "CHECKING"

inductive Need | optional | default | target | plan
  deriving DecidableEq, Repr, Inhabited

def Need.name : Need → String
  | .optional => "OPTIONAL" | .default => "DEFAULT" | .target => "TARGET" | .plan => "PLAN"

/-- Order of the enum values (OPTIONAL < DEFAULT < TARGET < PLAN). -/
def Need.rank : Need → Nat
  | .optional => 0 | .default => 1 | .target => 2 | .plan => 3

def Need.max (a b : Need) : Need := if a.rank < b.rank then b else a

inductive Cause | external | succeeded | failed | confirmed
  deriving DecidableEq, Repr, Inhabited

inductive Action | updated | deleted | completed
  deriving DecidableEq, Repr, Inhabited

/-- Error classes of the implementation (the protocol's small enum). `hang` stands for a
statement that never terminates (a `UNION ALL` recursion over a creator cycle, finding F11). -/
inductive Err
  | graph (msg : String) | cyclic | path | consistency | integrity | assert | value | hang
  deriving Repr, Inhabited

def Err.name : Err → String
  | .graph _ => "graph" | .cyclic => "cyclic" | .path => "path" | .consistency => "consistency"
  | .integrity => "integrity" | .assert => "assert" | .value => "value" | .hang => "hang"

abbrev M := Except Err

/-- One row of `node` joined with its `file` / `step` satellite rows (columns of the other kinds
keep their defaults and are never read). -/
structure Node where
  key : Key
  creator : Option Key := none
  detached : Bool := false
  -- file
  fstate : FileState := .undeclared
  fhash : Option Nat := none
  -- step
  sstate : StepState := .pending
  need : Need := .default
  deferred : Bool := false
  deferCount : Nat := 0
  holding : Nat := 0
  shell : Bool := false
  safe : Bool := false
  checkSafe : Bool := false
  safeNH : Bool := false
  impliedNeed : Need := .default
  tail : Nat := 1
  checkAfter : Bool := false
  hasHash : Bool := false
  ready : Bool := false
  checkReady : Bool := true
  shash : Option Nat := none
  envs : List (String × Option String × Bool) := []
  resources : List (String × Nat) := []
  overrides : List (String × String) := []
  nglobs : List (String × List String) := []
  deriving Repr, Inhabited

structure Dep where
  src : Key
  snk : Key
  dyn : Bool := false
  deriving DecidableEq, Repr, Inhabited

structure KState where
  nodes : List Node := []
  deps : List Dep := []
  /-- `Workflow.to_be_deleted` (memory only): path ↦ recorded hash, `none` = remove whatever. -/
  toBeDeleted : List (String × Option Nat) := []
  deriving Repr, Inhabited

structure KConfig where
  deferCap : Nat := 100
  targets : List String := []
  targetDirs : List String := []      -- with trailing slash
  available : List (String × Nat) := []
  env : List (String × String) := []   -- os.environ as seen by the director
  deriving Repr, Inhabited

def rootKey : Key := ⟨.root, ""⟩

def KState.init : KState :=
  { nodes := [{ key := rootKey, creator := some rootKey, detached := false }] }

end StepupModel.K
