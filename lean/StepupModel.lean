-- Root of the library: everything `lake build` must check.
import StepupModel.Proto
import StepupModel.Props.C09
import StepupModel.Props.C13
import StepupModel.Props.C16
import StepupModel.Props.C17
import StepupModel.Props.C18
import StepupModel.Props.C20
import StepupModel.Props.C08
import StepupModel.Props.C10
import StepupModel.Props.C11
import StepupModel.Props.C12
import StepupModel.Props.C15
import StepupModel.Props.C19
