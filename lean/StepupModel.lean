-- This module serves as the root of the `StepupModel` library.
-- Import modules here that should be built as part of the library.
import StepupModel.Basic
