-- Root of the library: everything `lake build` must check.
import StepupModel.Proto
import StepupModel.Props.C09
import StepupModel.Props.C13
import StepupModel.Props.C16
import StepupModel.Props.C18
import StepupModel.Props.C20
