import StepupModel.Proto
import StepupModel.Drv.C13
import StepupModel.Drv.C15
import StepupModel.Drv.C16
import StepupModel.Drv.C17
import StepupModel.Drv.C18
import StepupModel.Drv.C20
import StepupModel.Drv.K
/-! Model driver: one request line in, one answer line out (see `StepupModel/Proto.lean`).
Each property's requests are handled in `StepupModel/Drv/<ID>.lean`; `k ...` requests act on the
kernel session carried by the loop. -/
open StepupModel

def dispatch (sess : Drv.K.Session) (line : String) : Drv.K.Session × String :=
  match line.splitOn " " with
  | "k" :: rest => (Drv.K.handle sess rest).getD (sess, "bad-op")
  | "c13" :: rest => (sess, (Drv.C13.handle rest).getD "bad-op")
  | "c15" :: rest => (sess, (Drv.C15.handle rest).getD "bad-op")
  | "c16" :: rest => (sess, (Drv.C16.handle rest).getD "bad-op")
  | "c17" :: rest => (sess, (Drv.C17.handle rest).getD "bad-op")
  | "c18" :: rest => (sess, (Drv.C18.handle rest).getD "bad-op")
  | "c20" :: rest => (sess, (Drv.C20.handle rest).getD "bad-op")
  | _ => (sess, "bad-op")

partial def loop (h : IO.FS.Stream) (out : IO.FS.Stream) (sess : Drv.K.Session) : IO Unit := do
  let line ← h.getLine
  if line.isEmpty then return ()
  let line := if line.endsWith "\n" then (line.dropEnd 1).toString else line
  let (sess, ans) := dispatch sess line
  out.putStrLn ans
  loop h out sess

def main : IO Unit := do
  let out ← IO.getStdout
  loop (← IO.getStdin) out {}
  out.flush
