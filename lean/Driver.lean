import StepupModel.Proto
import StepupModel.Drv.C13
import StepupModel.Drv.C16
import StepupModel.Drv.C17
import StepupModel.Drv.C18
import StepupModel.Drv.C20
/-! Model driver: one request line in, one answer line out (see `StepupModel/Proto.lean`).
Each property's requests are handled in `StepupModel/Drv/<ID>.lean`. -/
open StepupModel

def dispatch (line : String) : String :=
  match line.splitOn " " with
  | "c13" :: rest => (Drv.C13.handle rest).getD "bad-op"
  | "c16" :: rest => (Drv.C16.handle rest).getD "bad-op"
  | "c17" :: rest => (Drv.C17.handle rest).getD "bad-op"
  | "c18" :: rest => (Drv.C18.handle rest).getD "bad-op"
  | "c20" :: rest => (Drv.C20.handle rest).getD "bad-op"
  | _ => "bad-op"

partial def loop (h : IO.FS.Stream) (out : IO.FS.Stream) : IO Unit := do
  let line ← h.getLine
  if line.isEmpty then return ()
  let line := if line.endsWith "\n" then (line.dropEnd 1).toString else line
  out.putStrLn (dispatch line)
  loop h out

def main : IO Unit := do
  let out ← IO.getStdout
  loop (← IO.getStdin) out
  out.flush
