import StepupModel.Proto
import StepupModel.Drv.C01
import StepupModel.Drv.C02
import StepupModel.Drv.C03
import StepupModel.Drv.C04
import StepupModel.Drv.C05
import StepupModel.Drv.C06
import StepupModel.Drv.C07
import StepupModel.Drv.C12
import StepupModel.Drv.C14
import StepupModel.Drv.C19
import StepupModel.Drv.C13
import StepupModel.Drv.C15
import StepupModel.Drv.C16
import StepupModel.Drv.C17
import StepupModel.Drv.C18
import StepupModel.Drv.C20
import StepupModel.Drv.K
/-! Model driver: one request line in, one answer line out (see `StepupModel/Proto.lean`).
Each property's requests are handled in `StepupModel/Drv/<ID>.lean`; `k ...` requests act on the
kernel session carried by the loop. -/
open StepupModel

def dispatch (sess : Drv.K.Session) (line : String) : Drv.K.Session × String :=
  match line.splitOn " " with
  | "k" :: rest => (Drv.K.handle sess rest).getD (sess, "bad-op")
  | "c01" :: rest => (sess, (Drv.C01.handle rest).getD "bad-op")
  | "c02" :: rest => (sess, (Drv.C02.handle rest).getD "bad-op")
  | "c03" :: rest => (sess, (Drv.C03.handle rest).getD "bad-op")
  | "c04" :: rest => (sess, (Drv.C04.handle rest).getD "bad-op")
  | "c05" :: rest => (sess, (Drv.C05.handle rest).getD "bad-op")
  | "c06" :: rest => (sess, (Drv.C06.handle rest).getD "bad-op")
  | "c07" :: rest => (sess, (Drv.C07.handle rest).getD "bad-op")
  | "c12" :: rest => (sess, (Drv.C12.handle rest).getD "bad-op")
  | "c14" :: rest => (sess, (Drv.C14.handle rest).getD "bad-op")
  | "c19" :: rest => (sess, (Drv.C19.handle rest).getD "bad-op")
  | "c13" :: rest => (sess, (Drv.C13.handle rest).getD "bad-op")
  | "c15" :: rest => (sess, (Drv.C15.handle rest).getD "bad-op")
  | "c16" :: rest => (sess, (Drv.C16.handle rest).getD "bad-op")
  | "c17" :: rest => (sess, (Drv.C17.handle rest).getD "bad-op")
  | "c18" :: rest => (sess, (Drv.C18.handle rest).getD "bad-op")
  | "c20" :: rest => (sess, (Drv.C20.handle rest).getD "bad-op")
  | _ => (sess, "bad-op")

partial def loop (h : IO.FS.Stream) (out : IO.FS.Stream) (sess : Drv.K.Session) : IO Unit := do
  let line ← h.getLine
  if line.isEmpty then return ()
  let line := if line.endsWith "\n" then (line.dropEnd 1).toString else line
  let (sess, ans) := dispatch sess line
  out.putStrLn ans
  loop h out sess

def main : IO Unit := do
  let out ← IO.getStdout
  loop (← IO.getStdin) out {}
  out.flush
