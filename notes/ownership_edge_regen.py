#!/usr/bin/env python3
"""Regenerates the word-for-word copies of Lemmas/Stable.lean used by the proof of the ownership clause
"the edge creator -> product exists" (Lemmas/OwnershipEdgeLeaf.lean, OwnershipEdgeTop.lean): theorem blocks are
extracted by name from Stable.lean, the structure name is replaced and the listed patches (the guards of the
leaves that need one) are applied.  Same method as notes/succ_outputs_regen.py; the differences to the I4
chains: the deletion of dependency rows is a leaf only when no deleted row ends in a file key, every step
state write and every new edge is a leaf, `create` of a file row is a leaf only for a static declaration or a
placeholder.  Run from anywhere; then `cd /verif/lean && lake build StepupModel.Lemmas.OwnershipEdge`."""
import re
src=open('/verif/lean/StepupModel/Lemmas/Stable.lean').read().split('\n')
starts=[i for i,l in enumerate(src) if l.startswith('theorem ') or l.startswith('/-') or l.startswith('end ') or l.startswith('namespace ') or l.startswith('abbrev ') or l.startswith('def ') or l.startswith('structure ')]
def block(name):
    for idx,i in enumerate(starts):
        if re.match(r'theorem '+re.escape(name)+r'[ \n(]', src[i]+' '):
            j=starts[idx+1] if idx+1<len(starts) else len(src)
            b=src[i:j]
            while b and b[-1].strip()=='' : b.pop()
            return '\n'.join(b)
    raise Exception('no block '+name)
def gen(names, structname, patches):
    out=[]
    for n in names:
        b=block(n)
        b=b.replace('(L : StableG G P)','(L : %s P)'%structname).replace('(_L : StableG G P)','(_L : %s P)'%structname)
        for (nm,a,c) in patches:
            if nm==n:
                if a not in b: raise Exception('patch miss %s %s'%(n,a))
                b=b.replace(a,c)
        out.append(b)
    return '\n\n'.join(out)

OPEN='''namespace StepupModel.K.OwnE
open StepupModel.K.MetaAfter StepupModel.K.Discipline StepupModel.Lemmas StepupModel.K.Ever
set_option linter.unusedSimpArgs false
set_option linter.unusedVariables false
'''

# ---- Leaf chain
names1="""cacheAt flagReadySinks flagDepEndpoints writeStepState_preserves setStepState_preserves deleteDeps setDetachedRow setDetachedRec setCreator_preserves flagChecksWithProducts_preserves flagCheckAfterSources_preserves detachCore_preserves detachFlags_preserves detach_preserves detachCreatedSteps_preserves detachProductsWhere_preserves dropDynamicInputs markDir hold_preserves release_preserves updateMetaSafe_preserves applyAfterUpdates afterLoop_preserves updateMetaAfter_preserves updateMetaReady updateMeta_preserves popNext_preserves reconcileTarget_preserves reconcileTargets_preserves afterLostProduct_preserves lostProduct_preserves flagIfStep_preserves reattachCore_preserves reattach_preserves detachProducts_preserves volatileSinkCheck_preserves insertDep_preserves insertNewEdges_preserves addSourceChecked_preserves setStepExtras setDynamic markDynamic amendEnv registerNglob_preserves registerNglobs_preserves treeInner_preserves treeOuter_preserves deleteDetached_preserves""".split()
nf=["initRow_preserves","recycleCore_preserves","create_preserves"]
KIND="(hq : ∀ d ∈ s.deps, p d = true → d.snk.kind ≠ .file) "
patches=[
 ('deleteDeps','(p : Dep → Bool) (hp : P s)','(p : Dep → Bool)\n    '+KIND+'(hp : P s)'),
 ('deleteDeps','L.filterDeps s p hp','L.filterDeps s p hq hp'),
 ('dropDynamicInputs','(k : Key) (hp : P s)','(k : Key) (hk : k.kind ≠ .file) (hp : P s)'),
 ('dropDynamicInputs','(L.deleteDeps _ _ (L.cache','(L.deleteDeps _ _ (fun d _ hd => by rw [(of_decide_eq_true hd).1]; exact hk) (L.cache'),
 ('setCreator_preserves','(d : Bool) :','(d : Bool)\n    (hc : c = none ∨ k.kind ≠ .file) :'),
 ('setCreator_preserves','L.creator s k c d hall hp','L.creator s k c d hall hc hp'),
 ('detachCore_preserves','(L.setCreator_preserves k none true)','(L.setCreator_preserves k none true (.inl rfl))'),
 ('hold_preserves','(hg : G s k) ',''),
 ('hold_preserves','L.hold _ _ hg hp','L.hold _ _ hp'),
 ('reattachCore_preserves','(n : Node) :','(n : Node) (hk : k.kind ≠ .file) :'),
 ('reattachCore_preserves','L.setCreator_preserves k (some c) _ s s1 hp h1','L.setCreator_preserves k (some c) _ (.inr hk) s s1 hp h1'),
 ('reattach_preserves','(k c : Key) :','(k c : Key) (hk : k.kind ≠ .file) :'),
 ('reattach_preserves','L.reattachCore_preserves k c n s s\' hp h','L.reattachCore_preserves k c n hk s s\' hp h'),
 ('deleteDetached_preserves','(L : ELeaf P) :','(L : ELeaf P)\n    (hbase : Preserves P (fun s => s.deleteDetachedBase)) :'),
 ('deleteDetached_preserves','L.deleteDetachedBase_preserves','hbase'),
 # create of a row that is no file
 ('initRow_preserves','(hi : InitOK init) :','(hi : ∀ st, init ≠ .file st) :'),
 ('initRow_preserves','| file st => exact L.initFileRow_preserves k st existed hi s s\' hp h','| file st => exact absurd rfl (hi st)'),
 ('recycleCore_preserves','(hi : InitOK init) :','(hi : ∀ st, init ≠ .file st)\n    (hk : k.kind ≠ .file) :'),
 ('recycleCore_preserves','L.setCreator_preserves k creator _ s s1 hp h1','L.setCreator_preserves k creator _ (.inr hk) s s1 hp h1'),
 ('recycleCore_preserves','(L.deleteDeps s2 _ hp2)','(L.deleteDeps s2 _ (fun d _ hd => by rw [of_decide_eq_true hd]; exact hk) hp2)'),
 ('create_preserves','(hi : InitOK init) :','(hi : ∀ st, init ≠ .file st)\n    (hk : k.kind ≠ .file) :'),
 ('create_preserves','L.recycleCore_preserves k n creator init hi s s\' hp h','L.recycleCore_preserves k n creator init hi hk s s\' hp h'),
]
hdr='''import StepupModel.Lemmas.OwnershipProducts
/-!
# C08 (O5), third part: the operations that are built from the context-free writes

`ELeaf P` lists the primitive writes of `Lemmas/Stable.lean` under which the invariant of
`Lemmas/OwnershipEdgeBase.lean` ("a file row in a product state has an edge from its creator") is stable
without knowing the context: every write of `StableG` except `fileWrite`, `fileInit`, `handOverRow`; the
`creator` write for a cut link or a row that is no file; the deletion of dependency rows none of which ends
in a file key.  The theorems of this file are those of `Lemmas/Stable.lean`, word for word, for the operations
that are built from these leaves (generated from that file by `notes/ownership_edge_regen.py`).  `EMid` adds
`mark_step_pending`.  No property statements here.
-/
'''+OPEN+'''
structure ELeaf (P : KState → Prop) : Prop where
  cache : ∀ (s : KState) (p : Node → Bool) (f : Node → Node), CacheOnly f → P s → P (s.modifyWhere p f)
  detached : ∀ (s : KState) (k : Key) (d : Bool), P s → P (s.modify k fun n => { n with detached := d })
  /-- the link is cut, or the row is no file -/
  creator : ∀ (s : KState) (k : Key) (c : Option Key) (d : Bool), s.creatorAllowed k c d = true →
    (c = none ∨ k.kind ≠ .file) → P s → P (s.modify k fun n => { n with creator := c })
  stepWrite : ∀ (s : KState) (k : Key) (n n' : Node) (st : StepState) (d : Option Bool),
    s.find? k = some n → stepRowWrite n st d = .ok n' → P s → P (s.modify k fun _ => n')
  stepInit : ∀ (s : KState) (k : Key) (i : StepInit), P s → P (s.initStepRow k i)
  setHash : ∀ (s : KState) (k : Key) (h : Nat), P s → P (s.setHash k h)
  deleteHash : ∀ (s : KState) (k : Key), P s → P (s.deleteHash k)
  bumpDefer : ∀ (s : KState) (k : Key), P s → P (s.modify k fun n => { n with deferCount := n.deferCount + 1 })
  hold : ∀ (s : KState) (k : Key), P s → P (s.modify k fun n => { n with holding := n.holding + 1 })
  release : ∀ (s : KState) (k : Key) (n : Node), s.find? k = some n → n.holding ≠ 0 → P s →
    P (s.modify k fun n => { n with holding := n.holding - 1 })
  recycled : ∀ (s : KState) (k : Key) (need : Need) (shell : Bool), P s →
    P (s.modify k fun n => { n with need := need, shell := shell })
  addDep : ∀ (s : KState) (src snk : Key), s.hasDep src snk = false → depKindOk src.kind snk.kind = true → P s →
    P { s with deps := s.deps ++ [({ src := src, snk := snk } : Dep)] }
  /-- no deleted row ends in a file key -/
  filterDeps : ∀ (s : KState) (p : Dep → Bool), (∀ d ∈ s.deps, p d = true → d.snk.kind ≠ .file) → P s →
    P { s with deps := s.deps.filter fun d => !p d }
  markDyn : ∀ (s : KState) (src snk : Key) (dyn : Bool), P s →
    P { s with deps := s.deps.map fun (d : Dep) => if d.src = src ∧ d.snk = snk then { d with dyn := dyn } else d }
  appendNode : ∀ (s : KState) (k : Key) (c : Option Key), s.find? k = none → s.insertAllowed k c = true → P s →
    P (s.appendNode k c)
  queueDelete : ∀ (s : KState) (path : String) (h : Option Nat), P s → P (s.queueDelete path h)
  clearQueue : ∀ (s : KState), P s → P { s with toBeDeleted := [] }

namespace ELeaf
variable {P : KState → Prop}

theorem modify_eq_modifyWhere (s : KState) (k : Key) (f : Node → Node) :
    s.modify k f = s.modifyWhere (fun n => decide (n.key = k)) f := StableG.modify_eq_modifyWhere s k f

'''
tail='''

end ELeaf

/-- `ELeaf` with `mark_step_pending`. -/
structure EMid (P : KState → Prop) : Prop where
  leaf : ELeaf P
  markStepPending_preserves : ∀ (fuel : Nat) (k : Key), Preserves P (fun s => StepupModel.K.markStepPending fuel s k)

end StepupModel.K.OwnE
'''
open('/verif/lean/StepupModel/Lemmas/OwnershipEdgeLeaf.lean','w').write(hdr+gen(names1+nf,'ELeaf',patches)+tail)

# ---- Mid and Top chains
leaf_fields="cache detached creator stepWrite stepInit setHash deleteHash bumpDefer hold release recycled addDep filterDeps markDyn appendNode queueDelete clearQueue".split()
leafnames=set(leaf_fields+names1+nf)
names_mid="markStepPending'_preserves markConsumersPending_preserves pendCreator_preserves handleUpdated_preserves handleDeleted_preserves afterRecycle_preserves".split()
midnames=set(names_mid+['markStepPending_preserves'])
def lift(text, pre_leaf, pre_mid):
    def rep(m):
        nm=m.group(1)
        if nm in leafnames: return 'L.'+pre_leaf+nm
        if nm in midnames: return 'L.'+pre_mid+nm
        return m.group(0)
    return re.sub(r"L\.([A-Za-z_][A-Za-z0-9_']*)", rep, text)
body_mid=lift(gen(names_mid,'EMid',[]),'leaf.','')
names_top="declareFile_preserves declareAll_preserves declareStaticFiles_preserves adoptByTree_preserves placeholder_preserves resolveWith_preserves resolveNode_preserves resolveSupply_preserves resolveAll_preserves supplyFiles_preserves declareProducts_preserves recycleStep_preserves amendProducts_preserves amendStep_preserves".split()
p_top=[
 ('declareFile_preserves','(st : FileState) :','(st : FileState)\n    (hst : st = .unconfirmed) :'),
 ('declareFile_preserves','L.create_preserves _ _ (.file st) (declarable_noHash hd) s s1 hp h1','L.createFile _ _ st (.inl hst) s s1 hp h1'),
 ('declareAll_preserves','(st : FileState) :','(st : FileState)\n    (hst : st = .unconfirmed) :'),
 ('declareAll_preserves','(fun dp => L.declareFile_preserves cfg dp.1 dp.2 st)','(fun dp => L.declareFile_preserves cfg dp.1 dp.2 st hst)'),
 ('declareStaticFiles_preserves','L.declareAll_preserves cfg todo _ s a hp ha','L.declareAll_preserves cfg todo _ rfl s a hp ha'),
 ('adoptByTree_preserves','L.create_preserves _ _ (.file .unconfirmed) (Or.inr (Or.inl rfl)) s s1 hp h1','L.createFile _ _ .unconfirmed (.inl rfl) s s1 hp h1'),
 ('placeholder_preserves','L.create_preserves _ _ (.file .undeclared) (Or.inl rfl) s s1 hp h1','L.createFile _ _ .undeclared (.inr ⟨rfl, rfl⟩) s s1 hp h1'),
 ('declareProducts_preserves','(st : FileState) :','(st : FileState)\n    (hst : st = .planned ∨ st = .volatile) :'),
 ('declareProducts_preserves','(fun p => L.declareProduct_preserves cfg step p st)','(fun p => L.declareProduct cfg step p st hst)'),
 ('recycleStep_preserves','(n : Node) :','(n : Node) (hk : sk.kind ≠ .file) :'),
 ('recycleStep_preserves','L.reattach_preserves sk creator s s1 hp h1','L.reattach_preserves sk creator hk s s1 hp h1'),
 ('amendProducts_preserves',"L.declareProducts_preserves cfg step out' .planned _ s3 hp2 h3","L.declareProducts_preserves cfg step out' .planned (.inl rfl) _ s3 hp2 h3"),
 ('amendProducts_preserves',"L.declareProducts_preserves cfg step vol' .volatile _ s4 hp3 h4","L.declareProducts_preserves cfg step vol' .volatile (.inr rfl) _ s4 hp3 h4"),
]
body_top=lift(gen(names_top,'ETop',p_top),'mid.leaf.','mid.')
hdr2='''import StepupModel.Lemmas.OwnershipEdgeLeaf
/-!
# C08 (O5), third part: the declaring operations from the leaves

`EMid`: the operations built from the leaves and the propagation.  `ETop P` adds the two operations whose proofs
need the invariant itself: `create` of a file row for a static declaration (UNCONFIRMED) or a placeholder
(UNDECLARED, no creator), and `declareProduct` (`_declare_file` + `add_source`: the row is rewritten, the edges
into it are deleted, the edge from the new creator is inserted).  The chains are those of `Lemmas/Stable.lean`,
word for word (generated by `notes/ownership_edge_regen.py`).  No property statements here.
-/
'''+OPEN+'''
namespace EMid
variable {P : KState → Prop}

'''+body_mid+'''

end EMid

/-- `EMid` with `create` of a file row that is no product and the declaration of a product. -/
structure ETop (P : KState → Prop) : Prop where
  mid : EMid P
  createFile : ∀ (p : String) (creator : Option Key) (st : FileState),
    (st = .unconfirmed ∨ (st = .undeclared ∧ creator = none)) →
    Preserves P (fun s => s.create (fileKey p) creator (.file st))
  declareProduct : ∀ (cfg : KConfig) (step : Key) (p : String) (st : FileState), (st = .planned ∨ st = .volatile) →
    Preserves P (fun s => s.declareProduct cfg step p st)

namespace ETop
variable {P : KState → Prop}

'''+body_top+'''

end ETop

end StepupModel.K.OwnE
'''
open('/verif/lean/StepupModel/Lemmas/OwnershipEdgeTop.lean','w').write(hdr2)
