#!/usr/bin/env python3
"""Regenerates the word-for-word copies of Lemmas/Stable.lean used by the I4 proof
(Lemmas/SuccOutputsLeaf.lean, SuccOutputsCleanup.lean, SuccOutputsMid.lean, SuccOutputsTop.lean):
theorem blocks are extracted by name from Stable.lean, the structure name is replaced and the listed
patches (guards of the leaves that need one) are applied.  Run from anywhere; then
`cd /verif/lean && lake build StepupModel.Lemmas.SuccOutputs`."""
import re,sys
src=open('/verif/lean/StepupModel/Lemmas/Stable.lean').read().split('\n')
# index blocks
starts=[i for i,l in enumerate(src) if l.startswith('theorem ') or l.startswith('/-') or l.startswith('end ') or l.startswith('namespace ') or l.startswith('abbrev ') or l.startswith('def ') or l.startswith('structure ')]
def block(name):
    for idx,i in enumerate(starts):
        if re.match(r'theorem '+re.escape(name)+r'[ \n(]', src[i]+' '):
            j=starts[idx+1] if idx+1<len(starts) else len(src)
            b=src[i:j]
            while b and b[-1].strip()=='' : b.pop()
            return '\n'.join(b)
    raise Exception('no block '+name)
def gen(names, structname, patches):
    out=[]
    for n in names:
        b=block(n)
        b=b.replace('(L : StableG G P)','(L : %s P)'%structname).replace('(_L : StableG G P)','(_L : %s P)'%structname)
        for (nm,a,c) in patches:
            if nm==n or nm=='*':
                if a not in b and nm!='*': raise Exception('patch miss %s %s'%(n,a))
                b=b.replace(a,c)
        out.append(b)
    return '\n\n'.join(out)

# ---- Leaf chain, cleanup
names1="""cacheAt flagReadySinks flagDepEndpoints writeStepState_preserves setStepState_preserves deleteDeps setDetachedRow setDetachedRec setCreator_preserves flagChecksWithProducts_preserves flagCheckAfterSources_preserves detachCore_preserves detachFlags_preserves detach_preserves detachCreatedSteps_preserves detachProductsWhere_preserves dropDynamicInputs dropDynamicSink_preserves markDir hold_preserves release_preserves updateMetaSafe_preserves applyAfterUpdates afterLoop_preserves updateMetaAfter_preserves updateMetaReady updateMeta_preserves popNext_preserves reconcileTarget_preserves reconcileTargets_preserves afterLostProduct_preserves lostProduct_preserves flagIfStep_preserves reattachCore_preserves reattach_preserves detachProducts_preserves volatileSinkCheck_preserves insertDep_preserves setStepExtras setDynamic markDynamic amendEnv registerNglob_preserves registerNglobs_preserves""".split()
names2="""beforeDelete_preserves passBody_preserves deletePass_preserves baseBody_preserves lostBody_preserves deleteDetachedBase_preserves treeInner_preserves treeOuter_preserves deleteDetached_preserves""".split()
patches=[
 ('writeStepState_preserves','(d : Option Bool) :','(d : Option Bool)\n    (hst : st ≠ .succeeded) :'),
 ('writeStepState_preserves','L.stepWrite s k n n\' st d hf hw hp','L.stepWrite s k n n\' st d hf hw hst hp'),
 ('setStepState_preserves','(d : Bool) :','(d : Bool) (hst : st ≠ .succeeded) :'),
 ('setStepState_preserves','L.writeStepState_preserves k st (some d)','L.writeStepState_preserves k st (some d) hst'),
 ('setCreator_preserves','(d : Bool) :','(d : Bool)\n    (hc : c = none ∨ k.kind ≠ .file) :'),
 ('setCreator_preserves','L.creator s k c d hall hp','L.creator s k c d hall hc hp'),
 ('detachCore_preserves','(L.setCreator_preserves k none true)','(L.setCreator_preserves k none true (.inl rfl))'),
 ('hold_preserves','(hg : G s k) ',''),
 ('hold_preserves','L.hold _ _ hg hp','L.hold _ _ hp'),
 ('popNext_preserves','L.setStepState_preserves k _ false su s2 hpu hs','L.setStepState_preserves k _ false (by split <;> decide) su s2 hpu hs'),
 ('reattachCore_preserves','(n : Node) :','(n : Node) (hk : k.kind ≠ .file) :'),
 ('reattachCore_preserves','L.setCreator_preserves k (some c) _ s s1 hp h1','L.setCreator_preserves k (some c) _ (.inr hk) s s1 hp h1'),
 ('reattach_preserves','(k c : Key) :','(k c : Key) (hk : k.kind ≠ .file) :'),
 ('reattach_preserves','L.reattachCore_preserves k c n s s\' hp h','L.reattachCore_preserves k c n hk s s\' hp h'),
 ('insertDep_preserves','(a b : Key) :','(a b : Key) (ha : a.kind = .file) :'),
 ('insertDep_preserves','(by simpa using hkind) hp','(by simpa using hkind) ha hp'),
]
hdr='''import StepupModel.Lemmas.SuccOutputsBase
/-!
# I4: the operations that are built from the context-free writes

`Leaf P` lists the primitive writes of `Lemmas/Stable.lean` under which the invariant of
`Lemmas/SuccOutputsBase.lean` is stable without knowing the context: every write of `StableG` except
`fileWrite`, `fileInit`, `handOverRow`; the `creator` write for a cut link or a row that is no file, the step
state write for a state other than SUCCEEDED, the new edge out of a file.  The theorems of this file are
those of `Lemmas/Stable.lean`, word for word, for the operations that are built from these leaves
(generated from that file by `notes/succ_outputs_regen.py`).  `leafJ` is the instance.  No property
statements here.
-/
namespace StepupModel.K.SuccOut
open StepupModel.K.MetaAfter StepupModel.K.Discipline StepupModel.Lemmas StepupModel.K.Ever
set_option linter.unusedSimpArgs false
set_option linter.unusedVariables false

structure Leaf (P : KState → Prop) : Prop where
  cache : ∀ (s : KState) (p : Node → Bool) (f : Node → Node), CacheOnly f → P s → P (s.modifyWhere p f)
  detached : ∀ (s : KState) (k : Key) (d : Bool), P s → P (s.modify k fun n => { n with detached := d })
  /-- the link is cut, or the row is no file -/
  creator : ∀ (s : KState) (k : Key) (c : Option Key) (d : Bool), s.creatorAllowed k c d = true →
    (c = none ∨ k.kind ≠ .file) → P s → P (s.modify k fun n => { n with creator := c })
  /-- a state other than SUCCEEDED -/
  stepWrite : ∀ (s : KState) (k : Key) (n n' : Node) (st : StepState) (d : Option Bool),
    s.find? k = some n → stepRowWrite n st d = .ok n' → st ≠ .succeeded → P s → P (s.modify k fun _ => n')
  stepInit : ∀ (s : KState) (k : Key) (i : StepInit), P s → P (s.initStepRow k i)
  setHash : ∀ (s : KState) (k : Key) (h : Nat), P s → P (s.setHash k h)
  deleteHash : ∀ (s : KState) (k : Key), P s → P (s.deleteHash k)
  bumpDefer : ∀ (s : KState) (k : Key), P s → P (s.modify k fun n => { n with deferCount := n.deferCount + 1 })
  hold : ∀ (s : KState) (k : Key), P s → P (s.modify k fun n => { n with holding := n.holding + 1 })
  release : ∀ (s : KState) (k : Key) (n : Node), s.find? k = some n → n.holding ≠ 0 → P s →
    P (s.modify k fun n => { n with holding := n.holding - 1 })
  recycled : ∀ (s : KState) (k : Key) (need : Need) (shell : Bool), P s →
    P (s.modify k fun n => { n with need := need, shell := shell })
  /-- an edge out of a file (into a step) -/
  addDep : ∀ (s : KState) (src snk : Key), s.hasDep src snk = false → depKindOk src.kind snk.kind = true →
    src.kind = .file → P s → P { s with deps := s.deps ++ [({ src := src, snk := snk } : Dep)] }
  filterDeps : ∀ (s : KState) (p : Dep → Bool), P s → P { s with deps := s.deps.filter fun d => !p d }
  markDyn : ∀ (s : KState) (src snk : Key) (dyn : Bool), P s →
    P { s with deps := s.deps.map fun (d : Dep) => if d.src = src ∧ d.snk = snk then { d with dyn := dyn } else d }
  appendNode : ∀ (s : KState) (k : Key) (c : Option Key), s.find? k = none → s.insertAllowed k c = true → P s →
    P (s.appendNode k c)
  removeNode : ∀ (s : KState) (k : Key), (∀ d ∈ s.deps, d.snk ≠ k) → P s →
    P { s with nodes := s.nodes.filter (·.key ≠ k) }
  queueDelete : ∀ (s : KState) (path : String) (h : Option Nat), P s → P (s.queueDelete path h)
  clearQueue : ∀ (s : KState), P s → P { s with toBeDeleted := [] }

namespace Leaf
variable {P : KState → Prop}

theorem modify_eq_modifyWhere (s : KState) (k : Key) (f : Node → Node) :
    s.modify k f = s.modifyWhere (fun n => decide (n.key = k)) f := StableG.modify_eq_modifyWhere s k f

'''
open('/verif/lean/StepupModel/Lemmas/SuccOutputsLeaf.lean','w').write(hdr+gen(names1,'Leaf',patches)+'\n\nend Leaf\n\nend StepupModel.K.SuccOut\n')
hdr2='''import StepupModel.Lemmas.SuccOutputsLeaf
/-!
# I4: the cleanup (`delete_detached`) from the context-free writes

The `for`-loop proofs of `Lemmas/Stable.lean`, word for word, for `Leaf` (generated by
`notes/succ_outputs_regen.py`).  No property statements here.
-/
namespace StepupModel.K.SuccOut
open StepupModel.K.MetaAfter StepupModel.K.Discipline StepupModel.Lemmas StepupModel.K.Ever
set_option linter.unusedSimpArgs false
set_option linter.unusedVariables false

namespace Leaf
variable {P : KState → Prop}

'''
open('/verif/lean/StepupModel/Lemmas/SuccOutputsCleanup.lean','w').write(hdr2+gen(names2,'Leaf',patches)+'\n\nend Leaf\n\nend StepupModel.K.SuccOut\n')

# ---- Mid chain
leaf_fields="cache detached creator stepWrite stepInit setHash deleteHash bumpDefer hold release recycled addDep filterDeps markDyn appendNode removeNode queueDelete clearQueue".split()
leafnames=set(leaf_fields+names1+names2)
def lift(text, leafnames, prefix):
    def rep(m):
        nm=m.group(1)
        return 'L.'+prefix+nm if nm in leafnames else m.group(0)
    return re.sub(r"L\.([A-Za-z_][A-Za-z0-9_']*)", rep, text)
names_mid="markStepPending'_preserves markConsumersPending_preserves pendCreator_preserves handleUpdated_preserves handleDeleted_preserves afterRecycle_preserves resetInterrupted_preserves rescanEnvVars_preserves checkConsistency_preserves".split()
patches_mid=[
 ('resetInterrupted_preserves','L.writeStepState_preserves n.key .failed none','L.writeStepState_preserves n.key .failed none (by decide)'),
 ('resetInterrupted_preserves','L.writeStepState_preserves n.key .pending none','L.writeStepState_preserves n.key .pending none (by decide)'),
]
body=lift(gen(names_mid,'Mid',patches_mid),leafnames,'leaf.')
hdr='''import StepupModel.Lemmas.SuccOutputsProp
/-!
# I4: the operations built from the leaves and the propagation

The theorems of `Lemmas/Stable.lean`, word for word, for `Mid` (generated by `notes/succ_outputs_regen.py`).
No property statements here.
-/
namespace StepupModel.K.SuccOut
open StepupModel.K.MetaAfter StepupModel.K.Discipline StepupModel.Lemmas StepupModel.K.Ever
set_option linter.unusedSimpArgs false
set_option linter.unusedVariables false

namespace Mid
variable {P : KState → Prop}

'''
open('/verif/lean/StepupModel/Lemmas/SuccOutputsMid.lean','w').write(hdr+body+'\n\nend Mid\n\nend StepupModel.K.SuccOut\n')

# ---- Top chain
nf=["initRow_preserves","recycleCore_preserves","create_preserves"]
leafnames=set(leaf_fields+names1+names2+nf)
midnames=set(names_mid+['markStepPending_preserves'])
def lift3(text):
    def rep(m):
        nm=m.group(1)
        if nm in leafnames: return 'L.mid.leaf.'+nm
        if nm in midnames: return 'L.mid.'+nm
        return m.group(0)
    return re.sub(r"L\.([A-Za-z_][A-Za-z0-9_']*)", rep, text)
# non-file create in Leaf namespace
p_nf=[
 ('initRow_preserves','(hi : InitOK init) :','(hi : ∀ st, init ≠ .file st) :'),
 ('initRow_preserves','| file st => exact L.initFileRow_preserves k st existed hi s s\' hp h','| file st => exact absurd rfl (hi st)'),
 ('recycleCore_preserves','(hi : InitOK init) :','(hi : ∀ st, init ≠ .file st)\n    (hk : k.kind ≠ .file) :'),
 ('recycleCore_preserves','L.setCreator_preserves k creator _ s s1 hp h1','L.setCreator_preserves k creator _ (.inr hk) s s1 hp h1'),
 ('create_preserves','(hi : InitOK init) :','(hi : ∀ st, init ≠ .file st)\n    (hk : k.kind ≠ .file) :'),
 ('create_preserves','L.recycleCore_preserves k n creator init hi s s\' hp h','L.recycleCore_preserves k n creator init hi hk s s\' hp h'),
]
body_nf=gen(nf,'Leaf',p_nf)
names_top="declareFile_preserves declareAll_preserves declareStaticFiles_preserves adoptByTree_preserves placeholder_preserves resolveWith_preserves resolveNode_preserves resolveSupply_preserves resolveAll_preserves insertNewEdges_preserves supplyFiles_preserves declareProducts_preserves recycleStep_preserves amendProducts_preserves amendStep_preserves".split()
p_top=[
 ('declareFile_preserves','L.create_preserves _ _ (.file st) (declarable_noHash hd) s s1 hp h1','L.createFile _ _ st (declarable_noHash hd) s s1 hp h1'),
 ('adoptByTree_preserves','L.create_preserves _ _ (.file .unconfirmed) (Or.inr (Or.inl rfl)) s s1 hp h1','L.createFile _ _ .unconfirmed (Or.inr (Or.inl rfl)) s s1 hp h1'),
 ('placeholder_preserves','L.create_preserves _ _ (.file .undeclared) (Or.inl rfl) s s1 hp h1','L.createFile _ _ .undeclared (Or.inl rfl) s s1 hp h1'),
 ('insertNewEdges_preserves','(infos : List Supply) :','(infos : List Supply)\n    (hfile : ∀ i ∈ infos, i.file.kind = .file) :'),
 ('insertNewEdges_preserves',"""  exact foldlM_preserves P (fun (st : KState) (i : Supply) => st.insertDep i.file step) _
    (fun i => L.insertDep_preserves i.file step) s s' hp h""","""  exact foldlM_mem P (fun (st : KState) (i : Supply) => st.insertDep i.file step) _
    (fun st i st' hi hst hw => L.insertDep_preserves i.file step (hfile i (List.mem_filter.1 hi).1) st st' hst hw) s s' hp h"""),
 ('supplyFiles_preserves',"""  refine bind_ok_gen h (fun a => P a.1) (fun a ha => L.resolveAll_preserves cfg step paths rn s a hp ha)
    (fun r => P r.1) ?_
  intro a r1 ha hh""","""  refine bind_ok_gen h (fun a => P a.1 ∧ ∀ i ∈ a.2, i.file.kind = .file)
    (fun a ha => ⟨L.resolveAll_preserves cfg step paths rn s a hp ha, resolveAll_files ha⟩) (fun r => P r.1) ?_
  intro a r1 ⟨ha, hfile⟩ hh"""),
 ('supplyFiles_preserves','L.insertNewEdges_preserves step infos s1 s2 ha h2','L.insertNewEdges_preserves step infos hfile s1 s2 ha h2'),
 ('declareProducts_preserves','(st : FileState) :','(st : FileState)\n    (hst : st = .planned ∨ st = .volatile) (hD : D step ∨ st = .volatile) :'),
 ('declareProducts_preserves','(fun p => L.declareProduct_preserves cfg step p st)','(fun p => L.declareProduct cfg step p st hst hD)'),
 ('recycleStep_preserves','(n : Node) :','(n : Node) (hk : sk.kind ≠ .file) :'),
 ('recycleStep_preserves','L.reattach_preserves sk creator s s1 hp h1','L.reattach_preserves sk creator hk s s1 hp h1'),
 ('amendProducts_preserves','(conc : List Key) (s1 : KState)','(conc : List Key) (hD : D step) (s1 : KState)'),
 ('amendProducts_preserves',"L.declareProducts_preserves cfg step out' .planned _ s3 hp2 h3","L.declareProducts_preserves cfg step out' .planned (.inl rfl) (.inl hD) _ s3 hp2 h3"),
 ('amendProducts_preserves',"L.declareProducts_preserves cfg step vol' .volatile _ s4 hp3 h4","L.declareProducts_preserves cfg step vol' .volatile (.inr rfl) (.inr rfl) _ s4 hp3 h4"),
 ('amendStep_preserves','(conc : List Key)\n','(conc : List Key) (hD : D step)\n'),
 ('amendStep_preserves','L.amendProducts_preserves cfg step infos env out vol conc s1 r1 ha hh','L.amendProducts_preserves cfg step infos env out vol conc hD s1 r1 ha hh'),
]
body=gen(names_top,'Top D',p_top)
body=lift3(body)
hdr='''import StepupModel.Lemmas.SuccOutputsCreate
/-!
# I4: the declaring operations from the leaves, the propagation, `create` of a file and the declaration of a product

`Leaf.create_preserves`: `Trellis.create` of a row that is no file.  `Top D P` adds to `Mid` the two operations
whose proofs need the invariant itself: `create` of a file row and `declareProduct` (for a step of `D`, or a
VOLATILE product).  The chain is that of `Lemmas/Stable.lean`, word for word (generated by
`notes/succ_outputs_regen.py`).  No property statements here.
-/
namespace StepupModel.K.SuccOut
open StepupModel.K.MetaAfter StepupModel.K.Discipline StepupModel.Lemmas StepupModel.K.Ever
set_option linter.unusedSimpArgs false
set_option linter.unusedVariables false

namespace Leaf
variable {P : KState → Prop}

'''+body_nf+'''

end Leaf

theorem resolveSupply_file {s : KState} {cfg : KConfig} {step : Key} {path : String} {rn : Bool} {r : KState × Supply}
    (h : s.resolveSupply cfg step path rn = .ok r) : r.2.file = fileKey path := by
  unfold KState.resolveSupply at h
  refine bind_ok_gen h (fun _ => True) (fun _ _ => trivial) (fun r => r.2.file = fileKey path) ?_
  intro a r1 _ hh
  obtain ⟨s1, state, detached⟩ := a
  simp only at hh
  split at hh
  · simp [graphErr, bind, Except.bind] at hh
  · simp only [pure, Except.pure, bind, Except.bind, Except.ok.injEq] at hh
    subst hh; rfl

theorem resolveAll_files {s : KState} {cfg : KConfig} {step : Key} {paths : List String} {rn : Bool}
    {r : KState × List Supply} (h : s.resolveAll cfg step paths rn = .ok r) : ∀ i ∈ r.2, i.file.kind = .file := by
  unfold KState.resolveAll at h
  refine foldlM_inv (fun (a : KState × List Supply) => ∀ i ∈ a.2, i.file.kind = .file) _ paths ?_ (s, []) r
    (fun _ hi => by cases hi) h
  intro a x b ha hb
  refine bind_ok_gen hb (fun c => c.2.file = fileKey x) (fun c hc => resolveSupply_file hc)
    (fun r => ∀ i ∈ r.2, i.file.kind = .file) ?_
  intro c d hc hd
  obtain ⟨s', i⟩ := c
  simp only [pure, Except.pure, Except.ok.injEq] at hd
  subst hd
  intro j hj
  rcases List.mem_append.1 hj with hj | hj
  · exact ha j hj
  · rw [List.mem_singleton] at hj
    subst hj
    simp only at hc
    rw [hc]; rfl

/-- `Mid` with `create` of a file row and the declaration of a product. -/
structure Top (D : Key → Prop) (P : KState → Prop) : Prop where
  mid : Mid P
  createFile : ∀ (p : String) (creator : Option Key) (st : FileState), NoHashState st →
    Preserves P (fun s => s.create (fileKey p) creator (.file st))
  declareProduct : ∀ (cfg : KConfig) (step : Key) (p : String) (st : FileState), (st = .planned ∨ st = .volatile) →
    (D step ∨ st = .volatile) → Preserves P (fun s => s.declareProduct cfg step p st)

namespace Top
variable {D : Key → Prop} {P : KState → Prop}

'''
open('/verif/lean/StepupModel/Lemmas/SuccOutputsTop.lean','w').write(hdr+body+'\n\nend Top\n\nend StepupModel.K.SuccOut\n')
