#!/usr/bin/env python3
"""Re-sync Lemmas/ReachFrame.lean and Lemmas/ReachLift.lean with Lemmas/Stable.lean.

Both files contain proofs that are those of Lemmas/Stable.lean word for word, with another leaf
structure (see their headers).  When the kernel model changes and Stable.lean is patched, run

    python3 /verif/notes/reach_regen.py && cd /verif/lean && lake build StepupModel.Lemmas.Reach

The script rewrites, in place, the body of `namespace FrameL` in ReachFrame.lean and the section
"Composite operations" of ReachLift.lean; everything else in the two files (leaf structures,
frame instance, leaf-level lemmas, exec/step/run) is hand-written and left alone.  The two
composite proofs that differ from Stable.lean (they need the result of `treeGuard`) are kept in
the table `hand` below.
"""
import re
LEM='/verif/lean/StepupModel/Lemmas/'
src=open(LEM+'Stable.lean').read()
a=src.index('namespace StableG'); b=src.index('end StableG')
lines=src[a:b].split('\n')
chunks=[];cur=[]
for ln in lines:
    if ln.startswith('theorem ') or ln.startswith('/--'):
        if cur and not any(l.startswith('theorem ') for l in cur) and any(l.startswith('/--') for l in cur):
            cur.append(ln); continue
        if cur: chunks.append(cur)
        cur=[ln]
    else: cur.append(ln)
if cur: chunks.append(cur)
d={};order=[]
for c in chunks:
    t=[l for l in c if l.startswith('theorem ')]
    if not t: continue
    name=t[0].split()[1]
    txt='\n'.join(c)
    txt=re.sub(r'\n/-! .*?-/\s*$','\n',txt,flags=re.S)
    d[name]=txt.rstrip()+'\n'; order.append(name)
# operations that never write creator/detached/the set of rows
nonskel="""modify_eq_modifyWhere cacheAt flagReadySinks flagDepEndpoints writeFile_preserves setFileState_preserves writeStepState_preserves setStepState_preserves markStepPending_preserves markStepPending'_preserves markConsumersPending_preserves markFileOutdated_preserves pendCreator_preserves handleUpdated_preserves handleDeleted_preserves updateFileHashes_preserves deleteDeps flagChecksWithProducts_preserves flagCheckAfterSources_preserves detachFlags_preserves dropDynamicInputs outdateBuilt_preserves outdateBuiltProducts_preserves rebuildOutdatedProducts_preserves completeSuccess_preserves markDir revertOutput_preserves revertStep_preserves revertOptional_preserves resetInterrupted_preserves rescanEnvVars_preserves checkConsistency_preserves hold_preserves release_preserves updateMetaSafe_preserves applyAfterUpdates afterLoop_preserves updateMetaAfter_preserves updateMetaReady updateMeta_preserves popNext_preserves reconcileTarget_preserves reconcileTargets_preserves afterLostProduct_preserves lostProduct_preserves flagIfStep_preserves writeInitialFile_preserves initFileRow_preserves initRow_preserves volatileSinkCheck_preserves insertDep_preserves insertNewEdges_preserves addSourceChecked_preserves setStepExtras afterRecycle_preserves setDynamic markDynamic amendEnv registerNglob_preserves registerNglobs_preserves beforeDelete_preserves lostBody_preserves""".split()
leaves="cache fileWrite fileInit stepWrite stepInit setHash deleteHash bumpDefer hold release recycled addDep filterDeps markDyn queueDelete clearQueue".split()
# composite operations whose proof carries over unchanged
mech="""detachCreatedSteps_preserves detachProductsWhere_preserves dropDynamicSink_preserves resetForRerun_preserves detachProducts_preserves treeInner_preserves treeOuter_preserves completeFailure_preserves markCompleted_preserves declareFile_preserves declareAll_preserves declareStaticFiles_preserves adoptByTree_preserves placeholder_preserves resolveWith_preserves resolveNode_preserves resolveSupply_preserves resolveAll_preserves supplyFiles_preserves declareProduct_preserves declareProducts_preserves recycleStep_preserves createStep_preserves defineStep_preserves amendProducts_preserves amendStep_preserves registerTrees_preserves declareStaticRequest_preserves baseBody_preserves deleteDetachedBase_preserves deleteDetached_preserves""".split()
# handled by hand in ReachLift.lean (leaf level) or in `hand` below
byhand="""setDetachedRow setDetachedRec setCreator_preserves detachCore_preserves detach_preserves reattachCore_preserves reattach_preserves recycleCore_preserves create_preserves handOver passBody_preserves deletePass_preserves unitOut_ok""".split()

# ---- ReachFrame.lean
out=[]
for n in order:
    if n in nonskel:
        t=d[n].replace('StableG G P','FrameL P')
        if n=='hold_preserves':
            t=t.replace(' (hg : G s k)','').replace('L.hold _ _ hg hp','L.hold _ _ hp')
        out.append(t)
cur=open(LEM+'ReachFrame.lean').read()
m='variable {P : KState → Prop}\n\n'
h=cur.index(m)+len(m); t=cur.index('\nend FrameL')
open(LEM+'ReachFrame.lean','w').write(cur[:h]+'\n'.join(out)+cur[t:])

# ---- ReachLift.lean
def tr(t):
    t=t.replace('(L : StableG G P)','(L : SkStable Q)').replace('(_L : StableG G P)','(_L : SkStable Q)')
    t=re.sub(r'(?<![\w.])P(?![\w])','(PQ Q)',t)
    for n in sorted(nonskel+leaves,key=len,reverse=True):
        t=re.sub(r'\bL\.'+re.escape(n)+r"(?![\w'])",'L.toFrame.'+n,t)
    return t
hand={}
hand['registerTreeBody_preserves']='''theorem registerTreeBody_preserves (L : SkStable Q) (cfg : KConfig) (creator : Key) (path : String) (g : Option (List Key)) (s : KState)
    (r : KState × List String) (hp : PQ Q s) (hg : s.treeGuard creator path = .ok g)
    (h : s.registerTreeBody cfg creator path g = .ok r) : PQ Q r.1 := by
  cases g with
  | none =>
    simp only [KState.registerTreeBody, pure, Except.pure, Except.ok.injEq] at h
    subst h; exact hp
  | some hs =>
    simp only [KState.registerTreeBody] at h
    refine bind_ok_gen h (fun s1 => PQ Q (s1.handOver (treeKey path) hs))
      (fun s1 h1 => L.treeCreateHandOver_pq hp hg h1) (fun r => PQ Q r.1) ?_
    intro s1 r1 hp1 hh
    exact L.declareStaticFiles_preserves cfg _ _ _ r1 hp1 hh
'''
hand['registerStaticTree_preserves']='''theorem registerStaticTree_preserves (L : SkStable Q) (cfg : KConfig) (creator : Key) (path : String) (s : KState)
    (r : KState × List String) (hp : PQ Q s) (h : s.registerStaticTree cfg creator path = .ok r) : PQ Q r.1 := by
  unfold KState.registerStaticTree at h
  refine bind_ok_gen h (fun _ => True) (fun _ _ => trivial) (fun r => PQ Q r.1) ?_
  intro _ r1 _ hh
  refine bind_ok_gen hh (fun g => s.treeGuard creator (addSlash path) = .ok g) (fun g hg => hg) (fun r => PQ Q r.1) ?_
  intro g r2 hg hh2
  exact L.registerTreeBody_preserves cfg creator _ g s r2 hp hg hh2
'''
out=[]
for n in order:
    if n in hand: out.append(hand[n])
    elif n in mech: out.append(tr(d[n]))
unknown=[n for n in order if n not in nonskel and n not in mech and n not in hand and n not in byhand]
if unknown: print('NEW THEOREMS IN Stable.lean, NOT COVERED:',unknown)
missing=[n for n in nonskel+mech+list(hand) if n not in d]
if missing: print('MISSING FROM Stable.lean:',missing)
cur=open(LEM+'ReachLift.lean').read()
mark='/-! ## Composite operations (the proofs of `Lemmas/Stable.lean` with the new leaves) -/\n'
i=cur.index(mark)+len(mark); j=cur.index('\nend SkStable\n')
open(LEM+'ReachLift.lean','w').write(cur[:i]+'\n'+'\n'.join(out)+cur[j:])
print('ReachFrame.lean and ReachLift.lean re-synced with Stable.lean')
