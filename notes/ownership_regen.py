#!/usr/bin/env python3
"""Regenerates lean/StepupModel/Lemmas/OwnershipChain.lean: the composite operations of the kernel model for
the leaves `OwnL` of Lemmas/OwnershipLeaf.lean.  The theorems that need no side condition are copied word for
word from the section "Composite operations" of Lemmas/ReachLift.lean (extracted by name, structure name and
predicate replaced); the declaring operations, whose call sites have to provide the guards of the leaves, are
the hand-written text below (the proofs of ReachLift.lean with the guard passed along).  Run from anywhere;
then `cd /verif/lean && lake build StepupModel.Lemmas.Ownership`."""
import re
src = open('/verif/lean/StepupModel/Lemmas/ReachLift.lean').read().split('\n')
starts = [i for i, l in enumerate(src) if re.match(r'(theorem |/-|end |namespace |abbrev |def |structure )', l)]


def block(name):
    for idx, i in enumerate(starts):
        if re.match(r'theorem ' + re.escape(name) + r'[ \n(]', src[i] + ' '):
            j = starts[idx + 1] if idx + 1 < len(starts) else len(src)
            b = src[i:j]
            while b and b[-1].strip() == '':
                b.pop()
            return '\n'.join(b)
    raise Exception('no block ' + name)


def conv(b):
    return b.replace('(L : SkStable Q)', '(L : OwnL P)').replace('(PQ Q)', 'P').replace('PQ Q', 'P')


def gen(names, patches=()):
    out = []
    for n in names:
        b = conv(block(n))
        for nm, a, c in patches:
            if nm == n:
                if a not in b:
                    raise Exception('patch miss %s %s' % (n, a))
                b = b.replace(a, c)
        out.append(b)
    return '\n\n'.join(out)


part1 = gen("""detachCreatedSteps_preserves detachProductsWhere_preserves dropDynamicSink_preserves
resetForRerun_preserves completeFailure_preserves markCompleted_preserves detachProducts_preserves""".split())

part3 = gen("""placeholder_preserves""".split(), [
    ('placeholder_preserves', "L.create_preserves _ _ (.file .undeclared) (Or.inl rfl) s s1 hp h1",
     "L.createFree _ _ (.file .undeclared) (Or.inl rfl) (.inr rfl) s s1 hp h1")])

part5 = gen("""resolveSupply_preserves resolveAll_preserves supplyFiles_preserves""".split())

part7 = gen("""registerStaticTree_preserves registerTrees_preserves baseBody_preserves deleteDetachedBase_preserves
treeInner_preserves treeOuter_preserves deleteDetached_preserves""".split())

hand = open('/verif/notes/ownership_chain_hand.lean.in').read()
pieces = hand.split('--%%')
# pieces: header, declare (after part1), adopt (after part3), products.. (after part5), rest (after part7)
out = pieces[0] + part1 + '\n' + pieces[1] + part3 + '\n' + pieces[2] + part5 + '\n' + pieces[3] + part7 + '\n' + pieces[4]
open('/verif/lean/StepupModel/Lemmas/OwnershipChain.lean', 'w').write(out)
